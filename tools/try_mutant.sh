#!/bin/bash
# tools/try_mutant.sh <patch.diff> <Cxx> [Cyy ...]
# Applies a seeded change to /repo, runs the quick checks of the given properties, undoes the change.
set -u
patch="$1"; shift
cd /verif
git -C /repo diff --quiet || { echo "/repo is not clean"; exit 2; }
git -C /repo apply "$patch" 2>/dev/null || git -C /repo apply --3way "$patch" || { echo "patch does not apply"; exit 2; }
grep -rl "^<<<<<<< " /repo/src >/dev/null 2>&1 && { echo "patch conflicts with the current HEAD"; git -C /repo reset -q --hard HEAD; exit 2; }
trap 'git -C /repo reset -q --hard HEAD; git -C /repo clean -fdq src; python3 /verif/tools/mkcopy.py >/dev/null' EXIT
for p in "$@"; do
  out=$(./check.sh "$p" quick 2>&1); rc=$?
  echo "[$p rc=$rc] $(echo "$out" | head -3 | cut -c1-260 | tr '\n' ' ')"
done
