#!/bin/bash
# tools/try_mutant.sh <patch.diff> <Cxx> [Cyy ...]
# Applies a seeded change to /repo, runs the quick checks of the given properties, undoes the change.
set -u
patch="$1"; shift
cd /verif
git -C /repo diff --quiet || { echo "/repo is not clean"; exit 2; }
git -C /repo apply "$patch" || { echo "patch does not apply"; exit 2; }
trap 'git -C /repo checkout -- . ; git -C /repo clean -fdq src; python3 /verif/tools/mkcopy.py >/dev/null' EXIT
for p in "$@"; do
  out=$(./check.sh "$p" quick 2>&1); rc=$?
  echo "[$p rc=$rc] $(echo "$out" | head -3 | cut -c1-260 | tr '\n' ' ')"
done
