#!/usr/bin/env python3
"""check.py <Cxx> <quick|thorough> [--replay FILE]

Decides one property:
  1. regenerate Extracted.lean from /repo's current source (tools/extract.py)
  2. `lake build` the property's theorem module + the driver; axiom audit of every theorem
  3. rebuild the harness against /repo's current working tree, generate cases, run them on the
     implementation, pipe the observations through the Lean driver (model + oracles)
  4. verdict, evidence/<Cxx>.json, replay files                      (DESIGN.md section 7)

Exit 0: property held on everything explored.  Exit 1 + `VIOLATION property=<id> replay=<path>`.
Exit 2: the check itself could not run (CHECK-ERROR on stderr).
"""
import fcntl, json, os, re, subprocess, sys, time

ROOT = os.path.dirname(os.path.dirname(os.path.abspath(__file__)))
LEAN = os.path.join(ROOT, "lean")
BUILD = os.path.join(ROOT, "build")
HARNESS = os.path.join(ROOT, "harness")
BIN = os.path.join(BUILD, "target", "release")
DRIVER = os.path.join(LEAN, ".lake", "build", "bin", "driver")
WHITELIST = {"propext", "Classical.choice", "Quot.sound"}
TIER = "quick"
FORBIDDEN = re.compile(r"\b(sorry|admit|native_decide|bv_decide|implemented_by|unsafe)\b|^\s*axiom\s|maxHeartbeats\s+0\b", re.M)

sys.path.insert(0, os.path.dirname(os.path.abspath(__file__)))
import props  # noqa: E402  per-property configuration


def sh(cmd, cwd=None, env=None, timeout=None, stdin=None):
    e = dict(os.environ)
    e["CARGO_NET_OFFLINE"] = "true"
    if env:
        e.update(env)
    p = subprocess.run(cmd, cwd=cwd, env=e, stdout=subprocess.PIPE, stderr=subprocess.PIPE, timeout=timeout, input=stdin)
    return p.returncode, p.stdout.decode("utf-8", "replace"), p.stderr.decode("utf-8", "replace")


def die(msg):
    sys.stderr.write("CHECK-ERROR %s\n" % msg)
    sys.exit(2)


class Lock:
    def __init__(self, name):
        os.makedirs(BUILD, exist_ok=True)
        self.f = open(os.path.join(BUILD, name), "w")

    def __enter__(self):
        fcntl.flock(self.f, fcntl.LOCK_EX)

    def __exit__(self, *a):
        fcntl.flock(self.f, fcntl.LOCK_UN)


def strip_lean_comments(text):
    # remove /- ... -/ (nested) and -- comments
    out, i, depth = [], 0, 0
    while i < len(text):
        if text.startswith("/-", i):
            depth += 1
            i += 2
        elif depth and text.startswith("-/", i):
            depth -= 1
            i += 2
        elif depth:
            i += 1
        elif text.startswith("--", i):
            j = text.find("\n", i)
            i = len(text) if j < 0 else j
        else:
            out.append(text[i])
            i += 1
    return "".join(out)


def module_path(mod):
    return os.path.join(LEAN, *mod.split(".")) + ".lean"


def import_closure(mod, seen=None):
    seen = seen if seen is not None else []
    if mod in seen or not mod.startswith("TinyHttpModel"):
        return seen
    p = module_path(mod)
    if not os.path.exists(p):
        return seen
    seen.append(mod)
    for m in re.findall(r"^import\s+([\w\.]+)", open(p).read(), re.M):
        import_closure(m, seen)
    return seen


def proof_step(pid, ev):
    """Builds Props/<pid>, audits axioms.  Returns (ok, detail)."""
    mod = "TinyHttpModel.Props." + pid
    rc, out, err = sh(["lake", "build", mod, "driver"], cwd=LEAN, timeout=3000)
    ev["checker_cmd"] = "cd lean && lake build %s driver && lake env lean ../build/audit/%s.lean (#print axioms)" % (mod, pid)
    driver_ok = os.path.exists(DRIVER)
    if rc != 0:
        # which module failed?
        failed = re.findall(r"^- (\S+)", out + err, re.M) or re.findall(r"error: (\S+\.lean:\d+:\d+:[^\n]*)", out + err)
        msg = (out + err)[-3000:]
        # the driver may still be buildable on its own
        rc2, o2, e2 = sh(["lake", "build", "driver"], cwd=LEAN, timeout=3000)
        return False, {"stage": "lake build", "failed": failed, "log": msg, "driver_ok": rc2 == 0}
    # forbidden tokens in the import closure (comments removed)
    bad = []
    for m in import_closure(mod):
        txt = strip_lean_comments(open(module_path(m)).read())
        for hit in FORBIDDEN.finditer(txt):
            bad.append("%s: %s" % (m, hit.group(0).strip()))
    if bad:
        return False, {"stage": "source audit", "failed": bad, "log": "forbidden tokens: %s" % bad, "driver_ok": driver_ok}
    # theorem inventory + #print axioms
    src = strip_lean_comments(open(module_path(mod)).read())
    thms = re.findall(r"^\s*theorem\s+([\w'\.]+)", src, re.M)
    ns = re.search(r"^namespace\s+([\w\.]+)", src, re.M)
    ns = ns.group(1) + "." if ns else ""
    expected = props.EXPECTED_THEOREMS.get(pid, [])
    missing = [t for t in expected if t not in thms]
    if missing:
        return False, {"stage": "inventory", "failed": missing, "log": "theorems missing from Props/%s.lean: %s" % (pid, missing), "driver_ok": driver_ok}
    os.makedirs(os.path.join(BUILD, "audit"), exist_ok=True)
    apath = os.path.join(BUILD, "audit", pid + ".lean")
    with open(apath, "w") as f:
        f.write("import %s\n" % mod)
        for t in thms:
            f.write("#print axioms %s%s\n" % (ns, t))
    rc, out, err = sh(["lake", "env", "lean", apath], cwd=LEAN, timeout=1200)
    if rc != 0:
        return False, {"stage": "axiom audit", "failed": thms, "log": (out + err)[-2000:], "driver_ok": driver_ok}
    axioms = {}
    for m in re.finditer(r"'([^']+)' (does not depend on any axioms|depends on axioms: \[([^\]]*)\])", out.replace("\n", " ")):
        axioms[m.group(1)] = [a.strip() for a in (m.group(3) or "").split(",") if a.strip()]
    offenders = {t: a for t, a in axioms.items() if set(a) - WHITELIST}
    if offenders or len(axioms) < len(thms):
        return False, {"stage": "axiom audit", "failed": list(offenders) or thms, "log": "axioms: %s" % (offenders or out[-1500:]), "driver_ok": driver_ok}
    ev["obligations"] = len(thms)
    ev["discharged"] = len(thms)
    ev["theorems"] = {t: a for t, a in axioms.items()}
    if TIER == "thorough":
        # independent re-check of the compiled property module by the toolchain's leanchecker
        rc, out, err = sh(["lake", "env", "leanchecker", mod], cwd=LEAN, timeout=1800)
        ev["leanchecker"] = "ok" if rc == 0 else "FAILED"
        if rc != 0:
            return False, {"stage": "leanchecker", "failed": [mod], "log": (out + err)[-2000:], "driver_ok": True}
    return True, {"driver_ok": True}


def failing_declarations(log):
    """names the Lean declarations the error messages of a failed build point into"""
    out = []
    for m in re.finditer(r"error: (\S+?\.lean):(\d+):\d+", log or ""):
        path, line = m.group(1), int(m.group(2))
        full = path if os.path.isabs(path) else os.path.join(LEAN, path)
        name = "?"
        try:
            lines = open(full).read().split("\n")
            for i in range(min(line, len(lines)) - 1, -1, -1):
                mm = re.match(r"\s*(?:@\[[^\]]*\]\s*)?(?:private\s+|protected\s+)?(theorem|lemma|def|example|instance|abbrev|structure|inductive)\s*([\w'\.]*)", lines[i])
                if mm:
                    name = "%s %s" % (mm.group(1), mm.group(2) or "(anonymous)")
                    break
        except OSError:
            pass
        d = "%s (%s:%d)" % (name, path, line)
        if d not in out:
            out.append(d)
    return out[:10]


def build_harness():
    rc, out, err = sh(["cargo", "build", "--release", "--offline"], cwd=HARNESS, timeout=3000)
    if rc != 0:
        return False, (out + err)[-4000:]
    return True, ""


def parse_res(line):
    d = {}
    for tok in line.split(" "):
        if "=" in tok:
            k, v = tok.split("=", 1)
            d[k] = v
    return d


def run_batch(pid, batch, seed, tier):
    """Runs one generator batch: harness -> cases file -> driver -> list of (case_line, res_dict)."""
    env = {"VERIF_SEED": str(seed), "VERIF_TIER": tier, "VERIF_TMP": os.path.join(BUILD, "tmp")}
    os.makedirs(env["VERIF_TMP"], exist_ok=True)
    cmd = [os.path.join(BIN, batch["bin"])] + [str(a) for a in batch["args"]]
    t0 = time.time()
    try:
        p = subprocess.run(cmd, env=dict(os.environ, **env), stdout=subprocess.PIPE, stderr=subprocess.PIPE,
                           timeout=batch.get("timeout", 3000 if tier == "thorough" else 900))
    except subprocess.TimeoutExpired as e:
        # the batch never ended (a quick batch takes seconds): the code under test hung the harness
        class P:
            pass
        p = P()
        p.returncode = -9
        p.stdout = e.stdout or b""
        p.stderr = (e.stderr or b"") + b"\n(the batch did not end within its time limit and was killed)"
    if p.returncode < 0 or p.returncode in (101, 134):
        # the code under test took the whole harness process down (abort: a panic while unwinding,
        # a panic in a destructor, an allocation failure) or made the harness's own thread panic:
        # every controlled and pristine predicate includes "the process survives".  The cases that
        # were completed before are judged as usual; the crash itself is reported by the caller.
        done = [l for l in p.stdout.decode("utf-8", "replace").split("\n") if l and not l.startswith("#")]
        CRASHES.append({"batch": {"bin": batch["bin"], "args": [str(a) for a in batch["args"]]}, "rc": p.returncode,
                        "completed_cases": len(done), "stderr_tail": p.stderr.decode("utf-8", "replace")[-3000:]})
        cases = ("\n".join(done[:-1] if done and not p.stdout.endswith(b"\n") else done) + "\n").encode()
    elif p.returncode != 0:
        die("harness %s exited %d: %s" % (cmd, p.returncode, p.stderr.decode("utf-8", "replace")[-2000:]))
    else:
        cases = p.stdout
    d = subprocess.run(["bash", "-c", "ulimit -s unlimited 2>/dev/null; exec " + DRIVER], input=cases, stdout=subprocess.PIPE, stderr=subprocess.PIPE, timeout=3000)
    if d.returncode != 0:
        die("driver exited %d: %s" % (d.returncode, d.stderr.decode("utf-8", "replace")[-2000:]))
    case_lines = [l for l in cases.decode("utf-8", "replace").split("\n") if l and not l.startswith("#")]
    res_lines = [l for l in d.stdout.decode("utf-8", "replace").split("\n") if l.startswith("res ")]
    if len(case_lines) != len(res_lines):
        die("driver answered %d of %d cases" % (len(res_lines), len(case_lines)))
    return list(zip(case_lines, [parse_res(r) for r in res_lines])), time.time() - t0


def short(line, n=400):
    return line if len(line) <= n else line[:n] + "...(%d chars)" % len(line)


def load_known():
    p = os.path.join(ROOT, "known_findings.json")
    try:
        return json.load(open(p))
    except OSError:
        return []


CURRENT_CFG = {}
CRASHES = []


def matches_finding(f, res, case_line):
    sig = f.get("signature", {})
    tags = set((res.get("tags") or "").split(","))
    for k, v in sig.items():
        if k == "tags":
            if not set(v) <= tags:
                return False
        elif k == "case_contains":
            if v not in case_line:
                return False
        elif k == "only_failed":
            # of the sub-verdicts the property needs, only these may be false
            sub = {}
            for kv in (res.get("sub") or "").split(","):
                if ":" in kv:
                    a, b = kv.split(":", 1)
                    sub[a] = b
            if any(sub.get(n) != "1" and n not in v for n in CURRENT_CFG.get("need", [])):
                return False
        elif k == "agreement":
            # the model must still agree with the implementation on the property's projection
            if res.get("_agree", "1") != v:
                return False
        else:
            if res.get(k) != v:
                return False
    return True


def write_evidence_min(pid, tier, cov, what, t0):
    """evidence of a run that ended before any case could be generated"""
    cov = dict(cov)
    cov.update({"evaluations": 0, "distinct_nontrivial": 0, "rule": props.PROPS[pid].get("rule", ""), "samples": ["(none: %s)" % what],
                "proof_ok": False, "exhaustive": False, "obligations": max(cov.get("obligations", 0), 1), "discharged_none": True})
    cov.pop("discharged", None)
    evidence = {"property_id": pid, "tier": tier, "seed": int(os.environ.get("VERIF_SEED", "20260927")), "level": "proof", "coverage": cov,
                "assumptions": props.PROPS[pid].get("assumptions", []) + props.COMMON_ASSUMPTIONS, "wall_s": round(time.time() - t0, 2), "violations": 1}
    tmp = os.path.join(ROOT, "evidence", pid + ".json.tmp")
    with open(tmp, "w") as f:
        json.dump(evidence, f, indent=1)
    os.replace(tmp, os.path.join(ROOT, "evidence", pid + ".json"))


def main():
    if len(sys.argv) < 2:
        die("usage: check.py <Cxx> <quick|thorough> [--replay FILE]")
    pid = sys.argv[1]
    tier = os.environ.get("VERIF_TIER") or "quick"
    replay = None
    args = sys.argv[2:]
    while args:
        a = args.pop(0)
        if a in ("quick", "thorough"):
            tier = a
        elif a == "--replay":
            replay = args.pop(0)
    global TIER
    TIER = tier
    seed = int(os.environ.get("VERIF_SEED", "20260927"))
    if pid not in props.PROPS:
        die("unknown property %s" % pid)
    cfg = props.PROPS[pid]
    t0 = time.time()
    cov = {"trusted_base": props.TRUSTED_BASE, "obligations": 0, "discharged": 0, "checker_cmd": ""}
    os.makedirs(os.path.join(BUILD, "replay"), exist_ok=True)
    os.makedirs(os.path.join(ROOT, "evidence"), exist_ok=True)
    violations = []      # (replay_path, suffix)
    known_hit = {}

    with Lock(".lock"):
        rc, out, err = sh([sys.executable, os.path.join(ROOT, "tools", "extract.py")])
        if rc != 0:
            die("extract.py failed: %s" % err[-1000:])
        rc, out, err = sh([sys.executable, os.path.join(ROOT, "tools", "mkcopy.py")])
        if rc != 0:
            die("mkcopy.py failed: %s" % err[-1000:])
        try:
            cov["extraction_fallback"] = json.load(open(os.path.join(BUILD, "extract.json")))["fallback"]
        except Exception:
            cov["extraction_fallback"] = []
        for hook in cfg.get("pre_build", []):
            rc, out, err = sh(hook, cwd=ROOT)
            if rc != 0:
                die("pre-build step %s failed: %s" % (hook, (out + err)[-2000:]))
        proof_ok, pdetail = proof_step(pid, cov)
        ok, log = build_harness()
        if not ok:
            # the correspondence can no longer be established at all: /repo (or its generated copy,
            # when it uses a std API the controllable runtime does not provide) does not build with
            # the harness.  The property is no longer shown to hold: reported as such, no failing input.
            path = os.path.join(BUILD, "replay", "%s-build.txt" % pid)
            with open(path, "w") as f:
                f.write("# property %s — the correspondence harness no longer builds against /repo's working tree\n"
                        "# correspondence that no longer checks: every generator batch of %s (cargo build of /verif/harness, which compiles /repo\n"
                        "# and the copy of /repo/src that tools/mkcopy.py regenerates over verif_rt)\n# seed=%d tier=%s\n%s\n" % (pid, pid, seed, tier, log))
            write_evidence_min(pid, tier, cov, "harness build failed", t0)
            print("VIOLATION property=%s replay=%s no-failing-input-found" % (pid, os.path.relpath(path, ROOT)))
            sys.exit(1)

    replay_id = None
    if replay:
        # a replay file names the generator batch that produced the case and the case id: the batch
        # is re-run against the current /repo (same seed) and that case is judged again
        txt = open(replay).read()
        m = re.search(r"^# rerun: (\{.*\}) case_id=(\S*)", txt, re.M)
        ms = re.search(r"^# seed=(\d+)", txt, re.M)
        if not m:
            die("replay file %s names no generator batch (a proof/correspondence report is not replayable: re-run the check)" % replay)
        b = json.loads(m.group(1))
        replay_id = m.group(2)
        if ms:
            seed = int(ms.group(1))
        batches = [{"bin": b["bin"], "args": b["args"], "name": "replay " + " ".join(b["args"])}]
    else:
        batches = cfg["batches"](tier)
    CURRENT_CFG.update(cfg)
    col = cfg.get("oracle_col", pid)
    acol = cfg.get("agree_col", "a" + pid)

    def subdict(v):
        d = {}
        for kv in (v or "").split(","):
            if ":" in kv:
                k, x = kv.split(":", 1)
                d[k] = x
        return d

    def oracle_of(r):
        """'1' / '0' / 'na' — the property predicate on the implementation's observation"""
        if "need" in cfg and "sub" in r:
            if cfg.get("need_intent", True) and r.get("intent") != "1":
                return "na"
            sub = subdict(r.get("sub"))
            return "1" if all(sub.get(k) == "1" for k in cfg["need"]) else "0"
        return r.get(col, "na")

    def agree_of(r):
        if "agr_need" in cfg and "agr" in r:
            a = subdict(r.get("agr"))
            return "1" if all(a.get(k) == "1" for k in cfg["agr_need"]) else "0"
        return r.get(acol, r.get("agree", "0"))
    total = agree = disagree = holds_true = holds_false = na = skipped = raw_disagree = 0
    tags_hist = {}
    samples = []
    distinct = set()
    failing = []       # (case, res) with holds=0
    disagreeing = []   # (case, res) with projected agree=0
    batch_info = []
    known_all = [f for f in load_known() if f.get("property") == pid and f.get("status") == "finding"]
    if pdetail.get("driver_ok", True) and os.path.exists(DRIVER):
        for b in batches:
            rows, secs = run_batch(pid, b, seed, tier)
            batch_info.append({"name": b.get("name", " ".join(map(str, b["args"]))), "cases": len(rows), "wall_s": round(secs, 2)})
            if replay_id is not None:
                rows = [(c, r) for c, r in rows if r.get("id") == replay_id]
            for case_line, r in rows:
                r["_batch"] = json.dumps({"bin": b["bin"], "args": [str(a) for a in b["args"]]})
                total += 1
                if r.get("skip") == "1":
                    skipped += 1
                a = agree_of(r)
                r["_agree"] = a
                r["_oracle"] = oracle_of(r)
                if r.get("agree") == "0":
                    raw_disagree += 1
                if a == "1":
                    agree += 1
                elif a == "0":
                    disagree += 1
                    if not any(matches_finding(f, r, case_line) for f in known_all):
                        disagreeing.append((case_line, r))
                h = r["_oracle"]
                if h == "1":
                    holds_true += 1
                    distinct.add(r.get("tags", "") + "|" + str(len(case_line) // 64))
                elif h == "0":
                    holds_false += 1
                    failing.append((case_line, r))
                else:
                    na += 1
                for t in (r.get("tags") or "").split(","):
                    if t:
                        tags_hist[t] = tags_hist.get(t, 0) + 1
                if len(samples) < 3 and h == "1":
                    samples.append(short(case_line, 300))
    else:
        batch_info.append({"name": "driver unavailable (model does not build)", "cases": 0})

    known = [f for f in load_known() if f.get("property") == pid and f.get("status") == "finding"]

    def write_replay(name, case_line, r, why):
        path = os.path.join(BUILD, "replay", name)
        with open(path, "w") as f:
            f.write("# property %s — %s\n# driver verdict: %s\n" % (pid, why, " ".join("%s=%s" % kv for kv in r.items() if kv[0] not in ("tags", "_oracle", "_batch"))))
            f.write("# tags: %s\n# seed=%d tier=%s\n" % (r.get("tags", ""), seed, tier))
            f.write("# rerun: %s case_id=%s\n" % (r.get("_batch", "{}"), r.get("id", "")))
            f.write(case_line + "\n")
        return os.path.relpath(path, ROOT)

    # 1. implementation falsifies the property predicate on a concrete case
    n_new = 0
    for case_line, r in failing:
        kf = next((f for f in known if matches_finding(f, r, case_line)), None)
        if kf:
            known_hit.setdefault(kf["what"], 0)
            known_hit[kf["what"]] += 1
            continue
        if n_new < 5:
            violations.append((write_replay("%s-%d.case" % (pid, n_new), case_line, r, "property predicate false on the implementation's output"), ""))
        n_new += 1

    # 1b. the code under test took the harness process down in the middle of a batch
    for k, c in enumerate(CRASHES[:3]):
        path = os.path.join(BUILD, "replay", "%s-crash-%d.txt" % (pid, k))
        with open(path, "w") as f:
            f.write("# property %s — the harness process was taken down (exit status %d) while running this batch against /repo's working tree;\n"
                    "# %d cases of the batch had been completed, the next one is the failing input\n" % (pid, c["rc"], c["completed_cases"]))
            f.write("# seed=%d tier=%s\n# rerun: %s case_id=\n" % (seed, tier, json.dumps(c["batch"])))
            f.write("# stderr (tail):\n" + "\n".join("#   " + l for l in c["stderr_tail"].split("\n")[-40:]) + "\n")
        violations.append((os.path.relpath(path, ROOT), ""))

    # 2./3. a proof obligation no longer checks, or model and implementation disagree on the
    #       property's projection: search for a concrete failing input with the thorough generators
    #       (predicate evaluated on the implementation), report it if found, else report what broke
    if (not proof_ok or disagreeing) and not violations:
        found = None
        if tier != "thorough" and not replay and pdetail.get("driver_ok", True) and os.path.exists(DRIVER):
            for b in cfg["batches"]("thorough"):
                rows, _ = run_batch(pid, b, seed + 1, "thorough")
                for case_line, r in rows:
                    if oracle_of(r) == "0" and not any(matches_finding(f, r, case_line) for f in known):
                        found = (case_line, r)
                        break
                if found:
                    break
        why = "a proof obligation no longer checks" if not proof_ok else "a correspondence disagreement"
        if found:
            violations.append((write_replay("%s-0.case" % pid, found[0], found[1], "found by the extended search after " + why), ""))
        elif not proof_ok:
            path = os.path.join(BUILD, "replay", "%s-proof.txt" % pid)
            with open(path, "w") as f:
                f.write("# property %s — a proof obligation no longer checks (%s)\n" % (pid, pdetail.get("stage")))
                for d in failing_declarations(pdetail.get("log", "")):
                    f.write("# declaration that no longer checks: %s\n" % d)
                f.write("# property theorems no longer established: %s\n"
                        % ", ".join("TH.Props.%s.%s" % (pid, t) for t in props.EXPECTED_THEOREMS.get(pid, [])))
                f.write("# failing: %s\n" % pdetail.get("failed"))
                f.write(pdetail.get("log", "") + "\n")
                f.write("# search for a failing input: %d quick cases and the thorough generators run on the implementation, %d falsified the predicate\n" % (total, holds_false))
            violations.append((os.path.relpath(path, ROOT), " no-failing-input-found"))
        else:
            case_line, r = disagreeing[0]
            violations.append((write_replay("%s-corr-0.case" % pid, case_line, r,
                                            "model and implementation disagree on the projection of %s (%d cases); diff=%s" % (pid, len(disagreeing), r.get("diff", "")[:600])),
                               " no-failing-input-found"))

    # coverage buckets that must be non-empty
    empty = [t for t in cfg.get("required_tags", []) if tags_hist.get(t, 0) == 0] if (not replay and total) else []

    cov.update({
        "correspondence": {"cases": total, "agree_on_projection": agree, "disagree_on_projection": disagree,
                           "raw_byte_disagreements": raw_disagree, "predicate_true": holds_true, "predicate_false": holds_false,
                           "predicate_not_applicable": na, "unmodelled_skipped": skipped, "batches": batch_info},
        "evaluations": total, "distinct_nontrivial": len(distinct),
        "rule": cfg.get("rule", ""),
        "samples": samples or ["(no passing case this run)"],
        "branch_histogram": dict(sorted(tags_hist.items())),
        "known_findings_reproduced": known_hit,
        "partial_clauses": cfg.get("partial", []),
        "proof_ok": proof_ok,
        "exhaustive": False,
        "harness_crashes": [{k: v for k, v in c.items() if k != "stderr_tail"} for c in CRASHES],
    })
    if not proof_ok:
        cov["proof_failure"] = {k: (v if k != "log" else v[-1500:]) for k, v in pdetail.items()}
        cov["obligations"] = max(cov.get("obligations", 0), 1)
        # nothing is established while the proof step fails: the key is left out (the evidence schema
        # wants discharged >= 1 where present; the correspondence counts stand on their own)
        cov.pop("discharged", None)
        cov["discharged_none"] = True
    evidence = {
        "property_id": pid, "tier": tier, "seed": seed, "level": "proof", "coverage": cov,
        "assumptions": cfg.get("assumptions", []) + props.COMMON_ASSUMPTIONS,
        "wall_s": round(time.time() - t0, 2), "violations": len(violations),
    }
    tmp = os.path.join(ROOT, "evidence", pid + ".json.tmp")
    with open(tmp, "w") as f:
        json.dump(evidence, f, indent=1)
    os.replace(tmp, os.path.join(ROOT, "evidence", pid + ".json"))

    for what, n in known_hit.items():
        print("KNOWN-FINDING: property=%s %s (%d cases)" % (pid, what, n))
    if violations:
        for path, suffix in violations[:1]:
            print("VIOLATION property=%s replay=%s%s" % (pid, path, suffix))
        for path, suffix in violations[1:]:
            print("  also: replay=%s%s" % (path, suffix))
        sys.exit(1)
    if empty:
        die("coverage buckets empty: %s" % empty)
    print("OK property=%s tier=%s theorems=%d cases=%d agree=%d predicate_true=%d na=%d wall=%.1fs"
          % (pid, tier, cov.get("discharged", 0), total, agree, holds_true, na, time.time() - t0))
    sys.exit(0)


if __name__ == "__main__":
    main()
