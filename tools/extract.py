#!/usr/bin/env python3
"""Regenerates lean/TinyHttpModel/Extracted.lean from /repo's *current* source.

Literal tables and constants that property statements pin to a value are read out of the Rust
source with small patterns, and emitted as Lean definitions.  Theorems in Props/ are stated
about these definitions, so an edit of a constant in the source breaks a proof obligation on
the next run.  When a pattern is not found (the code was restructured) the committed default
is used for that item and the item is listed in build/extract.json `fallback` (no alarm by
itself: the correspondence check still decides).
"""
import json, os, re, sys

REPO = os.environ.get("VERIF_REPO", "/repo")
HERE = os.path.dirname(os.path.abspath(__file__))
ROOT = os.path.dirname(HERE)
OUT = os.path.join(ROOT, "lean", "TinyHttpModel", "Extracted.lean")
INFO = os.path.join(ROOT, "build", "extract.json")


def src(rel):
    try:
        with open(os.path.join(REPO, rel), encoding="utf-8") as f:
            return f.read()
    except OSError:
        return ""


def strip_comments(s):
    return re.sub(r"//[^\n]*", "", s)


def blit(s):
    return 'b!"' + s.replace("\\", "\\\\").replace('"', '\\"') + '"'


fallback = []
items = {}


def item(name, value, default):
    if value is None:
        fallback.append(name)
        value = default
    items[name] = value
    return value


def main():
    common = strip_comments(src("src/common.rs"))
    client = strip_comments(src("src/client.rs"))
    request = strip_comments(src("src/request.rs"))
    response = strip_comments(src("src/response.rs"))
    pool = strip_comments(src("src/util/task_pool.rs"))
    mq = strip_comments(src("src/util/messages_queue.rs"))

    # --- reason phrases -------------------------------------------------------------------
    m = re.search(r"fn default_reason_phrase.*?match self\.0 \{(.*?)\n\s*\}\s*\n\s*\}", common, re.S)
    reasons, rdefault = None, None
    if m:
        body = m.group(1)
        reasons = [(int(a), b) for a, b in re.findall(r"(\d+)\s*=>\s*\"([^\"]*)\"", body)]
        d = re.search(r"_\s*=>\s*\"([^\"]*)\"", body)
        rdefault = d.group(1) if d else None
        if not reasons:
            reasons = None
    DEF_REASONS = [(100, "Continue"), (200, "OK"), (400, "Bad Request"), (500, "Internal Server Error")]
    reasons = item("reasonTable", reasons, DEF_REASONS)
    rdefault = item("reasonDefault", rdefault, "Unknown")

    # --- version table ---------------------------------------------------------------------
    m = re.search(r"fn parse_http_version.*?match version \{(.*?)_\s*=>", client, re.S)
    versions = None
    if m:
        versions = [(t, int(a), int(b)) for t, a, b in
                    re.findall(r"\"([^\"]+)\"\s*=>\s*\((\d+),\s*(\d+)\)", m.group(1))] or None
    versions = item("versionTable", versions,
                    [("HTTP/0.9", 0, 9), ("HTTP/1.0", 1, 0), ("HTTP/1.1", 1, 1), ("HTTP/2.0", 2, 0), ("HTTP/3.0", 3, 0)])

    # --- method table ----------------------------------------------------------------------
    m = re.search(r"impl FromStr for Method.*?match s \{(.*?)\n\s*s\s*=>", common, re.S)
    methods = None
    if m:
        methods = re.findall(r"\"([^\"]+)\"\s*=>\s*Method::(\w+)", m.group(1)) or None
    methods = item("methodTable", methods,
                   [("GET", "Get"), ("HEAD", "Head"), ("POST", "Post"), ("PUT", "Put"), ("DELETE", "Delete"),
                    ("CONNECT", "Connect"), ("OPTIONS", "Options"), ("TRACE", "Trace"), ("PATCH", "Patch")])

    # --- protected response headers ----------------------------------------------------------
    m = re.search(r"pub fn add_header.*?\{(.*?)return;", response, re.S)
    prot = None
    if m:
        prot = re.findall(r"equiv\(\"([^\"]+)\"\)", m.group(1)) or None
    prot = item("protectedHeaders", prot, ["Connection", "Trailer", "Transfer-Encoding", "Upgrade"])

    # --- numbers -------------------------------------------------------------------------------
    def num(name, text, pat, default):
        m = re.search(pat, text, re.S)
        v = int(m.group(1).replace("_", "")) if m else None
        return item(name, v, default)

    num("defaultThreshold", response, r"chunked_threshold\.unwrap_or\(([\d_]+)\)", 32768)
    num("smallBodyLimit", request, r"content_length\s*<=\s*([\d_]+)\s*&&\s*!expects_continue", 1024)
    num("readBufCap", client, r"BufReader::with_capacity\(([\d_]+)", 1024)
    num("writeBufCap", client, r"BufWriter::with_capacity\(([\d_]+)", 1024)
    num("minThreads", pool, r"static MIN_THREADS: usize = ([\d_]+)", 4)
    num("idleMs", pool, r"wait_timeout\(todo,\s*Duration::from_millis\(([\d_]+)\)\)", 5000)
    num("popSlackNs", mq, r"subsec_nanos\(\)\s*<\s*([\d_]+)", 1000000)

    # threshold comparison operator:  *val >= chunked_threshold
    m = re.search(r"\*val\s*(>=|>)\s*chunked_threshold", response)
    item("thresholdOp", m.group(1) if m else None, ">=")

    # no-body status pattern: `100..=199 | 204 | 304 => true`
    m = re.search(r"match self\.status_code\.0 \{\s*((?:[\d\.=\s|]+))=>\s*true", response, re.S)
    nobody = None
    if m:
        alts = []
        for alt in m.group(1).split("|"):
            alt = alt.strip()
            r = re.fullmatch(r"(\d+)\.\.=(\d+)", alt)
            if r:
                alts.append((int(r.group(1)), int(r.group(2))))
            elif re.fullmatch(r"\d+", alt):
                alts.append((int(alt), int(alt)))
            else:
                alts = None
                break
        nobody = alts or None
    nobody = item("noBodyRanges", nobody, [(100, 199), (204, 204), (304, 304)])

    # TE exclusion: `status_code.0 < 200 || status_code.0 == 204`, `*http_version <= (1, 0)`
    m = re.search(r"status_code\.0\s*<\s*(\d+)\s*\|\|\s*status_code\.0\s*==\s*(\d+)", response)
    item("teExcl", [int(m.group(1)), int(m.group(2))] if m else None, [200, 204])
    m = re.search(r"\*http_version\s*<=\s*\((\d+),\s*(\d+)\)", response)
    item("teMaxIdentityVersion", [int(m.group(1)), int(m.group(2))] if m else None, [1, 0])

    m = re.search(r"b\"Server\"\[\.\.\],\s*&b\"([^\"]*)\"", response)
    item("serverName", m.group(1) if m else None, "tiny-http (Rust)")

    m = re.search(r"rq\.http_version\(\)\s*>\s*\((\d+),\s*(\d+)\)", client)
    item("maxVersion", [int(m.group(1)), int(m.group(2))] if m else None, [1, 1])

    # --- emit ------------------------------------------------------------------------------------
    L = []
    A = L.append
    A("/- GENERATED by tools/extract.py from /repo's current source — do not edit. -/")
    A("import TinyHttpModel.Lit")
    A("namespace TH.Extracted")
    A("")
    A("def reasonTable : List (Nat × List Nat) := [")
    A(",\n".join("  (%d, %s)" % (c, blit(t)) for c, t in items["reasonTable"]))
    A("]")
    A("def reasonDefault : List Nat := %s" % blit(items["reasonDefault"]))
    A("def versionTable : List (List Nat × (Nat × Nat)) := [")
    A(",\n".join("  (%s, (%d, %d))" % (blit(t), a, b) for t, a, b in items["versionTable"]))
    A("]")
    A("/-- method literal, constructor name -/")
    A("def methodTable : List (List Nat × List Nat) := [")
    A(",\n".join("  (%s, %s)" % (blit(t), blit(c)) for t, c in items["methodTable"]))
    A("]")
    A("def protectedHeaders : List (List Nat) := [%s]" % ", ".join(blit(p) for p in items["protectedHeaders"]))
    for k in ["defaultThreshold", "smallBodyLimit", "readBufCap", "writeBufCap", "minThreads", "idleMs", "popSlackNs"]:
        A("def %s : Nat := %d" % (k, items[k]))
    A("/-- `*val >= chunked_threshold` (or `>` if the source says so) -/")
    if items["thresholdOp"] == ">=":
        A("def thresholdReached (len thr : Nat) : Bool := decide (thr ≤ len)")
    else:
        A("def thresholdReached (len thr : Nat) : Bool := decide (thr < len)")
    A("/-- statuses for which `raw_print` suppresses the body -/")
    A("def noBodyStatus (s : Nat) : Bool := " +
      " || ".join("(decide (%d ≤ s) && decide (s ≤ %d))" % (a, b) for a, b in items["noBodyRanges"]))
    a, b = items["teExcl"]
    A("/-- statuses for which a transfer coding is never chosen -/")
    A("def teExcludedStatus (s : Nat) : Bool := decide (s < %d) || s == %d" % (a, b))
    a, b = items["teMaxIdentityVersion"]
    A("def identityOnlyVersion : Nat × Nat := (%d, %d)" % (a, b))
    a, b = items["maxVersion"]
    A("def maxVersion : Nat × Nat := (%d, %d)" % (a, b))
    A("def serverName : List Nat := %s" % blit(items["serverName"]))
    A("")
    A("end TH.Extracted")
    text = "\n".join(L) + "\n"
    os.makedirs(os.path.dirname(INFO), exist_ok=True)
    old = None
    try:
        with open(OUT, encoding="utf-8") as f:
            old = f.read()
    except OSError:
        pass
    if old != text:
        with open(OUT, "w", encoding="utf-8") as f:
            f.write(text)
    with open(INFO, "w") as f:
        json.dump({"fallback": fallback, "changed": old != text,
                   "items": {k: v for k, v in items.items() if k not in ("reasonTable",)}}, f, indent=1)
    print("extract: %d items, fallback=%s, changed=%s" % (len(items), fallback, old != text))


if __name__ == "__main__":
    main()
