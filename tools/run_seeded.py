#!/usr/bin/env python3
"""Applies every seeded change under seeded/ to /repo in turn (git apply; never committed), runs the quick
check of its own property (plus the cross-checks listed in CROSS), restores /repo, and writes
seeded/RESULTS.md.  Usage: tools/run_seeded.py [ids...]"""
import json, os, subprocess, sys, re
ROOT = "/verif"
CROSS = {"C03-4": ["C15"], "C07-4": ["C08"], "C14-3": ["C15"]}

def sh(cmd, **kw):
    return subprocess.run(cmd, shell=True, capture_output=True, text=True, **kw)

def main():
    ids = sys.argv[1:] or sorted(os.listdir(os.path.join(ROOT, "seeded")))
    ids = [i for i in ids if os.path.isdir(os.path.join(ROOT, "seeded", i))]
    rows = []
    if sh("git -C /repo diff --quiet").returncode != 0:
        print("/repo is not clean"); sys.exit(2)
    for i in ids:
        d = os.path.join(ROOT, "seeded", i)
        prop = i.split("-")[0]
        patch = os.path.join(d, "patch.diff")
        ap = sh("git -C /repo apply --3way %s || git -C /repo apply %s" % (patch, patch))
        if sh("git -C /repo diff --quiet").returncode == 0 and sh("git -C /repo diff --cached --quiet").returncode == 0:
            rows.append((i, "does not apply to the current HEAD", ""))
            print(i, "does not apply"); sys.stdout.flush()
            continue
        verdicts = []
        for p in [prop] + CROSS.get(i, []):
            r = sh("./check.sh %s quick" % p, cwd=ROOT)
            out = r.stdout
            if r.returncode == 1 and "VIOLATION" in out:
                v = "VIOLATION (no-failing-input-found)" if "no-failing-input-found" in out and not re.search(r"replay=\S+-\d+\.case", out.replace("-corr-", "-corr")) else "VIOLATION with failing input"
            elif r.returncode == 0:
                v = "not reported"
            else:
                v = "CHECK-ERROR rc=%d" % r.returncode
            verdicts.append("%s: %s" % (p, v))
        sh("git -C /repo reset -q --hard HEAD; git -C /repo clean -fdq src")
        rows.append((i, "applies", "; ".join(verdicts)))
        print(i, "; ".join(verdicts)); sys.stdout.flush()
    sh("python3 tools/mkcopy.py", cwd=ROOT)
    with open(os.path.join(ROOT, "seeded", "RESULTS.md"), "a") as f:
        f.write("\n## run at /repo %s\n\n| change | applies | quick check of its property (and cross-checks) |\n|---|---|---|\n" % sh("git -C /repo rev-parse --short HEAD").stdout.strip())
        for r in rows:
            f.write("| %s | %s | %s |\n" % r)

main()
