#!/bin/bash
# tools/try_refactors.sh <dir with patch*.diff> <Cxx ...>
# Applies each behaviour-preserving change to /repo in turn, runs the given quick checks, restores /repo.
# A check that reports anything on such a tree is a false alarm of the machinery.
set -u
dir="$1"; shift
cd /verif
for patch in "$dir"/patch*.diff; do
  git -C /repo diff --quiet || { echo "/repo is not clean"; exit 2; }
  git -C /repo apply "$patch" || { echo "$patch: does not apply"; continue; }
  for p in "$@"; do
    out=$(./check.sh "$p" quick 2>&1); rc=$?
    echo "$(basename $dir)/$(basename $patch) $p rc=$rc $(echo "$out" | grep -E '^(OK|VIOLATION|CHECK)' | head -1 | cut -c1-140)"
  done
  git -C /repo checkout -- . ; git -C /repo clean -fdq src
done
python3 /verif/tools/mkcopy.py >/dev/null
