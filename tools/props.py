"""Per-property configuration of check.py: generator batches, oracle columns, required coverage
buckets, partial clauses, assumptions.  (DESIGN.md section 6.)"""

TRUSTED_BASE = [
    "Lean 4.33.0 kernel; axioms per theorem audited each run (whitelist: propext, Classical.choice, Quot.sound)",
    "hand-written Lean model (lean/TinyHttpModel) tied to /repo by the correspondence check of this run and by Extracted.lean regenerated from the source",
    "Lean compiler (the driver executes the same definitions the theorems are about)",
    "tools/extract.py, tools/mkcopy.py (std:: -> verif_rt::stdx:: copy of /repo/src), tools/check.py, the Rust harness (generators, canonicalisation, label mappers)",
    "verif_rt (rt/): deterministic scheduler, virtual clock, Mutex/Condvar/mpsc/thread/in-memory sockets standing in for std in the controlled build",
    "std::io / std::sync / allocator / OS sockets / chunked_transfer / httpdate: modelled or observed, not verified",
]

COMMON_ASSUMPTIONS = [
    "bytes are modelled as Nat; theorems quantify over all List Nat, the driver only feeds values < 256",
    "the correspondence is differential testing: its reach is bounded by the generators listed under coverage.correspondence.batches",
]

# theorem names that must be present in Props/<id>.lean (guards against an obligation silently disappearing)
EXPECTED_THEOREMS = {
    "C13": ["read_is_a_socket_read", "every_size_is_possible", "line_reader_oracle", "head_reader_oracle", "small_body_oracle", "chunked_zero_counterexample", "chunk_crlf_reader_counterexample", "body_reader_oracle_is_false", "body_reader_oracle_partial", "body_reader_oracle_nonchunked", "chunk_crlf_counterexample", "runO_eq_run_is_false", "segmentation_independent_is_false", "runO_eq_run_masked", "runO_eq_run_partial", "runO_eq_run_partial_simple", "segmentation_independent_masked", "segmentation_independent_partial"],
    "C01": ["seq_order", "no_overtaking", "dropped_prefix_closed", "sock_is_prefix", "flush_delivers", "first_alive_has_turn", "par_writers_are_seq", "concurrent_handlers_prefix", "concurrent_handlers_same_bytes", "concurrent_terminal_is_finished", "concurrent_stuck_only_when_open"],
    "C06": ["one_final_response", "dropped_gets_500", "nothing_after_consumption", "interim_only_first", "finish_status_single", "drop_releases_successor", "pipeline_all_delivered", "pipeline_final_statuses", "pipeline_one_final_response_each"],
    "C08": ["waiting_count_exact", "queued_tasks_are_claimed", "every_queued_task_can_start", "dispatch_never_blocks", "task_conservation", "task_started_at_most_once", "whole_pool_reachable", "whole_connection_never_waits_for_another"],
    "C11": ["released_at_parse_iff", "small_body_limit", "buffered_is_small", "ahead_step_small", "ahead_blocks_only_on_streamed_body", "ahead_heads_prefix_of_run", "small_body_never_owns_stream", "streamed_body_owns_stream", "par_parse_enabled", "par_stream_free_when_owners_gone", "smallBodied_framing", "streamedBodied_framing", "pipeline_all_available_unanswered", "pipeline_blocked_exactly_at_first_streamed_head", "pipeline_blocked_exactly_at_first_streamed", "successors_wait_for_streamed_body", "successors_delivered_after_streamed_body", "streamed_body_delays_successors_only_until_handled"],
    "C14": ["declared_length_allocation_bounded", "accepted_content_length_fits", "accepted_chunk_size_fits", "discard_read_size_bounded", "limited_read_request_bounded", "te_comparison_consistent", "nan_is_rejected", "run_always_ends_regularly"],
    "C15": ["respond_swallows_client_errors", "incomplete_head_not_delivered", "no_terminator_no_head", "incomplete_small_body_not_delivered", "incomplete_small_body_not_delivered_for", "head_in_prefix_is_head", "body_read_never_blocks_when_closed", "read_up_to_never_blocks_when_closed", "drain_terminates_when_closed", "handle_never_blocks_when_closed", "prefix_delivery"],
    "C20": ["min_threads_value", "idle_period_value", "active_count_exact", "untimed_waiters_bounded", "idle_pool_at_baseline", "timed_out_worker_exits", "retire_no_task_lost", "drop_wakes_everybody", "accept_loop_stops", "handed_out_still_answerable", "no_accept_after_exit", "whole_drop_reclaims_every_worker", "whole_idle_returns_to_baseline", "whole_drop_reclaim_needs_thread_bound"],
    "C07": ["queue_exactly_once", "log_values_are_taken", "no_lost_wakeup", "quiescent_blocked_implies_empty", "look_enabled", "whole_queue_reachable", "whole_pushed_are_the_connections_requests", "whole_exactly_once", "whole_pushed_le_sent"],
    "C17": ["token_conservation", "tokens_preserve_requests", "try_recv_never_blocks", "recv_empty_only_by_token", "recv_timeout_bounds", "unblock_released_before_time_passes"],
    "C02": ["head_roundtrip", "method_table", "delivered_is_parsed", "head_roundtrip_any_segmentation"],
    "C03": ["limited_read_exact", "buffered_read_exact", "buffered_is_next_n", "upgrade_read_exact", "empty_read", "chunked_read_exact", "te_precedence", "declared_length", "no_framing_no_body", "readPlanResult_full", "readPlanResult_part", "expectBodied_reads_step", "pipeline_reads_exact", "pipeline_reads_exact_wellBodied", "pipeline_full_reads_get_whole_bodies"],
    "C09": ["next_head_offset_limited", "next_head_offset_buffered", "next_head_offset_empty", "next_head_offset_chunked", "chunked_read_then_drain", "pipeline_with_bodies", "plainBodied_wellBodied", "wellBodied_step", "pipeline_with_any_bodies"],
    "C10": ["request_line_needs_three_fields", "unknown_version_rejected", "version_table", "header_without_colon_rejected", "bad_request_line_outcome", "bad_header_outcome", "non_ascii_outcome", "non_ascii_line", "unsupported_expect_outcome", "expect_classification", "version_too_high_outcome", "too_high_versions", "earlier_responses_first", "pipeline_then_bad_request_line", "pipeline_then_eof", "refused_step", "pipeline_with_refused_requests", "pipeline_with_refused_requests_delivery", "pipeline_with_refused_requests_exact", "refused_requests_do_not_end_the_connection", "refusedRequest_of_framingOf"],
    "C16": ["ws_in_name_rejected", "ws_before_colon_rejected", "leading_ws_rejected", "bad_content_length_rejected", "strict_content_length_iff", "non_digit_rejected", "rejected_line_fails_head", "bad_content_length_outcome", "pipeline_then_ws_in_header", "pipeline_then_obs_fold", "pipeline_then_bad_content_length", "pipeline_then_refused", "smuggling_head_never_interpreted", "bytes_after_smuggling_head_ignored", "smuggling_head_summary"],
    "C12": ["last_request_decision", "nothing_after_last", "stays_open", "close_after_client_eof", "trace_extends_state", "closingRequest_covers", "closing_run", "pipeline_then_closing_request", "bytes_after_closing_request_ignored", "open_pipeline_waits"],
    "C18": ["continue_exactly_once", "continue_is_flushed", "expect_recognised", "no_expect_no_continue", "expect_body_not_preread", "framing_expectation", "pipeline_statuses", "no_expectation_only_finals", "no_expectation_no_interim", "interim_count_general", "interim_count", "non_interim_statuses"],
    "C04": ["pieces_irrelevant", "dechunk_enchunk", "no_body_bytes", "client_roundtrip", "oracle_of_roundtrip"],
    "C05": ["default_threshold", "choose_eq_spec", "never_chunked_for_old_or_nobody", "framing_headers", "te_preference", "admissible_elements"],
    "C19": ["headers_policy", "headers_policy_append", "declared_length", "protected_never_stored",
            "content_type_at_most_once", "date_server_once", "printed_headers_shape", "model_meets_oracle", "ctor_lengths"],
}


def resp_batches(mode_quick, mode_thorough):
    def f(tier):
        if tier == "thorough":
            return [{"bin": "pristine", "args": a, "name": "resp " + " ".join(map(str, a[1:]))} for a in mode_thorough]
        return [{"bin": "pristine", "args": a, "name": "resp " + " ".join(map(str, a[1:]))} for a in mode_quick]
    return f


def conn_batches(quick, thorough):
    def f(tier):
        spec = thorough if tier == "thorough" else quick
        return [{"bin": "pristine", "args": ["conn", g, n], "name": "conn %s %d" % (g, n)} for g, n in spec]
    return f


def ctl_batches(kind, quick_n, thorough_n, per=1000):
    def f(tier):
        n = thorough_n if tier == "thorough" else quick_n
        out = []
        first = 0
        while first < n:
            k = min(per, n - first)
            out.append({"bin": "controlled", "args": [kind, k, first], "name": "controlled %s %d@%d" % (kind, k, first)})
            first += k
        return out
    return f


CTL_ASSUMPTIONS = [
    "controlled build: a copy of /repo/src regenerated on this run with the path root std:: replaced by verif_rt::stdx:: (nothing else) runs under the "
    "deterministic scheduler and virtual clock of /verif/rt; Mutex/Condvar/mpsc/thread/Instant semantics of verif_rt are trusted",
    "trace acceptance: the label sequence mapped from the runtime's event log must be an execution of the Lean LTS, and the LTS must predict every returned value",
]

CONN_ASSUMPTIONS = [
    "Conn.run applies the handlers one request at a time, in delivery order; Lts.Par (C01.concurrent_handlers_same_bytes, tied by the mt / par trace acceptance) shows that "
    "every concurrent schedule of the handlers submits the same bytes and sees the same requests",
    "pristine crate over loopback TCP/UNIX sockets; the client half-closes after sending (or stays open in mode=open) and reads to EOF",
]

PROPS = {
    "C04": {
        "batches": lambda tier: resp_batches([["resp", "c04", 1500, 0]], [["resp", "c04", 20000, 1], ["resp", "c05", 0, 1]])(tier)
                   + conn_batches([("c02", 150)], [("c02", 3000), ("mixed", 1000)])(tier),
        "replay_bin": "pristine", "need": ["wire", "eof", "nohang", "results"], "agr_need": ["wire", "eof"],
        "rule": "Response::raw_print (public API, pristine crate) on the boundary product status class x body length "
                "{0,1,16,255,8191,8192,8193,16384,16385,32768,...} x declared/undeclared x threshold x version x HEAD x TE x piece "
                "shapes, plus structured random responses; a case is non-trivial when the C04 predicate applies (well-formed "
                "headers, correct declared length, no upgrade); distinct = distinct (branch tags, size bucket)",
        "required_tags": ["coding:chunked", "coding:identity", "head:1", "status:1xx", "status:204", "status:304", "len:unknown", "ver:1.0", "prefail:1"],
        "partial": [],
        "assumptions": ["statuses outside 100..999 produce a status line a strict 3DIGIT client rejects; the lenient client parser of the model accepts any decimal status"],
    },
    "C05": {
        "batches": resp_batches([["resp", "c05", 800, 0]], [["resp", "c05", 20000, 1]]),
        "replay_bin": "pristine",
        "rule": "the finite product of C05's quantifier (version x status class x length x threshold x TE variant x HEAD x upgrade) "
                "enumerated through Response::raw_print, plus structured random responses; non-trivial = the C05 predicate applies "
                "(status >= 100, TE q-values inside the modelled decimal grammar); distinct = distinct (branch tags, size bucket)",
        "required_tags": ["coding:chunked", "coding:identity", "coding:neither", "ver:0.9", "ver:1.0", "ver:1.1", "te:parsed", "te:absent", "len:unknown"],
        "partial": [],
        "assumptions": ["f32 ordering coincides with rational ordering on decimals with <=3 integer and <=3 fraction digits; other q-values are excluded (counted as unmodelled_skipped)"],
    },
    "C19": {
        "batches": resp_batches([["resp", "random", 2500, 0]], [["resp", "random", 40000, 0], ["resp", "c04", 0, 1]]),
        "replay_bin": "pristine",
        "rule": "arbitrary header lists (letter case, duplicates, protected/special names at any position) supplied through the "
                "constructor, add_header and with_header, all constructors (from_string with multi-byte UTF-8, from_data, from_file, "
                "empty), with_data; getters and raw_print output compared; distinct = distinct (branch tags, size bucket)",
        "required_tags": ["ctor:string", "ctor:data", "ctor:empty", "ctor:file", "ctor:new", "upgrade:1"],
        "partial": ["theorem: header policy, declared length, Date/Server counts, constructor lengths",
                    "observed only: Date value is the current time in IMF-fixdate (syntax predicate in Lean, skew <= 2 s in the harness); from_file declares the file's length"],
        "assumptions": [],
    },
    "C02": {
        "batches": lambda tier: conn_batches([("c02", 400), ("sweep", 87), ("mixed", 150), ("long", 3)], [("c02", 6000), ("sweep", 87), ("mixed", 2000), ("long", 9)])(tier)
                   + ctl_batches("vanishdata", 60, 1500, per=60)(tier) + ctl_batches("midline", 60, 1500, per=60)(tier),
        "replay_bin": "pristine", "need": ["heads", "seq", "addr", "nohang", "results"], "agr_need": ["heads", "seq"],
        "rule": "grammar-directed request heads (nine methods + extension tokens incl. lower-case, visible-ASCII targets, 1.0/1.1, 0..64 headers with duplicates, "
                "empty values, colons and inner whitespace, lines > 1 KiB, heads > 64 KiB, random OWS; sweep: request lines and header lines of EVERY length 2..325 and around each power of two up to 16 KiB) sent over loopback TCP and UNIX sockets; delivered "
                "method/url/version/headers/body_length/remote_addr compared with the generator's abstract request and with the model",
        "required_tags": ["unix:1", "unix:0", "n:3", "fam:vanishdata", "fam:long", "fam:sweep"],
        "partial": ["theorem: head round trip for every well-formed head (Props/C02)", "observed only: remote_addr equals the client's socket address on TCP and is absent on UNIX sockets"],
        "assumptions": CONN_ASSUMPTIONS,
    },
    "C03": {
        "batches": conn_batches([("c03", 500), ("mixed", 150)], [("c03", 8000), ("mixed", 3000)]),
        "replay_bin": "pristine", "need": ["bodies", "heads", "seq", "nohang"], "agr_need": ["bodies", "heads", "seq"],
        "rule": "body lengths {0,1,..,1023,1024,1025,2047..2049,8191..8193,20000,70000} x framing {Content-Length, chunked with random chunkings/hex case/leading "
                "zeros/extensions, both, upgrade, none} x read plans (buffer sizes 1..100000, prefixes, over-read to observe EOF) x following pipelined requests",
        "required_tags": ["body:limited", "body:buffered", "body:chunked", "body:upgrade", "body:empty", "consumed:eof", "consumed:some"],
        "partial": [], "assumptions": CONN_ASSUMPTIONS,
    },
    "C09": {
        "batches": lambda tier: conn_batches([("c09", 500), ("c03", 100), ("c10", 100), ("bigunread", 3)], [("c09", 8000), ("c03", 2000), ("mixed", 2000), ("c10", 600), ("bigunread", 12)])(tier)
                   + ctl_batches("idle", 100, 3000, per=100)(tier),
        "replay_bin": "pristine", "need": ["seq", "heads", "bodies", "wire", "eof", "nohang"], "agr_need": ["seq", "heads", "bodies", "wire", "eof"],
        "rule": "framings x consumption prefixes (0, 1, len-1, len without EOF, len+1 with EOF, random) x ways of finishing (respond, drop, panic, into_writer) x following pipelined requests",
        "required_tags": ["body:limited", "body:buffered", "body:chunked", "consumed:none", "consumed:some", "consumed:eof", "fin:drop", "fin:writer", "fin:respond", "zeroread:1", "size:huge", "fam:idle", "class:e505"],
        "partial": [], "assumptions": CONN_ASSUMPTIONS,
    },
    "C10": {
        "batches": conn_batches([("c10", 100), ("badhold", 60)], [("c10", 2000), ("c16", 300), ("badhold", 600)]),
        "replay_bin": "pristine", "need": ["seq", "heads", "wire", "eof", "nohang", "results", "hold"], "agr_need": ["seq", "heads", "wire", "eof", "hold"],
        "rule": "every malformed / unsupported class (bad request lines, unknown version tokens, header without colon, unsupported Expect values, HTTP/2.0 and 3.0 "
                "with and without bodies, non-ASCII bytes) at every position 0..3 of a pipeline, with earlier requests answered immediately and late, followed by further requests",
        "required_tags": ["class:e400", "class:e417", "class:e505", "class:silent", "st:400", "st:417", "st:505"],
        "partial": [], "assumptions": CONN_ASSUMPTIONS,
    },
    "C12": {
        "batches": lambda tier: conn_batches([("c12", 500), ("c10", 100), ("long", 3)], [("c12", 8000), ("mixed", 2000), ("c10", 600), ("long", 9)])(tier) + ctl_batches("idle", 200, 4000, per=100)(tier),
        "replay_bin": "pristine", "need": ["seq", "heads", "wire", "eof", "nohang"], "agr_need": ["seq", "heads", "wire", "eof"],
        "rule": "version {1.0,1.1} x Connection header {absent, close, keep-alive, upgrade, other tokens, lists (also keep-alive next to close / upgrade), letter case, substrings} "
                "at every pipeline position, arbitrary bytes after the last request, client half-closing or keeping the connection open (also in the middle of the last request's body); idle: the same conversations on the "
                "controlled build with 1 s .. 1 h of virtual silence between or inside requests and handlers that take 6..12 s",
        "required_tags": ["mode:open", "mode:halfclose", "end:waiting", "end:closed", "fam:idle", "stall:1", "fam:long", "class:e417"],
        "partial": [], "assumptions": CONN_ASSUMPTIONS,
    },
    "C16": {
        "batches": conn_batches([("c16", 100)], [("c16", 1000), ("c10", 300)]),
        "replay_bin": "pristine", "need": ["seq", "heads", "wire", "eof", "nohang"], "agr_need": ["seq", "heads", "wire", "eof"],
        "rule": "whitespace before / inside / after header names (framing headers and others), Content-Length values from the classes {empty, signed, non-digit, mixed, "
                "list, overflowing, hex, decimal point} alone, next to Transfer-Encoding, and as a second Content-Length; at pipeline positions 0..2, each followed by a would-be smuggled request",
        "required_tags": ["class:smug", "st:400"],
        "partial": [], "assumptions": CONN_ASSUMPTIONS,
    },
    "C18": {
        "batches": lambda tier: conn_batches([("c18", 500), ("hold", 100), ("c10", 100)], [("c18", 6000), ("hold", 1000), ("c10", 600)])(tier) + ctl_batches("expmt", 100, 3000, per=100)(tier),
        "replay_bin": "pristine", "need": ["wire", "bodies", "seq", "nohang", "hold"], "agr_need": ["wire", "bodies", "seq", "hold"],
        "rule": "Expect: 100-continue present/absent (letter case) x body length {0,1,10,1024,1025,3000} x Content-Length/chunked x programs {answer without reading, "
                "as_reader once / several times, partial read, over-read} with a client that withholds the body until the server has sent something; a following request without the header whose body the application reads",
        "required_tags": ["st:100", "hold:1", "hold:0", "lateask:1", "fam:expmt"],
        "partial": [], "assumptions": CONN_ASSUMPTIONS,
    },
    "C07": {
        "batches": lambda tier: ctl_batches("queue", 3000, 60000)(tier) + ctl_batches("srvq", 400, 9000, per=200)(tier),
        "replay_bin": "controlled", "oracle_col": "C07", "agree_col": "aC07",
        "rule": "MessagesQueue of the generated copy under the deterministic scheduler: 1..3 producers (push / unblock at virtual times chosen around the receivers' "
                "timeout expiry) x 1..4 receivers mixing pop / try_pop / pop_timeout; random schedules incl. timers firing while threads are runnable; "
                "every run is replayed on the Lean LTS (trace acceptance) and the exactly-once / FIFO / no-lost-wake-up predicate is evaluated on the implementation's history; "
                "srvq: the same programs against the whole Server of the generated copy (every producer a client connection on the in-memory network sending /r<v>, receivers calling "
                "recv / try_recv / recv_timeout, unblock through Server::unblock; bursts of 5..8 connections, 5..12 s of virtual silence, then new connections), replayed on the same LTS "
                "with anonymous pushes matched one-to-one against the delivered requests",
        "required_tags": ["ptimer:0", "ptimer:200", "timedtook:1", "timeoutexp:1", "blocked:1", "left:1", "unblock:1", "srv:1", "burst:1", "whole:1", "spurious:1", "preempt:1"],
        "partial": ["theorem: exactly-once/FIFO and no-lost-wake-up invariants of the queue LTS for all schedules",
                    "that a connection pushes its requests in parse order is the connection-loop model (C12.trace_extends_state); real-thread scheduling is sampled by C06/C11's pristine runs"],
        "assumptions": CTL_ASSUMPTIONS,
    },
    "C17": {
        "batches": lambda tier: ctl_batches("queue", 3000, 60000)(tier) + ctl_batches("srvq", 400, 9000, per=200)(tier),
        "replay_bin": "controlled", "oracle_col": "C17", "agree_col": "aC17",
        "rule": "same scenarios as C07 (unblock issued before, while and after receivers block); token accounting, try_pop non-blocking and the recv_timeout bounds are "
                "evaluated on the implementation's history with virtual-clock durations compared exactly with the LTS; in zero-latency runs every unblock must release a "
                "waiting receiver at the very instant it is issued (or leave nobody waiting); srvq: the same through Server::recv / try_recv / recv_timeout / unblock",
        "required_tags": ["ptimer:0", "unblock:1", "timed:1", "timeoutexp:1", "srv:1", "spurious:1", "preempt:1", "tmax:1"],
        "partial": ["theorem: token conservation, try_recv non-blocking, recv_timeout bounds on the zero-latency LTS", "scheduling latency of real threads is outside the model"],
        "assumptions": CTL_ASSUMPTIONS,
    },
    "C08": {
        "batches": lambda tier: ctl_batches("pool", 1500, 30000)(tier) + ctl_batches("srvp", 300, 6000, per=150)(tier)
                   + ctl_batches("vanish", 60, 1500, per=60)(tier) + ctl_batches("vanishdata", 60, 1500, per=60)(tier) + ctl_batches("midline", 60, 1500, per=60)(tier)
                   + [{"bin": "pristine", "args": ["srv", "burst", 12 if tier != "thorough" else 120], "name": "pristine bursts of keep-alive connections"}],
        "replay_bin": "controlled", "oracle_col": "C08", "agree_col": "aC08",
        # conn lines (vanish families): a client that resets at once must not stop the server from serving the others
        "need": ["fresh", "nohang", "noabort", "seq"], "need_intent": False, "agr_need": ["heads", "seq", "wire", "eof"],
        "rule": "TaskPool of the generated copy under the deterministic scheduler: bursts of 1..40 tasks (gaps 0 / 10 us / 1 ms / 6 s, before or after the initial workers "
                "went idle), tasks block on a gate that stays shut (keep-alive connections that never end) or end at once; random schedules; every run replayed on the Lean "
                "LTS (dispatch branch, which worker starts which task); predicate: every dispatched task started although no task ended",
        "required_tags": ["tasks:5", "tasks:gt16", "tasks:le4", "newthread:1", "queued:1", "presettle:0", "presettle:1", "srv:burst:5", "srv:burst:16", "srv:burst:200", "srv:held", "srvpool:1", "fam:vanish", "fam:vanishdata", "fam:midline", "spuriouswake:1", "preempt:1"],
        "partial": ["theorem: every queued task is claimed by a woken worker (for all burst patterns and schedules); conservation and at-most-once start",
                    "whole-server isolation over real sockets (N simultaneous keep-alive connections) is sampled by the pristine burst batch"],
        "assumptions": CTL_ASSUMPTIONS,
    },
    "C20": {
        "batches": lambda tier: ctl_batches("pool", 1500, 30000)(tier) + ctl_batches("srvp", 300, 6000, per=150)(tier) + ctl_batches("backlog", 120, 2000, per=40)(tier) + [
            {"bin": "pristine", "args": ["srv", "drop", 6 if tier != "thorough" else 60], "name": "pristine server drop (tcp/unix)"},
            {"bin": "pristine", "args": ["srv", "reclaim", 5], "name": "pristine thread reclamation, burst of 5"},
            {"bin": "pristine", "args": ["srv", "reclaim", 40], "name": "pristine thread reclamation, burst of 40"}],
        "replay_bin": "controlled", "oracle_col": "C20", "agree_col": "aC20",
        "rule": "same pool scenarios continued: gates opened, virtual time advanced past the idle period, live worker threads counted; then the pool is dropped and time advanced again; backlog: connections that open with a refused (505) request; drop: UNIX socket paths that are not valid UTF-8",
        "required_tags": ["timeoutwake:1", "burstlive:gt4", "burstlive:le4", "trickle:1", "srv:drop-tcp", "srv:drop-unix", "srv:drop-unix-dead", "srv:drop-queued", "srv:reclaim:40", "srvpool:1", "srv:backlog:gt8", "srv:backlog:le8"],
        "partial": ["theorem: at most MIN_THREADS untimed waiters / idle pool at baseline / retirement strands no task / accept loop stops after at most one more accept / handed-out requests stay answerable",
                    "observed only: connect() refused after drop, UNIX socket path removed, real thread counts (/proc/self/task)"],
        "assumptions": CTL_ASSUMPTIONS,
    },
    "C01": {
        "batches": lambda tier: ctl_batches("seq", 1500, 40000)(tier) + ctl_batches("mt", 800, 30000, per=200)(tier) + ctl_batches("par", 600, 20000, per=200)(tier)
                   + conn_batches([("c10", 100)], [("c10", 600), ("mixed", 1500)])(tier),
        "replay_bin": "controlled", "need": ["wire", "seq", "eof", "nohang", "results", "noabort"], "agr_need": ["wire", "seq", "eof", "par"],
        "rule": "whole server of the generated copy under the deterministic scheduler: 2..6 pipelined requests, each answered on its own handler thread after a random virtual delay "
                "(every permutation of answering order arises) or all held by one thread in arrival order; respond (small, >1 KiB, chunked), into_writer with multi-part "
                "writes +- flush, drop; random schedules incl. baton-keeping bias; the client-side byte stream must decode, in request order, to exactly the expected messages; "
                "plus the pristine malformed-pipeline batch (417/400 must not overtake earlier answers); "
                "par: pipelines mixing no / buffered / streamed (large, chunked, Expect) bodies, HTTP/2.0 requests and a malformed tail, every request on its own handler thread; "
                "in the mt and par families the handlers' event sequence (received, as_reader called / returned, reads over, answer started / returned) is replayed on Lts.Par "
                "(trace acceptance: parse steps and the connection thread's own answers are filled in, a call that returned out of turn is rejected) and the bytes the LTS submitted "
                "must be the client's bytes",
        "required_tags": ["fam:mt", "fam:par", "par:1", "fin:writer", "fin:writer0", "fin:drop", "fin:respond", "n:5", "untouched:1", "big:1", "flushmid:1", "body:chunked", "body:limited", "st:505"],
        "partial": [], "assumptions": CTL_ASSUMPTIONS + CONN_ASSUMPTIONS,
    },
    "C06": {
        "batches": lambda tier: ctl_batches("mt", 800, 30000, per=200)(tier) + conn_batches([("c09", 200), ("mixed", 150), ("hold", 150), ("respfail", 150)], [("c09", 2000), ("mixed", 2000), ("hold", 2000), ("respfail", 2000)])(tier),
        "replay_bin": "controlled", "need": ["wire", "seq", "results", "nohang", "noabort", "hold"], "agr_need": ["wire", "seq", "eof", "hold"],
        "rule": "handler programs {read none/part/all} x {respond, into_writer+writes+drop, upgrade, drop, panic while holding the request} for each of n pipelined requests, "
                "sequentially (pristine, real sockets) and on concurrent handler threads (controlled); predicate: the client stream holds exactly one final response per "
                "delivered request, 500 exactly at the dropped positions, later responses not held up",
        "required_tags": ["fam:mt", "fin:drop", "fin:writer", "fin:writer0", "fin:respondfail", "holdneed:1", "st:500"],
        "partial": [], "assumptions": CTL_ASSUMPTIONS + CONN_ASSUMPTIONS,
    },
    "C11": {
        "batches": lambda tier: ctl_batches("ahead", 600, 20000, per=200)(tier) + conn_batches([("bigunread", 3), ("long", 3), ("c09", 120)], [("bigunread", 12), ("long", 9), ("c09", 2000)])(tier),
        "replay_bin": "controlled", "need": ["ahead", "nohang", "noabort"], "need_intent": False, "agr_need": ["ahead", "seq", "wire"],
        "rule": "pipelines of 2..8 requests with bodies {none, 1, 2..1023, 1024} and optionally a first request with a 1025..9000-byte or chunked body that the application reads "
                "to EOF on arrival; the application collects ALL requests before answering any (a deadlock — detected by the scheduler — iff read-ahead fails); "
                "count of requests obtained while none is answered compared with the read-ahead model; plus the C09 body family (all framings incl. Content-Length next to chunked, every consumption prefix) for the successors' delivery",
        "required_tags": ["streamed_first:0", "streamed_first:1", "park:1", "park:0", "fam:bigunread", "fam:long"],
        "partial": [], "assumptions": CTL_ASSUMPTIONS,
    },
    "C13": {
        "batches": lambda tier: ctl_batches("seg", 48, 1800, per=4)(tier) + ctl_batches("idle", 100, 3000, per=100)(tier),
        "replay_bin": "controlled", "need": ["same", "nohang", "noabort"], "need_intent": False, "agr_need": ["heads", "bodies", "seq", "wire", "eof"],
        "rule": "for each conversation of a generated corpus (all framing kinds, malformed classes, upgrade, Expect): unsplit, EVERY single split point (conversations <= 260 bytes), "
                "one byte at a time, random 2..8-way splits, the 1 KiB buffer boundaries; the in-memory socket returns exactly one written segment per read; metamorphic "
                "comparison with the unsplit run and comparison of every run with the flat model",
        "required_tags": ["fam:split", "fam:unsplit", "fam:idle", "body:chunked", "body:limited", "body:buffered", "class:e400"],
        "partial": [], "assumptions": CTL_ASSUMPTIONS,
    },
    "C14": {
        "batches": lambda tier: [{"bin": "c14", "args": ["parent", 6000 if tier == "thorough" else 720], "name": "c14 child processes"}],
        "replay_bin": "c14", "need": ["nopanic", "noabort", "alloc", "nohang"], "need_intent": False, "agr_need": ["heads", "bodies", "seq", "wire", "eof"],
        "rule": "adversarial inputs against the pristine crate, each case in a child process with a process-wide panic hook and a counting global allocator: Content-Length 0 .. "
                "beyond usize::MAX (body absent / short), chunk sizes up to and beyond 16 hex digits, 1000..20000 headers, 0.1..3 MB lines, NUL/control/non-ASCII garbage, "
                "truncation everywhere, request lines with empty / missing / surplus fields, TE lists with up to 200 NaN/inf/exponent q-values, corner headers, 1000-request pipelines; x handlers {no read, partial, full read} x {respond, drop}; "
                "predicate: no abnormal exit, no panic anywhere in the process, largest single allocation <= 256 KiB + 16 x bytes sent + 8 x bytes received",
        "required_tags": ["tag:cl", "tag:chunksize", "tag:te", "tag:line", "tag:headers", "tag:garbage", "tag:truncated", "tag:rst", "tag:rstbody", "tag:rstpipe", "tag:headid"],
        "partial": ["theorem: sizes the modelled logic asks for are bounded (small-body buffer <= 1024, discard reads <= 4 KiB, accepted lengths representable), TE comparison is a strict weak order, the model is total",
                    "observed only: completeness of the panic inventory, allocator behaviour, process exit status"],
        "assumptions": CONN_ASSUMPTIONS + ["the allocation bound includes the harness's own buffers for the observation (hence the terms in bytes sent/received)"],
    },
    "C15": {
        "batches": lambda tier: ctl_batches("cut", 15, 600, per=3)(tier) + ctl_batches("resperr", 400, 10000, per=200)(tier) + ctl_batches("vanish", 100, 2000, per=100)(tier),
        "replay_bin": "controlled", "need": ["results", "nohang", "fresh", "prefix", "nopanic", "noabort"], "need_intent": False, "agr_need": ["heads", "bodies", "seq", "wire", "eof"],
        "rule": "for each conversation: EVERY prefix length (conversations <= 400 bytes; 60 sampled otherwise) followed by half-close, full close or reset, on the in-memory network; "
                "for responses: server writes failing with BrokenPipe / ConnectionReset / ConnectionAborted / ConnectionRefused after 0..1500 bytes; afterwards a fresh connection must be served; "
                "predicate: delivered requests are a prefix of the full-stream delivery, every respond() returned Ok, nothing hangs, nothing panics",
        "required_tags": ["fam:cut", "fam:resperr", "fam:vanish", "mode:reset", "mode:close", "mode:halfclose", "cut:nothing", "cut:some", "werr:1"],
        "partial": ["theorem: incomplete head / incomplete small body never delivered, prefix stability of heads, body reads and discard loops never block on a closed stream, respond swallows client-closing errors",
                    "observed only: OS error kinds for a vanished peer, RST semantics, that the accept loop keeps serving (fresh connection)"],
        "assumptions": CTL_ASSUMPTIONS,
    },
}
