"""Per-property configuration of check.py: generator batches, oracle columns, required coverage
buckets, partial clauses, assumptions.  (DESIGN.md section 6.)"""

TRUSTED_BASE = [
    "Lean 4.33.0 kernel; axioms per theorem audited each run (whitelist: propext, Classical.choice, Quot.sound)",
    "hand-written Lean model (lean/TinyHttpModel) tied to /repo by the correspondence check of this run and by Extracted.lean regenerated from the source",
    "Lean compiler (the driver executes the same definitions the theorems are about)",
    "tools/extract.py, tools/check.py, the Rust harness (generators, canonicalisation)",
    "std::io / std::sync / allocator / OS sockets / chunked_transfer / httpdate: modelled or observed, not verified",
]

COMMON_ASSUMPTIONS = [
    "bytes are modelled as Nat; theorems quantify over all List Nat, the driver only feeds values < 256",
    "the correspondence is differential testing: its reach is bounded by the generators listed under coverage.correspondence.batches",
]

# theorem names that must be present in Props/<id>.lean (guards against an obligation silently disappearing)
EXPECTED_THEOREMS = {
    "C04": ["pieces_irrelevant", "dechunk_enchunk", "no_body_bytes", "client_roundtrip", "oracle_of_roundtrip"],
    "C05": ["default_threshold", "choose_eq_spec", "never_chunked_for_old_or_nobody", "framing_headers"],
    "C19": ["headers_policy", "headers_policy_append", "declared_length", "protected_never_stored",
            "content_type_at_most_once", "date_server_once", "printed_headers_shape", "model_meets_oracle", "ctor_lengths"],
}


def resp_batches(mode_quick, mode_thorough):
    def f(tier):
        if tier == "thorough":
            return [{"bin": "pristine", "args": a, "name": "resp " + " ".join(map(str, a[1:]))} for a in mode_thorough]
        return [{"bin": "pristine", "args": a, "name": "resp " + " ".join(map(str, a[1:]))} for a in mode_quick]
    return f


PROPS = {
    "C04": {
        "batches": resp_batches([["resp", "c04", 1500, 0]], [["resp", "c04", 20000, 1], ["resp", "c05", 0, 1]]),
        "replay_bin": "pristine",
        "rule": "Response::raw_print (public API, pristine crate) on the boundary product status class x body length "
                "{0,1,16,255,8191,8192,8193,16384,16385,32768,...} x declared/undeclared x threshold x version x HEAD x TE x piece "
                "shapes, plus structured random responses; a case is non-trivial when the C04 predicate applies (well-formed "
                "headers, correct declared length, no upgrade); distinct = distinct (branch tags, size bucket)",
        "required_tags": ["coding:chunked", "coding:identity", "head:1", "status:1xx", "status:204", "status:304", "len:unknown", "ver:1.0"],
        "partial": [],
        "assumptions": ["statuses outside 100..999 produce a status line a strict 3DIGIT client rejects; the lenient client parser of the model accepts any decimal status"],
    },
    "C05": {
        "batches": resp_batches([["resp", "c05", 800, 0]], [["resp", "c05", 20000, 1]]),
        "replay_bin": "pristine",
        "rule": "the finite product of C05's quantifier (version x status class x length x threshold x TE variant x HEAD x upgrade) "
                "enumerated through Response::raw_print, plus structured random responses; non-trivial = the C05 predicate applies "
                "(status >= 100, TE q-values inside the modelled decimal grammar); distinct = distinct (branch tags, size bucket)",
        "required_tags": ["coding:chunked", "coding:identity", "coding:neither", "ver:0.9", "ver:1.0", "ver:1.1", "te:parsed", "te:absent", "len:unknown"],
        "partial": [],
        "assumptions": ["f32 ordering coincides with rational ordering on decimals with <=3 integer and <=3 fraction digits; other q-values are excluded (counted as unmodelled_skipped)"],
    },
    "C19": {
        "batches": resp_batches([["resp", "random", 2500, 0]], [["resp", "random", 40000, 0], ["resp", "c04", 0, 1]]),
        "replay_bin": "pristine",
        "rule": "arbitrary header lists (letter case, duplicates, protected/special names at any position) supplied through the "
                "constructor, add_header and with_header, all constructors (from_string with multi-byte UTF-8, from_data, from_file, "
                "empty), with_data; getters and raw_print output compared; distinct = distinct (branch tags, size bucket)",
        "required_tags": ["ctor:string", "ctor:data", "ctor:empty", "ctor:file", "ctor:new", "upgrade:1"],
        "partial": ["theorem: header policy, declared length, Date/Server counts, constructor lengths",
                    "observed only: Date value is the current time in IMF-fixdate (syntax predicate in Lean, skew <= 2 s in the harness); from_file declares the file's length"],
        "assumptions": [],
    },
}
