#!/usr/bin/env python3
"""one-off helper: copies the second-round seeded changes from /tmp/mut2 into seeded/"""
import json, os, shutil, sys
root = os.environ.get("MUTROOT", "/tmp/mut2")
for p in sorted(os.listdir(root)):
    if not (p.startswith("C") and os.path.isdir(os.path.join(root, p, "out"))):
        continue
    out = os.path.join(root, p, "out")
    existing = [d for d in os.listdir("/verif/seeded") if d.startswith(p + "-")]
    base = max(int(d.split("-")[1]) for d in existing) if existing else 0
    for k, suf in enumerate(["", "2"]):
        name = "%s-%d" % (p, base + 1 + k)
        src_patch = os.path.join(out, "patch%s.diff" % suf)
        if not os.path.exists(src_patch):
            continue
        dst = os.path.join("/verif/seeded", name)
        os.makedirs(dst, exist_ok=True)
        shutil.copy(src_patch, os.path.join(dst, "patch.diff"))
        demo = os.path.join(out, "demo%s" % suf)
        if os.path.isdir(demo):
            shutil.copytree(demo, os.path.join(dst, "demo"), dirs_exist_ok=True)
        try:
            meta = json.load(open(os.path.join(out, "meta%s.json" % suf)))
        except Exception as e:
            meta = {"summary": "(meta unreadable: %s)" % e}
        meta.update({"property": p, "name": name, "round": int(os.environ.get("MUTROUND", "2")), "base_commit": os.environ.get("MUTBASE", "cf3ce4f"),
                     "confirmed_by_me": "MUTROOT=%s tools/verify_mutant.sh %s %s (scratch worktree): whole test suite passes with the change, demo passes without it and fails with it" % (root, p, suf)})
        json.dump(meta, open(os.path.join(dst, "meta.json"), "w"), indent=1)
        print(name)
