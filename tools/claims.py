"""Claimed properties: level text, notes, technique (feeds MANIFEST.json via mkmanifest.py)."""
NOTES = ("Every check = (1) lake build of Props/<id>.lean + axiom audit, (2) correspondence of the Lean model with /repo's "
         "current tree on generated cases, (3) the property predicate evaluated on the implementation's own output. "
         "See DESIGN.md.")
PENDING = {}
COMMON_NOTE = ("Trusted: Lean kernel (axioms audited per theorem: propext, Classical.choice, Quot.sound only), the hand-written model "
               "(tied to the code by differential correspondence on this run's cases and by constants regenerated from the source), "
               "the Lean compiler for the driver, the harness. ")
CLAIMS = {
    "C04": {
        "text": "Theorem client_roundtrip: for every response with well-formed headers and a correctly declared or undeclared length, every request "
                "context (version, HEAD, TE), every splitting of the body reader into pieces and every continuation of the stream, an independent "
                "RFC 7230 section 3.3.3 client parser recovers the status and exactly the body from the model's raw_print output, stops exactly at "
                "the message end and never relies on connection close; no_body_bytes for HEAD/1xx/204/304; pieces_irrelevant + dechunk_enchunk for "
                "the chunk encoder (unbounded body sizes). The model's raw_print is compared byte-for-byte with the real Response::raw_print on a "
                "boundary product, and the client parser is run on the implementation's own output.",
        "design_ref": "6 (C04), 5 (M2)",
        "note": COMMON_NOTE + "chunked_transfer::Encoder and io::copy are re-modelled (Enc.write) and checked only by correspondence; statuses outside 100..999 "
                "are covered by the lenient status parser only.",
        "technique": "Lean 4 proof (encoder invariant, decode-of-print round trip by induction) + byte-exact differential correspondence of raw_print",
    },
    "C05": {
        "text": "Theorems choose_eq_spec / never_chunked_for_old_or_nobody / framing_headers / default_threshold: the model of "
                "choose_transfer_encoding + raw_print's framing headers equals a declarative choice function written from the property text, "
                "for all versions, statuses >= 100, TE lists (modelled q grammar), lengths and thresholds. The model is tied to the code by "
                "enumerating the property's whole configuration product through the public Response::raw_print and comparing coding and framing headers; "
                "the declarative choice is also evaluated directly on the implementation's output.",
        "design_ref": "6 (C05), 3, 5 (M2)",
        "note": COMMON_NOTE + "f32 q-values are modelled exactly only on decimals with <=3 integer and <=3 fraction digits (others are skipped and counted).",
        "technique": "Lean 4 proof (insertion-sort/argmax lemma + case analysis) + differential correspondence over the enumerated configuration product",
    },
    "C19": {
        "text": "Theorems headers_policy(+_append), declared_length, protected_never_stored, content_type_at_most_once, date_server_once, "
                "printed_headers_shape, model_meets_oracle, ctor_lengths: for every supplied header list the stored/printed headers are exactly "
                "the policy of the property text. Tied to the code by comparing getters and raw_print output for arbitrary header lists and all constructors. "
                "Partial: 'Date is the current time' and from_file's length are observed on the implementation only (clock, httpdate, filesystem).",
        "design_ref": "6 (C19), 9",
        "note": COMMON_NOTE + "Date value: IMF-fixdate syntax predicate (Lean) and skew <= 2 s (harness) are checked on the implementation's output, not proved.",
        "technique": "Lean 4 proof (induction over the add_header fold) + differential correspondence on random header lists/constructors",
    },
    "C12": {
        "text": "Theorems last_request_decision (the code's persistence flag equals the statement read literally, for 1.0/1.1 and every Connection value, outside the one "
                "contradictory corner), nothing_after_last (after a last request no further byte is interpreted, then close with everything flushed), stays_open, "
                "close_after_client_eof, trace_extends_state — over the connection-loop model, for all byte streams, scripts and pipeline lengths. Tied to the code by running "
                "pipelines with every Connection-header variant through the real server over loopback (half-close and open mode) and comparing delivered requests, the wire "
                "bytes and EOF with the model; the declarative expectation is evaluated on the implementation's observations.",
        "design_ref": "6 (C12), 5 (M1)",
        "note": COMMON_NOTE + "Sequential application in the model; ordering among concurrent handlers is C01. OS-level shutdown(Write)/EOF delivery is observed, not proved.",
        "technique": "Lean 4 proof (case analysis on the persistence decision, one-step unfolding and induction over the connection loop) + differential correspondence over loopback sockets",
    },
    "C18": {
        "text": "Theorems continue_exactly_once (the messages generated for a request are: one 100 iff Expect: 100-continue and the application asked for the body at least once, "
                "before the final response), continue_is_flushed, expect_recognised (any letter case), no_expect_no_continue, expect_body_not_preread. Tied to the code with a "
                "two-phase client that withholds the body until the server has sent something.",
        "design_ref": "6 (C18)",
        "note": COMMON_NOTE + "The client-side waiting is real (loopback); promptness is observed with a 1 s bound, not proved.",
        "technique": "Lean 4 proof (unfolding of the request life-cycle model) + differential correspondence with a withholding client",
    },
}
