"""Claimed properties: level text, notes, technique (feeds MANIFEST.json via mkmanifest.py)."""
NOTES = ("Every check = (1) lake build of Props/<id>.lean + axiom audit, (2) correspondence of the Lean model with /repo's "
         "current tree on generated cases, (3) the property predicate evaluated on the implementation's own output. "
         "See DESIGN.md.")
PENDING = {}
COMMON_NOTE = ("Trusted: Lean kernel (axioms audited per theorem: propext, Classical.choice, Quot.sound only), the hand-written model "
               "(tied to the code by differential correspondence on this run's cases and by constants regenerated from the source), "
               "the Lean compiler for the driver, the harness. ")
CLAIMS = {
    "C04": {
        "text": "Theorem client_roundtrip: for every response with well-formed headers and a correctly declared or undeclared length, every request "
                "context (version, HEAD, TE), every splitting of the body reader into pieces and every continuation of the stream, an independent "
                "RFC 7230 section 3.3.3 client parser recovers the status and exactly the body from the model's raw_print output, stops exactly at "
                "the message end and never relies on connection close; no_body_bytes for HEAD/1xx/204/304; pieces_irrelevant + dechunk_enchunk for "
                "the chunk encoder (unbounded body sizes). The model's raw_print is compared byte-for-byte with the real Response::raw_print on a "
                "boundary product, and the client parser is run on the implementation's own output.",
        "design_ref": "6 (C04), 5 (M2)",
        "note": COMMON_NOTE + "chunked_transfer::Encoder and io::copy are re-modelled (Enc.write) and checked only by correspondence; statuses outside 100..999 "
                "are covered by the lenient status parser only.",
        "technique": "Lean 4 proof (encoder invariant, decode-of-print round trip by induction) + byte-exact differential correspondence of raw_print",
    },
    "C05": {
        "text": "Theorems choose_eq_spec / never_chunked_for_old_or_nobody / framing_headers / default_threshold: the model of "
                "choose_transfer_encoding + raw_print's framing headers equals a declarative choice function written from the property text, "
                "for all versions, statuses >= 100, TE lists (modelled q grammar), lengths and thresholds. The model is tied to the code by "
                "enumerating the property's whole configuration product through the public Response::raw_print and comparing coding and framing headers; "
                "the declarative choice is also evaluated directly on the implementation's output.",
        "design_ref": "6 (C05), 3, 5 (M2)",
        "note": COMMON_NOTE + "f32 q-values are modelled exactly only on decimals with <=3 integer and <=3 fraction digits (others are skipped and counted).",
        "technique": "Lean 4 proof (insertion-sort/argmax lemma + case analysis) + differential correspondence over the enumerated configuration product",
    },
    "C19": {
        "text": "Theorems headers_policy(+_append), declared_length, protected_never_stored, content_type_at_most_once, date_server_once, "
                "printed_headers_shape, model_meets_oracle, ctor_lengths: for every supplied header list the stored/printed headers are exactly "
                "the policy of the property text. Tied to the code by comparing getters and raw_print output for arbitrary header lists and all constructors. "
                "Partial: 'Date is the current time' and from_file's length are observed on the implementation only (clock, httpdate, filesystem).",
        "design_ref": "6 (C19), 9",
        "note": COMMON_NOTE + "Date value: IMF-fixdate syntax predicate (Lean) and skew <= 2 s (harness) are checked on the implementation's output, not proved.",
        "technique": "Lean 4 proof (induction over the add_header fold) + differential correspondence on random header lists/constructors",
    },
    "C12": {
        "text": "Theorems last_request_decision (the code's persistence flag equals the statement read literally, for 1.0/1.1 and every Connection value, outside the one "
                "contradictory corner), nothing_after_last (after a last request no further byte is interpreted, then close with everything flushed), stays_open, "
                "close_after_client_eof, trace_extends_state — over the connection-loop model, for all byte streams, scripts and pipeline lengths. Tied to the code by running "
                "pipelines with every Connection-header variant through the real server over loopback (half-close and open mode) and comparing delivered requests, the wire "
                "bytes and EOF with the model; the declarative expectation is evaluated on the implementation's observations.",
        "design_ref": "6 (C12), 5 (M1)",
        "note": COMMON_NOTE + "Sequential application in the model; ordering among concurrent handlers is C01. OS-level shutdown(Write)/EOF delivery is observed, not proved.",
        "technique": "Lean 4 proof (case analysis on the persistence decision, one-step unfolding and induction over the connection loop) + differential correspondence over loopback sockets",
    },
    "C18": {
        "text": "Theorems continue_exactly_once (the messages generated for a request are: one 100 iff Expect: 100-continue and the application asked for the body at least once, "
                "before the final response), continue_is_flushed, expect_recognised (any letter case), no_expect_no_continue, expect_body_not_preread. Tied to the code with a "
                "two-phase client that withholds the body until the server has sent something.",
        "design_ref": "6 (C18)",
        "note": COMMON_NOTE + "The client-side waiting is real (loopback); promptness is observed with a 1 s bound, not proved.",
        "technique": "Lean 4 proof (unfolding of the request life-cycle model) + differential correspondence with a withholding client",
    },
    "C02": {
        "text": "Theorem head_roundtrip: for every well-formed HTTP/1.0/1.1 head (any method token, any whitespace-free target, any number of headers incl. duplicates, empty "
                "values, colons and inner whitespace), every choice of optional whitespace around values, every continuation and end of the stream, the parser returns exactly "
                "that head and stops exactly after it — no bound on line or head length; method_table (nine literals -> nine variants, everything else NonStandard, "
                "case-sensitive, about the table extracted from the source); delivered_is_parsed. Tied to the code by sending grammar-directed heads (lines > 1 KiB, heads > 64 KiB) "
                "over loopback TCP and UNIX sockets and comparing the delivered request with the generator's abstract request and with the model. Partial: remote_addr is observed only.",
        "design_ref": "6 (C02)",
        "note": COMMON_NOTE + "The 1 KiB BufReader boundary is covered by the flat semantics (the parser is a function of the byte stream, C13) and exercised by long lines; peer address comes from the OS.",
        "technique": "Lean 4 proof (parse-of-render round trip by induction over the header list) + differential correspondence over loopback/UNIX sockets",
    },
    "C03": {
        "text": "Theorems limited_read_exact, buffered_read_exact, buffered_is_next_n, upgrade_read_exact, empty_read, chunked_read_exact (any chunking: sizes, hex case, leading zeros, "
                "extensions), te_precedence, declared_length, no_framing_no_body: for every body, every buffer size >= 1 and every total the application asks for, the bytes obtained "
                "are exactly the prefix of the designated body, end-of-stream comes exactly at its end, and no byte of the following message is returned or skipped. Tied to the code "
                "by bodies of all boundary lengths x framings x read plans followed by pipelined requests, compared piecewise with the model and with the generator's designated body.",
        "design_ref": "6 (C03)",
        "note": COMMON_NOTE + "chunked_transfer::Decoder is re-modelled line by line (Body.read) and checked by correspondence; read segmentation is abstracted (C13).",
        "technique": "Lean 4 proof (reader state machines, induction on reads with a decoder-position invariant) + differential correspondence",
    },
    "C09": {
        "text": "Theorems next_head_offset_limited / _buffered / _empty / _chunked and chunked_read_then_drain: whatever part of the body the application read (none, any prefix, all, "
                "with or without observing EOF) and however it finished (respond, drop, raw writer, upgrade), the connection's byte stream is left exactly at the first byte after the "
                "body. Tied to the code with every consumption class x finish kind x framing followed by pipelined requests; delivered sequence and client-side responses compared.",
        "design_ref": "6 (C09)",
        "note": COMMON_NOTE + "Holds on the tree with the chunked-drain repair (fix: commit recorded in known_findings.json); the check reports the violation again if the drain disappears.",
        "technique": "Lean 4 proof (drain-after-read invariant over the chunk decoder and EqualReader models) + differential correspondence",
    },
    "C10": {
        "text": "Theorems request_line_needs_three_fields, unknown_version_rejected, version_table, header_without_colon_rejected, non_ascii_line, expect_classification, "
                "bad_request_line_outcome, bad_header_outcome, non_ascii_outcome, unsupported_expect_outcome (not delivered; 400/417/plain close after everything produced so far; "
                "connection closed, never waiting), version_too_high_outcome (505 flushed at once, body skipped, loop continues), too_high_versions, earlier_responses_first. "
                "Tied to the code with every malformed class at every pipeline position 0..3, answered early and late, with and without bodies.",
        "design_ref": "6 (C10)",
        "note": COMMON_NOTE + "'promptly' is proved as 'the connection thread never waits' in the model and observed with a deadline on real sockets. Holds with the 505 and writer-drop repairs.",
        "technique": "Lean 4 proof (error classification lemmas + one-step unfolding/induction over the connection loop) + differential correspondence",
    },
    "C16": {
        "text": "Theorems ws_in_name_rejected, ws_before_colon_rejected, leading_ws_rejected, bad_content_length_rejected, strict_content_length_iff, non_digit_rejected, "
                "rejected_line_fails_head, bad_content_length_outcome: every header line with whitespace before/in/after the name and every Content-Length that is not 1*DIGIT "
                "representable in 64 bits (on any Content-Length header, with or without Transfer-Encoding) makes the head fail: 400, close, nothing after it interpreted. "
                "Tied to the code with all classes at pipeline positions 0..2, each followed by a would-be smuggled request.",
        "design_ref": "6 (C16)",
        "note": COMMON_NOTE + "Holds with the two header-syntax repairs (fix: commits in known_findings.json).",
        "technique": "Lean 4 proof (lemmas on trim/split/digit parsing, unfolding of the connection loop) + differential correspondence",
    },
    "C07": {
        "text": "Theorems queue_exactly_once (taken ++ queued = pushed as sequences: nothing lost, nothing duplicated, global FIFO), log_values_are_taken, no_lost_wakeup "
                "(whenever a receiver is blocked, queued items <= receivers already runnable), quiescent_blocked_implies_empty, look_enabled — inductive invariants of the "
                "MessagesQueue LTS over ALL label sequences: any number of producers/receivers, any mix of recv/try_recv/recv_timeout/unblock, any interleaving, wake-ups racing "
                "with timeouts. Tied to the code by trace acceptance: the real messages_queue.rs (generated copy, std:: redirected) runs under a deterministic scheduler with a "
                "virtual clock; each run's event log is mapped to LTS labels, must be accepted by the LTS, and the LTS must predict every returned value, the leftover queue and "
                "the set of blocked receivers; the exactly-once/no-lost-wake-up predicate is also evaluated on the implementation's history.",
        "design_ref": "6 (C07), 5 (M4), 3.3, 4",
        "note": COMMON_NOTE + "Atomic-block reduction (all queue state is accessed under one mutex), verif_rt's Mutex/Condvar semantics (notify_one wakes one blocked waiter if any). "
                "Partial: per-connection parse order comes from the connection-loop model; OS thread scheduling is only sampled.",
        "technique": "Lean 4 proof (inductive invariants of an LTS) + trace acceptance of the real module under a deterministic scheduler",
    },
    "C17": {
        "text": "Theorems token_conservation (tokens pushed = tokens consumed + tokens queued; each consumed token made exactly one call return empty-handed), "
                "tokens_preserve_requests, try_recv_never_blocks, recv_empty_only_by_token, recv_timeout_bounds (on zero-latency executions a recv_timeout(T) returning "
                "empty-handed without a token returns after more than T-1ms and less than 2T) — over all label sequences of the queue LTS. Same trace-acceptance tie as C07, with "
                "virtual-clock call/return times compared exactly.",
        "design_ref": "6 (C17), 5 (M4)",
        "note": COMMON_NOTE + "Scheduling latency is outside the model (bounds proved for zero-latency runs; runs with injected latency are still trace-checked).",
        "technique": "Lean 4 proof (counting invariant + arithmetic invariant of the timed loop) + trace acceptance under a virtual clock",
    },
    "C01": {
        "text": "Theorems seq_order (socket ++ buffer = concatenation in issue order of what each writer submitted: no interleaving, no reordering, for every interleaving of the "
                "threads that write/flush/drop, any response sizes, any buffering policy), no_overtaking, dropped_prefix_closed, sock_is_prefix, flush_delivers, "
                "first_alive_has_turn — inductive invariants of the SequentialWriter LTS over all label sequences. Tied to the code by running the whole server (generated copy) "
                "under the deterministic scheduler with every request answered on its own handler thread after random virtual delays, or all held by one thread; the client "
                "stream must be byte-identical to the sequential model's and decode in request order.",
        "design_ref": "6 (C01), 5 (M3)",
        "note": COMMON_NOTE + "One writer per parsed head in parse order is the connection-loop model (runLoop emits in stream order; C12.trace_extends_state). Holds with the writer-drop repair.",
        "technique": "Lean 4 proof (inductive invariant of an LTS) + whole-server runs under a deterministic scheduler compared with the sequential model",
    },
    "C06": {
        "text": "Theorems one_final_response (every complete handling — any number of as_reader calls then exactly one consuming operation — yields exactly one final response "
                "event), dropped_gets_500, nothing_after_consumption, interim_only_first, finish_status_single, drop_releases_successor. Tied to the code by handler programs "
                "{read none/part/all} x {respond, raw writer, upgrade, drop, panic} per pipelined request, sequentially over real sockets and on concurrent handler threads under "
                "the deterministic scheduler; the client stream must contain exactly the expected messages (500 exactly at dropped positions).",
        "design_ref": "6 (C06), 5 (M6, M3)",
        "note": COMMON_NOTE + "Rust ownership (consuming self) is the grammar of legal programs and is trusted.",
        "technique": "Lean 4 proof (typestate machine + writer-chain LTS) + differential correspondence incl. concurrent handlers",
    },
    "C08": {
        "text": "Theorems waiting_count_exact, queued_tasks_are_claimed (queued tasks <= workers already woken), every_queued_task_can_start (a woken worker's next step starts a "
                "queued task, no task end needed), dispatch_never_blocks, task_conservation, task_started_at_most_once — invariants of the TaskPool LTS for every burst pattern "
                "and schedule. Tied to the code by trace acceptance of the real task_pool.rs (generated copy) under the deterministic scheduler: dispatch branch, woken worker, "
                "which worker starts which task must be what the LTS computes; predicate: every dispatched task started while no task ended.",
        "design_ref": "6 (C08), 5 (M5)",
        "note": COMMON_NOTE + "Holds with the dispatch repair. Thread creation and OS scheduling are outside the model.",
        "technique": "Lean 4 proof (inductive invariants of an LTS) + trace acceptance of the real module under a deterministic scheduler",
    },
    "C11": {
        "text": "Theorems released_at_parse_iff, small_body_limit (=1024, extracted), buffered_is_small, ahead_step_small (a request with no body or a complete buffered body lets the "
                "read-ahead continue with the bytes after it, nothing answered), ahead_blocks_only_on_streamed_body, ahead_heads_prefix_of_run. Tied to the code by pipelines of 2..8 "
                "requests whose application collects all requests before answering any, under the deterministic scheduler (a failed read-ahead is a detected deadlock); the count of "
                "requests obtained is compared with the read-ahead model, incl. a streamed first body read to its end.",
        "design_ref": "6 (C11)",
        "note": COMMON_NOTE + "The reader hand-off chain is the same turn-chain LTS as the writers (Lts/Seq.lean).",
        "technique": "Lean 4 proof (read-ahead loop model) + deadlock detection under a deterministic scheduler",
    },
    "C13": {
        "text": "Theorems over an operational model in which every socket read returns an oracle-chosen number of bytes: read_is_a_socket_read, every_size_is_possible, "
                "line_reader_oracle, head_reader_oracle, small_body_oracle, body_reader_oracle_partial/_nonchunked, runO_eq_run_masked (for ALL streams, oracles and scripts the "
                "trace equals the flat semantics except for the bytes obtained from a chunked body before a read error), runO_eq_run_partial (exact equality when no such entry), "
                "segmentation_independent_masked/_partial. The full statement is FALSE of the faithful model and of the code (kernel-checked counterexamples "
                "chunk_crlf_counterexample, runO_eq_run_is_false): a known finding, reproduced by the check on the real code. Tied to the code by delivering each corpus "
                "conversation unsplit, at every split point, byte by byte and in random splits over an in-memory socket that returns one segment per read.",
        "design_ref": "6 (C13), 7",
        "note": COMMON_NOTE + "BufReader(1024) and TCP are instances of the read oracle (trusted: a read returns a non-empty prefix of the unread stream, at most the requested size). "
                "Known finding (chunked_transfer Decoder drops the bytes of the read that finds a chunk's CRLF missing) is listed in known_findings.json.",
        "technique": "Lean 4 proof (refinement of an oracle-driven operational model to the flat semantics) + exhaustive split-point correspondence on an in-memory network",
    },
    "C14": {
        "text": "Theorems declared_length_allocation_bounded (the only buffer sized by a declared length is <= 1024 bytes), accepted_content_length_fits, accepted_chunk_size_fits, "
                "discard_read_size_bounded, limited_read_request_bounded, te_comparison_consistent (strict weak order: the sort cannot panic), nan_is_rejected, "
                "run_always_ends_regularly (the model is total for every byte stream, oracle and script). Partial: completeness of the panic inventory, the allocator and process "
                "exit are runtime facts — covered by running adversarial inputs in child processes with a panic hook and a counting allocator.",
        "design_ref": "6 (C14), 9",
        "note": COMMON_NOTE + "Holds with the EqualReader and NaN repairs; the harness bound includes its own observation buffers.",
        "technique": "Lean 4 proof (bounds on the modelled logic) + child-process fault observation (panic hook, counting allocator, exit status)",
    },
    "C15": {
        "text": "Theorems incomplete_head_not_delivered, no_terminator_no_head, incomplete_small_body_not_delivered, head_in_prefix_is_head, body_read_never_blocks_when_closed, "
                "read_up_to_never_blocks_when_closed, drain_terminates_when_closed, handle_never_blocks_when_closed, respond_swallows_client_errors. Tied to the code by cutting "
                "each conversation at EVERY prefix length followed by half-close / close / reset, and by failing the server's writes after j bytes with each client-closing error "
                "kind, on the in-memory network; afterwards a fresh connection must be served. Partial: OS error kinds, RST semantics, accept-loop liveness are observed.",
        "design_ref": "6 (C15), 9",
        "note": COMMON_NOTE + "A client that stays connected but never reads is back-pressure by design and not a vanished client.",
        "technique": "Lean 4 proof (prefix stability and non-blocking lemmas over the wire model) + exhaustive cut-point / injected-fault correspondence",
    },
    "C20": {
        "text": "Theorems min_threads_value (=4, extracted), idle_period_value (=5000 ms), active_count_exact, untimed_waiters_bounded, idle_pool_at_baseline, timed_out_worker_exits, "
                "retire_no_task_lost, drop_wakes_everybody (pool LTS), accept_loop_stops (at most one more accept after the flag), handed_out_still_answerable, no_accept_after_exit "
                "(accept-loop LTS). Tied to the code by trace acceptance of the real task_pool.rs under virtual time (bursts, idle period, pool drop) and by pristine server-drop "
                "observations. Partial: listener refusal, UNIX socket removal and real thread counts are OS behaviour, observed only.",
        "design_ref": "6 (C20), 9",
        "note": COMMON_NOTE,
        "technique": "Lean 4 proof (pool and accept-loop LTS invariants) + trace acceptance under a virtual clock + OS-level observation",
    },
}
