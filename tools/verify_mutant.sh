#!/bin/bash
# tools/verify_mutant.sh <Cxx> [suffix]   — confirms a sub-agent's mutant in its scratch worktree:
#   demo passes without the change, whole suite passes with it, demo fails with it.
pid="$1"; suf="${2:-}"
d=${MUTROOT:-/tmp/mut}/$pid; wt=$d/wt; out=$d/out
export CARGO_NET_OFFLINE=true CARGO_TARGET_DIR=$d/target
cd $wt || exit 2
git checkout -q -- . ; git clean -fdq
demo=$out/demo$suf
names=$(ls $demo/*.rs | xargs -n1 basename | sed 's/\.rs$//')
git apply $out/patch$suf.diff || { echo "PATCH DOES NOT APPLY"; exit 1; }
echo "== suite with change"
timeout 900 cargo test --offline 2>&1 | grep -E "^test result|FAILED|failed" | grep -v "ok\. 0 passed" | head -14
git checkout -q -- . ; git clean -fdq
cp $demo/*.rs tests/ 2>/dev/null
echo "== demo without change"
for n in $names; do timeout 300 cargo test --offline --test $n 2>&1 | grep -E "^test result|panicked|FAILED" | head -3; done
git apply $out/patch$suf.diff
echo "== demo with change"
for n in $names; do timeout 300 cargo test --offline --test $n 2>&1 | grep -E "^test result|panicked|FAILED" | head -4; done
git checkout -q -- . ; git clean -fdq
