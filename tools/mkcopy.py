#!/usr/bin/env python3
"""Regenerates build/th_rt/ — a copy of /repo/src in which the path root `std::` is replaced by
`verif_rt::stdx::` and nothing else — so that the whole crate runs under the controllable
runtime.  Run on every check; files are only rewritten when their content changes (so cargo
rebuilds only what the source edit touched)."""
import os, re, sys

REPO = os.environ.get("VERIF_REPO", "/repo")
ROOT = os.path.dirname(os.path.dirname(os.path.abspath(__file__)))
OUT = os.path.join(ROOT, "build", "th_rt")
PAT = re.compile(r"(?<![A-Za-z0-9_])(::)?std::")


def write_if_changed(path, text):
    try:
        if open(path, encoding="utf-8").read() == text:
            return False
    except OSError:
        pass
    os.makedirs(os.path.dirname(path), exist_ok=True)
    with open(path, "w", encoding="utf-8") as f:
        f.write(text)
    return True


def main():
    src = os.path.join(REPO, "src")
    n = changed = 0
    seen = set()
    for d, _, files in os.walk(src):
        for fn in files:
            if not fn.endswith(".rs"):
                continue
            p = os.path.join(d, fn)
            rel = os.path.relpath(p, src)
            seen.add(rel)
            text = open(p, encoding="utf-8").read()
            text = PAT.sub("verif_rt::stdx::", text)
            n += 1
            changed += write_if_changed(os.path.join(OUT, "src", rel), text)
    # remove files that disappeared from the source
    for d, _, files in os.walk(os.path.join(OUT, "src")):
        for fn in files:
            rel = os.path.relpath(os.path.join(d, fn), os.path.join(OUT, "src"))
            if rel not in seen:
                os.remove(os.path.join(d, fn))
    # dependencies are taken from /repo/Cargo.toml (non-optional ones + log)
    cargo = open(os.path.join(REPO, "Cargo.toml"), encoding="utf-8").read()
    deps = []
    m = re.search(r"\[dependencies\](.*?)(\n\[|\Z)", cargo, re.S)
    for line in (m.group(1) if m else "").splitlines():
        line = line.strip()
        if not line or line.startswith("#"):
            continue
        if "optional = true" in line and not line.startswith("log"):
            continue
        deps.append(line)
    toml = """[package]
name = "tiny_http_rt"
version = "0.0.0"
edition = "2018"

[lib]
name = "tiny_http_rt"
path = "src/lib.rs"

[features]
default = ["log"]

[dependencies]
verif_rt = { path = "../../rt" }
%s
""" % "\n".join(deps)
    changed += write_if_changed(os.path.join(OUT, "Cargo.toml"), toml)
    print("mkcopy: %d files, %d rewritten" % (n, changed))


if __name__ == "__main__":
    main()
