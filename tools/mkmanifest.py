#!/usr/bin/env python3
"""Writes MANIFEST.json from tools/claims.py (claimed properties) and properties.jsonl."""
import json, os, sys
ROOT = os.path.dirname(os.path.dirname(os.path.abspath(__file__)))
sys.path.insert(0, os.path.join(ROOT, "tools"))
import claims

props = [json.loads(l) for l in open(os.path.join(ROOT, "properties.jsonl"))]
checks = []
for p in props:
    c = claims.CLAIMS.get(p["id"])
    if not c:
        continue
    checks.append({
        "property_id": p["id"],
        "quick_cmd": "./check.sh %s quick" % p["id"],
        "thorough_cmd": "./check.sh %s thorough" % p["id"],
        "evidence_file": "evidence/%s.json" % p["id"],
        "replay_cmd_template": "./check.sh %s --replay {path}" % p["id"],
        "engine": "lean-model+harness",
        "level_claimed": {"category": "proof", "text": c["text"], "design_ref": c["design_ref"]},
        "level_note": c["note"],
        "technique": c["technique"],
    })
claimed = [c["property_id"] for c in checks]
m = {
    "version": 1,
    "setup_cmd": "./check.sh --setup",
    "hooks": {
        "guard": "none",
        "enable": "no source hooks: checks build /repo as a path dependency (pristine harness) and regenerate a std-redirected copy of /repo/src on every run (controlled harness)",
        "baseline_off_cmd": "cd /repo && cargo test --workspace --no-fail-fast --offline",
        "source_commits": [],
        "add_only": True,
    },
    "engines": [
        {"name": "lean-model", "path": "lean", "serves_properties": claimed,
         "kind_free_text": "Lean 4 model of tiny-http, property theorems (Props/), compiled line-protocol driver"},
        {"name": "harness", "path": "harness", "serves_properties": claimed,
         "kind_free_text": "Rust correspondence harness: runs the same cases on /repo's current tree and feeds observations to the driver"},
    ],
    "checks": checks,
    "notes": claims.NOTES,
    "not_applicable": [{"property_id": p["id"], "reason": claims.PENDING.get(p["id"], "check not built yet (work in progress; DESIGN.md section 11)")}
                       for p in props if p["id"] not in claimed],
}
json.dump(m, open(os.path.join(ROOT, "MANIFEST.json"), "w"), indent=1)
print("manifest: %d checks, %d not claimed" % (len(checks), len(m["not_applicable"])))
