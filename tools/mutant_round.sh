#!/bin/bash
# tools/mutant_round.sh <Cxx> <suffix|""> [extra checks...] — verify a delivered mutant and run the property's own check on it
pid="$1"; suf="$2"; shift 2
echo "######## $pid$suf"
python3 -c "
import json;m=json.load(open('${MUTROOT:-/tmp/mut}/$pid/out/meta$suf.json'));print('summary:',m.get('summary'));print('needs:',m.get('needs_to_manifest'))" 2>/dev/null
/verif/tools/verify_mutant.sh $pid $suf 2>&1 | grep -E "^==|test result|DOES NOT" | head -12
/verif/tools/try_mutant.sh ${MUTROOT:-/tmp/mut}/$pid/out/patch$suf.diff $pid "$@"
