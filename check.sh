#!/bin/bash
# ./check.sh <Cxx> quick|thorough [--replay file]     |   ./check.sh --setup
cd "$(dirname "$0")"
export CARGO_NET_OFFLINE=true
if [ "$1" = "--setup" ]; then
  set -e
  mkdir -p build evidence
  python3 tools/extract.py
  python3 tools/mkcopy.py
  (cd lean && lake build TinyHttpModel driver)
  (cd harness && cargo build --release --offline)
  echo "setup done"
  exit 0
fi
exec python3 tools/check.py "$@"
