/-
  Driver.lean — line-protocol driver.  One case per input line (first token = kind), one `res`
  line per case.  Runs the *same* definitions the theorems are about.
-/
import TinyHttpModel.RespCase
import TinyHttpModel.ConnCase
import TinyHttpModel.QueueCase
import TinyHttpModel.WholeCase
import TinyHttpModel.PoolCase
import TinyHttpModel.SrvCase
import TinyHttpModel.SeqCase

open TH TH.Proto

def handle (line : String) : Option String :=
  if line.isEmpty || line.startsWith "#" then none
  else
    let kv := fields line
    match kv with
    | (kind, _) :: rest =>
      if kind == "resp" then some (RespCase.run rest)
      else if kind == "conn" then some (ConnCase.run rest)
      else if kind == "queue" then some (WholeCase.run rest)
      else if kind == "pool" then some (PoolCase.run rest)
      else if kind == "srv" then some (SrvCase.run rest)
      else if kind == "seq" then some (SeqCase.run rest)
      else some ("res id=" ++ get rest "id" ++ " agree=0 diff=unknown-kind:" ++ kind)
    | [] => none

partial def loop (h : IO.FS.Stream) (out : IO.FS.Stream) (n : Nat) : IO Nat := do
  let line ← h.getLine
  if line.isEmpty then return n
  let line := (line.splitOn "\n").headD ""
  match handle line with
  | some r => out.putStrLn r
  | none => pure ()
  loop h out (n + 1)

def main : IO Unit := do
  let stdin ← IO.getStdin
  let stdout ← IO.getStdout
  let n ← loop stdin stdout 0
  stdout.putStrLn ("done lines=" ++ toString n)
