import TinyHttpModel.Bytes
import TinyHttpModel.Lit
import TinyHttpModel.Extracted
import TinyHttpModel.Resp
import TinyHttpModel.Client
import TinyHttpModel.RespSpec
import TinyHttpModel.Proto
import TinyHttpModel.RespCase
