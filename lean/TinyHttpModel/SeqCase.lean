/-
  SeqCase.lean — `seq` cases: trace acceptance of the controlled run of the real
  `SequentialWriter`s (over a `BufWriter(1024)` and a logging socket) against `Lts.Seq`, and the
  C01 predicate on what reached the socket.
-/
import TinyHttpModel.Proto
import TinyHttpModel.Lts.Seq

namespace TH.SeqCase
open TH.Proto TH.Lts.Seq

/-- a label of the LTS, or an assertion about the socket length observed on the implementation -/
inductive Ev where
  | lbl (l : Label)
  | sockLen (n : Nat)

def labelOf (s : String) : Option Label :=
  match s.toList with
  | ['I'] => some .issue
  | 'F' :: r => (natOfChars r 0).map .flush
  | 'D' :: r => (natOfChars r 0).map .drop
  | 'S' :: r => (natOfChars r 0).map .sock
  | 'W' :: r =>
    (match splitC ':' r with
     | [i, h] => (natOfChars i 0).map (fun i => .write i (unhex (String.ofList h)))
     | _ => none)
  | _ => none

def evOf (s : String) : Option Ev :=
  match s.toList with
  | 'C' :: r => (natOfChars r 0).map .sockLen
  | _ => (labelOf s).map .lbl

def runIdx : State → List Ev → Nat → State × Option Nat
  | s, [], _ => (s, none)
  | s, .lbl l :: ls, i =>
    (match step s l with
     | some s' => runIdx s' ls (i + 1)
     | none => (s, some i))
  | s, .sockLen n :: ls, i =>
    -- right after a flush returned: the model must have the same number of bytes on the socket
    if s.sock.length == n then runIdx s ls (i + 1) else (s, some i)

/-- bytes a writer's program submits, in program order. -/
def progBytes (p : String) : List Nat :=
  ((listS '.' p).filterMap (fun o => match o.toList with
    | 'w' :: h => some (unhex (String.ofList h))
    | _ => none)).flatten

def run (kv : KV) : String :=
  let strs := listS ',' (get kv "labels")
  let labels := strs.filterMap evOf
  let parsedAll := labels.length == strs.length
  let (s, rej) := runIdx {} labels 0
  let accepted := parsedAll && rej.isNone
  let sock := unhex (get kv "sock")
  let progs := splitS '|' (get kv "progs")
  let expected := (progs.map progBytes).flatten
  let quiet := get kv "quiet" == "1" && get kv "aborted" == "0"
  -- model vs implementation: the socket content, and nothing left in the buffer at the end
  let aSock := accepted && s.sock == sock && s.buf.isEmpty
  -- C01 on the implementation: everything submitted reached the socket, writer by writer, in
  -- issue order, nothing interleaved
  let c01 := sock == expected && quiet
  let tags := [
    "writers:" ++ toString (min progs.length 5),
    "untouched:" ++ b01 (progs.any (fun p => progBytes p == [] && !(listS '.' p).contains "f")),
    "big:" ++ b01 ((progs.map progBytes).any (fun b => decide (1024 < b.length))),
    "flushmid:" ++ b01 (strs.any (fun x => x.startsWith "F")) ]
  let diff := if !parsedAll then "unparsed-label"
    else match rej with
      | some i => "label-rejected:" ++ toString i ++ ":" ++ String.ofList ((strs.getD i "?").toList.take 40)
      | none => if !aSock then "sock:model_len=" ++ toString s.sock.length ++ ",buf=" ++ toString s.buf.length ++ ",impl_len=" ++ toString sock.length else "-"
  "res id=" ++ get kv "id" ++ " agree=" ++ b01 aSock ++ " skip=0 aC01=" ++ b01 aSock ++ " C01=" ++ b01 c01
    ++ " tags=" ++ ",".intercalate tags ++ " diff=" ++ diff

end TH.SeqCase
