/-
  ConnCase.lean — `conn` cases of the line protocol: run `Conn.run` on the case, compare with the
  implementation's observations (per observable), and evaluate the `ConnSpec` oracle on the
  implementation's observations.
-/
import TinyHttpModel.Proto
import TinyHttpModel.ParCase
import TinyHttpModel.ConnSpec
import TinyHttpModel.Req

namespace TH.ConnCase
open TH.Proto

def hdrsOf (s : String) : List Header :=
  (listS '+' s).map (fun p => match splitS '~' p with
    | n :: v :: _ => ⟨unhex n, unhex v⟩
    | [n] => ⟨unhex n, []⟩
    | [] => ⟨[], []⟩)

def respOf (f : List String) : RespSpec :=
  match f with
  | st :: hs :: decl :: thr :: ps :: _ =>
    ⟨toNatD st, hdrsOf hs, optNat decl, optNat thr, piecesOf '.' ps⟩
  | st :: hs :: decl :: thr :: [] => ⟨toNatD st, hdrsOf hs, optNat decl, optNat thr, []⟩
  | _ => ⟨200, [], some 0, none, []⟩

def opsOf (s : String) : List WOp :=
  (listS '.' s).map (fun o => if o == "f" then WOp.flush else WOp.write (unhex (String.ofList (o.toList.drop 1))))

def finishOf (s : String) : Finish :=
  match splitS ':' s with
  | "respondfail" :: n :: rest => .respondFail (respOf rest) (toNatD n)
  | "respond" :: rest => .respond (respOf rest)
  | "writer" :: ops :: _ => .writer (opsOf ops)
  | ["writer"] => .writer []
  | "upgrade" :: proto :: rest => .upgrade (unhex proto) (respOf (rest.take 5)) (opsOf ((rest.drop 5).headD ""))
  | _ => .drop          -- drop, panic

def numAfter (s : String) (k : Nat) : Nat := toNatD (String.ofList (s.toList.drop k))

def actionOf (s : String) : Action :=
  match splitS ',' s with
  | ar :: rd :: bs :: _dl :: zr :: fin =>
    { asReaderCalls := numAfter ar 2, readTotal := numAfter rd 2, bufSize := numAfter bs 2,
      fin := finishOf (",".intercalate fin), zeroRead := numAfter zr 2 == 1 }
  | _ => ⟨0, 0, 1, .drop, false⟩

/-- the script as a function of the request number; the parsed actions are an argument (an array
    computed once by the caller): a closure over a `let` would be re-evaluated at every call -/
def scriptOfActs (acts : Array Action) : Script :=
  fun i => match acts[i]? with
    | some a => a
    | none => match acts.back? with
      | some a => a
      | none => ⟨0, 0, 1, .drop, false⟩

def actsOf (s : String) : Array Action := ((listS '|' s).map actionOf).toArray

def scriptOf (s : String) : Script := scriptOfActs (actsOf s)

def b1 (s : String) : Bool := s == "1"

def ireqOf (s : String) : Spec.IReq :=
  match splitS ',' s with
  | [cls, m, u, v, hs, body, decl, last, ex, up] =>
    ⟨cls, unhex m, unhex u, versionOf v, hdrsOf hs, unhex body, optNat decl, b1 last, b1 ex, b1 up⟩
  | cls :: _ => ⟨cls, [], [], ⟨1, 1⟩, [], [], none, false, false, false⟩
  | [] => ⟨"", [], [], ⟨1, 1⟩, [], [], none, false, false, false⟩

def obsOf (s : String) : Spec.Obs :=
  match splitS ',' s with
  | [m, mk, u, v, hs, len, addr, body, rend] =>
    ⟨unhex m, mk.toUTF8.toList.map (·.toNat), unhex u, versionOf v, hdrsOf hs, optNat len, unhex body, rend, addr⟩
  | _ => ⟨[], [], [], ⟨0, 0⟩, [], none, [], "?", "?"⟩

def readEndStr : ReadEnd → String
  | .none => "none" | .eof => "eof" | .err => "err" | .pending => "pending"

def obsOfModel (unix : Bool) (d : Delivered) : Spec.Obs :=
  ⟨d.method.token, d.method.kind, d.url, d.version, d.headers, d.bodyLength, d.bodyRead, readEndStr d.readEnd,
   if unix then "none" else "tcp"⟩

def isPrefix (p l : Bytes) : Bool := startsWith l p

def run (kv : KV) : String :=
  let bytes := unhex (get kv "bytes")
  let mode := get kv "mode"
  let halfClose := mode != "open"
  let unix := get kv "unix" == "1"
  let acts := actsOf (get kv "script")
  let script := scriptOfActs acts
  let fin := if mode == "open" then EndState.open else if mode == "reset" then EndState.reset else EndState.eof
  -- after a full close or a reset the server's writes fail: what reaches the client is not compared
  let wireObservable := mode == "halfclose" || mode == "open"
  let big := get kv "bigcase" == "1"
  let t := if big then ({ delivered := [], out := [], flushed := 0, ending := .closed, unmodelled := true, statuses := [] } : Trace)
           else Conn.run bytes fin script
  -- implementation's observations
  let obs := (listS '|' (get kv "delivered")).map obsOf
  let wire := unhex (get kv "wire")
  let eof := get kv "eof" == "1"
  let hang := get kv "hang" == "1"
  let results := listS ',' (get kv "results")
  let mobs := t.delivered.map (obsOfModel unix)
  -- agreement per observable
  let strip (o : Spec.Obs) : Spec.Obs := { o with bodyRead := [], readEnd := "", addr := "" }
  let aHeads := big || mobs.map strip == obs.map strip
  -- a chunked body whose decoding fails or blocks: how many bytes the application had obtained by
  -- then depends on the segmentation (known finding of C13; `Props/C13.lean`, the `_masked`
  -- theorems) — the model predicts the outcome of the read, not that byte count
  let lossyAt (d : Delivered) : Bool := (d.readEnd == .err || d.readEnd == .pending) &&
    (match framingOf d.headers with | .ok fr => fr.kind == .chunked | .error _ => false)
  let maskedBodies : List (Bytes × String) := (t.delivered.zip mobs).map (fun (d, o) =>
    (if lossyAt d then [] else o.bodyRead, o.readEnd))
  let maskedObs : List (Bytes × String) := (obs.zipIdx).map (fun (o, i) =>
    (if (t.delivered[i]?.map lossyAt).getD false then [] else o.bodyRead, o.readEnd))
  let aBodies := big || (mobs.length == obs.length && maskedBodies == maskedObs)
  let aSeq := big || mobs.map (·.url) == obs.map (·.url)
  let werrAfter : Option Nat := if has kv "werr" then
      (match splitS ':' (get kv "werr") with
       | [_, n] => toNat? n
       | _ => none) else none
  let aWire := t.unmodelled || !wireObservable ||
    (match werrAfter with
     | some n => isPrefix wire t.out && decide (wire.length ≤ n) && decide (min n t.out.length ≤ wire.length + 48)
     | none => false) ||
    (if t.ending == .closed then wire == t.out
     else isPrefix (t.out.take t.flushed) wire && isPrefix wire t.out)
  -- the connection thread is one thing, the socket's write side another: once the request that
  -- ends the connection has been answered the last writer is gone and the write side is shut down,
  -- even while the discard of that request's unread body still waits for the client
  let answeredLast := t.ending == .waiting && (match t.delivered.getLast? with
    | some d => d.last && d.readEnd != .pending
    | none => false)
  let aEof := big || !wireObservable || eof == (t.ending == .closed || answeredLast)
  -- two-phase client: what had arrived when the client stopped to wait must be what the model
  -- says is on the wire after the first phase alone (stream still open)
  let holdN := toNat? (get kv "hold")
  let holdWire := unhex (get kv "holdwire")
  let aHold := match holdN with
    | some n =>
      if !has kv "holdwire" || big then true
      else
        let tp := Conn.run (bytes.take n) .open script
        tp.unmodelled || (isPrefix (tp.out.take tp.flushed) holdWire && isPrefix holdWire tp.out)
    | none => true
  -- (in the `expmt` family the earlier responses arrive in any case: there the interim response
  -- itself must be among what the withholding client has in hand)
  let holdOk := get kv "i_holdneed" != "1" ||
    (!holdWire.isEmpty && (get kv "i_fam" != "expmt" || containsSub holdWire b!"HTTP/1.1 100 "))
  -- read-ahead: how many requests become available while none is answered
  -- (with `streamed_first=1` the application reads the first, streamed body to its end on arrival)
  let aheadCount : Nat :=
    if get kv "streamed_first" == "1" then
      match readHead bytes fin with
      | .ok (h, rest) =>
        (match framingFor h.version h.headers with
         | .ok fr =>
           let (body, rest1) := initialBody fr.kind rest
           (match Body.drain (rest1.length + 2) body rest1 fin with
            | some rest2 => 1 + (Req.aheadLoop (rest2.length + 1) rest2 fin).1.length
            | none => 1)
         | .error _ => 0)
      | .error _ => 0
    else (Req.aheadLoop (bytes.length + 1) bytes fin).1.length
  let aAhead := !has kv "i_expect_received" || toString aheadCount == get kv "received"
  -- oracle on the implementation
  let hasIntent := has kv "i_reqs"
  let reqs := (listS '|' (get kv "i_reqs")).map ireqOf
  let e := Spec.expectConn halfClose reqs 0 script
  let v := Spec.judge e unix obs wire eof
  let okResults := results.all (· == "ok")
  let flag (k : String) : Bool := !has kv k || get kv k == "1"
  -- C11, second sentence: once a request with a streamed body has been answered or dropped its
  -- successors are delivered (`i_successors` = how many requests the application must get in all)
  let aheadOk := (!has kv "i_expect_received" || get kv "received" == get kv "i_expect_received")
    && (!has kv "i_successors" || toString obs.length == get kv "i_successors")
  let extra := ",same:" ++ b01 (flag "same") ++ ",prefix:" ++ b01 (flag "prefix" && flag "complete") ++ ",fresh:" ++ b01 (!has kv "fresh" || get kv "fresh" != "0")
    ++ ",nopanic:" ++ b01 (!has kv "panicked" || get kv "panicked" == "0") ++ ",ahead:" ++ b01 aheadOk
    ++ ",noabort:" ++ b01 ((!has kv "aborted" || get kv "aborted" == "0") && (!has kv "abort" || get kv "abort" == "0"))
    ++ ",hold:" ++ b01 holdOk
    ++ ",alloc:" ++ b01 (!has kv "maxalloc" || decide (toNatD (get kv "maxalloc") ≤ 262144 + 16 * toNatD (get kv "sent") + 8 * wire.length))
  let sub := "heads:" ++ b01 v.heads ++ ",bodies:" ++ b01 v.bodies ++ ",seq:" ++ b01 v.seq ++ ",wire:" ++ b01 v.wire
    ++ ",eof:" ++ b01 v.eof ++ ",addr:" ++ b01 (v.addr && toNatD (get kv "gone_noaddr") == 0) ++ ",nohang:" ++ b01 (!hang || get kv "i_stall" == "1") ++ ",results:" ++ b01 okResults
    ++ ",dates:" ++ b01 (get kv "dates" == "ok") ++ extra
  -- concurrent handlers: the handlers' event sequence must be an execution of `Lts.Par` whose
  -- submitted bytes are the client's bytes
  let readEndOfStr (x : String) : ReadEnd := if x == "eof" then .eof else if x == "err" then .err
    else if x == "pending" then .pending else .none
  let parV := if has kv "events" && !big then
      some (ParCase.judge bytes fin script (listS ',' (get kv "events")) wire
              (obs.map (fun o => (o.bodyRead, readEndOfStr o.readEnd))))
    else none
  let aPar := match parV with
    | some pv => pv.accepted && pv.terminal && pv.deliveredOk && (t.unmodelled || !wireObservable || pv.bytesOk)
    | none => true
  let agr := "heads:" ++ b01 aHeads ++ ",bodies:" ++ b01 aBodies ++ ",seq:" ++ b01 aSeq ++ ",wire:" ++ b01 aWire
    ++ ",eof:" ++ b01 aEof ++ ",ahead:" ++ b01 aAhead ++ ",hold:" ++ b01 aHold ++ ",par:" ++ b01 aPar
  let classes := (reqs.map (·.cls)).eraseDups
  let kinds := t.delivered.map (fun d => match (framingOf d.headers) with
    | .ok fr => (match fr.kind with
        | .upgrade => "upgrade" | .empty => "empty" | .buffered _ => "buffered" | .limited _ => "limited" | .chunked => "chunked")
    | .error _ => "err")
  let fins := (List.range t.delivered.length).map (fun i => match (script i).fin with
    | .respond _ => "respond" | .drop => "drop" | .writer ops => (if ops.isEmpty then "writer0" else "writer") | .upgrade .. => "upgrade"
    | .respondFail .. => "respondfail")
  let consumed := (List.range t.delivered.length).map (fun i =>
    let a := script i
    if a.asReaderCalls == 0 || a.readTotal == 0 then "none" else
      match t.delivered[i]? with
      | some d => if d.readEnd == .eof then "eof" else "some"
      | none => "none")
  let tags :=
    (classes.map ("class:" ++ ·)) ++ (kinds.eraseDups.map ("body:" ++ ·)) ++ (fins.eraseDups.map ("fin:" ++ ·))
      ++ (consumed.eraseDups.map ("consumed:" ++ ·))
      ++ (if has kv "i_fam" then ["fam:" ++ get kv "i_fam"] else [])
      ++ (if has kv "i_tag" then ["tag:" ++ String.ofList ((get kv "i_tag").toList.filter (fun c => !c.isDigit))] else [])
      ++ (if has kv "werr" then ["werr:1"] else [])
      ++ (if has kv "park" then ["park:" ++ get kv "park"] else [])
      ++ (if get kv "i_holdneed" == "1" then ["holdneed:1"] else [])
      ++ (if get kv "i_stall" == "1" then ["stall:1"] else [])
      ++ (if get kv "i_lateask" == "1" then ["lateask:1"] else [])
      ++ (if get kv "i_lossy" == "1" then ["lossygen:1"] else [])
      ++ (if (List.range t.delivered.length).any (fun i => (script i).zeroRead) then ["zeroread:1"] else [])
      ++ (if bytes.length > 300000 then ["size:huge"] else [])
      ++ (if t.delivered.any (fun d => (d.readEnd == .err || d.readEnd == .pending) &&
              (match framingOf d.headers with | .ok fr => fr.kind == .chunked | .error _ => false))
          then ["lossy:1"] else [])
      ++ (if has kv "streamed_first" then ["streamed_first:" ++ get kv "streamed_first"] else [])
      ++ (if has kv "cutk" then ["cut:" ++ (if t.delivered.isEmpty then "nothing" else "some")] else [])
      ++ ["mode:" ++ get kv "mode", "end:" ++ (if t.ending == .closed then "closed" else "waiting"),
          "n:" ++ toString (min t.delivered.length 5), "unix:" ++ b01 unix,
          "hold:" ++ b01 (get kv "hold" != "none"), "segs:" ++ b01 (get kv "segs" != "none")]
      ++ (t.statuses.eraseDups.map (fun s => "st:" ++ toString s))
      ++ (if parV.isSome then ["par:1"] else [])
  let allAgree := aHeads && aBodies && aSeq && aWire && aEof && aAhead && aHold && aPar
  let diff :=
    if allAgree then "-"
    else if !aPar then (match parV with
      | some pv => "par accepted=" ++ b01 pv.accepted ++ " rejected_at=" ++ (match pv.rejectedAt with | some n => toString n | none => "-")
          ++ " bytes=" ++ b01 pv.bytesOk ++ " terminal=" ++ b01 pv.terminal ++ " delivered=" ++ b01 pv.deliveredOk
      | none => "par")
    else if !aSeq || !aHeads then "delivered model=" ++ "|".intercalate (mobs.map (fun o => hex o.method ++ "," ++ hex o.url ++ "," ++ toString o.version.major ++ "." ++ toString o.version.minor ++ "," ++ showOptNat o.bodyLength))
    else if !aBodies then "bodies model=" ++ "|".intercalate (mobs.map (fun o => toString o.bodyRead.length ++ ":" ++ o.readEnd))
    else if !aWire then "wire model_len=" ++ toString t.out.length ++ " flushed=" ++ toString t.flushed ++ " impl_len=" ++ toString wire.length
      ++ " model_statuses=" ++ toString t.statuses
    else "eof model_end=" ++ (if t.ending == .closed then "closed" else "waiting")
  "res id=" ++ get kv "id" ++ " agree=" ++ b01 allAgree ++ " skip=" ++ b01 t.unmodelled
    ++ " intent=" ++ b01 hasIntent ++ " sub=" ++ sub ++ " agr=" ++ agr
    ++ " tags=" ++ ",".intercalate tags ++ " diff=" ++ String.ofList (diff.toList.map (fun c => if c == ' ' then '_' else c))

end TH.ConnCase
