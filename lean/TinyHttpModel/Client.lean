/-
  Client.lean — an independent client-side response parser following RFC 7230 §3.3.3.
  This is the *oracle* of C01, C04, C06, C10, C12, C18: it is written from the RFC, not from
  tiny-http's printer.
-/
import TinyHttpModel.Bytes
import TinyHttpModel.Lit
import TinyHttpModel.Resp

namespace TH.Client

/-- split at the first LF: (bytes before it, bytes after it). `none`: no LF. -/
def splitLF : Bytes → Option (Bytes × Bytes)
  | [] => none
  | b :: rest =>
    if b = 10 then some ([], rest)
    else match splitLF rest with
      | some (l, r) => some (b :: l, r)
      | none => none

/-- remove one trailing CR. -/
def stripCR : Bytes → Bytes
  | [] => []
  | [b] => if b = 13 then [] else [b]
  | b :: bs => b :: stripCR bs

/-- one line: up to the first LF, one CR directly before it removed. -/
def splitLine (bs : Bytes) : Option (Bytes × Bytes) :=
  match splitLF bs with
  | some (l, r) => some (stripCR l, r)
  | none => none

/-- optional whitespace: SP / HTAB -/
def isOws (b : Nat) : Bool := b == 32 || b == 9

def trimOwsStart : Bytes → Bytes
  | [] => []
  | b :: bs => if isOws b then trimOwsStart bs else b :: bs

def trimOwsEnd : Bytes → Bytes
  | [] => []
  | b :: bs =>
    match trimOwsEnd bs with
    | [] => if isOws b then [] else [b]
    | r => b :: r

def trimOws (bs : Bytes) : Bytes := trimOwsEnd (trimOwsStart bs)

/-- `HTTP-version SP status-code SP reason-phrase`; returns (version token, status). -/
def parseStatusLine (l : Bytes) : Option (Bytes × Nat) :=
  match splitFirst 32 l with
  | (v, some r) =>
    let (code, _) := splitFirst 32 r
    if startsWith v b!"HTTP/" then (ofDec code).map (fun n => (v, n)) else none
  | _ => none

def parseHeaderLine (l : Bytes) : Option Header :=
  match splitFirst 58 l with
  | (n, some v) => if n.isEmpty then none else some ⟨n, trimOws v⟩
  | _ => none

/-- header block up to the empty line. -/
def parseHeaders : Nat → Bytes → Option (List Header × Bytes)
  | 0, _ => none
  | fuel + 1, bs =>
    match splitLine bs with
    | none => none
    | some (l, rest) =>
      if l.isEmpty then some ([], rest)
      else match parseHeaderLine l, parseHeaders fuel rest with
        | some h, some (hs, r) => some (h :: hs, r)
        | _, _ => none

inductive BodyKind where
  | none | byLength | chunked | untilClose
deriving DecidableEq, Repr, Inhabited

structure Msg where
  version : Bytes
  status : Nat
  headers : List Header
  body : Bytes
  kind : BodyKind
deriving Repr, Inhabited

/-- chunk-size line: hex digits up to `;` (extensions ignored). -/
def parseChunkSize (l : Bytes) : Option Nat :=
  let (sz, _) := splitFirst 59 l
  ofHex (trimOws sz)

/-- skip the trailer section: lines up to and including the empty line. -/
def skipTrailers : Nat → Bytes → Option Bytes
  | 0, _ => none
  | fuel + 1, bs =>
    match splitLine bs with
    | none => none
    | some (l, rest) => if l.isEmpty then some rest else skipTrailers fuel rest

/-- decode a chunked body: (payload, rest). -/
def dechunk : Nat → Bytes → Option (Bytes × Bytes)
  | 0, _ => none
  | fuel + 1, bs =>
    match splitLine bs with
    | none => none
    | some (l, rest) =>
      match parseChunkSize l with
      | none => none
      | some 0 => (skipTrailers (rest.length + 1) rest).map (fun r => ([], r))
      | some n =>
        if rest.length < n + 2 then none
        else
          let payload := rest.take n
          match rest.drop n with
          | 13 :: 10 :: rest' =>
            (dechunk fuel rest').map (fun (p, r) => (payload ++ p, r))
          | _ => none

def hasChunked (hs : List Header) : Bool :=
  match findHeader hs b!"Transfer-Encoding" with
  | some h => containsSub (lower h.value) b!"chunked"
  | none => false

def noBodyFor (reqIsHead : Bool) (status : Nat) : Bool :=
  reqIsHead || (100 ≤ status && status ≤ 199) || status == 204 || status == 304

/-- one response message from the front of `bs`; `none` = not (yet) a complete message. -/
def decode (reqIsHead : Bool) (bs : Bytes) : Option (Msg × Bytes) :=
  match splitLine bs with
  | none => none
  | some (sl, r0) =>
    match parseStatusLine sl with
    | none => none
    | some (v, status) =>
      match parseHeaders (r0.length + 1) r0 with
      | none => none
      | some (hs, r1) =>
        if noBodyFor reqIsHead status then some (⟨v, status, hs, [], .none⟩, r1)
        else if hasChunked hs then
          (dechunk (r1.length + 1) r1).map (fun (p, r) => (⟨v, status, hs, p, .chunked⟩, r))
        else match findHeader hs b!"Content-Length" with
          | some h =>
            match ofDec (trimOws h.value) with
            | some n =>
              if r1.length < n then none
              else some (⟨v, status, hs, r1.take n, .byLength⟩, r1.drop n)
            | none => none
          | none => some (⟨v, status, hs, r1, .untilClose⟩, [])

/-- all messages of a response stream; `heads i` says whether the i-th *final* response answers
    a HEAD request. Interim (1xx) messages do not advance the request index.
    Returns the messages and the undecodable remainder. -/
def decodeAll : Nat → (Nat → Bool) → Nat → Bytes → List Msg × Bytes
  | 0, _, _, bs => ([], bs)
  | fuel + 1, heads, i, bs =>
    if bs.isEmpty then ([], [])
    else match decode (heads i) bs with
      | none => ([], bs)
      | some (m, rest) =>
        let interim := decide (100 ≤ m.status ∧ m.status ≤ 199)
        let (ms, r) := decodeAll fuel heads (if interim then i else i + 1) rest
        (m :: ms, r)

end TH.Client
