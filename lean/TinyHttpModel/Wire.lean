/-
  Wire.lean — M1: from client bytes to delivered requests and back.
  Mirrors src/client.rs (line reader, request line, header loop, error responses, version check,
  persistence), src/request.rs (new_request, as_reader, respond, Drop), src/util/equal_reader.rs,
  src/util/fused_reader.rs and chunked_transfer-1.5.0 `Decoder`.

  This file is the *flat* semantics: functions of the remaining client byte list and its end
  state, with no notion of read segmentation.  `WireOracle.lean` gives the same functions over a
  source whose reads return oracle-chosen segment sizes and proves them equal (C13).
-/
import TinyHttpModel.Bytes
import TinyHttpModel.Lit
import TinyHttpModel.Extracted
import TinyHttpModel.Resp

namespace TH

instance instDecEqExcept {ε α : Type} [DecidableEq ε] [DecidableEq α] : DecidableEq (Except ε α) :=
  fun a b => match a, b with
  | .ok x, .ok y => if h : x = y then isTrue (by rw [h]) else isFalse (fun h' => by cases h'; exact h rfl)
  | .error x, .error y => if h : x = y then isTrue (by rw [h]) else isFalse (fun h' => by cases h'; exact h rfl)
  | .ok _, .error _ => isFalse (fun h' => by cases h')
  | .error _, .ok _ => isFalse (fun h' => by cases h')

/-- how the client's byte stream ends: still open (more may come), orderly close, reset. -/
inductive EndState where
  | open | eof | reset
deriving DecidableEq, Repr, Inhabited

/-- outcome of a blocking read that cannot return data. -/
inductive Stop where
  | eof        -- read returned 0
  | reset      -- read returned an error
  | pending    -- the thread blocks: the client is silent but connected
deriving DecidableEq, Repr, Inhabited

def EndState.stop : EndState → Stop
  | .open => .pending
  | .eof => .eof
  | .reset => .reset

/-! ## Line reader (client.rs:80-102) -/

/-- split at the first CR LF: (bytes before it, bytes after it). -/
def findCRLF : Bytes → Option (Bytes × Bytes)
  | [] => none
  | b :: rest =>
    match b, rest with
    | 13, 10 :: rest' => some ([], rest')
    | _, _ =>
      match findCRLF rest with
      | some (l, r) => some (b :: l, r)
      | none => none

inductive LineRes where
  | line (l rest : Bytes)
  | notAscii (rest : Bytes)     -- InvalidInput "Header is not in ASCII"
  | stop (s : Stop)             -- ran out of bytes
deriving Repr

def readLine (bs : Bytes) (fin : EndState) : LineRes :=
  match findCRLF bs with
  | some (l, rest) => if isAscii l then .line l rest else .notAscii rest
  | none => .stop fin.stop

/-! ## Request line and headers -/

structure Method where
  token : Bytes
deriving DecidableEq, Repr, Inhabited

/-- constructor name of `Method` for a token (`NonStandard` for extension tokens). -/
def lookupMethod (tok : Bytes) : List (Bytes × Bytes) → Bytes
  | [] => b!"NonStandard"
  | (lit, ctor) :: rest => if lit = tok then ctor else lookupMethod tok rest

def Method.kind (m : Method) : Bytes := lookupMethod m.token Extracted.methodTable

def Method.isHead (m : Method) : Bool := m.kind == b!"Head"

def lookupVersion (tok : Bytes) : List (Bytes × (Nat × Nat)) → Option Version
  | [] => none
  | (lit, (a, b)) :: rest => if lit = tok then some ⟨a, b⟩ else lookupVersion tok rest

/-- `parse_http_version` (client.rs:269-280). -/
def parseVersion (tok : Bytes) : Option Version := lookupVersion tok Extracted.versionTable

/-- `parse_request_line` on the trimmed line (client.rs:284-294). -/
def parseRequestLine (line : Bytes) : Option (Method × Bytes × Version) :=
  match splitOn 32 (trim line) with
  | m :: p :: v :: _ =>
    match parseVersion v with
    | some ver => some (⟨m⟩, p, ver)
    | none => none
  | _ => none

/-- `Header::from_str` applied to the line with trailing whitespace removed
    (client.rs:126 after the F2 repair: leading whitespace is *not* removed, so it ends up in the
    field name and is rejected by `HeaderField::from_str`). -/
def parseHeaderLine (line : Bytes) : Option Header :=
  match splitFirst 58 (trimEnd line) with
  | (n, some v) => if n.any isWs then none else some ⟨n, trim v⟩
  | (_, none) => none

inductive HeadErr where
  | wrongRequestLine
  | wrongHeader (v : Version)
  | notAscii
  | stop (s : Stop)
deriving DecidableEq, Repr

structure Head where
  method : Method
  url : Bytes
  version : Version
  headers : List Header
deriving DecidableEq, Repr, Inhabited

/-- the header loop of `ClientConnection::read` (client.rs:118-134); fuel ≥ number of lines. -/
def readHeaders : Nat → Version → Bytes → EndState → Except HeadErr (List Header × Bytes)
  | 0, _, _, _ => .error (.stop .pending)
  | fuel + 1, ver, bs, fin =>
    match readLine bs fin with
    | .stop s => .error (.stop s)
    | .notAscii _ => .error .notAscii
    | .line l rest =>
      if l.isEmpty then .ok ([], rest)
      else match parseHeaderLine l with
        | none => .error (.wrongHeader ver)
        | some h =>
          match readHeaders fuel ver rest fin with
          | .ok (hs, r) => .ok (h :: hs, r)
          | .error e => .error e

/-- request line + headers: one head from the front of the stream. -/
def readHead (bs : Bytes) (fin : EndState) : Except HeadErr (Head × Bytes) :=
  match readLine bs fin with
  | .stop s => .error (.stop s)
  | .notAscii _ => .error .notAscii
  | .line l rest =>
    match parseRequestLine l with
    | none => .error .wrongRequestLine
    | some (m, p, v) =>
      match readHeaders (rest.length + 1) v rest fin with
      | .ok (hs, r) => .ok (⟨m, p, v, hs⟩, r)
      | .error e => .error e

/-! ## Framing (request.rs:143-227) -/

inductive BodyKind where
  | upgrade                 -- the whole rest of the connection
  | empty
  | buffered (n : Nat)      -- read at parse time
  | limited (n : Nat)       -- EqualReader + FusedReader over the socket
  | chunked                 -- chunk decoder + FusedReader over the socket
deriving DecidableEq, Repr, Inhabited

inductive CreateErr where
  | expectationFailed
  | badContentLength        -- F3 repair: a Content-Length that is not 1*DIGIT representable in usize
  | bodyEof (s : Stop)      -- EOF/error while buffering a small body
deriving DecidableEq, Repr

/-- strict `1*DIGIT` and representable. -/
def strictContentLength (v : Bytes) : Option Nat :=
  match ofDec v with
  | some n => if n ≤ usizeMax then some n else none
  | none => none

structure Framing where
  kind : BodyKind
  bodyLength : Option Nat
  expectContinue : Bool
deriving DecidableEq, Repr, Inhabited

/-- the decisions of `new_request` that depend on the headers only. -/
def framingOf (hs : List Header) : Except CreateErr Framing :=
  let te := findHeader hs b!"Transfer-Encoding"
  -- every Content-Length header must be a plain decimal number (F3 repair)
  if (hs.filter (·.is b!"Content-Length")).any (fun h => (strictContentLength h.value).isNone) then
    .error .badContentLength
  else
    let cl : Option Nat :=
      if te.isSome then none
      else match findHeader hs b!"Content-Length" with
        | some h => strictContentLength h.value
        | none => none
    let expect : Except CreateErr Bool :=
      match findHeader hs b!"Expect" with
      | none => .ok false
      | some h => if eqIgnoreCase h.value b!"100-continue" then .ok true else .error .expectationFailed
    match expect with
    | .error e => .error e
    | .ok ex =>
      let up := match findHeader hs b!"Connection" with
        | some h => containsSub (lower h.value) b!"upgrade"
        | none => false
      let kind : BodyKind :=
        if up then .upgrade
        else match cl with
          | some n =>
            if n = 0 then .empty
            else if n ≤ Extracted.smallBodyLimit && !ex then .buffered n
            else .limited n
          | none => if te.isSome then .chunked else .empty
      .ok ⟨kind, cl, ex⟩

/-- the decisions of `new_request` for a request whose version the server does not speak (it is
    answered with 505 and the connection goes on).  `new_request` honours the `upgrade` option of
    the Connection header only for the versions the server speaks
    (`connection_upgrade = version <= (1,1) && …`), so for a refused request the option is not
    looked at (`up := false`): its body is framed by Transfer-Encoding / Content-Length like the
    body of any other request, and skipped.  Everything else is as in `framingOf`
    (Content-Length validity first, then Expect, then the reader choice). -/
def framingOfRefused (hs : List Header) : Except CreateErr Framing :=
  let te := findHeader hs b!"Transfer-Encoding"
  if (hs.filter (·.is b!"Content-Length")).any (fun h => (strictContentLength h.value).isNone) then
    .error .badContentLength
  else
    let cl : Option Nat :=
      if te.isSome then none
      else match findHeader hs b!"Content-Length" with
        | some h => strictContentLength h.value
        | none => none
    let expect : Except CreateErr Bool :=
      match findHeader hs b!"Expect" with
      | none => .ok false
      | some h => if eqIgnoreCase h.value b!"100-continue" then .ok true else .error .expectationFailed
    match expect with
    | .error e => .error e
    | .ok ex =>
      let kind : BodyKind :=
        match cl with
          | some n =>
            if n = 0 then .empty
            else if n ≤ Extracted.smallBodyLimit && !ex then .buffered n
            else .limited n
          | none => if te.isSome then .chunked else .empty
      .ok ⟨kind, cl, ex⟩

/-- the framing of a freshly parsed request: `new_request` looks at the `upgrade` option only when
    `version <= (1,1)`, i.e. when the request is not going to be refused with 505. -/
def framingFor (v : Version) (hs : List Header) : Except CreateErr Framing :=
  if (⟨Extracted.maxVersion.1, Extracted.maxVersion.2⟩ : Version).lt v then framingOfRefused hs
  else framingOf hs

theorem framingFor_of_not_high (v : Version) (hs : List Header)
    (hv : (⟨Extracted.maxVersion.1, Extracted.maxVersion.2⟩ : Version).lt v = false) :
    framingFor v hs = framingOf hs := by
  unfold framingFor; rw [hv]; rfl

theorem framingFor_of_high (v : Version) (hs : List Header)
    (hv : (⟨Extracted.maxVersion.1, Extracted.maxVersion.2⟩ : Version).lt v = true) :
    framingFor v hs = framingOfRefused hs := by
  unfold framingFor; rw [hv]; rfl

/-- the upgrade option as `framingOf` sees it. -/
def upgradeOption (hs : List Header) : Bool :=
  match findHeader hs b!"Connection" with
  | some h => containsSub (lower h.value) b!"upgrade"
  | none => false

/-- without the upgrade option the two framings are the same. -/
theorem framingOfRefused_eq_of_upgradeOption_false (hs : List Header)
    (hu : upgradeOption hs = false) : framingOfRefused hs = framingOf hs := by
  unfold upgradeOption at hu
  unfold framingOfRefused framingOf
  simp only [hu]
  rfl

/-- when the first Connection header does not contain `upgrade`, or there is none, the two
    framings are the same. -/
theorem framingOfRefused_eq_of_no_upgrade (hs : List Header)
    (hu : ∀ c, findHeader hs b!"Connection" = some c →
      containsSub (lower c.value) b!"upgrade" = false) :
    framingOfRefused hs = framingOf hs := by
  apply framingOfRefused_eq_of_upgradeOption_false
  unfold upgradeOption
  cases hc : findHeader hs b!"Connection" with
  | none => rfl
  | some c => exact hu c hc

/-- `framingOf` is `framingOfRefused` with the kind replaced by `.upgrade` when the upgrade option
    is present: errors, declared length and expectation are the same. -/
theorem framingOf_eq_refused (hs : List Header) :
    framingOf hs =
      match framingOfRefused hs with
      | .error e => .error e
      | .ok fr => .ok ⟨if upgradeOption hs then .upgrade else fr.kind, fr.bodyLength, fr.expectContinue⟩ := by
  unfold framingOf framingOfRefused upgradeOption
  generalize ((hs.filter (·.is b!"Content-Length")).any (fun h => (strictContentLength h.value).isNone)) = bad
  generalize findHeader hs b!"Expect" = ex
  generalize (match findHeader hs b!"Connection" with
    | some h => containsSub (lower h.value) b!"upgrade"
    | none => false) = up
  cases bad
  · cases ex with
    | none => cases up <;> rfl
    | some e =>
      dsimp only
      cases eqIgnoreCase e.value b!"100-continue" <;> cases up <;> rfl
  · rfl

private theorem kindOf_ne_upgrade (cl : Option Nat) (te x : Bool) :
    (match cl with
      | some n =>
        if n = 0 then BodyKind.empty
        else if n ≤ Extracted.smallBodyLimit && !x then .buffered n
        else .limited n
      | none => if te then .chunked else .empty) ≠ BodyKind.upgrade := by
  cases cl with
  | none => dsimp only; split <;> (intro h; cases h)
  | some n =>
    dsimp only
    split
    · intro h; cases h
    · split <;> (intro h; cases h)

/-- `framingOfRefused` never says `.upgrade`. -/
theorem framingOfRefused_kind_ne_upgrade (hs : List Header) (fr : Framing)
    (hf : framingOfRefused hs = .ok fr) : fr.kind ≠ .upgrade := by
  unfold framingOfRefused at hf
  generalize ((hs.filter (·.is b!"Content-Length")).any (fun h => (strictContentLength h.value).isNone)) = bad at hf
  generalize findHeader hs b!"Expect" = ex at hf
  cases bad
  · cases ex with
    | none => cases hf; exact kindOf_ne_upgrade _ _ false
    | some e =>
      dsimp only at hf
      cases he : eqIgnoreCase e.value b!"100-continue" <;> rw [he] at hf
      · cases hf
      · cases hf; exact kindOf_ne_upgrade _ _ true
  · cases hf

/-- with the upgrade option, `framingOf` says `.upgrade` where `framingOfRefused` frames the body
    by its headers; declared length and expectation are the same. -/
theorem framingOf_of_refused_upgrade (hs : List Header) (fr : Framing)
    (hu : upgradeOption hs = true) (hf : framingOfRefused hs = .ok fr) :
    framingOf hs = .ok ⟨.upgrade, fr.bodyLength, fr.expectContinue⟩ := by
  rw [framingOf_eq_refused, hf, hu]; rfl

/-- the other direction: a result of `framingOf` gives the result of `framingOfRefused`, with the
    same declared length and expectation, and the same kind unless `framingOf` says `.upgrade`. -/
theorem framingOfRefused_of_framingOf (hs : List Header) (fr' : Framing) (hf : framingOf hs = .ok fr') :
    ∃ fr, framingOfRefused hs = .ok fr ∧ fr.bodyLength = fr'.bodyLength ∧
      fr.expectContinue = fr'.expectContinue ∧ fr.kind ≠ .upgrade ∧
      (fr'.kind ≠ .upgrade → fr.kind = fr'.kind) := by
  rw [framingOf_eq_refused] at hf
  cases hr : framingOfRefused hs with
  | error e => rw [hr] at hf; cases hf
  | ok fr =>
    rw [hr] at hf
    cases hf
    refine ⟨fr, rfl, rfl, rfl, framingOfRefused_kind_ne_upgrade hs fr hr, ?_⟩
    dsimp only
    cases upgradeOption hs
    · intro _; rfl
    · intro h; exact (h rfl).elim

/-- the two framings fail on the same header lists, with the same error. -/
theorem framingOfRefused_error_iff (hs : List Header) (e : CreateErr) :
    framingOfRefused hs = .error e ↔ framingOf hs = .error e := by
  rw [framingOf_eq_refused]
  cases framingOfRefused hs with
  | error e' => exact Iff.rfl
  | ok fr => constructor <;> (intro h; cases h)

/-- request creation fails for a refused version exactly when it fails for a spoken one. -/
theorem framingFor_error_iff (v : Version) (hs : List Header) (e : CreateErr) :
    framingFor v hs = .error e ↔ framingOf hs = .error e := by
  unfold framingFor
  split
  · exact framingOfRefused_error_iff hs e
  · exact Iff.rfl

/-- a result of `framingFor` for a refused version is a result of `framingOfRefused`. -/
theorem framingFor_ok_high (v : Version) (hs : List Header) (fr : Framing)
    (hv : (⟨Extracted.maxVersion.1, Extracted.maxVersion.2⟩ : Version).lt v = true) :
    framingFor v hs = .ok fr ↔ framingOfRefused hs = .ok fr := by
  rw [framingFor_of_high v hs hv]

/-- whatever the version: a result of `framingFor` has the declared length and expectation that
    `framingOf` gives, and the same kind unless `framingOf` says `.upgrade`. -/
theorem framingOf_of_framingFor (v : Version) (hs : List Header) (fr : Framing)
    (hf : framingFor v hs = .ok fr) :
    ∃ fr', framingOf hs = .ok fr' ∧ fr.bodyLength = fr'.bodyLength ∧
      fr.expectContinue = fr'.expectContinue ∧ (fr'.kind ≠ .upgrade → fr.kind = fr'.kind) := by
  unfold framingFor at hf
  split at hf
  · rw [framingOf_eq_refused, hf]
    refine ⟨_, rfl, rfl, rfl, ?_⟩
    dsimp only
    cases upgradeOption hs
    · intro _; rfl
    · intro h; exact (h rfl).elim
  · exact ⟨fr, hf, rfl, rfl, fun _ => rfl⟩

/-- a framing other than `.upgrade` is the framing of the request whatever its version. -/
theorem framingFor_of_framingOf_not_upgrade (v : Version) (hs : List Header) (fr : Framing)
    (hf : framingOf hs = .ok fr) (hne : fr.kind ≠ .upgrade) : framingFor v hs = .ok fr := by
  unfold framingFor
  split
  · obtain ⟨fr', hf', h1, h2, -, h3⟩ := framingOfRefused_of_framingOf hs fr hf
    rw [hf']
    have h3 := h3 hne
    cases fr; cases fr'
    simp only at h1 h2 h3
    rw [h1, h2, h3]
  · exact hf

/-- the relation between the two framings: errors are the same; results have the same declared
    length and expectation; the kinds differ only where `framingOf` says `.upgrade`. -/
theorem framingOf_refused_rel (hs : List Header) :
    match framingOfRefused hs, framingOf hs with
    | .error e, .error e' => e = e'
    | .ok fr, .ok fr' => fr.bodyLength = fr'.bodyLength ∧ fr.expectContinue = fr'.expectContinue ∧
        (fr.kind = fr'.kind ∨ (fr'.kind = .upgrade ∧ upgradeOption hs = true)) ∧ fr.kind ≠ .upgrade
    | _, _ => False := by
  rw [framingOf_eq_refused]
  cases hr : framingOfRefused hs with
  | error e => rfl
  | ok fr =>
    refine ⟨rfl, rfl, ?_, framingOfRefused_kind_ne_upgrade hs fr hr⟩
    dsimp only
    cases upgradeOption hs
    · exact Or.inl rfl
    · exact Or.inr ⟨rfl, rfl⟩

/-! ## Chunk decoder (chunked_transfer::Decoder) as a function of the remaining bytes -/

/-- state of the body reader of one request. -/
inductive Body where
  | done                              -- returned EOF already / nothing to read; socket reader released
  | cursor (data : Bytes)             -- buffered small body (Cursor over a Vec)
  | limited (remaining : Nat)         -- EqualReader: bytes still to come from the socket
  | chunked (inChunk : Option Nat)    -- Decoder: bytes left in the current chunk (none = at a size line)
  | raw                               -- upgrade: the socket reader itself
  | failed                            -- a previous read returned an error (decoder in an undefined position)
deriving DecidableEq, Repr, Inhabited

/-- `read_chunk_size` + `read_line_feed`: size line up to CR (or `;` + extension up to CR), LF.
    Returns (size, rest).  `none`: malformed; `stop`: ran out of bytes. -/
inductive SizeRes where
  | ok (n : Nat) (rest : Bytes)
  | bad (rest : Bytes)
  | stop (s : Stop)
deriving Repr

/-- bytes up to (excluding) the first CR or `;`; tells which one ended it. -/
def takeSizeField : Bytes → Option (Bytes × Bool × Bytes)
  | [] => none
  | b :: rest =>
    if b = 13 then some ([], false, rest)
    else if b = 59 then some ([], true, rest)
    else match takeSizeField rest with
      | some (f, e, r) => some (b :: f, e, r)
      | none => none

/-- skip an extension up to and including CR. -/
def skipToCR : Bytes → Option Bytes
  | [] => none
  | b :: rest => if b = 13 then some rest else skipToCR rest

def isUtf8Ascii (bs : Bytes) : Bool := bs.all (· < 128)

def readChunkSize (bs : Bytes) (fin : EndState) : SizeRes :=
  match takeSizeField bs with
  | none => if fin == .open then .stop .pending else .bad []   -- EOF inside the size line: InvalidInput
  | some (f, ext, r1) =>
    let r2 := if ext then skipToCR r1 else some r1
    match r2 with
    | none => if fin == .open then .stop .pending else .bad []
    | some r2 =>
      match r2 with
      | [] => if fin == .open then .stop .pending else .bad []
      | b :: r3 =>
        if b != 10 then .bad r3
        else
          -- String::from_utf8 then usize::from_str_radix(trim, 16)
          -- (non-ASCII bytes: either invalid UTF-8 or not hex digits — an error both ways)
          match (if isUtf8Ascii f then usizeFromHex (trim f) else none) with
          | some n => .ok n r3
          | none => .bad r3

/-- expect CR LF (`read_carriage_return`, `read_line_feed`). -/
def expectCRLF (bs : Bytes) (fin : EndState) : Option (Except Stop Bytes) :=
  match bs with
  | 13 :: 10 :: rest => some (.ok rest)
  | [] => if fin == .open then some (.error .pending) else none
  | [13] => if fin == .open then some (.error .pending) else none
  | _ => none

/-! ## Reading the body -/

inductive ReadOut where
  | data (d : Bytes)     -- one successful read returning ≥ 1 byte
  | eof                  -- Ok(0)
  | err                  -- Err(_)
  | pending              -- blocks forever
deriving DecidableEq, Repr, Inhabited

/-- One `read` with a buffer of `want ≥ 1` bytes on the body reader, in the flat semantics where the
    socket hands over everything that is asked for and available.
    Returns the outcome, the new reader state and the remaining client bytes. -/
def Body.read (b : Body) (want : Nat) (bs : Bytes) (fin : EndState) : ReadOut × Body × Bytes :=
  match b with
  | .done => (.eof, .done, bs)
  | .failed => (.err, .failed, bs)
  | .cursor d =>
    if d.isEmpty then (.eof, .cursor [], bs) else (.data (d.take want), .cursor (d.drop want), bs)
  | .raw =>
    match bs with
    | [] => (match fin.stop with
        | .eof => (.eof, .raw, [])
        | .reset => (.err, .raw, [])
        | .pending => (.pending, .raw, []))
    | _ => (.data (bs.take want), .raw, bs.drop want)
  | .limited rem =>
    if rem = 0 then (.eof, .done, bs)      -- EqualReader returns 0; FusedReader drops it
    else match bs with
      | [] => (match fin.stop with
          | .eof => (.eof, .done, [])        -- inner EOF: fused, EqualReader dropped (drain sees EOF)
          | .reset => (.err, .limited rem, [])
          | .pending => (.pending, .limited rem, []))
      | _ =>
        let n := min (min want rem) bs.length
        (.data (bs.take n), .limited (rem - n), bs.drop n)
  | .chunked inChunk =>
    -- size line first, if we are between chunks
    let start : Option (Nat × Bytes) ⊕ ReadOut × Body × Bytes :=
      match inChunk with
      | some c => .inl (some (c, bs))
      | none =>
        match readChunkSize bs fin with
        | .stop _ => .inr (.pending, .chunked none, bs)
        | .bad r => .inr (.err, .failed, r)
        | .ok 0 r =>
          (match expectCRLF r fin with
           | some (.ok r') => .inr (.eof, .done, r')
           | some (.error _) => .inr (.pending, .chunked none, bs)
           | none => .inr (.err, .failed, r))
        | .ok c r => .inl (some (c, r))
    match start with
    | .inr res => res
    | .inl none => (.err, .failed, bs)
    | .inl (some (c, r)) =>
      match r with
      | [] => (match fin.stop with
          | .eof => (.eof, .done, [])          -- source.read returned 0: Ok(0), fused
          | .reset => (.err, .failed, [])
          | .pending => (.pending, .chunked (some c), []))
      | _ =>
        if want < c then
          let n := min want r.length
          (.data (r.take n), .chunked (some (c - n)), r.drop n)
        else
          let n := min c r.length
          let r' := r.drop n
          if n = c then
            -- chunk complete: its CRLF is consumed inside the same read
            match expectCRLF r' fin with
            | some (.ok r'') => (.data (r.take n), .chunked none, r'')
            | some (.error _) => (.pending, .chunked (some 0), r')   -- data taken, thread blocks in CRLF
            | none => (.err, .failed, r')
          else (.data (r.take n), .chunked (some (c - n)), r')

/-! Compiler-only replacement (`@[csimp]`): `Body.read` asks for `min … bs.length`, and `bs.length`
    walks the whole remaining stream on every read, which makes discarding a body sent in many small
    chunks quadratic in the length of the connection's stream.  `(bs.take k).length` is the same number
    and costs `k`.  The theorems are about `Body.read`; the kernel checks the equality below, the
    compiled driver uses the right-hand side. -/
def Body.readFast (b : Body) (want : Nat) (bs : Bytes) (fin : EndState) : ReadOut × Body × Bytes :=
  match b with
  | .done => (.eof, .done, bs)
  | .failed => (.err, .failed, bs)
  | .cursor d =>
    if d.isEmpty then (.eof, .cursor [], bs) else (.data (d.take want), .cursor (d.drop want), bs)
  | .raw =>
    match bs with
    | [] => (match fin.stop with
        | .eof => (.eof, .raw, [])
        | .reset => (.err, .raw, [])
        | .pending => (.pending, .raw, []))
    | _ => (.data (bs.take want), .raw, bs.drop want)
  | .limited rem =>
    if rem = 0 then (.eof, .done, bs)
    else match bs with
      | [] => (match fin.stop with
          | .eof => (.eof, .done, [])
          | .reset => (.err, .limited rem, [])
          | .pending => (.pending, .limited rem, []))
      | _ =>
        let n := (bs.take (min want rem)).length
        (.data (bs.take n), .limited (rem - n), bs.drop n)
  | .chunked inChunk =>
    let start : Option (Nat × Bytes) ⊕ ReadOut × Body × Bytes :=
      match inChunk with
      | some c => .inl (some (c, bs))
      | none =>
        match readChunkSize bs fin with
        | .stop _ => .inr (.pending, .chunked none, bs)
        | .bad r => .inr (.err, .failed, r)
        | .ok 0 r =>
          (match expectCRLF r fin with
           | some (.ok r') => .inr (.eof, .done, r')
           | some (.error _) => .inr (.pending, .chunked none, bs)
           | none => .inr (.err, .failed, r))
        | .ok c r => .inl (some (c, r))
    match start with
    | .inr res => res
    | .inl none => (.err, .failed, bs)
    | .inl (some (c, r)) =>
      match r with
      | [] => (match fin.stop with
          | .eof => (.eof, .done, [])
          | .reset => (.err, .failed, [])
          | .pending => (.pending, .chunked (some c), []))
      | _ =>
        if want < c then
          let n := (r.take want).length
          (.data (r.take n), .chunked (some (c - n)), r.drop n)
        else
          let n := (r.take c).length
          let r' := r.drop n
          if n = c then
            match expectCRLF r' fin with
            | some (.ok r'') => (.data (r.take n), .chunked none, r'')
            | some (.error _) => (.pending, .chunked (some 0), r')
            | none => (.err, .failed, r')
          else (.data (r.take n), .chunked (some (c - n)), r')

@[csimp] theorem Body.read_eq_readFast : @Body.read = @Body.readFast := by
  funext b want bs fin
  cases b <;> simp only [Body.read, Body.readFast, List.length_take] <;> rfl


/-- Read until `total` bytes were obtained (asking for `min bufSize (total - got)` each time), or
    until a read does not return data.  `fuel` bounds the number of reads.
    Returns (bytes obtained, last non-data outcome if any, reader, remaining bytes). -/
def Body.readUpTo : Nat → Body → Nat → Nat → Bytes → EndState → Bytes × Option ReadOut × Body × Bytes
  | 0, b, _, _, bs, _ => ([], none, b, bs)
  | fuel + 1, b, bufSize, total, bs, fin =>
    if total = 0 then ([], none, b, bs)
    else match b.read (min bufSize total) bs fin with
      | (.data d, b', bs') =>
        if d.isEmpty then ([], none, b', bs')
        else
          let (more, o, b'', bs'') := Body.readUpTo fuel b' bufSize (total - d.length) bs' fin
          (d ++ more, o, b'', bs'')
      | (o, b', bs') => ([], some o, b', bs')

/-- What dropping the body reader does to the connection's byte stream: the unread remainder of
    the body is discarded (EqualReader::drop; chunked bodies after the F4 repair).
    `none`: the discard loop blocks (client silent, connection open). -/
def Body.drain : Nat → Body → Bytes → EndState → Option Bytes
  | 0, _, bs, _ => some bs
  | fuel + 1, b, bs, fin =>
    match b with
    | .done | .cursor _ | .raw | .failed => some bs
    | .limited rem =>
      -- the discard loop reads until `rem` bytes went by, or EOF / an error ends it
      if rem ≤ bs.length then some (bs.drop rem)
      else if fin == .open then none else some []
    | .chunked _ =>
      match b.read 4096 bs fin with
      | (.data _, b', bs') => Body.drain fuel b' bs' fin
      | (.pending, _, _) => none
      | (_, _, bs') => some bs'

end TH
