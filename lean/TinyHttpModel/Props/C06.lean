/-
  C06 — exactly one final response per delivered request; a dropped request gets a 500.
-/
import TinyHttpModel.Req
import TinyHttpModel.Lts.Seq
import TinyHttpModel.WireSpec
import TinyHttpModel.Lemmas.SeqInv

namespace TH.Props.C06
open TH TH.Req

/-- Every complete handling of a request — any number of `as_reader` calls followed by exactly
    one consuming operation (Rust ownership admits no other shape) — produces exactly one final
    response event: the response passed to `respond`, the raw writer, the upgrade response, or the
    automatic 500 when the request is dropped (also by a panicking handler). -/
theorem one_final_response (mc : Bool) (n : Nat) (last : Op) (hl : last ≠ .asReader) :
    ∃ s, run { mustContinue := mc } (List.replicate n .asReader ++ [last]) = some s ∧
      (s.emitted.filter isFinal).length = 1 ∧ s.alive = false ∧ s.writerSlot = false := by
  rw [run_append, run_replicate_asReader _ n rfl]
  by_cases hc : mc = true ∧ 0 < n
  · cases last with
    | asReader => exact absurd rfl hl
    | _ => simp [hc, run, step] <;> rfl
  · cases last with
    | asReader => exact absurd rfl hl
    | _ => simp [hc, run, step] <;> rfl

/-- a dropped request gets a 500, and only a dropped one does. -/
theorem dropped_gets_500 (mc : Bool) (n : Nat) :
    ∃ s, run { mustContinue := mc } (List.replicate n .asReader ++ [.drop]) = some s ∧
      s.emitted.filter isFinal = [.final 500] := by
  rw [run_append, run_replicate_asReader _ n rfl]
  by_cases hc : mc = true ∧ 0 < n
  · simp [hc, run, step, isFinal]
  · simp [hc, run, step, isFinal]

/-- no request is answered twice: after the consuming operation nothing more is possible. -/
theorem nothing_after_consumption (s : RState) (h : s.alive = false) (o : Op) : step s o = none := by
  exact step_dead s h o

/-- the interim 100 appears at most once and only before the final response. -/
theorem interim_only_first (s0 s : RState) (ops : List Op) (h0 : s0.emitted = []) (hr : run s0 ops = some s) :
    (s.emitted.filter (· == .interim100)).length ≤ 1 ∧
    (∀ pre post, s.emitted = pre ++ [.interim100] ++ post → pre = []) := by
  exact shape_concl (shape_run ops s0 s (Or.inl (Or.inl h0)) hr)

/-- in the connection model the same holds for what reaches the wire: the statuses generated for
    a handled request are `[100]?` then the finish's own status (C18.continue_exactly_once), so a
    `respond`, `drop` or `upgrade` yields exactly one final status. -/
theorem finish_status_single (f : Finish) (h : ∀ ops, f ≠ .writer ops) : (Spec.finishStatus f).length = 1 := by
  cases f with
  | respond r => rfl
  | drop => rfl
  | writer ops => exact absurd rfl (h ops)
  | upgrade p r ops => rfl
  | respondFail r n => rfl

/-- a dropped request never holds up the responses that follow it: once its writer is dropped,
    the next writer has its turn (Seq LTS). -/
theorem drop_releases_successor (s s' : Lts.Seq.State) (h : Lts.Seq.Reachable s) (i : Nat)
    (hs : Lts.Seq.step s (.drop i) = some s') (hn : i + 1 < s'.writers.length)
    (ha : Lts.Seq.isDropped s' (i + 1) = false) : Lts.Seq.hasTurn s' (i + 1) = true := by
  have _ := h
  obtain ⟨hd, _⟩ := Lts.Seq.isDropped_after_drop hs
  unfold Lts.Seq.hasTurn
  simp [hn, ha, hd]

end TH.Props.C06
