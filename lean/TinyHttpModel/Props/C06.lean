/-
  C06 — exactly one final response per delivered request; a dropped request gets a 500.
-/
import TinyHttpModel.Req
import TinyHttpModel.Lts.Seq
import TinyHttpModel.WireSpec
import TinyHttpModel.Lemmas.SeqInv
import TinyHttpModel.Lemmas.PipelineStatuses
import TinyHttpModel.Props.C18

namespace TH.Props.C06
open TH TH.Req

/-- Every complete handling of a request — any number of `as_reader` calls followed by exactly
    one consuming operation (Rust ownership admits no other shape) — produces exactly one final
    response event: the response passed to `respond`, the raw writer, the upgrade response, or the
    automatic 500 when the request is dropped (also by a panicking handler). -/
theorem one_final_response (mc : Bool) (n : Nat) (last : Op) (hl : last ≠ .asReader) :
    ∃ s, run { mustContinue := mc } (List.replicate n .asReader ++ [last]) = some s ∧
      (s.emitted.filter isFinal).length = 1 ∧ s.alive = false ∧ s.writerSlot = false := by
  rw [run_append, run_replicate_asReader _ n rfl]
  by_cases hc : mc = true ∧ 0 < n
  · cases last with
    | asReader => exact absurd rfl hl
    | _ => simp [hc, run, step] <;> rfl
  · cases last with
    | asReader => exact absurd rfl hl
    | _ => simp [hc, run, step] <;> rfl

/-- a dropped request gets a 500, and only a dropped one does. -/
theorem dropped_gets_500 (mc : Bool) (n : Nat) :
    ∃ s, run { mustContinue := mc } (List.replicate n .asReader ++ [.drop]) = some s ∧
      s.emitted.filter isFinal = [.final 500] := by
  rw [run_append, run_replicate_asReader _ n rfl]
  by_cases hc : mc = true ∧ 0 < n
  · simp [hc, run, step, isFinal]
  · simp [hc, run, step, isFinal]

/-- no request is answered twice: after the consuming operation nothing more is possible. -/
theorem nothing_after_consumption (s : RState) (h : s.alive = false) (o : Op) : step s o = none := by
  exact step_dead s h o

/-- the interim 100 appears at most once and only before the final response. -/
theorem interim_only_first (s0 s : RState) (ops : List Op) (h0 : s0.emitted = []) (hr : run s0 ops = some s) :
    (s.emitted.filter (· == .interim100)).length ≤ 1 ∧
    (∀ pre post, s.emitted = pre ++ [.interim100] ++ post → pre = []) := by
  exact shape_concl (shape_run ops s0 s (Or.inl (Or.inl h0)) hr)

/-- in the connection model the same holds for what reaches the wire: the statuses generated for
    a handled request are `[100]?` then the finish's own status (C18.continue_exactly_once), so a
    `respond`, `drop` or `upgrade` yields exactly one final status. -/
theorem finish_status_single (f : Finish) (h : ∀ ops, f ≠ .writer ops) : (Spec.finishStatus f).length = 1 := by
  cases f with
  | respond r => rfl
  | drop => rfl
  | writer ops => exact absurd rfl (h ops)
  | upgrade p r ops => rfl
  | respondFail r n => rfl

/-! ### end to end: one final response per request of a whole pipeline -/

open TH.Props.C09 (CMsg cmsgBytes) in
/-- every request of the pipeline is delivered, whatever the handlers do (no hypothesis on the
    script). -/
theorem pipeline_all_delivered (msgs : List CMsg) (script : Script)
    (hgood : ∀ m ∈ msgs, C18.expectBodied m) :
    (Conn.run ((msgs.map cmsgBytes).flatten) .eof script).delivered.length = msgs.length := by
  have h := congrArg List.length (C18.pipeline_statuses msgs script hgood).2.1
  simpa using h

open TH.Props.C09 (CMsg cmsgBytes) in
/-- The final statuses on the wire are, in order, exactly those of the handlers' finishes: the
    response passed to `respond` (also when its body reader fails), the automatic `500` for a
    dropped request, the upgrade response, nothing for a raw writer (what it writes is in `out`);
    the interim `100`s of `C18.pipeline_statuses` are the only other statuses.  (`hfin`: no
    handler chooses `100` as the status of its final response.) -/
theorem pipeline_final_statuses (msgs : List CMsg) (script : Script)
    (hgood : ∀ m ∈ msgs, C18.expectBodied m)
    (hfin : ∀ i, 100 ∉ Spec.finishStatus (script i).fin) :
    (Conn.run ((msgs.map cmsgBytes).flatten) .eof script).statuses.filter (· != 100) =
      finalStatuses script 0 msgs.length := by
  rw [C18.non_interim_statuses msgs script hgood]
  exact filter_ne_100_of_not_mem _ (finalStatuses_no_100 script hfin _ _)

open TH.Props.C09 (CMsg cmsgBytes) in
/-- Exactly one final response per delivered request, end to end: a pipeline of any number of
    requests (with or without `Expect: 100-continue`, with bodies of any kind), answered by any
    script whose handlers respond, fail while responding, upgrade or drop the request (`hnw`: none
    takes the raw writer, whose output the model does not parse into statuses) — every request is
    delivered and the server writes, besides interim `100`s, exactly as many status lines as there
    are requests.  (`hfin` as in `pipeline_final_statuses`; see the counterexamples below.) -/
theorem pipeline_one_final_response_each (msgs : List CMsg) (script : Script)
    (hgood : ∀ m ∈ msgs, C18.expectBodied m)
    (hnw : ∀ i ops, (script i).fin ≠ .writer ops)
    (hfin : ∀ i, 100 ∉ Spec.finishStatus (script i).fin) :
    let t := Conn.run ((msgs.map cmsgBytes).flatten) .eof script
    (t.statuses.filter (· != 100)).length = msgs.length ∧ t.delivered.length = msgs.length := by
  intro t
  refine ⟨?_, pipeline_all_delivered msgs script hgood⟩
  show ((Conn.run ((msgs.map cmsgBytes).flatten) .eof script).statuses.filter (· != 100)).length = msgs.length
  rw [pipeline_final_statuses msgs script hgood hfin]
  exact finalStatuses_length script hnw _ _

/-- non-vacuity, on the pipeline of `C18` (POST expecting + Content-Length, GET, PUT expecting +
    chunked): handlers that ask for the body and drop the request — five statuses on the wire, two
    of them interim, three final `500`s for three delivered requests -/
example :
    let t := Conn.run C18.exWire .eof (fun _ => ⟨1, 2, 1, .drop, false⟩)
    t.statuses = [100, 500, 500, 100, 500] ∧ (t.statuses.filter (· != 100)).length = 3 ∧
      t.delivered.length = 3 := by
  set_option maxRecDepth 20000 in decide

/-- the theorem applied to it -/
example (script : Script) (hnw : ∀ i ops, (script i).fin ≠ .writer ops)
    (hfin : ∀ i, 100 ∉ Spec.finishStatus (script i).fin) :
    ((Conn.run C18.exWire .eof script).statuses.filter (· != 100)).length = 3 ∧
      (Conn.run C18.exWire .eof script).delivered.length = 3 := by
  rw [← C18.ex_wire]
  exact pipeline_one_final_response_each _ script C18.ex_expectBodied hnw hfin

/-- why `hnw`: a raw writer's output is not a status the model records — one delivered request,
    no status -/
example :
    let t := Conn.run (C09.cmsgBytes C18.exGet) .eof (fun _ => ⟨0, 0, 1, .writer [.write b!"HTTP/1.1 200 OK\r\n\r\n"], false⟩)
    t.statuses = [] ∧ t.delivered.length = 1 := by decide

/-- why `hfin`: a handler may answer with status `100`, which a count of the statuses other than
    `100` misses — one delivered request, one final response, whose status is `100` -/
example :
    let t := Conn.run (C09.cmsgBytes C18.exGet) .eof (fun _ => ⟨0, 0, 1, .respond ⟨100, [], none, none, []⟩, false⟩)
    t.statuses = [100] ∧ (t.statuses.filter (· != 100)).length = 0 ∧ t.delivered.length = 1 := by decide

/-- a dropped request never holds up the responses that follow it: once its writer is dropped,
    the next writer has its turn (Seq LTS). -/
theorem drop_releases_successor (s s' : Lts.Seq.State) (h : Lts.Seq.Reachable s) (i : Nat)
    (hs : Lts.Seq.step s (.drop i) = some s') (hn : i + 1 < s'.writers.length)
    (ha : Lts.Seq.isDropped s' (i + 1) = false) : Lts.Seq.hasTurn s' (i + 1) = true := by
  have _ := h
  obtain ⟨hd, _⟩ := Lts.Seq.isDropped_after_drop hs
  unfold Lts.Seq.hasTurn
  simp [hn, ha, hd]

end TH.Props.C06
