/-
  C07 — each complete request is delivered exactly once; no lost wake-ups.
  (Queue part, M4.  That one connection's requests are pushed in parse order is the connection
  loop of M1: `runLoop` delivers in stream order, see C12.trace_extends_state.)
-/
import TinyHttpModel.Lts.Queue
import TinyHttpModel.Lemmas.QueueInv
import TinyHttpModel.Lts.Whole
import TinyHttpModel.Lemmas.WholeInv

namespace TH.Props.C07
open TH.Lts.Queue

/-- Exactly once, in order: in every reachable state — any number of producers and receivers, any
    mix of recv / try_recv / recv_timeout / unblock, any interleaving, any timing — the values
    handed out so far followed by the values still queued are exactly the values pushed, as
    sequences: nothing is lost, nothing is duplicated, and the queue is globally FIFO. -/
theorem queue_exactly_once (s : State) (h : Reachable s) :
    s.taken ++ elems s.queue = s.pushed :=
  exactly_once_inv s h

/-- every completed call that returned a value returned a pushed value, and the log of returned
    values is exactly `taken`. -/
theorem log_values_are_taken (s : State) (h : Reachable s) :
    (s.log.filterMap (fun r => match r.res with | .value v => some v | _ => none)) = s.taken :=
  log_values_inv s h

/-- No lost wake-up: in every reachable state, if some receiver is blocked then the number of
    queued items does not exceed the number of receivers that are already runnable (woken up or
    about to look at the queue) — each queued item has a receiver on its way to it. -/
theorem no_lost_wakeup (s : State) (h : Reachable s) :
    0 < countP s isWaiting → s.queue.length ≤ countP s isRunnable :=
  no_lost_wakeup_inv s h

/-- Corollary, the statement of the property: at quiescence (no receiver runnable) a receiver that
    remains blocked means the queue is empty — no request stays queued while a receiver sleeps. -/
theorem quiescent_blocked_implies_empty (s : State) (h : Reachable s)
    (hq : countP s isRunnable = 0) (hb : 0 < countP s isWaiting) : s.queue = [] := by
  have := no_lost_wakeup s h hb
  rw [hq] at this
  exact List.length_eq_zero_iff.mp (Nat.le_zero.mp this)

/-- a runnable receiver can always take its step (the system is never stuck while somebody is
    runnable): `look` is enabled for every ready / woken thread. -/
theorem look_enabled (s : State) (t : Nat) (hr : isRunnable (phaseOf s t) = true) :
    (step s (.look t)).isSome = true := by
  simp only [step]
  cases hp : phaseOf s t with
  | idle => rw [hp] at hr; cases hr
  | waiting => rw [hp] at hr; cases hr
  | ready => rfl
  | woken => rfl

/-- non-vacuity, and the scenario of the repaired defect: a timed receiver notified in the last
    millisecond of its timeout now takes the element. -/
example : (run {} [.call 0 (.popTimeout 20000000), .call 1 .pop, .look 0, .look 1, .tick 19500000,
      .push 7 (some 0), .look 0]).map (fun s => (s.taken, s.queue.length)) = some ([7], 0) := by decide

/-! ### the whole server: accept loop, pool, connection threads, queue, receivers (`Lts.Whole`) -/

/-- the queue of every execution of the whole server is an execution of `Lts.Queue`: all theorems
    above hold for it, whatever the pool and the connections do. -/
theorem whole_queue_reachable (s : Lts.Whole.State) (h : Lts.Whole.Reachable s) : Reachable s.queue :=
  Lts.Whole.queue_reachable h

/-- what has been queued is exactly what the connection threads took from their connections:
    as a multiset, and connection by connection in wire order. -/
theorem whole_pushed_are_the_connections_requests (s : Lts.Whole.State) (h : Lts.Whole.Reachable s) :
    s.queue.pushed.Perm ((s.conns.map Lts.Whole.pushedOf).flatten) ∧
    ∀ c ∈ s.conns, (Lts.Whole.pushedOf c).Sublist s.queue.pushed :=
  ⟨(Lts.Whole.dataInv_reachable h).perm, (Lts.Whole.dataInv_reachable h).sub⟩

/-- Exactly once, whole server: the requests handed to receivers so far together with those still
    queued are, as a multiset, exactly the requests the connection threads have taken from their
    connections — nothing lost, nothing duplicated — and every connection's requests appear among
    them in wire order (so a single receiver sees one connection's requests in order). -/
theorem whole_exactly_once (s : Lts.Whole.State) (h : Lts.Whole.Reachable s) :
    (s.queue.taken ++ elems s.queue.queue).Perm ((s.conns.map Lts.Whole.pushedOf).flatten) ∧
    ∀ c ∈ s.conns, (Lts.Whole.pushedOf c).Sublist (s.queue.taken ++ elems s.queue.queue) := by
  rw [queue_exactly_once s.queue (whole_queue_reachable s h)]
  exact whole_pushed_are_the_connections_requests s h

/-- a connection thread never runs ahead of its client and never goes back. -/
theorem whole_pushed_le_sent (s : Lts.Whole.State) (h : Lts.Whole.Reachable s) :
    ∀ c ∈ s.conns, c.pushed ≤ c.sent.length :=
  (Lts.Whole.dataInv_reachable h).le

end TH.Props.C07
