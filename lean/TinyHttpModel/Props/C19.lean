/-
  C19 — response header policy: protected names, one Content-Type, automatic Date/Server,
  constructors declare the byte length they were given.
  Partial by nature: that the Date value is the *current* time, and `from_file`'s length, are
  runtime facts checked on the implementation side only.
-/
import TinyHttpModel.RespSpec
import TinyHttpModel.Lemmas.Headers

namespace TH.Props.C19
open TH

/-- Whatever list of headers the application supplies (constructor, `add_header`,
    `with_header` — all are the same fold), the stored header list is exactly the policy of the
    property text: supplied order, protected names and Content-Length removed, one
    Content-Type at the position of the first carrying the value of the last. -/
theorem headers_policy (status : Nat) (hs : List Header) (len : Option Nat) :
    (Resp.new status hs len).headers = Spec.policy hs := by
  unfold Resp.new
  simpa using foldl_addHeader_headers hs [] ⟨status, [], len, none⟩ rfl

/-- the same for headers added later to any response whose list already obeys the policy. -/
theorem headers_policy_append (status : Nat) (hs more : List Header) (len : Option Nat) :
    (more.foldl addHeader (Resp.new status hs len)).headers = Spec.policy (hs ++ more) := by
  exact foldl_addHeader_headers more hs _ (headers_policy status hs len)

/-- a supplied parsable Content-Length only sets the declared length (the last one wins). -/
theorem declared_length (status : Nat) (hs : List Header) (len : Option Nat) :
    (Resp.new status hs len).dataLength = Spec.declaredLen len hs := by
  exact foldl_addHeader_dataLength hs _

/-- no application-supplied Connection / Trailer / Transfer-Encoding / Upgrade / Content-Length
    is ever stored, hence never sent. -/
theorem protected_never_stored (status : Nat) (hs : List Header) (len : Option Nat) :
    ∀ h ∈ (Resp.new status hs len).headers,
      Spec.isProtectedName h = false ∧ h.is b!"Content-Length" = false := by
  intro h hm
  rw [headers_policy] at hm
  exact (kept_iff h).mp (policy_kept hs h hm)

/-- at most one Content-Type is stored. -/
theorem content_type_at_most_once (status : Nat) (hs : List Header) (len : Option Nat) :
    Spec.countName (Resp.new status hs len).headers b!"Content-Type" ≤ 1 := by
  rw [headers_policy]
  exact countName_policy_ct hs

/-- exactly one Date and exactly one Server in the printed header list when the application
    supplied none; the application's own otherwise (no automatic one is added). -/
theorem date_server_once (hs : List Header) (date : Bytes) (up : Option Bytes) :
    (hs.any (·.is b!"Date") = false → Spec.countName (insertAuto hs date up) b!"Date" = 1) ∧
    (hs.any (·.is b!"Server") = false → Spec.countName (insertAuto hs date up) b!"Server" = 1) ∧
    (hs.any (·.is b!"Date") = true →
        Spec.countName (insertAuto hs date up) b!"Date" = Spec.countName hs b!"Date") ∧
    (hs.any (·.is b!"Server") = true →
        Spec.countName (insertAuto hs date up) b!"Server" = Spec.countName hs b!"Server") := by
  cases up <;> cases hD : hs.any (·.is b!"Date") <;> cases hS : hs.any (·.is b!"Server") <;>
    simp [insertAuto, hD, hS, countName_cons, countName_zero_of_any, date_is_date, date_is_server,
      server_is_server, server_is_date, conn_is_date, conn_is_server, upg_is_date, upg_is_server]

/-- the printed header list is: the library's leading headers, then exactly the stored
    (policy) headers in order, then the framing header. -/
theorem printed_headers_shape (r : Resp) (date : Bytes) (up : Option Bytes) (fr : List Header) :
    ∃ lead, insertAuto r.headers date up ++ fr = lead ++ r.headers ++ fr ∧
      ∀ h ∈ lead, h.is b!"Date" ∨ h.is b!"Server" ∨ h.is b!"Connection" ∨ h.is b!"Upgrade" := by
  refine ⟨autoLead r.headers date up, ?_, autoLead_names r.headers date up⟩
  rw [insertAuto_eq]

/-- the oracle evaluated by the check accepts the model's own printed header list (so the
    oracle is satisfiable and the model meets it): for every supplied list, upgrade or not. -/
theorem model_meets_oracle (status : Nat) (hs : List Header) (len : Option Nat) (date : Bytes)
    (up : Option Bytes) (te : Option Coding) (l : Option Nat) :
    Spec.c19Holds hs up.isSome
      (insertAuto (Resp.new status hs len).headers date up ++ framingHeader te l) = true := by
  rw [headers_policy]
  have hnf := policy_not_framing hs
  unfold Spec.c19Holds
  generalize Spec.policy hs = pol at *
  have hstrip := strip_none pol hnf
  rcases framingHeader_cases te l with hf | ⟨f, hf, hf1, hf2, hf3⟩
  · rw [hf]
    cases up <;> cases hD : pol.any (·.is b!"Date") <;> cases hS : pol.any (·.is b!"Server") <;>
      simp [insertAuto, hD, hS, countName_cons, countName_zero_of_any,
        date_is_date, date_is_server, server_is_server, server_is_date, conn_is_date,
        conn_is_server, upg_is_date, upg_is_server, conn_is_conn, upg_is_upg] <;>
      exact hstrip
  · rw [hf]
    cases up <;> cases hD : pol.any (·.is b!"Date") <;> cases hS : pol.any (·.is b!"Server") <;>
      simp [insertAuto, hD, hS, hf1, hf2, hf3, countName_cons, countName_append,
        countName_zero_of_any, date_is_date, date_is_server, server_is_server, server_is_date,
        conn_is_date, conn_is_server, upg_is_date, upg_is_server, conn_is_conn, upg_is_upg]

/-- the convenience constructors declare exactly the byte length of their data
    (`from_string`: the UTF-8 byte length); `with_data` declares what it is given. -/
theorem ctor_lengths (s d : Bytes) (st : Nat) (r : Resp) (n : Option Nat) :
    (Resp.fromString s).dataLength = some s.length ∧
    (Resp.fromData d).dataLength = some d.length ∧
    (Resp.empty st).dataLength = some 0 ∧
    (r.withData n).dataLength = n ∧ (r.withData n).headers = r.headers := by
  refine ⟨?_, ?_, ?_, rfl, rfl⟩
  · rw [Resp.fromString, declared_length]; rfl
  · rfl
  · rfl

example : (Resp.new 200 [⟨b!"content-type", b!"a"⟩, ⟨b!"Connection", b!"close"⟩, ⟨b!"X", b!"1"⟩,
    ⟨b!"Content-Type", b!"b"⟩, ⟨b!"Content-Length", b!"7"⟩] none)
    = ⟨200, [⟨b!"content-type", b!"b"⟩, ⟨b!"X", b!"1"⟩], some 7, none⟩ := by decide

end TH.Props.C19
