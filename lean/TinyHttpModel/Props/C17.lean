/-
  C17 — unblock releases exactly one receiver; timed / non-blocking receives keep their bounds.
-/
import TinyHttpModel.Lts.Queue
import TinyHttpModel.Lemmas.QueueInv

namespace TH.Props.C17
open TH.Lts.Queue

/-- Token conservation: every unblock token is either still queued or was consumed by exactly one
    receive call, which returned empty-handed (`byToken`); so n unblock calls release n calls. -/
theorem token_conservation (s : State) (h : Reachable s) :
    s.tokensPushed = s.tokensTaken + tokens s.queue ∧
    (s.log.filter (fun r => r.res == .byToken)).length = s.tokensTaken :=
  token_conservation_inv s h

/-- tokens never discard, duplicate or reorder requests (same statement as C07, which holds in the
    presence of any number of unblock calls). -/
theorem tokens_preserve_requests (s : State) (h : Reachable s) :
    s.taken ++ elems s.queue = s.pushed :=
  exactly_once_inv s h

/-- try_recv never blocks: its single step always ends the call. -/
theorem try_recv_never_blocks (s : State) (t cs dur : Nat) (e : Bool)
    (hp : phaseOf s t = .ready .tryPop cs dur e) (ht : t < s.phases.length) :
    ∃ s', step s (.look t) = some s' ∧ phaseOf s' t = .idle := by
  refine ⟨lookReady s t .tryPop cs dur e, ?_, ?_⟩
  · simp only [step, hp]
  · have key : ∀ s' : State, s'.phases = (setPhase s t .idle).phases → phaseOf s' t = .idle := by
      intro s' hs'
      rw [phaseOf_congr hs' t]
      exact getD_setP_self s.phases t .idle
    unfold lookReady
    split
    · exact key _ rfl
    · exact key _ rfl
    · exact key _ rfl

/-- a blocking `recv` returns empty-handed only through a token. -/
theorem recv_empty_only_by_token (s : State) (h : Reachable s) :
    ∀ r ∈ s.log, r.call = .pop → r.res ≠ .empty :=
  recv_empty_inv s h

/-- recv_timeout bounds, zero-latency executions (time passes only while nobody is runnable and
    never beyond a pending deadline): a `recv_timeout(T)` with `T ≥ 1 ms` that returns empty-handed
    without having consumed a token does so no earlier than `T − 1 ms` and earlier than `2·T`
    after it was called. -/
theorem recv_timeout_bounds (ls : List Label) (s : State) (h : runZL {} ls = some s) :
    ∀ r ∈ s.log, ∀ T, r.call = .popTimeout T → r.res = .empty → slackNs ≤ T →
      T - slackNs < r.retTime - r.callStart ∧ r.retTime - r.callStart < 2 * T :=
  recv_timeout_bounds_inv ls s h

/-- Promptness of `unblock` (and of every push): in a zero-latency execution time can only advance
    while no receiver is runnable; if at such a moment some receiver is still waiting, then the
    queue holds neither a request nor a token — every unblock issued so far has already made a
    receive call return empty-handed (`tokensTaken = tokensPushed`, and by `token_conservation`
    that many calls returned `byToken`).  So an unblock issued while receivers wait releases one
    of them at the very instant it is issued, or nobody is left waiting. -/
theorem unblock_released_before_time_passes (ls : List Label) (s s' : State) (d : Nat)
    (h : runZL {} ls = some s) (ht : stepZL s (.tick d) = some s') (hw : 0 < countP s isWaiting) :
    s.queue = [] ∧ s.tokensTaken = s.tokensPushed := by
  have hr := runZL_reachable ls s h
  have hk : tickOk s d = true := (stepZL_step ht).2 d rfl
  have hrun : countP s isRunnable = 0 := by
    unfold countP
    apply any_false_filter_length
    simp only [tickOk, Bool.and_eq_true, Bool.not_eq_true'] at hk
    exact hk.1
  have hq : s.queue = [] := by
    have := no_lost_wakeup_inv s hr hw
    rw [hrun] at this
    exact List.length_eq_zero_iff.mp (Nat.le_zero.mp this)
  refine ⟨hq, ?_⟩
  have := (token_conservation_inv s hr).1
  rw [hq] at this
  simpa [tokens] using this.symm

/-- non-vacuity: a receiver waits, an unblock arrives; time cannot pass before the receiver has
    returned (the `tick` is refused), and passes afterwards. -/
example : (runZL {} [.call 0 .pop, .look 0, .call 1 .pop, .look 1, .tick 5, .unblock (some 0), .tick 1]) = none
    ∧ ((runZL {} [.call 0 .pop, .look 0, .call 1 .pop, .look 1, .tick 5, .unblock (some 0), .look 0, .tick 1]).map
        (fun s => (s.log.map (·.res), s.log.map (·.retTime), countP s isWaiting))) = some ([.byToken], [5], 1) := by decide

example : (run {} [.call 0 .pop, .look 0, .unblock (some 0), .push 5 none, .look 0]).map
    (fun s => (s.log.map (·.res), elems s.queue, s.tokensTaken)) = some ([.byToken], [5], 1) := by decide

end TH.Props.C17
