/-
  Props/All.lean — imports every property module: `lake build TinyHttpModel.Props.All` checks all
  property theorems (and everything they rest on) in one go.  The checks build one module each.
-/
import TinyHttpModel.Props.C01
import TinyHttpModel.Props.C02
import TinyHttpModel.Props.C03
import TinyHttpModel.Props.C04
import TinyHttpModel.Props.C05
import TinyHttpModel.Props.C06
import TinyHttpModel.Props.C07
import TinyHttpModel.Props.C08
import TinyHttpModel.Props.C09
import TinyHttpModel.Props.C10
import TinyHttpModel.Props.C11
import TinyHttpModel.Props.C12
import TinyHttpModel.Props.C13
import TinyHttpModel.Props.C14
import TinyHttpModel.Props.C15
import TinyHttpModel.Props.C16
import TinyHttpModel.Props.C17
import TinyHttpModel.Props.C18
import TinyHttpModel.Props.C19
import TinyHttpModel.Props.C20
