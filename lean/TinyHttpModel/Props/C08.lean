/-
  C08 — connections are isolated: none waits for another, however many arrive at once.
  (Pool part, M5: one task per accepted connection, lib.rs:356-376.)
-/
import TinyHttpModel.Lts.Pool
import TinyHttpModel.Lemmas.PoolInv

namespace TH.Props.C08
open TH.Lts.Pool

/-- the counter the dispatch rule consults is exactly the number of workers registered as
    waiting: blocked ones plus those already woken that have not re-acquired the lock. -/
theorem waiting_count_exact (s : State) (h : Reachable s) :
    s.waitingCnt = count s isWaiting + count s isWoken := by
  sorry

/-- Every queued task is claimed: in every reachable state — any number of dispatches in any
    burst pattern relative to workers waking, starting, retiring; running tasks never need to end —
    the number of queued tasks does not exceed the number of workers that are already woken up and
    on their way to the queue. -/
theorem queued_tasks_are_claimed (s : State) (h : Reachable s) :
    s.pending.length ≤ count s isWoken := by
  sorry

/-- Progress without any connection ending: whenever a task is queued, some woken worker can take
    its step, and that step starts a queued task — no `finish` (task end) is needed. -/
theorem every_queued_task_can_start (s : State) (h : Reachable s) (hp : s.pending ≠ []) :
    ∃ w s', isWoken (phaseOf s w) = true ∧ step s (.look w) = some s' ∧
      s'.pending.length + 1 = s.pending.length ∧ s'.started.length = s.started.length + 1 := by
  sorry

/-- a dispatch never waits: `spawn` is a single atomic block, enabled in every state of a live
    pool with one of its two branches. -/
theorem dispatch_never_blocks (s : State) (k : Nat) (hd : s.dropped = false) (h : Reachable s) :
    (∃ s', step s (.dispatch k .newThread) = some s') ∨
    (∃ woke s', step s (.dispatch k (.queued woke)) = some s') := by
  sorry

def startingTasks (s : State) : List Nat :=
  s.workers.filterMap (fun p => match p with | .starting (some k) => some k | _ => none)

/-- Conservation: every dispatched task is exactly one of — started (by one worker), still
    queued, or carried by a freshly created thread. -/
theorem task_conservation (s : State) (h : Reachable s) :
    (s.started.map (·.1) ++ s.pending ++ startingTasks s).Perm s.dispatched := by
  sorry

/-- each connection is served by exactly one worker, once. -/
theorem task_started_at_most_once (s : State) (h : Reachable s) (hn : s.dispatched.Nodup) :
    (s.started.map (·.1)).Nodup := by
  sorry

/-- the scenario of the repaired defect: four idle workers, five dispatches before any woken
    worker re-acquires the lock — the fifth gets its own thread. -/
example : (run init [.begin 0, .begin 1, .begin 2, .begin 3, .look 0, .look 1, .look 2, .look 3,
      .dispatch 10 (.queued (some 0)), .dispatch 11 (.queued (some 1)), .dispatch 12 (.queued (some 2)),
      .dispatch 13 (.queued (some 3)), .dispatch 14 .newThread]).isSome = true := by decide
example : (run init [.begin 0, .begin 1, .begin 2, .begin 3, .look 0, .look 1, .look 2, .look 3,
      .dispatch 10 (.queued (some 0)), .dispatch 11 (.queued (some 1)), .dispatch 12 (.queued (some 2)),
      .dispatch 13 (.queued (some 3)), .dispatch 14 (.queued none)]) = none := by decide

end TH.Props.C08
