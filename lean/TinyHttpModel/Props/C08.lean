/-
  C08 — connections are isolated: none waits for another, however many arrive at once.
  (Pool part, M5: one task per accepted connection, lib.rs:356-376.)
-/
import TinyHttpModel.Lts.Pool
import TinyHttpModel.Lemmas.PoolInv
import TinyHttpModel.Lts.Whole
import TinyHttpModel.Lemmas.WholeInv

namespace TH.Props.C08
open TH.Lts.Pool

/-- the counter the dispatch rule consults is exactly the number of workers registered as
    waiting: blocked ones plus those already woken that have not re-acquired the lock. -/
theorem waiting_count_exact (s : State) (h : Reachable s) :
    s.waitingCnt = count s isWaiting + count s isWoken := by
  exact (inv1_reachable h).wc

/-- Every queued task is claimed: in every reachable state — any number of dispatches in any
    burst pattern relative to workers waking, starting, retiring; running tasks never need to end —
    the number of queued tasks does not exceed the number of workers that are already woken up and
    on their way to the queue. -/
theorem queued_tasks_are_claimed (s : State) (h : Reachable s) :
    s.pending.length ≤ count s isWoken := by
  exact (inv1_reachable h).j

/-- Progress without any connection ending: whenever a task is queued, some woken worker can take
    its step, and that step starts a queued task — no `finish` (task end) is needed. -/
theorem every_queued_task_can_start (s : State) (h : Reachable s) (hp : s.pending ≠ []) :
    ∃ w s', isWoken (phaseOf s w) = true ∧ step s (.look w) = some s' ∧
      s'.pending.length + 1 = s.pending.length ∧ s'.started.length = s.started.length + 1 := by
  have hj := (inv1_reachable h).j
  have hpos : 0 < (s.workers.filter isWoken).length := by
    cases hpe : s.pending with
    | nil => exact absurd hpe hp
    | cons k rest => simp [hpe, count] at hj; omega
  obtain ⟨p, hpm⟩ := List.exists_mem_of_length_pos hpos
  obtain ⟨hpw, hpk⟩ := List.mem_filter.mp hpm
  obtain ⟨w, hw, rfl⟩ := List.getElem_of_mem hpw
  have hph := phaseOf_eq_getElem hw
  cases hpe : s.pending with
  | nil => exact absurd hpe hp
  | cons k rest =>
    cases hq : s.workers[w] with
    | woken b =>
      rw [hq] at hph
      exact ⟨w, _, by simp [hph, isWoken], step_complete (.wokenTake w k b rest hph hpe), by simp, by simp⟩
    | _ => simp [hq, isWoken] at hpk

/-- a dispatch never waits: `spawn` is a single atomic block, enabled in every state of a live
    pool with one of its two branches. -/
theorem dispatch_never_blocks (s : State) (k : Nat) (hd : s.dropped = false) (h : Reachable s) :
    (∃ s', step s (.dispatch k .newThread) = some s') ∨
    (∃ woke s', step s (.dispatch k (.queued woke)) = some s') := by
  have _ := h  -- reachability is not needed: the two guards are complementary
  by_cases hc : s.waitingCnt ≤ s.pending.length
  · exact .inl ⟨_, step_complete (.dispNew k hd hc)⟩
  · right
    cases hany : s.workers.any isWaiting with
    | false => exact ⟨none, _, step_complete (.dispQNone k hd (by omega) hany)⟩
    | true =>
      obtain ⟨w, hw⟩ := exists_waiting_of_any s hany
      cases hph : phaseOf s w with
      | waiting dl => exact ⟨some w, _, step_complete (.dispQSome k w dl hd (by omega) hph)⟩
      | _ => simp [hph, isWaiting] at hw

def startingTasks (s : State) : List Nat :=
  s.workers.filterMap (fun p => match p with | .starting (some k) => some k | _ => none)

/-- Conservation: every dispatched task is exactly one of — started (by one worker), still
    queued, or carried by a freshly created thread. -/
theorem task_conservation (s : State) (h : Reachable s) :
    (s.started.map (·.1) ++ s.pending ++ startingTasks s).Perm s.dispatched := by
  exact tasks_perm h

/-- each connection is served by exactly one worker, once. -/
theorem task_started_at_most_once (s : State) (h : Reachable s) (hn : s.dispatched.Nodup) :
    (s.started.map (·.1)).Nodup := by
  have hperm := task_conservation s h
  have hnd := hperm.nodup_iff.mpr hn
  rw [List.append_assoc] at hnd
  exact (List.nodup_append.mp hnd).1

/-- the scenario of the repaired defect: four idle workers, five dispatches before any woken
    worker re-acquires the lock — the fifth gets its own thread. -/
example : (run init [.begin 0, .begin 1, .begin 2, .begin 3, .look 0, .look 1, .look 2, .look 3,
      .dispatch 10 (.queued (some 0)), .dispatch 11 (.queued (some 1)), .dispatch 12 (.queued (some 2)),
      .dispatch 13 (.queued (some 3)), .dispatch 14 .newThread]).isSome = true := by decide
example : (run init [.begin 0, .begin 1, .begin 2, .begin 3, .look 0, .look 1, .look 2, .look 3,
      .dispatch 10 (.queued (some 0)), .dispatch 11 (.queued (some 1)), .dispatch 12 (.queued (some 2)),
      .dispatch 13 (.queued (some 3)), .dispatch 14 (.queued none)]) = none := by decide

/-! ### the whole server (`Lts.Whole`) -/

/-- the pool of every execution of the whole server is an execution of `Lts.Pool`. -/
theorem whole_pool_reachable (s : Lts.Whole.State) (h : Lts.Whole.Reachable s) : Reachable s.pool :=
  Lts.Whole.pool_reachable h

/-- steps that need no connection to end and no client to do anything: the pool's own steps
    (a worker begins, looks at the queue of tasks, is woken) and pushes. -/
def Lts.Whole.isProgressOnly : Lts.Whole.Label → Bool
  | .pool (.begin _) => true
  | .pool (.look _) => true
  | .pool (.wake _ false) => true
  | .push _ _ => true
  | _ => false

/-- Isolation, whole server: whenever connection `k` has a complete request that is not queued
    yet — whatever the other connections are doing: idle, stalled in the middle of a request,
    waiting on their handlers, however many there are and however they arrived — there is a
    continuation made only of the pool's own steps and of pushes (no other connection ends, no
    client sends or closes anything, no time passes) after which that request is in the queue. -/
theorem whole_connection_never_waits_for_another (s : Lts.Whole.State) (h : Lts.Whole.Reachable s)
    (hd : s.pool.dropped = false) (k : Nat) (c : Lts.Whole.Conn) (hk : s.conns[k]? = some c)
    (hp : c.pushed < c.sent.length) :
    ∃ ls s', (∀ l ∈ ls, Lts.Whole.isProgressOnly l = true) ∧ Lts.Whole.run s ls = some s' ∧
      ∃ c', s'.conns[k]? = some c' ∧ c'.pushed = c.pushed + 1 ∧ c'.sent = c.sent := by
  have _ := hd  -- not needed: a dropped pool still starts what it has accepted
  obtain ⟨ls, s', hls, hrun, hc'⟩ := Lts.Whole.next_request_can_be_queued h hk hp
  refine ⟨ls, s', ?_, hrun, _, hc', rfl, rfl⟩
  intro l hl
  rcases hls l hl with ⟨w, rfl⟩ | ⟨w, rfl⟩ | ⟨w, woke, rfl⟩ <;> rfl

end TH.Props.C08
