/-
  C05 — chunked/identity selection is a fixed function of version, status, TE and length.
  Property theorems only (helper lemmas live in Lemmas/).
-/
import TinyHttpModel.RespSpec
import TinyHttpModel.Lemmas.Choose
import TinyHttpModel.Lemmas.BestOf

namespace TH.Props.C05
open TH

/-- "default 32768 bytes" — about the constant extracted from the current source. -/
theorem default_threshold : Extracted.defaultThreshold = 32768 := by decide

/-- The decision procedure of the code equals the declarative choice written from the property
    text, for every version, every status ≥ 100, every TE header in the modelled q grammar,
    every length and threshold. -/
theorem choose_eq_spec (status : Nat) (reqHeaders : List Header) (ver : Version)
    (len : Option Nat) (thr : Nat) (te : List (Bytes × Q))
    (hs : 100 ≤ status) (hte : Spec.teList reqHeaders = some te) :
    chooseTransferEncoding status reqHeaders ver len thr = some (Spec.choice ver status te len thr) := by
  have hguard : (ver.le ⟨Extracted.identityOnlyVersion.1, Extracted.identityOnlyVersion.2⟩ = true
      ∨ Extracted.teExcludedStatus status = true) ↔
      (ver.le ⟨1, 0⟩ = true ∨ (100 ≤ status ∧ status ≤ 199) ∨ status = 204) := by
    simp only [Extracted.identityOnlyVersion, Extracted.teExcludedStatus, Bool.or_eq_true,
      decide_eq_true_eq, beq_iff_eq]
    have hst : (status < 200 ∨ status = 204) ↔ ((100 ≤ status ∧ status ≤ 199) ∨ status = 204) := by
      omega
    rw [hst]
  unfold chooseTransferEncoding Spec.choice
  rw [teRequest_of_teList hte]
  by_cases hv : ver.le ⟨Extracted.identityOnlyVersion.1, Extracted.identityOnlyVersion.2⟩ = true
  · rw [if_pos hv, if_pos (hguard.1 (Or.inl hv))]
  · rw [if_neg hv]
    by_cases hx : Extracted.teExcludedStatus status = true
    · rw [if_pos hx, if_pos (hguard.1 (Or.inr hx))]
    · rw [if_neg hx, if_neg (fun h => (hguard.2 h).elim hv hx)]
      cases Spec.bestOf (Spec.admissible te) with
      | some y => rfl
      | none =>
        cases len with
        | none => rfl
        | some l =>
          simp only [Option.map_none, Extracted.thresholdReached, decide_eq_true_eq]
          split <;> rfl

/-- chunked is never chosen for HTTP/1.0 or older, nor for 1xx/204 — whatever TE says. -/
theorem never_chunked_for_old_or_nobody (status : Nat) (reqHeaders : List Header) (ver : Version)
    (len : Option Nat) (thr : Nat)
    (h : ver.le ⟨1, 0⟩ = true ∨ status < 200 ∨ status = 204) :
    chooseTransferEncoding status reqHeaders ver len thr = some .identity := by
  unfold chooseTransferEncoding
  by_cases hv : ver.le ⟨Extracted.identityOnlyVersion.1, Extracted.identityOnlyVersion.2⟩ = true
  · rw [if_pos hv]
  · rw [if_neg hv]
    have hx : Extracted.teExcludedStatus status = true := by
      rcases h with h | h | h
      · exact absurd h hv
      · simp [Extracted.teExcludedStatus, h]
      · simp [Extracted.teExcludedStatus, h]
    rw [if_pos hx]

/-- The second and third sentence without the recursive helpers of `Spec.choice`: for a request
    newer than HTTP/1.0 and a status that is neither 1xx nor 204, either no TE element is
    admissible (q > 0 and named `chunked` / `identity`, any case) and the length rule decides, or
    the coding used is that of an admissible element `(c, q)` such that every admissible element
    before it has a strictly smaller q and none after it has a greater one — the earliest of the
    most preferred. -/
theorem te_preference (status : Nat) (reqHeaders : List Header) (ver : Version)
    (len : Option Nat) (thr : Nat) (te : List (Bytes × Q))
    (hte : Spec.teList reqHeaders = some te)
    (hv : ver.le ⟨1, 0⟩ = false) (hst : 200 ≤ status) (h204 : status ≠ 204) :
    (Spec.admissible te = [] ∧
      chooseTransferEncoding status reqHeaders ver len thr =
        some (match len with
              | none => .chunked
              | some l => if thr ≤ l then .chunked else .identity)) ∨
    (∃ pre c q post, Spec.admissible te = pre ++ (c, q) :: post ∧
      (∀ x ∈ pre, q.gt x.2 = true) ∧ (∀ x ∈ post, x.2.gt q = false) ∧
      chooseTransferEncoding status reqHeaders ver len thr = some c) := by
  rw [choose_eq_spec status reqHeaders ver len thr te (by omega) hte]
  unfold Spec.choice
  rw [if_neg (by rw [hv]; simp; omega)]
  cases hb : Spec.bestOf (Spec.admissible te) with
  | none =>
    left
    exact ⟨bestOf_eq_none.1 hb, rfl⟩
  | some y =>
    right
    obtain ⟨pre, post, hl, hpre, hpost⟩ := bestOf_split hb
    exact ⟨pre, y.1, y.2, post, hl, hpre, hpost, rfl⟩

/-- which TE elements count: those with q > 0 whose name is `chunked` or `identity` (any case),
    in the order of the header. -/
theorem admissible_elements (te : List (Bytes × Q)) :
    Spec.admissible te =
      te.filterMap (fun x => if x.2.pos then (codingOfName x.1).map (fun c => (c, x.2)) else none) :=
  admissible_eq_filterMap te

/-- Framing headers of the printed header list: identity ⇒ exactly one Content-Length carrying
    the decimal body length and no Transfer-Encoding; chunked ⇒ `Transfer-Encoding: chunked`
    and no Content-Length; upgrade ⇒ neither.  `hclean`: the response's own header list holds
    no framing header (guaranteed by `add_header`, see C19.protected_never_stored). -/
theorem framing_headers (r : Resp) (c : ReqCtx) (date : Bytes) (bodyLen : Nat)
    (te : Option Coding) (len : Option Nat)
    (hclean : ∀ h ∈ r.headers, Spec.isAutoFraming h = false)
    (hf : framing r c bodyLen = some (te, len)) :
    Spec.framedOf (insertAuto r.headers date c.upgrade ++ framingHeader te len) =
      (match te with
       | none => Spec.Framed.neither
       | some .chunked => Spec.Framed.chunked
       | some .identity => Spec.Framed.identity (toDec (r.dataLength.getD bodyLen))) := by
  rw [framedOf_append_clean _ (insertAuto_clean date c.upgrade hclean)]
  rcases choose_framing_cases hf with h | h | ⟨h, hl⟩
  · subst h; exact framedOf_none len
  · subst h; exact framedOf_chunked len
  · subst h; subst hl; exact framedOf_identity _

/-- non-vacuity: a concrete TE header on which the TE branch decides. -/
example : chooseTransferEncoding 200 [⟨b!"TE", b!"identity;q=0.5, chunked;q=0.8"⟩] ⟨1, 1⟩ (some 5) 32768
    = some .chunked := by decide

end TH.Props.C05
