/-
  C16 — header syntax that enables request smuggling is rejected, not interpreted.
-/
import TinyHttpModel.WireSpec
import TinyHttpModel.Lemmas.LoopA
import TinyHttpModel.Lemmas.HeadParse
import TinyHttpModel.Lemmas.PipelineSmuggle
import TinyHttpModel.Props.C09
import TinyHttpModel.Props.C18

namespace TH.Props.C16
open TH

/-- (a) whitespace inside a header name or between the name and the colon ⇒ the line is not a header. -/
theorem ws_in_name_rejected (line : Bytes)
    (h : ((splitFirst 58 (trimEnd line)).1.any isWs) = true) : parseHeaderLine line = none := by
  exact parseHeaderLine_ws_in_name line h

/-- concrete forms of (a): `name SP* ":"`, `na me:` — for any name, any whitespace byte. -/
theorem ws_before_colon_rejected (name value : Bytes) (w : Nat) (hw : isWs w = true)
    (hn : name.contains 58 = false) :
    parseHeaderLine (name ++ [w] ++ [58] ++ value) = none := by
  exact parseHeaderLine_ws_before_colon name value w hw hn

/-- (b) a header line that begins with whitespace (obsolete line folding) ⇒ not a header,
    whatever follows — in particular ` Transfer-Encoding: chunked` and ` Content-Length: 5`. -/
theorem leading_ws_rejected (w : Nat) (l : Bytes) (hw : isWs w = true) :
    parseHeaderLine (w :: l) = none := by
  exact parseHeaderLine_leading_ws w l hw

/-- (c) a Content-Length that is not `1*DIGIT` representable in 64 bits — empty, signed,
    non-digit, mixed, list, overflowing — on *any* Content-Length header of the request, with or
    without Transfer-Encoding ⇒ request creation fails with `badContentLength`. -/
theorem bad_content_length_rejected (hs : List Header) (h : Header)
    (hm : h ∈ hs) (hn : h.is b!"Content-Length" = true)
    (hv : strictContentLength h.value = none) :
    framingOf hs = .error .badContentLength := by
  exact framingOf_bad_content_length hs h hm hn hv

/-- `strictContentLength` accepts exactly non-empty digit strings whose value fits in usize. -/
theorem strict_content_length_iff (v : Bytes) (n : Nat) :
    strictContentLength v = some n ↔
      (v ≠ [] ∧ (∀ b ∈ v, 48 ≤ b ∧ b ≤ 57) ∧ ofDec v = some n ∧ n ≤ usizeMax) := by
  exact strictContentLength_iff v n

/-- a sign, a space, a comma, a letter, a dot anywhere ⇒ rejected. -/
theorem non_digit_rejected (v : Bytes) (b : Nat) (hb : b ∈ v) (hd : b < 48 ∨ 57 < b) :
    strictContentLength v = none := by
  exact strictContentLength_non_digit v b hb hd

/-- Outcome in a pipeline, classes (a) and (b): the head reader fails with `wrongHeader`, hence
    (C10.bad_header_outcome) 400 + close, request not delivered, nothing after the head parsed.
    Here: a head whose k-th header line is rejected is a `wrongHeader` error — whatever the lines
    after it are (they are never looked at). -/
theorem rejected_line_fails_head (fuel : Nat) (ver : Version) (good : List Bytes) (bad : Bytes) (rest : Bytes)
    (fin : EndState)
    (hgood : ∀ l ∈ good, l ≠ [] ∧ (∀ b ∈ l, b ≠ 10 ∧ b < 128) ∧ (parseHeaderLine l).isSome = true)
    (hbad : bad ≠ [] ∧ (∀ b ∈ bad, b ≠ 10 ∧ b < 128) ∧ parseHeaderLine bad = none)
    (hfuel : good.length < fuel) :
    readHeaders fuel ver ((good.map (· ++ crlf)).flatten ++ bad ++ crlf ++ rest) fin = .error (.wrongHeader ver) := by
  exact readHeaders_rejected_line ver bad rest fin hbad good fuel hgood hfuel

/-- Outcome in a pipeline, class (c): 400 + close, not delivered, and — the smuggling itself —
    no byte after the offending head is interpreted as a request. -/
theorem bad_content_length_outcome (fuel idx : Nat) (s : St) (bs : Bytes) (fin : EndState) (script : Script)
    (h : Head) (rest : Bytes)
    (hh : readHead bs fin = .ok (h, rest))
    (hf : framingOf h.headers = .error .badContentLength) :
    let t := runLoop (fuel + 1) idx s bs fin script
    t.delivered = s.delivered ∧ t.statuses = s.statuses ++ [400] ∧ t.ending = .closed ∧
      t.out = s.out ++ printError 400 h.version false := by
  have hf' : framingFor h.version h.headers = .error .badContentLength :=
    (framingFor_error_iff _ _ _).2 hf
  simp [runLoop, hh, hf', St.emit, St.finish]

example : (Conn.run b!"POST / HTTP/1.1\r\nContent-Length: 5x\r\n\r\nGET /smuggled HTTP/1.1\r\n\r\n" .eof
    (fun _ => ⟨0, 0, 1, .drop, false⟩)).statuses = [400] := by decide
example : (Conn.run b!"POST / HTTP/1.1\r\n Transfer-Encoding: chunked\r\n\r\n0\r\n\r\n" .eof
    (fun _ => ⟨0, 0, 1, .drop, false⟩)).delivered.length = 0 := by decide

/-! ### end to end: a pipeline, then a smuggling-prone head, then anything -/

open TH.Props.C09 (CMsg SentBody cmsgBytes wellBodied)
open TH.Props.C18 (expectBodied expects expectedStatuses)

/-- What "rejected, not interpreted" means for the connection that received the pipeline `msgs`,
    then the bytes `offending` (a request line in version `v`, header lines, up to and including
    the offending line — classes (a), (b) — or the whole head — class (c)), then `tail`:
    1. exactly the requests of `msgs` are delivered, in order, with the heads as sent: the offending
       request is never delivered and NOTHING of `tail` is parsed as a request;
    2. none of them is marked as the connection's last request, and every handler obtained a
       prefix of its own request's content (never a byte of the offending head or of `tail`);
    3. the statuses are those of `msgs` (`C18.expectedStatuses`: the interim `100`s asked for and
       expected, the handlers' final statuses), then one 400: the earlier responses come first;
    4. the connection is closed, everything flushed, and the last thing written is the 400, in the
       version of the offending request line;
    5. the WHOLE trace — requests delivered, what each handler read, every byte sent, statuses,
       ending — is the same for every `tail'` in place of `tail`. -/
def NeverInterpreted (msgs : List CMsg) (offending : Bytes) (v : Version) (tail : Bytes) (fin : EndState)
    (script : Script) : Prop :=
  let t := Conn.run ((msgs.map cmsgBytes).flatten ++ offending ++ tail) fin script
  t.delivered.map (fun d => (d.method, d.url, d.version, d.headers, d.bodyLength)) =
      msgs.map (fun m => (m.head.method, m.head.url, m.head.version, m.head.headers, m.body.declared)) ∧
    t.delivered.length = msgs.length ∧
    (∀ d ∈ t.delivered, d.last = false) ∧
    (∀ (i : Nat) (d : Delivered) (m : CMsg), t.delivered[i]? = some d → msgs[i]? = some m →
      d.bodyRead <+: m.body.payload) ∧
    t.statuses = expectedStatuses script 0 msgs ++ [400] ∧
    t.ending = .closed ∧
    t.flushed = t.out.length ∧
    (∃ before, t.out = before ++ printError 400 v false) ∧
    ∀ tail' : Bytes, Conn.run ((msgs.map cmsgBytes).flatten ++ offending ++ tail') fin script = t

/-- for messages without `Expect: 100-continue` (`C09.wellBodied`) the statuses of the pipeline are
    the handlers' final statuses, one per request (none for a raw writer) -/
theorem expectedStatuses_wellBodied (msgs : List CMsg) (script : Script)
    (hgood : ∀ m ∈ msgs, wellBodied m) :
    expectedStatuses script 0 msgs = finalStatuses script 0 msgs.length := by
  rw [C18.expectedStatuses_eq_pipeStatuses]
  refine pipeStatuses_no_expectation expects script msgs (fun m hm => ?_) 0
  obtain ⟨head, ows, body⟩ := m
  obtain ⟨_, _, h3, _, _⟩ := hgood _ hm
  cases body with
  | plain B =>
    rcases h3 with h3 | h3 | ⟨_, h3⟩ <;> exact C18.expects_false_of_framing _ _ _ h3
  | chunked cs zero => exact C18.expects_false_of_framing _ _ _ h3.1
  | absent => exact C18.expects_false_of_framing _ _ _ h3

/-- The core: any pipeline of requests on a connection that stays open (with or without
    `Expect: 100-continue`; Content-Length, chunked or no bodies), then bytes the connection loop
    refuses with a 400 (`Refused400`), then anything. -/
theorem pipeline_then_refused (msgs : List CMsg) (offending : Bytes) (v : Version) (tail : Bytes)
    (fin : EndState) (script : Script) (hgood : ∀ m ∈ msgs, expectBodied m)
    (href : Refused400 offending v fin) :
    NeverInterpreted msgs offending v tail fin script := by
  obtain ⟨s', hmap, hlast, hpre, hst, hrun⟩ :=
    framed_pipeline_then_refused CMsg.head CMsg.ows (fun m => m.body.wire) (fun m => m.body.payload)
      (fun m => m.body.declared) expects fin msgs
      (fun m hm => ⟨C18.framedMsgE_of_expectBodied m fin (hgood m hm), (hgood m hm).2.2.2.1⟩) script
  have hrun' : ∀ tail' : Bytes, Conn.run ((msgs.map cmsgBytes).flatten ++ offending ++ tail') fin script =
      (s'.emit 400 (some (printError 400 v false)) false).finish .closed :=
    fun tail' => hrun offending v href tail'
  unfold NeverInterpreted
  intro t
  have ht : t = (s'.emit 400 (some (printError 400 v false)) false).finish .closed := hrun' tail
  have hd : t.delivered = s'.delivered := by rw [ht]; rfl
  refine ⟨by rw [hd, hmap], ?_, by rw [hd]; exact hlast, by rw [hd]; exact hpre, ?_, by rw [ht]; rfl, ?_,
    ⟨s'.out, by rw [ht]; rfl⟩, fun tail' => by rw [ht]; exact hrun' tail'⟩
  · have := congrArg List.length hmap
    rw [hd]
    simpa using this
  · rw [ht, C18.expectedStatuses_eq_pipeStatuses, ← hst]; rfl
  · rw [ht]; simp [St.finish]

/-- the part of an offending head before the offending line: a request line (any method, any
    target, any version the request-line parser recognises — HTTP/0.9, 1.0, 1.1, 2.0, 3.0: a
    malformed head is refused before the version matters) and any number of well-formed header
    lines, each rendered with any optional whitespace around its value -/
def frontOk (front : Head) (ows : List (Bytes × Bytes)) : Prop :=
  wfAnyVersion front ∧ ∀ o ∈ ows, Spec.isOwsList o.1 = true ∧ Spec.isOwsList o.2 = true

/-- Class (a), end to end.  A pipeline of any number of `C09.wellBodied` requests, then a head made
    of a well-formed request line, any number of well-formed header lines (`front`, `ows`) and the
    header line `pre w post ":" value` where `w` is a whitespace byte (SP = 32 and HTAB = 9 are the
    cases of the statement; the other bytes `isWs` knows — VT, FF, CR — are refused alike) and
    `pre`, `post` hold no colon: whitespace INSIDE the header name (`post` not empty) or BETWEEN the
    name and the colon (`post` empty, or more whitespace).  Then ARBITRARY bytes `tail` — further
    header lines, an empty line, a body, more requests, or nothing: the head need not be terminated.
    ANY script, the client's stream ending in ANY way (`fin`: still connected, closed, reset).
    Then `NeverInterpreted`: exactly the requests of `msgs` are delivered, the answers to them come
    first, then a 400, the connection is closed, and the trace is the same for every `tail`. -/
theorem pipeline_then_ws_in_header (msgs : List CMsg) (front : Head) (ows : List (Bytes × Bytes))
    (pre : Bytes) (w : Nat) (post value tail : Bytes) (fin : EndState) (script : Script)
    (hgood : ∀ m ∈ msgs, wellBodied m) (hfront : frontOk front ows)
    (hw : isWs w = true) (hname : ∀ b ∈ pre ++ post, b ≠ 58)
    (hsafe : ∀ b ∈ pre ++ [w] ++ post ++ [58] ++ value, b ≠ 10 ∧ b < 128) :
    NeverInterpreted msgs (Spec.renderFront front ows ++ (pre ++ [w] ++ post ++ [58] ++ value ++ crlf))
      front.version tail fin script :=
  pipeline_then_refused msgs _ _ tail fin script (fun m hm => C18.wellBodied_expectBodied m (hgood m hm))
    (refused400_rejected_line front ows _ fin hfront.1 hfront.2
      (rejectedLine_ws_in_name pre post value w hw
        (fun b hb => hname b (List.mem_append.2 (Or.inl hb)))
        (fun b hb => hname b (List.mem_append.2 (Or.inr hb))) hsafe))

/-- Class (b), end to end.  As `pipeline_then_ws_in_header`, the offending line being ANY line that
    begins with a whitespace byte `w` (obsolete line folding: ` Transfer-Encoding: chunked`,
    `\t continued value`, a line of blanks), at ANY position after the request line — `front` may
    have no header at all, so the line directly after the request line is included. -/
theorem pipeline_then_obs_fold (msgs : List CMsg) (front : Head) (ows : List (Bytes × Bytes))
    (w : Nat) (l tail : Bytes) (fin : EndState) (script : Script)
    (hgood : ∀ m ∈ msgs, wellBodied m) (hfront : frontOk front ows)
    (hw : isWs w = true) (hsafe : ∀ b ∈ w :: l, b ≠ 10 ∧ b < 128) :
    NeverInterpreted msgs (Spec.renderFront front ows ++ (w :: l ++ crlf)) front.version tail fin script :=
  pipeline_then_refused msgs _ _ tail fin script (fun m hm => C18.wellBodied_expectBodied m (hgood m hm))
    (refused400_rejected_line front ows _ fin hfront.1 hfront.2 (rejectedLine_leading_ws w l hw hsafe))

/-- Class (c), end to end.  A pipeline of any number of `C09.wellBodied` requests, then a COMPLETE,
    otherwise well-formed head (`head`, rendered with any optional whitespace `ows`; any recognised
    version) among whose headers — at any position, next to any other headers: `Transfer-Encoding:
    chunked`, `Expect`, `Connection: upgrade`, a second, valid Content-Length — there is a header
    `c` named Content-Length in ANY letter case (`Header.is`) whose value is not a plain decimal
    number the server can represent (`strictContentLength c.value = none`: empty, signed, a
    non-digit anywhere, a list, more than `usize::MAX`).  Then ARBITRARY bytes `tail`: what the
    client meant as the body, more requests.  Then `NeverInterpreted`: here the bytes after the HEAD
    are the ones without influence. -/
theorem pipeline_then_bad_content_length (msgs : List CMsg) (head : Head) (ows : List (Bytes × Bytes))
    (c : Header) (tail : Bytes) (fin : EndState) (script : Script)
    (hgood : ∀ m ∈ msgs, wellBodied m) (hhead : frontOk head ows)
    (hc : c ∈ head.headers) (hn : c.is b!"Content-Length" = true)
    (hv : strictContentLength c.value = none) :
    NeverInterpreted msgs (Spec.renderHead head ows) head.version tail fin script :=
  pipeline_then_refused msgs _ _ tail fin script (fun m hm => C18.wellBodied_expectBodied m (hgood m hm))
    (refused400_bad_content_length head ows fin hhead.1 hhead.2 c hc hn hv)

/-- the three classes of the statement as one type -/
inductive Offending where
  /-- (a) `front`, then the line `pre w post ":" value` -/
  | wsInName (front : Head) (ows : List (Bytes × Bytes)) (pre : Bytes) (w : Nat) (post value : Bytes)
  /-- (b) `front`, then the line `w l` -/
  | obsFold (front : Head) (ows : List (Bytes × Bytes)) (w : Nat) (l : Bytes)
  /-- (c) the complete head `head`, one of whose headers is the Content-Length `c` -/
  | badLength (head : Head) (ows : List (Bytes × Bytes)) (c : Header)

/-- the bytes of the offending head: up to and including the offending line for (a) and (b), the
    whole head for (c) -/
def Offending.bytes : Offending → Bytes
  | .wsInName front ows pre w post value =>
    Spec.renderFront front ows ++ (pre ++ [w] ++ post ++ [58] ++ value ++ crlf)
  | .obsFold front ows w l => Spec.renderFront front ows ++ (w :: l ++ crlf)
  | .badLength head ows _ => Spec.renderHead head ows

def Offending.version : Offending → Version
  | .wsInName front _ _ _ _ _ => front.version
  | .obsFold front _ _ _ => front.version
  | .badLength head _ _ => head.version

/-- the hypotheses of the three theorems above -/
def Offending.ok : Offending → Prop
  | .wsInName front ows pre w post value =>
    frontOk front ows ∧ isWs w = true ∧ (∀ b ∈ pre ++ post, b ≠ 58) ∧
      ∀ b ∈ pre ++ [w] ++ post ++ [58] ++ value, b ≠ 10 ∧ b < 128
  | .obsFold front ows w l => frontOk front ows ∧ isWs w = true ∧ ∀ b ∈ w :: l, b ≠ 10 ∧ b < 128
  | .badLength head ows c =>
    frontOk head ows ∧ c ∈ head.headers ∧ c.is b!"Content-Length" = true ∧ strictContentLength c.value = none

/-- every offending head is refused with a 400 by one iteration of the connection loop, in any
    state, whatever follows it -/
theorem Offending.refused (o : Offending) (ho : o.ok) (fin : EndState) : Refused400 o.bytes o.version fin := by
  cases o with
  | wsInName front ows pre w post value =>
    obtain ⟨hfront, hw, hname, hsafe⟩ := ho
    exact refused400_rejected_line front ows _ fin hfront.1 hfront.2
      (rejectedLine_ws_in_name pre post value w hw
        (fun b hb => hname b (List.mem_append.2 (Or.inl hb)))
        (fun b hb => hname b (List.mem_append.2 (Or.inr hb))) hsafe)
  | obsFold front ows w l =>
    obtain ⟨hfront, hw, hsafe⟩ := ho
    exact refused400_rejected_line front ows _ fin hfront.1 hfront.2 (rejectedLine_leading_ws w l hw hsafe)
  | badLength head ows c =>
    obtain ⟨hhead, hc, hn, hv⟩ := ho
    exact refused400_bad_content_length head ows fin hhead.1 hhead.2 c hc hn hv

/-- C16, end to end.  A pipeline of any number of requests on a connection that stays open — here
    also requests that say `Expect: 100-continue` (`C18.expectBodied`, which `C09.wellBodied`
    implies) —, then a head of ANY of the three smuggling-prone classes, then ARBITRARY bytes, any
    script, any end of the client's stream: the offending request is never delivered, nothing after
    it is parsed as a request, the client gets the answers to the earlier requests and then a 400,
    the connection is closed, and the bytes after the offending line (classes a, b) / head (class c)
    have no influence on anything the server does. -/
theorem smuggling_head_never_interpreted (msgs : List CMsg) (o : Offending) (tail : Bytes) (fin : EndState)
    (script : Script) (hgood : ∀ m ∈ msgs, expectBodied m) (ho : o.ok) :
    NeverInterpreted msgs o.bytes o.version tail fin script :=
  pipeline_then_refused msgs o.bytes o.version tail fin script hgood (o.refused ho fin)

/-- the smuggling itself, on its own: two streams that differ only after the offending line / head
    give the same trace — a request hidden there is never seen. -/
theorem bytes_after_smuggling_head_ignored (msgs : List CMsg) (o : Offending) (tail tail' : Bytes)
    (fin : EndState) (script : Script) (hgood : ∀ m ∈ msgs, expectBodied m) (ho : o.ok) :
    Conn.run ((msgs.map cmsgBytes).flatten ++ o.bytes ++ tail) fin script =
      Conn.run ((msgs.map cmsgBytes).flatten ++ o.bytes ++ tail') fin script :=
  ((smuggling_head_never_interpreted msgs o tail fin script hgood ho).2.2.2.2.2.2.2.2 tail').symm

/-- …and in the words of the property: the number of requests delivered is the number of requests
    before the offending head, the last status is 400, the connection is closed. -/
theorem smuggling_head_summary (msgs : List CMsg) (o : Offending) (tail : Bytes) (fin : EndState)
    (script : Script) (hgood : ∀ m ∈ msgs, expectBodied m) (ho : o.ok) :
    let t := Conn.run ((msgs.map cmsgBytes).flatten ++ o.bytes ++ tail) fin script
    t.delivered.length = msgs.length ∧ t.statuses.getLast? = some 400 ∧ t.ending = .closed := by
  intro t
  obtain ⟨_, h2, _, _, h5, h6, _⟩ := smuggling_head_never_interpreted msgs o tail fin script hgood ho
  refine ⟨h2, ?_, h6⟩
  show t.statuses.getLast? = some 400
  rw [h5]
  simp

/-! non-vacuity: `GET /a HTTP/1.1` with a Host header, then an offending `POST /b` of each class,
    then a smuggled request -/

def exA : CMsg := ⟨⟨⟨b!"GET"⟩, b!"/a", ⟨1, 1⟩, [⟨b!"Host", b!"x"⟩]⟩, [(b!" ", [])], .absent⟩

theorem exA_wellBodied : ∀ m ∈ [exA], wellBodied m := by
  intro m hm
  simp only [List.mem_cons, List.not_mem_nil, or_false] at hm
  subst hm
  refine ⟨by decide, by decide, ?_, by decide, by decide⟩
  show framingOf exA.head.headers = .ok ⟨.empty, none, false⟩
  decide

def exSmuggled : Bytes := b!"GET /smuggled HTTP/1.1\r\n\r\n"

/-- a script that drops every request: the automatic 500 -/
def exDrop : Script := fun _ => ⟨0, 0, 1, .drop, false⟩

/-- a script whose handlers read 8 bytes with a 3-byte buffer and answer 200 -/
def exAnswer : Script := fun _ => ⟨1, 8, 3, .respond ⟨200, [], none, none, [b!"ok"]⟩, false⟩

/-- (b) obs-fold: ` Transfer-Encoding: chunked` after `Host: x`, before a Content-Length -/
def exFold : Offending :=
  .obsFold ⟨⟨b!"POST"⟩, b!"/b", ⟨1, 1⟩, [⟨b!"Host", b!"x"⟩]⟩ [(b!" ", [])] 32 b!"Transfer-Encoding: chunked"

theorem exFold_ok : exFold.ok := by
  refine ⟨⟨⟨by decide, by decide⟩, by decide⟩, by decide, by decide⟩

/-- the bytes on the wire -/
theorem exFold_wire :
    ([exA].map cmsgBytes).flatten ++ exFold.bytes ++ (b!"Content-Length: 4\r\n\r\n" ++ exSmuggled) =
      b!"GET /a HTTP/1.1\r\nHost: x\r\n\r\nPOST /b HTTP/1.1\r\nHost: x\r\n Transfer-Encoding: chunked\r\nContent-Length: 4\r\n\r\nGET /smuggled HTTP/1.1\r\n\r\n" := by
  decide

/-- so the theorem applies, with every script, every end of the client's stream and every tail:
    one request delivered, the last status is 400, closed -/
example (script : Script) (fin : EndState) (tail : Bytes) :
    let t := Conn.run (([exA].map cmsgBytes).flatten ++ exFold.bytes ++ tail) fin script
    t.delivered.map (·.url) = [b!"/a"] ∧ t.statuses = Spec.finishStatus (script 0).fin ++ [400] ∧
      t.ending = .closed := by
  intro t
  obtain ⟨h1, _, _, _, h5, h6, _⟩ :=
    smuggling_head_never_interpreted [exA] exFold tail fin script
      (fun m hm => C18.wellBodied_expectBodied m (exA_wellBodied m hm)) exFold_ok
  refine ⟨?_, ?_, h6⟩
  · have := congrArg (List.map (fun x : Method × Bytes × Version × List Header × Option Nat => x.2.1)) h1
    rw [List.map_map] at this
    exact this
  · show t.statuses = _
    rw [h5, expectedStatuses_wellBodied [exA] script exA_wellBodied]
    simp [finalStatuses]

set_option maxRecDepth 8192 in
/-- the model run on it: `/a` is delivered and answered, `/b` and `/smuggled` are not, 400, closed -/
example :
    let t := Conn.run b!"GET /a HTTP/1.1\r\nHost: x\r\n\r\nPOST /b HTTP/1.1\r\nHost: x\r\n Transfer-Encoding: chunked\r\nContent-Length: 4\r\n\r\nGET /smuggled HTTP/1.1\r\n\r\n" .eof exDrop
    t.delivered.map (·.url) = [b!"/a"] ∧ t.statuses = [500, 400] ∧ t.ending = .closed := by
  decide

set_option maxRecDepth 8192 in
/-- the same with the client still connected and handlers that read and answer 200 -/
example :
    let t := Conn.run b!"GET /a HTTP/1.1\r\nHost: x\r\n\r\nPOST /b HTTP/1.1\r\nHost: x\r\n Transfer-Encoding: chunked\r\nContent-Length: 4\r\n\r\nGET /smuggled HTTP/1.1\r\n\r\n" .open exAnswer
    t.delivered.map (·.url) = [b!"/a"] ∧ t.statuses = [200, 400] ∧ t.ending = .closed := by
  decide

set_option maxRecDepth 8192 in
/-- obs-fold directly after the request line, with a HTAB -/
example :
    let t := Conn.run b!"GET /a HTTP/1.1\r\nHost: x\r\n\r\nPOST /b HTTP/1.1\r\n\tHost: x\r\n\r\nGET /smuggled HTTP/1.1\r\n\r\n" .eof exDrop
    t.delivered.map (·.url) = [b!"/a"] ∧ t.statuses = [500, 400] ∧ t.ending = .closed := by
  decide

/-- (b) directly after the request line: `front` without headers -/
def exFoldFirst : Offending := .obsFold ⟨⟨b!"POST"⟩, b!"/b", ⟨1, 1⟩, []⟩ [] 9 b!"Host: x"

theorem exFoldFirst_ok : exFoldFirst.ok := by
  refine ⟨⟨⟨by decide, by decide⟩, by decide⟩, by decide, by decide⟩

example : ([exA].map cmsgBytes).flatten ++ exFoldFirst.bytes ++ (crlf ++ exSmuggled) =
    b!"GET /a HTTP/1.1\r\nHost: x\r\n\r\nPOST /b HTTP/1.1\r\n\tHost: x\r\n\r\nGET /smuggled HTTP/1.1\r\n\r\n" := by
  decide

/-- (a) `Content-Length : 5`: a space between the name and the colon -/
def exWs : Offending :=
  .wsInName ⟨⟨b!"POST"⟩, b!"/b", ⟨1, 1⟩, [⟨b!"Host", b!"x"⟩]⟩ [(b!" ", [])] b!"Content-Length" 32 [] b!" 5"

theorem exWs_ok : exWs.ok := by
  refine ⟨⟨⟨by decide, by decide⟩, by decide⟩, by decide, by decide, by decide⟩

theorem exWs_wire :
    ([exA].map cmsgBytes).flatten ++ exWs.bytes ++ (crlf ++ b!"hello" ++ exSmuggled) =
      b!"GET /a HTTP/1.1\r\nHost: x\r\n\r\nPOST /b HTTP/1.1\r\nHost: x\r\nContent-Length : 5\r\n\r\nhelloGET /smuggled HTTP/1.1\r\n\r\n" := by
  decide

set_option maxRecDepth 8192 in
example :
    let t := Conn.run b!"GET /a HTTP/1.1\r\nHost: x\r\n\r\nPOST /b HTTP/1.1\r\nHost: x\r\nContent-Length : 5\r\n\r\nhelloGET /smuggled HTTP/1.1\r\n\r\n" .eof exDrop
    t.delivered.map (·.url) = [b!"/a"] ∧ t.statuses = [500, 400] ∧ t.ending = .closed := by
  decide

/-- (a) `Content Length: 5`: a space inside the name, in an HTTP/2.0 request: 400, not 505 -/
def exWsIn : Offending :=
  .wsInName ⟨⟨b!"POST"⟩, b!"/b", ⟨2, 0⟩, []⟩ [] b!"Content" 32 b!"Length" b!" 5"

theorem exWsIn_ok : exWsIn.ok := by
  refine ⟨⟨⟨by decide, by decide⟩, by decide⟩, by decide, by decide, by decide⟩

set_option maxRecDepth 8192 in
example :
    let t := Conn.run (([exA].map cmsgBytes).flatten ++ exWsIn.bytes ++ (crlf ++ b!"hello" ++ exSmuggled)) .eof exDrop
    t.delivered.map (·.url) = [b!"/a"] ∧ t.statuses = [500, 400] ∧ t.ending = .closed := by
  decide

/-- (c) `content-length: +5`: lower-case name, signed value -/
def exPlus : Offending :=
  .badLength ⟨⟨b!"POST"⟩, b!"/b", ⟨1, 1⟩, [⟨b!"Host", b!"x"⟩, ⟨b!"content-length", b!"+5"⟩]⟩
    [(b!" ", []), (b!" ", [])] ⟨b!"content-length", b!"+5"⟩

theorem exPlus_ok : exPlus.ok := by
  refine ⟨⟨⟨by decide, by decide⟩, by decide⟩, by decide, by decide, by decide⟩

theorem exPlus_wire :
    ([exA].map cmsgBytes).flatten ++ exPlus.bytes ++ (b!"hello" ++ exSmuggled) =
      b!"GET /a HTTP/1.1\r\nHost: x\r\n\r\nPOST /b HTTP/1.1\r\nHost: x\r\ncontent-length: +5\r\n\r\nhelloGET /smuggled HTTP/1.1\r\n\r\n" := by
  decide

set_option maxRecDepth 8192 in
example :
    let t := Conn.run b!"GET /a HTTP/1.1\r\nHost: x\r\n\r\nPOST /b HTTP/1.1\r\nHost: x\r\ncontent-length: +5\r\n\r\nhelloGET /smuggled HTTP/1.1\r\n\r\n" .eof exDrop
    t.delivered.map (·.url) = [b!"/a"] ∧ t.statuses = [500, 400] ∧ t.ending = .closed := by
  decide

/-- (c) `Content-Length: 18446744073709551616`: one more than `usize::MAX`, next to
    `Transfer-Encoding: chunked` -/
def exOverflow : Offending :=
  .badLength ⟨⟨b!"POST"⟩, b!"/b", ⟨1, 1⟩,
      [⟨b!"Transfer-Encoding", b!"chunked"⟩, ⟨b!"Content-Length", b!"18446744073709551616"⟩]⟩
    [(b!" ", []), (b!" ", [])] ⟨b!"Content-Length", b!"18446744073709551616"⟩

theorem exOverflow_ok : exOverflow.ok := by
  refine ⟨⟨⟨by decide, by decide⟩, by decide⟩, by decide, by decide, by decide⟩

theorem exOverflow_wire :
    ([exA].map cmsgBytes).flatten ++ exOverflow.bytes ++ (b!"0\r\n\r\n" ++ exSmuggled) =
      b!"GET /a HTTP/1.1\r\nHost: x\r\n\r\nPOST /b HTTP/1.1\r\nTransfer-Encoding: chunked\r\nContent-Length: 18446744073709551616\r\n\r\n0\r\n\r\nGET /smuggled HTTP/1.1\r\n\r\n" := by
  decide

set_option maxRecDepth 8192 in
example :
    let t := Conn.run b!"GET /a HTTP/1.1\r\nHost: x\r\n\r\nPOST /b HTTP/1.1\r\nTransfer-Encoding: chunked\r\nContent-Length: 18446744073709551616\r\n\r\n0\r\n\r\nGET /smuggled HTTP/1.1\r\n\r\n" .eof exDrop
    t.delivered.map (·.url) = [b!"/a"] ∧ t.statuses = [500, 400] ∧ t.ending = .closed := by
  decide

/-- the largest representable value is NOT in class (c): the request is delivered -/
example : strictContentLength b!"18446744073709551615" = some usizeMax ∧
    strictContentLength b!"18446744073709551616" = none ∧ strictContentLength b!"+5" = none ∧
    strictContentLength [] = none ∧ strictContentLength b!"5, 5" = none := by decide

/-- every class, every script, every end of stream, every tail: as the property says -/
example (o : Offending) (ho : o ∈ [exFold, exFoldFirst, exWs, exWsIn, exPlus, exOverflow])
    (script : Script) (fin : EndState) (tail : Bytes) :
    let t := Conn.run (([exA].map cmsgBytes).flatten ++ o.bytes ++ tail) fin script
    t.delivered.length = 1 ∧ t.statuses.getLast? = some 400 ∧ t.ending = .closed := by
  have hok : o.ok := by
    simp only [List.mem_cons, List.not_mem_nil, or_false] at ho
    rcases ho with rfl | rfl | rfl | rfl | rfl | rfl
    · exact exFold_ok
    · exact exFoldFirst_ok
    · exact exWs_ok
    · exact exWsIn_ok
    · exact exPlus_ok
    · exact exOverflow_ok
  exact smuggling_head_summary [exA] o tail fin script
    (fun m hm => C18.wellBodied_expectBodied m (exA_wellBodied m hm)) hok

end TH.Props.C16
