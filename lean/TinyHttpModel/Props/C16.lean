/-
  C16 — header syntax that enables request smuggling is rejected, not interpreted.
-/
import TinyHttpModel.WireSpec
import TinyHttpModel.Lemmas.LoopA
import TinyHttpModel.Lemmas.HeadParse

namespace TH.Props.C16
open TH

/-- (a) whitespace inside a header name or between the name and the colon ⇒ the line is not a header. -/
theorem ws_in_name_rejected (line : Bytes)
    (h : ((splitFirst 58 (trimEnd line)).1.any isWs) = true) : parseHeaderLine line = none := by
  exact parseHeaderLine_ws_in_name line h

/-- concrete forms of (a): `name SP* ":"`, `na me:` — for any name, any whitespace byte. -/
theorem ws_before_colon_rejected (name value : Bytes) (w : Nat) (hw : isWs w = true)
    (hn : name.contains 58 = false) :
    parseHeaderLine (name ++ [w] ++ [58] ++ value) = none := by
  exact parseHeaderLine_ws_before_colon name value w hw hn

/-- (b) a header line that begins with whitespace (obsolete line folding) ⇒ not a header,
    whatever follows — in particular ` Transfer-Encoding: chunked` and ` Content-Length: 5`. -/
theorem leading_ws_rejected (w : Nat) (l : Bytes) (hw : isWs w = true) :
    parseHeaderLine (w :: l) = none := by
  exact parseHeaderLine_leading_ws w l hw

/-- (c) a Content-Length that is not `1*DIGIT` representable in 64 bits — empty, signed,
    non-digit, mixed, list, overflowing — on *any* Content-Length header of the request, with or
    without Transfer-Encoding ⇒ request creation fails with `badContentLength`. -/
theorem bad_content_length_rejected (hs : List Header) (h : Header)
    (hm : h ∈ hs) (hn : h.is b!"Content-Length" = true)
    (hv : strictContentLength h.value = none) :
    framingOf hs = .error .badContentLength := by
  exact framingOf_bad_content_length hs h hm hn hv

/-- `strictContentLength` accepts exactly non-empty digit strings whose value fits in usize. -/
theorem strict_content_length_iff (v : Bytes) (n : Nat) :
    strictContentLength v = some n ↔
      (v ≠ [] ∧ (∀ b ∈ v, 48 ≤ b ∧ b ≤ 57) ∧ ofDec v = some n ∧ n ≤ usizeMax) := by
  exact strictContentLength_iff v n

/-- a sign, a space, a comma, a letter, a dot anywhere ⇒ rejected. -/
theorem non_digit_rejected (v : Bytes) (b : Nat) (hb : b ∈ v) (hd : b < 48 ∨ 57 < b) :
    strictContentLength v = none := by
  exact strictContentLength_non_digit v b hb hd

/-- Outcome in a pipeline, classes (a) and (b): the head reader fails with `wrongHeader`, hence
    (C10.bad_header_outcome) 400 + close, request not delivered, nothing after the head parsed.
    Here: a head whose k-th header line is rejected is a `wrongHeader` error — whatever the lines
    after it are (they are never looked at). -/
theorem rejected_line_fails_head (fuel : Nat) (ver : Version) (good : List Bytes) (bad : Bytes) (rest : Bytes)
    (fin : EndState)
    (hgood : ∀ l ∈ good, l ≠ [] ∧ (∀ b ∈ l, b ≠ 10 ∧ b < 128) ∧ (parseHeaderLine l).isSome = true)
    (hbad : bad ≠ [] ∧ (∀ b ∈ bad, b ≠ 10 ∧ b < 128) ∧ parseHeaderLine bad = none)
    (hfuel : good.length < fuel) :
    readHeaders fuel ver ((good.map (· ++ crlf)).flatten ++ bad ++ crlf ++ rest) fin = .error (.wrongHeader ver) := by
  exact readHeaders_rejected_line ver bad rest fin hbad good fuel hgood hfuel

/-- Outcome in a pipeline, class (c): 400 + close, not delivered, and — the smuggling itself —
    no byte after the offending head is interpreted as a request. -/
theorem bad_content_length_outcome (fuel idx : Nat) (s : St) (bs : Bytes) (fin : EndState) (script : Script)
    (h : Head) (rest : Bytes)
    (hh : readHead bs fin = .ok (h, rest))
    (hf : framingOf h.headers = .error .badContentLength) :
    let t := runLoop (fuel + 1) idx s bs fin script
    t.delivered = s.delivered ∧ t.statuses = s.statuses ++ [400] ∧ t.ending = .closed ∧
      t.out = s.out ++ printError 400 h.version false := by
  have hf' : framingFor h.version h.headers = .error .badContentLength :=
    (framingFor_error_iff _ _ _).2 hf
  simp [runLoop, hh, hf', St.emit, St.finish]

example : (Conn.run b!"POST / HTTP/1.1\r\nContent-Length: 5x\r\n\r\nGET /smuggled HTTP/1.1\r\n\r\n" .eof
    (fun _ => ⟨0, 0, 1, .drop, false⟩)).statuses = [400] := by decide
example : (Conn.run b!"POST / HTTP/1.1\r\n Transfer-Encoding: chunked\r\n\r\n0\r\n\r\n" .eof
    (fun _ => ⟨0, 0, 1, .drop, false⟩)).delivered.length = 0 := by decide

end TH.Props.C16
