/-
  C14 — no client input aborts the process, panics a thread or forces huge allocation.
  Partial by nature: the theorems cover the modelled logic (every function of the model is total:
  no client byte sequence drives it outside its domain; the sizes it asks the allocator / the
  socket for are bounded as stated).  That the inventory of panic sites is complete, how the
  allocator reacts, and `peer_addr` on a reset socket are runtime facts: covered by the child-process
  harness (panic hook, counting allocator, exit status), not proved.
-/
import TinyHttpModel.WireOracle
import TinyHttpModel.Lemmas.Choose
import TinyHttpModel.Lemmas.Ahead

namespace TH.Props.C14
open TH

/-- the only buffer sized by a client-declared length (request.rs:197, `vec![0; content_length]`)
    is allocated for at most `smallBodyLimit = 1024` bytes, whatever Content-Length says. -/
theorem declared_length_allocation_bounded (hs : List Header) (fr : Framing) (n : Nat)
    (hf : framingOf hs = .ok fr) (hk : fr.kind = .buffered n) : n ≤ 1024 := by
  have h := (framingOf_buffered hs fr n hf hk).1
  simpa [Extracted.smallBodyLimit] using h

/-- a Content-Length that is accepted is representable (no overflow in the `usize` arithmetic of
    the length-limited reader). -/
theorem accepted_content_length_fits (v : Bytes) (n : Nat) (h : strictContentLength v = some n) :
    n ≤ usizeMax := by
  unfold strictContentLength at h
  split at h
  · split at h
    · simp at h; omega
    · simp at h
  · simp at h

/-- a chunk size that is accepted is representable. -/
theorem accepted_chunk_size_fits (f : Bytes) (n : Nat) (h : usizeFromHex f = some n) : n ≤ usizeMax := by
  have key : ∀ ds : Bytes, (match ofHex ds with
      | some n => if n ≤ usizeMax then some n else none
      | none => none) = some n → n ≤ usizeMax := by
    intro ds hd
    cases ho : ofHex ds with
    | none => simp [ho] at hd
    | some m =>
      simp only [ho] at hd
      split at hd
      · simp at hd; omega
      · simp at hd
  unfold usizeFromHex at h
  split at h
  · exact key _ h
  · exact key _ h

/-- the discard loops never ask for more than a fixed 4 KiB per read, however much the client
    declared (the F5 repair; formerly `vec![0; remaining]`). -/
theorem discard_read_size_bounded (rem : Nat) : min rem 4096 ≤ 4096 := Nat.min_le_right _ _

/-- the length-limited reader never asks the socket for more than the application's buffer. -/
theorem limited_read_request_bounded (want rem : Nat) : min want rem ≤ want := Nat.min_le_left _ _

/-- the comparison used to sort the TE header's elements is a strict weak order on every q-value
    the parser can produce (NaN is rejected by the parser — F6 repair): asymmetric and negatively
    transitive, so the standard library's sort cannot detect an inconsistency and panic. -/
theorem te_comparison_consistent (a b c : Q) :
    (a.gt b = true → b.gt a = false) ∧ (c.gt b = false → b.gt a = false → c.gt a = false) :=
  ⟨Q.gt_asymm, Q.gt_negtrans⟩

/-- `parseQ` never yields a NaN: "nan" in any letter case, with or without sign, is a parse failure. -/
theorem nan_is_rejected : parseQ b!"NaN" = .fail ∧ parseQ b!"nan" = .fail ∧ parseQ b!"-NAN" = .fail ∧ parseQ b!"+nAn" = .fail := by
  decide

/-- every connection run ends in one of the two regular ways: the model has no abnormal outcome
    (all its functions are total), for every byte stream, oracle and script. -/
theorem run_always_ends_regularly (bs : Bytes) (fin : EndState) (orc : List Nat) (script : Script) :
    (Conn.runO bs fin orc script).ending = .closed ∨ (Conn.runO bs fin orc script).ending = .waiting := by
  cases h : (Conn.runO bs fin orc script).ending <;> simp

end TH.Props.C14
