/-
  C20 — shutdown stops accepting but not answering; idle workers are reclaimed.
  Partial by nature: that a closed listener refuses connections within a bounded time, removal of
  the UNIX socket path and real thread counts are OS behaviour, observed by the check.
-/
import TinyHttpModel.Lts.Pool
import TinyHttpModel.Lts.Server
import TinyHttpModel.Lemmas.PoolInv
import TinyHttpModel.Lts.Whole
import TinyHttpModel.Lemmas.WholeInv
import TinyHttpModel.Lemmas.WholeWindDown

namespace TH.Props.C20
open TH.Lts.Pool

theorem min_threads_value : minThreads = 4 := by decide
theorem idle_period_value : idleNs = 5000 * 1000000 := by decide

/-- while the pool is alive, `active_tasks` is exactly the number of worker threads that have
    begun and not exited. -/
theorem active_count_exact (s : State) (h : Reachable s) (hd : s.dropped = false) :
    s.active = count s (fun p => isLive p && !(match p with | .starting _ => true | _ => false)) := by
  exact (inv3_reachable h).act hd

/-- A worker waits without a time limit only among the first `MIN_THREADS`: in every reachable
    state, for any burst history, at most `MIN_THREADS` workers are in an untimed wait. -/
theorem untimed_waiters_bounded (s : State) (h : Reachable s) (hd : s.dropped = false) :
    count s isUntimedWaiting ≤ minThreads := by
  exact (inv3_reachable h).unt hd

/-- Hence: in every reachable state in which every worker is idle and no timed wait is pending
    (all idle periods have run out), the number of live worker threads is at most `MIN_THREADS` —
    the thread count returns to its baseline whatever bursts were served before. -/
theorem idle_pool_at_baseline (s : State) (h : Reachable s) (hd : s.dropped = false)
    (hq : ∀ p ∈ s.workers, p = .exited ∨ p = .waiting none) :
    count s isLive ≤ minThreads := by
  have hb := untimed_waiters_bounded s h hd
  have he : s.workers.filter isLive = s.workers.filter isUntimedWaiting := by
    apply List.filter_congr
    intro p hp
    rcases hq p hp with rfl | rfl <;> rfl
  simpa [count, he] using hb

/-- a surplus worker whose idle period ran out exits, if nothing is queued. -/
theorem timed_out_worker_exits (s : State) (w d : Nat) (hp : phaseOf s w = .waiting (some d))
    (hw : w < s.workers.length) (hd : d ≤ s.now) (he : s.pending = []) :
    ∃ s1 s2, step s (.wake w true) = some s1 ∧ step s1 (.look w) = some s2 ∧ phaseOf s2 w = .exited := by
  have hp1 : phaseOf { s with workers := s.workers.set w (.woken true) } w = .woken true :=
    phaseOf_setPhase_self (s := s) (.woken true) hw
  refine ⟨_, _, step_complete (.wakeTimeout w d hp hd), step_complete (.wokenExit w hp1 he), ?_⟩
  simp [phaseOf, List.getD, hw]

/-- retirement never strands a task: a worker exits only when nothing is queued. -/
theorem retire_no_task_lost (s s' : State) (w : Nat) (hs : step s (.look w) = some s')
    (h0 : phaseOf s w ≠ .exited) (h1 : phaseOf s' w = .exited) : s.pending = [] ∧ s'.pending = [] := by
  have hw := lt_of_phaseOf_ne h0
  have key : ∀ p, p ≠ WPhase.exited → (s.workers.set w p).getD w .exited ≠ .exited := by
    intro p hp; simpa [List.getD, hw] using hp
  cases step_sound hs with
  | wokenExit _ hph hp => exact ⟨hp, hp⟩
  | seekTake _ k rest hph hp => exact absurd h1 (key _ (by simp))
  | seekWaitU _ hph hp ha => exact absurd h1 (key _ (by simp))
  | seekWaitT _ hph hp ha => exact absurd h1 (key _ (by simp))
  | wokenTake _ k b rest hph hp => exact absurd h1 (key _ (by simp))
  | wokenWaitU _ hph hp ha => exact absurd h1 (key _ (by simp))
  | wokenWaitT _ hph hp ha => exact absurd h1 (key _ (by simp))

/-- after the pool is dropped every idle worker is woken and every later wait is timed. -/
theorem drop_wakes_everybody (s s' : State) (hs : step s .dropPool = some s') :
    count s' isWaiting = 0 ∧ s'.dropped = true := by
  simp only [step, Option.some.injEq] at hs
  subst hs
  exact ⟨filter_dropMap_waiting _, rfl⟩

/-! the accept loop and server drop (M7) -/
open TH.Lts.Server in
/-- After `Drop for Server` (flag set, then the self-connection), the accept thread performs at
    most one more `accept` and exits, closing the listener: in every execution, once the flag is
    set every further `accepted` step is followed by `exited` before any other accept. -/
theorem accept_loop_stops (ls : List SLabel) (s : SState) (h : srun {} ls = some s) (hf : s.flag = true) :
    s.acceptsAfterFlag ≤ 1 := by
  have hi := sinv_of_srun h
  have _ := hf
  rcases hi.b with h0 | ⟨h1, _⟩ <;> omega

open TH.Lts.Server in
/-- requests already handed to the application keep their own handle on the connection's writer:
    dropping the server never disables answering them. -/
theorem handed_out_still_answerable (ls : List SLabel) (s : SState) (h : srun {} ls = some s) (r : Nat)
    (hr : r ∈ s.handedOut) : (sstep s (.answer r)).isSome = true := by
  have _ := h
  simp [sstep, hr]

open TH.Lts.Server in
/-- once the accept thread has exited the listener is closed and stays closed: no connection is
    accepted any more. -/
theorem no_accept_after_exit (ls : List SLabel) (s : SState) (h : srun {} ls = some s)
    (he : s.pc = .exited) : s.listenerOpen = false ∧ ∀ c, sstep s (.accepted c) = none := by
  have hi := sinv_of_srun h
  refine ⟨hi.c he, ?_⟩
  intro c
  simp [sstep, he]

/-! ### the whole server winds down (`Lts.Whole`): pool × queue × connections -/

/-- the steps the server takes on its own once the clients are gone: the pool's own steps (a
    worker begins, looks at the list of tasks, is woken — by a time-out or spuriously —, time
    passes), pushes and task ends.  No accept, no `dropPool`, no client action (`arrive`, `close`),
    no receiver action on the queue. -/
def Lts.Whole.isWindDown : Lts.Whole.Label → Bool
  | .pool (.begin _) => true
  | .pool (.look _) => true
  | .pool (.wake _ _) => true
  | .pool (.tick _) => true
  | .push _ _ => true
  | .done _ => true
  | _ => false

theorem isWindDown_of_isWind {l : Lts.Whole.Label} (h : Lts.Whole.IsWind l) :
    Lts.Whole.isWindDown l = true := by
  cases h <;> rfl

/-- Dropped server, clients gone, requests nobody received still queued: every worker thread is
    reclaimed.  From every reachable state of the whole server in which the pool has been dropped
    and every connection is closed — whatever the workers are doing (not started yet, in the
    middle of pushing a connection's requests, woken by the drop, waiting), whatever is still
    queued in the pool or in the request queue — there is a continuation made only of the
    server's own wind-down steps after which no live worker is left, no task is queued, and
    nothing was lost on the way: every connection's thread has queued everything its client sent,
    and everything every client ever sent is, as a multiset, exactly what receivers had taken
    before plus what is in the request queue now, each connection's requests in wire order.

    Hypothesis `hb` (fewer than 999 999 995 threads ever created) is needed: `dropPool` stores
    999999999 in `active_tasks` and every worker that exits afterwards takes one off, so after a
    billion exits a worker that looks again (after a spurious wake-up) would find
    `active_tasks ≤ MIN_THREADS` and wait without a time limit, for ever (same in task_pool.rs). -/
theorem whole_drop_reclaims_every_worker (s : Lts.Whole.State) (h : Lts.Whole.Reachable s)
    (hd : s.pool.dropped = true) (hc : ∀ c ∈ s.conns, c.closed = true)
    (hb : s.pool.workers.length + minThreads < droppedActive) :
    ∃ ls s', (∀ l ∈ ls, Lts.Whole.isWindDown l = true) ∧ Lts.Whole.run s ls = some s' ∧
      count s'.pool isLive = 0 ∧ s'.pool.pending = [] ∧
      (∀ (k : Nat) (c' : Lts.Whole.Conn), s'.conns[k]? = some c' → c'.pushed = c'.sent.length) ∧
      s'.conns.map (·.sent) = s.conns.map (·.sent) ∧
      s'.queue.taken = s.queue.taken ∧
      (s.queue.taken ++ Lts.Queue.elems s'.queue.queue).Perm (Lts.Whole.allSent s) ∧
      (∀ c' ∈ s'.conns, c'.sent.Sublist (s.queue.taken ++ Lts.Queue.elems s'.queue.queue)) := by
  obtain ⟨ls, s', hls, hrun, _, hp, hrest, hpend, hpu, hperm, hsub⟩ :=
    Lts.Whole.wind_down h hc (fun _ => hb)
  rw [hd] at hrest
  exact ⟨ls, s', fun l hl => isWindDown_of_isWind (hls l hl), hrun,
    Lts.Whole.live_zero_of_rest hrest, hpend, hpu, hp.sent, hp.taken, hperm, hsub⟩

/-- non-vacuity: a dropped server with 7 live workers (two woken by the drop, two not started, one
    in the middle of its connection, two fresh threads carrying connections), one connection
    still queued in the pool, three requests not queued yet, every client gone. -/
example : ∃ s, Lts.Whole.run {} [.accept .newThread, .accept .newThread, .accept .newThread,
      .arrive 0 10, .arrive 0 11, .arrive 1 20, .pool (.begin 0), .pool (.begin 1),
      .pool (.begin 4), .push 4 none, .pool (.look 0), .pool (.look 1),
      .accept (.queued (some 0)), .arrive 3 30,
      .close 0, .close 1, .close 2, .close 3, .pool .dropPool] = some s ∧
    s.pool.dropped = true ∧ (∀ c ∈ s.conns, c.closed = true) ∧
    s.pool.workers.length + minThreads < droppedActive ∧
    5 ≤ count s.pool isLive ∧ s.pool.pending ≠ [] ∧ ∃ c ∈ s.conns, c.pushed < c.sent.length :=
  ⟨_, rfl, by decide⟩

theorem isWind_of_isWindDown {l : Lts.Whole.Label} (h : Lts.Whole.isWindDown l = true) :
    Lts.Whole.IsWind l := by
  cases l with
  | pool pl => cases pl <;> first | constructor | (simp [Lts.Whole.isWindDown] at h)
  | push w woke => exact .push w woke
  | done w => exact .done w
  | _ => simp [Lts.Whole.isWindDown] at h

/-- The bound `hb` of `whole_drop_reclaims_every_worker` cannot be removed: there is a reachable
    state of the whole server, pool dropped and every client gone, from which NO wind-down
    continuation reclaims every worker.  (Witness, `Lts.Whole.stuck_reachable`: 999 999 992
    connections accepted, each on its own thread; all 999 999 996 threads begin, finish and go to
    sleep; the pool is dropped (`active_tasks := 999999999`); everybody looks and starts a timed
    wait; the idle period passes; 999 999 995 threads time out and exit (`active_tasks = 4`); the
    last one is woken spuriously instead, looks, finds `active_tasks ≤ MIN_THREADS` and waits
    without a time limit — nothing will ever notify it.  The same arithmetic is in task_pool.rs;
    it needs a billion threads, so it is of no practical concern.) -/
theorem whole_drop_reclaim_needs_thread_bound :
    ∃ s, Lts.Whole.Reachable s ∧ s.pool.dropped = true ∧ (∀ c ∈ s.conns, c.closed = true) ∧
      ∀ ls s', (∀ l ∈ ls, Lts.Whole.isWindDown l = true) → Lts.Whole.run s ls = some s' →
        count s'.pool isLive ≠ 0 := by
  obtain ⟨s, w, hr, hst, hc⟩ := Lts.Whole.stuck_reachable
  refine ⟨s, hr, hst.dropped, hc, ?_⟩
  intro ls s' hls hrun
  exact Lts.Whole.stuck_live
    (Lts.Whole.stuck_run ls s s' hst (fun l hl => isWind_of_isWindDown (hls l hl)) hrun)

/-- Live server, clients gone: the number of threads returns to its baseline.  From every
    reachable state of the whole server in which the pool is alive and every connection is closed
    — after any burst, whatever the workers are doing — there is a continuation made only of the
    server's own wind-down steps after which at most `MIN_THREADS` workers are alive (all of them
    waiting without a time limit, every other thread has exited), no task is queued, and nothing
    was lost on the way (as above). -/
theorem whole_idle_returns_to_baseline (s : Lts.Whole.State) (h : Lts.Whole.Reachable s)
    (hd : s.pool.dropped = false) (hc : ∀ c ∈ s.conns, c.closed = true) :
    ∃ ls s', (∀ l ∈ ls, Lts.Whole.isWindDown l = true) ∧ Lts.Whole.run s ls = some s' ∧
      count s'.pool isLive ≤ minThreads ∧
      (∀ p ∈ s'.pool.workers, p = .exited ∨ p = .waiting none) ∧ s'.pool.pending = [] ∧
      (∀ (k : Nat) (c' : Lts.Whole.Conn), s'.conns[k]? = some c' → c'.pushed = c'.sent.length) ∧
      s'.conns.map (·.sent) = s.conns.map (·.sent) ∧
      s'.queue.taken = s.queue.taken ∧
      (s.queue.taken ++ Lts.Queue.elems s'.queue.queue).Perm (Lts.Whole.allSent s) ∧
      (∀ c' ∈ s'.conns, c'.sent.Sublist (s.queue.taken ++ Lts.Queue.elems s'.queue.queue)) := by
  obtain ⟨ls, s', hls, hrun, hr', hp, hrest, hpend, hpu, hperm, hsub⟩ :=
    Lts.Whole.wind_down h hc (fun hd' => by rw [hd] at hd'; cases hd')
  have hq : ∀ p ∈ s'.pool.workers, p = .exited ∨ p = .waiting none :=
    fun p hp' => Lts.Whole.rank_zero (hrest p hp')
  exact ⟨ls, s', fun l hl => isWindDown_of_isWind (hls l hl), hrun,
    idle_pool_at_baseline s'.pool (Lts.Whole.pool_reachable hr') (hp.dropped.trans hd) hq,
    hq, hpend, hpu, hp.sent, hp.taken, hperm, hsub⟩

/-- non-vacuity: the same burst with the pool alive — 7 live workers, a connection queued in the
    pool, three requests not queued yet, every client gone. -/
example : ∃ s, Lts.Whole.run {} [.accept .newThread, .accept .newThread, .accept .newThread,
      .arrive 0 10, .arrive 0 11, .arrive 1 20, .pool (.begin 0), .pool (.begin 1),
      .pool (.begin 4), .push 4 none, .pool (.look 0), .pool (.look 1),
      .accept (.queued (some 0)), .arrive 3 30,
      .close 0, .close 1, .close 2, .close 3] = some s ∧
    s.pool.dropped = false ∧ (∀ c ∈ s.conns, c.closed = true) ∧
    5 ≤ count s.pool isLive ∧ s.pool.pending ≠ [] ∧ ∃ c ∈ s.conns, c.pushed < c.sent.length :=
  ⟨_, rfl, by decide⟩

end TH.Props.C20
