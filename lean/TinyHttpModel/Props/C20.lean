/-
  C20 — shutdown stops accepting but not answering; idle workers are reclaimed.
  Partial by nature: that a closed listener refuses connections within a bounded time, removal of
  the UNIX socket path and real thread counts are OS behaviour, observed by the check.
-/
import TinyHttpModel.Lts.Pool
import TinyHttpModel.Lts.Server
import TinyHttpModel.Lemmas.PoolInv

namespace TH.Props.C20
open TH.Lts.Pool

theorem min_threads_value : minThreads = 4 := by decide
theorem idle_period_value : idleNs = 5000 * 1000000 := by decide

/-- while the pool is alive, `active_tasks` is exactly the number of worker threads that have
    begun and not exited. -/
theorem active_count_exact (s : State) (h : Reachable s) (hd : s.dropped = false) :
    s.active = count s (fun p => isLive p && !(match p with | .starting _ => true | _ => false)) := by
  exact (inv3_reachable h).act hd

/-- A worker waits without a time limit only among the first `MIN_THREADS`: in every reachable
    state, for any burst history, at most `MIN_THREADS` workers are in an untimed wait. -/
theorem untimed_waiters_bounded (s : State) (h : Reachable s) (hd : s.dropped = false) :
    count s isUntimedWaiting ≤ minThreads := by
  exact (inv3_reachable h).unt hd

/-- Hence: in every reachable state in which every worker is idle and no timed wait is pending
    (all idle periods have run out), the number of live worker threads is at most `MIN_THREADS` —
    the thread count returns to its baseline whatever bursts were served before. -/
theorem idle_pool_at_baseline (s : State) (h : Reachable s) (hd : s.dropped = false)
    (hq : ∀ p ∈ s.workers, p = .exited ∨ p = .waiting none) :
    count s isLive ≤ minThreads := by
  have hb := untimed_waiters_bounded s h hd
  have he : s.workers.filter isLive = s.workers.filter isUntimedWaiting := by
    apply List.filter_congr
    intro p hp
    rcases hq p hp with rfl | rfl <;> rfl
  simpa [count, he] using hb

/-- a surplus worker whose idle period ran out exits, if nothing is queued. -/
theorem timed_out_worker_exits (s : State) (w d : Nat) (hp : phaseOf s w = .waiting (some d))
    (hw : w < s.workers.length) (hd : d ≤ s.now) (he : s.pending = []) :
    ∃ s1 s2, step s (.wake w true) = some s1 ∧ step s1 (.look w) = some s2 ∧ phaseOf s2 w = .exited := by
  have hp1 : phaseOf { s with workers := s.workers.set w (.woken true) } w = .woken true :=
    phaseOf_setPhase_self (s := s) (.woken true) hw
  refine ⟨_, _, step_complete (.wakeTimeout w d hp hd), step_complete (.wokenExit w hp1 he), ?_⟩
  simp [phaseOf, List.getD, hw]

/-- retirement never strands a task: a worker exits only when nothing is queued. -/
theorem retire_no_task_lost (s s' : State) (w : Nat) (hs : step s (.look w) = some s')
    (h0 : phaseOf s w ≠ .exited) (h1 : phaseOf s' w = .exited) : s.pending = [] ∧ s'.pending = [] := by
  have hw := lt_of_phaseOf_ne h0
  have key : ∀ p, p ≠ WPhase.exited → (s.workers.set w p).getD w .exited ≠ .exited := by
    intro p hp; simpa [List.getD, hw] using hp
  cases step_sound hs with
  | wokenExit _ hph hp => exact ⟨hp, hp⟩
  | seekTake _ k rest hph hp => exact absurd h1 (key _ (by simp))
  | seekWaitU _ hph hp ha => exact absurd h1 (key _ (by simp))
  | seekWaitT _ hph hp ha => exact absurd h1 (key _ (by simp))
  | wokenTake _ k b rest hph hp => exact absurd h1 (key _ (by simp))
  | wokenWaitU _ hph hp ha => exact absurd h1 (key _ (by simp))
  | wokenWaitT _ hph hp ha => exact absurd h1 (key _ (by simp))

/-- after the pool is dropped every idle worker is woken and every later wait is timed. -/
theorem drop_wakes_everybody (s s' : State) (hs : step s .dropPool = some s') :
    count s' isWaiting = 0 ∧ s'.dropped = true := by
  simp only [step, Option.some.injEq] at hs
  subst hs
  exact ⟨filter_dropMap_waiting _, rfl⟩

/-! the accept loop and server drop (M7) -/
open TH.Lts.Server in
/-- After `Drop for Server` (flag set, then the self-connection), the accept thread performs at
    most one more `accept` and exits, closing the listener: in every execution, once the flag is
    set every further `accepted` step is followed by `exited` before any other accept. -/
theorem accept_loop_stops (ls : List SLabel) (s : SState) (h : srun {} ls = some s) (hf : s.flag = true) :
    s.acceptsAfterFlag ≤ 1 := by
  have hi := sinv_of_srun h
  have _ := hf
  rcases hi.b with h0 | ⟨h1, _⟩ <;> omega

open TH.Lts.Server in
/-- requests already handed to the application keep their own handle on the connection's writer:
    dropping the server never disables answering them. -/
theorem handed_out_still_answerable (ls : List SLabel) (s : SState) (h : srun {} ls = some s) (r : Nat)
    (hr : r ∈ s.handedOut) : (sstep s (.answer r)).isSome = true := by
  have _ := h
  simp [sstep, hr]

open TH.Lts.Server in
/-- once the accept thread has exited the listener is closed and stays closed: no connection is
    accepted any more. -/
theorem no_accept_after_exit (ls : List SLabel) (s : SState) (h : srun {} ls = some s)
    (he : s.pc = .exited) : s.listenerOpen = false ∧ ∀ c, sstep s (.accepted c) = none := by
  have hi := sinv_of_srun h
  refine ⟨hi.c he, ?_⟩
  intro c
  simp [sstep, he]

end TH.Props.C20
