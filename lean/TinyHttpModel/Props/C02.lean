/-
  C02 — request head fidelity: method, target, version and headers delivered as sent.
  Partial: the peer address is a pass-through of what the OS reports (observed by the check).
-/
import TinyHttpModel.WireSpec
import TinyHttpModel.ConnSpec
import TinyHttpModel.Lemmas.HeadParse
import TinyHttpModel.Lemmas.Oracle
import TinyHttpModel.Lemmas.LoopA

namespace TH.Props.C02
open TH

/-- For every well-formed HTTP/1.0 or 1.1 head (any method token, any target without whitespace,
    any number of headers — duplicates, empty values, colons and inner whitespace in values),
    every choice of optional whitespace around the header values, every continuation `rest` of
    the stream and every way the stream ends: the parser returns exactly that head — same method
    token, target, version, header list in order, names and values byte-identical — and is left
    exactly at `rest`.  No bound on line or head length. -/
theorem head_roundtrip (h : Head) (ows : List (Bytes × Bytes)) (rest : Bytes) (fin : EndState)
    (hwf : Spec.wfHead h = true)
    (hows : ∀ o ∈ ows, Spec.isOwsList o.1 = true ∧ Spec.isOwsList o.2 = true) :
    readHead (Spec.renderHead h ows ++ rest) fin = .ok (h, rest) := by
  exact readHead_render h ows rest fin hwf hows

/-- The nine standard method literals map to their nine variants and every other token —
    including other letter cases — to `NonStandard`: the table extracted from the source equals
    the table written from RFC 7231 / RFC 5789. -/
theorem method_table (tok : Bytes) : (Method.mk tok).kind = Spec.methodKind tok := by
  exact method_kind_eq tok

/-- delivered heads are reported as parsed: the `Delivered` record of the connection model
    carries exactly the parsed method, target, version, headers. -/
theorem delivered_is_parsed (s : St) (h : Head) (fr : Framing) (last : Bool) (a : Action) (body : Body)
    (bs : Bytes) (fin : EndState) :
    ∃ d, (handle s h fr last a body bs fin).1.delivered = s.delivered ++ [d] ∧
      d.method = h.method ∧ d.url = h.url ∧ d.version = h.version ∧ d.headers = h.headers ∧
      d.bodyLength = fr.bodyLength := by
  obtain ⟨_, d, _, hd⟩ := handle_spec s h fr last a body bs fin
  exact ⟨d, hd⟩

/-- …and across every segmentation: the operational head reader, pulling bytes from a socket
    whose reads return oracle-chosen sizes (TCP segments, the 1 KiB read buffer), returns the
    same head and stops at the same byte. -/
theorem head_roundtrip_any_segmentation (h : Head) (ows : List (Bytes × Bytes)) (rest : Bytes) (fin : EndState)
    (orc : List Nat)
    (hwf : Spec.wfHead h = true)
    (hows : ∀ o ∈ ows, Spec.isOwsList o.1 = true ∧ Spec.isOwsList o.2 = true) :
    ∃ s', readHeadO ⟨Spec.renderHead h ows ++ rest, fin, orc⟩ = (.ok h, s') ∧ s'.bytes = rest ∧ s'.fin = fin := by
  have hs := readHeadO_spec (Spec.renderHead h ows ++ rest) fin orc
  rw [head_roundtrip h ows rest fin hwf hows] at hs
  obtain ⟨orc', ho⟩ := hs
  exact ⟨⟨rest, fin, orc'⟩, ho, rfl, rfl⟩

/-- non-vacuity: a concrete head with a duplicate header, an empty value and a colon in a value. -/
example : readHead (Spec.renderHead ⟨⟨b!"get"⟩, b!"/a?b", ⟨1, 1⟩,
      [⟨b!"X", b!"1: 2"⟩, ⟨b!"x", b!""⟩, ⟨b!"X", b!"1: 2"⟩]⟩ [(b!" ", b!"\t "), ([], []), (b!"  ", [])] ++ b!"GET")
      .open = .ok (⟨⟨b!"get"⟩, b!"/a?b", ⟨1, 1⟩, [⟨b!"X", b!"1: 2"⟩, ⟨b!"x", b!""⟩, ⟨b!"X", b!"1: 2"⟩]⟩, b!"GET") := by
  decide

end TH.Props.C02
