/-
  C13 — behaviour depends on the bytes sent, not on how they were segmented.
-/
import TinyHttpModel.WireOracle
import TinyHttpModel.Lemmas.Oracle

namespace TH.Props.C13
open TH

/-- the oracle model is faithful to a socket: every read returns at least one and at most the
    requested number of bytes, exactly the next bytes of the stream, whatever the oracle says —
    and any admissible size can be chosen by some oracle. -/
theorem read_is_a_socket_read (s : OSrc) (want : Nat) (hw : 1 ≤ want) (hb : s.bytes ≠ []) :
    ∃ k, 1 ≤ k ∧ k ≤ want ∧ k ≤ s.bytes.length ∧
      s.read want = (.data (s.bytes.take k), { s with bytes := s.bytes.drop k, orc := s.orc.tail }) := by
  sorry

theorem every_size_is_possible (bs : Bytes) (fin : EndState) (rest : List Nat) (want k : Nat)
    (h1 : 1 ≤ k) (h2 : k ≤ want) (h3 : k ≤ bs.length) :
    (OSrc.read ⟨bs, fin, k :: rest⟩ want).1 = .data (bs.take k) := by
  sorry

/-- the byte-at-a-time line reader with carried CR state finds exactly the line the flat
    semantics defines, and leaves exactly the same bytes, for every oracle. -/
theorem line_reader_oracle (s : OSrc) :
    (match readLineO s with
     | .line l s' => readLine s.bytes s.fin = .line l s'.bytes ∧ s'.fin = s.fin
     | .notAscii s' => readLine s.bytes s.fin = .notAscii s'.bytes ∧ s'.fin = s.fin
     | .stop st _ => readLine s.bytes s.fin = .stop st) := by
  sorry

/-- heads: same result and same position for every oracle. -/
theorem head_reader_oracle (s : OSrc) :
    (match readHeadO s with
     | (.ok h, s') => readHead s.bytes s.fin = .ok (h, s'.bytes) ∧ s'.fin = s.fin
     | (.error e, _) => readHead s.bytes s.fin = .error e) := by
  sorry

/-- the small-body loop tolerates any sequence of short reads. -/
theorem small_body_oracle (s : OSrc) (n : Nat) :
    (match readExactO (n + 1) s n [] with
     | (some d, s') => n ≤ s.bytes.length ∧ d = s.bytes.take n ∧ s'.bytes = s.bytes.drop n ∧ s'.fin = s.fin
     | (none, _) => s.bytes.length < n) := by
  sorry

/-- streamed bodies: however the socket cuts the data, reading `total` bytes obtains the same
    bytes, ends the same way, leaves the reader in the same state and the stream at the same
    position as in the flat semantics. -/
theorem body_reader_oracle (fuel : Nat) (b : Body) (buf total : Nat) (s : OSrc)
    (hb : 1 ≤ buf) (hf : total < fuel) :
    let r := Body.readUpToO fuel b buf total s
    let f := Body.readUpTo fuel b buf total s.bytes s.fin
    r.1 = f.1 ∧ r.2.1 = f.2.1 ∧ r.2.2.1 = f.2.2.1 ∧ r.2.2.2.bytes = f.2.2.2 ∧ r.2.2.2.fin = s.fin := by
  sorry

/-- Main theorem: for every byte stream, every way it ends, every application script and every
    two segmentations (read oracles), the connection behaves identically: same delivered requests
    (heads and bodies), same response bytes, same ending. -/
theorem segmentation_independent (bs : Bytes) (fin : EndState) (script : Script) (o1 o2 : List Nat) :
    Conn.runO bs fin o1 script = Conn.runO bs fin o2 script := by
  sorry

/-- and that common behaviour is the flat semantics all other wire theorems are proved about. -/
theorem runO_eq_run (bs : Bytes) (fin : EndState) (script : Script) (orc : List Nat) :
    Conn.runO bs fin orc script = Conn.run bs fin script := by
  sorry

/-- non-vacuity: one-byte-at-a-time delivery of a chunked request followed by another. -/
example : (Conn.runO b!"POST /a HTTP/1.1\r\nTransfer-Encoding: chunked\r\n\r\n3\r\nabc\r\n0\r\n\r\nGET /b HTTP/1.1\r\n\r\n" .eof
      (List.replicate 200 1) (fun _ => ⟨1, 10, 2, .drop⟩)).statuses = [500, 500] ∧
    (Conn.runO b!"POST /a HTTP/1.1\r\nTransfer-Encoding: chunked\r\n\r\n3\r\nabc\r\n0\r\n\r\nGET /b HTTP/1.1\r\n\r\n" .eof
      (List.replicate 200 1) (fun _ => ⟨1, 10, 2, .drop⟩)).delivered.map (·.bodyRead) = [b!"abc", []] := by decide

end TH.Props.C13
