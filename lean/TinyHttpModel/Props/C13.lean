/-
  C13 — behaviour depends on the bytes sent, not on how they were segmented.

  Outcome of the proof effort.  The component theorems (socket, line reader, head reader, small
  bodies) hold as stated.  The three statements about streamed bodies / whole connections were
  FALSE as originally stated; they are kept below, commented out, next to machine-checked
  counterexamples, and replaced by the strongest true versions:

  * `chunk_crlf_counterexample`: for a chunked body, when a chunk's data is not followed by CR LF
    (malformed stream, or the stream is cut / still open right after the data), the chunk decoder
    returns the error from the very `read` that completed the chunk and so discards the bytes of
    that read; the bytes handed out by *earlier* reads of the same chunk were already delivered.
    How much of the chunk the application sees before the error therefore depends on the
    segmentation (flat semantics = maximal reads: nothing of that chunk; byte-wise delivery: all
    but the last piece).  This mirrors `chunked_transfer::Decoder` and is a genuine segmentation
    dependence of tiny-http, visible only in `Delivered.bodyRead` of such a request; everything
    else (responses, status codes, ending, `readEnd`, stream position, later requests) agrees.
  * `chunked_zero_counterexample`: `body_reader_oracle` also fails for the reader state
    `.chunked (some 0)` (a zero-length `OSrc.read` returns one byte).  That state is only entered
    together with a `.pending` outcome, after which `Conn.run` never reads again, so it is
    unreachable for the connection theorems; it has to be excluded in the reader theorem.

  Corrected theorems: `body_reader_oracle_partial`, `runO_eq_run_masked`, `runO_eq_run_partial`
  (+ `_simple`), `segmentation_independent_masked`, `segmentation_independent_partial`.
-/
import TinyHttpModel.WireOracle
import TinyHttpModel.Lemmas.Oracle

namespace TH.Props.C13
open TH

/-- the oracle model is faithful to a socket: every read returns at least one and at most the
    requested number of bytes, exactly the next bytes of the stream, whatever the oracle says —
    and any admissible size can be chosen by some oracle. -/
theorem read_is_a_socket_read (s : OSrc) (want : Nat) (hw : 1 ≤ want) (hb : s.bytes ≠ []) :
    ∃ k, 1 ≤ k ∧ k ≤ want ∧ k ≤ s.bytes.length ∧
      s.read want = (.data (s.bytes.take k), { s with bytes := s.bytes.drop k, orc := s.orc.tail }) := by
  obtain ⟨bs, fin, orc⟩ := s
  obtain ⟨k, h1, h2, h3, _, h⟩ := OSrc.read_data bs fin orc want hw hb
  exact ⟨k, h1, h2, h3, h⟩

theorem every_size_is_possible (bs : Bytes) (fin : EndState) (rest : List Nat) (want k : Nat)
    (h1 : 1 ≤ k) (h2 : k ≤ want) (h3 : k ≤ bs.length) :
    (OSrc.read ⟨bs, fin, k :: rest⟩ want).1 = .data (bs.take k) := by
  cases bs with
  | nil => simp at h3; omega
  | cons b bs =>
    have hk : max 1 (min k (min want (b :: bs).length)) = k := by omega
    show ReadOut.data ((b :: bs).take (max 1 (min k (min want (b :: bs).length)))) = _
    rw [hk]

/-- the byte-at-a-time line reader with carried CR state finds exactly the line the flat
    semantics defines, and leaves exactly the same bytes, for every oracle. -/
theorem line_reader_oracle (s : OSrc) :
    (match readLineO s with
     | .line l s' => readLine s.bytes s.fin = .line l s'.bytes ∧ s'.fin = s.fin
     | .notAscii s' => readLine s.bytes s.fin = .notAscii s'.bytes ∧ s'.fin = s.fin
     | .stop st _ => readLine s.bytes s.fin = .stop st) := by
  obtain ⟨bs, fin, orc⟩ := s
  have h := readLineO_spec bs fin orc
  cases hr : readLine bs fin with
  | line l rest =>
    rw [hr] at h; obtain ⟨orc', h⟩ := h
    rw [h]; exact ⟨rfl, rfl⟩
  | notAscii rest =>
    rw [hr] at h; obtain ⟨orc', h⟩ := h
    rw [h]; exact ⟨rfl, rfl⟩
  | stop st =>
    rw [hr] at h; obtain ⟨s', h⟩ := h
    rw [h]

/-- heads: same result and same position for every oracle. -/
theorem head_reader_oracle (s : OSrc) :
    (match readHeadO s with
     | (.ok h, s') => readHead s.bytes s.fin = .ok (h, s'.bytes) ∧ s'.fin = s.fin
     | (.error e, _) => readHead s.bytes s.fin = .error e) := by
  obtain ⟨bs, fin, orc⟩ := s
  have h := readHeadO_spec bs fin orc
  cases hr : readHead bs fin with
  | ok p =>
    obtain ⟨hd, rest⟩ := p
    rw [hr] at h; obtain ⟨orc', h⟩ := h
    rw [h]; exact ⟨rfl, rfl⟩
  | error e =>
    rw [hr] at h; obtain ⟨s', h⟩ := h
    rw [h]

/-- the small-body loop tolerates any sequence of short reads. -/
theorem small_body_oracle (s : OSrc) (n : Nat) :
    (match readExactO (n + 1) s n [] with
     | (some d, s') => n ≤ s.bytes.length ∧ d = s.bytes.take n ∧ s'.bytes = s.bytes.drop n ∧ s'.fin = s.fin
     | (none, _) => s.bytes.length < n) := by
  obtain ⟨bs, fin, orc⟩ := s
  obtain ⟨h1, h2⟩ := readExactO_spec (n + 1) bs fin orc n [] (by omega)
  by_cases hn : n ≤ bs.length
  · obtain ⟨orc', h⟩ := h1 hn
    rw [h]; exact ⟨hn, by simp, rfl, rfl⟩
  · obtain ⟨s', h⟩ := h2 (by omega)
    rw [h]; show bs.length < n; omega

/-! ### streamed bodies -/

/- ORIGINAL STATEMENT — FALSE (see `chunked_zero_counterexample` and, for the first component,
   `chunk_crlf_reader_counterexample`):

theorem body_reader_oracle (fuel : Nat) (b : Body) (buf total : Nat) (s : OSrc)
    (hb : 1 ≤ buf) (hf : total < fuel) :
    let r := Body.readUpToO fuel b buf total s
    let f := Body.readUpTo fuel b buf total s.bytes s.fin
    r.1 = f.1 ∧ r.2.1 = f.2.1 ∧ r.2.2.1 = f.2.2.1 ∧ r.2.2.2.bytes = f.2.2.2 ∧ r.2.2.2.fin = s.fin
-/

/-- the reader state `.chunked (some 0)` (chunk data taken, blocked before its CRLF): the oracle
    read of size 0 returns one byte, the flat read returns none and parses the CRLF. -/
theorem chunked_zero_counterexample :
    (Body.readUpToO 2 (.chunked (some 0)) 1 1 ⟨[13, 10, 65], .eof, []⟩).1 = [13] ∧
    (Body.readUpToO 2 (.chunked (some 0)) 1 1 ⟨[13, 10, 65], .eof, []⟩).2.2.1 = .chunked (some 0) ∧
    (Body.readUpToO 2 (.chunked (some 0)) 1 1 ⟨[13, 10, 65], .eof, []⟩).2.2.2.bytes = [10, 65] ∧
    Body.readUpTo 2 (.chunked (some 0)) 1 1 [13, 10, 65] .eof = ([], none, .chunked none, [65]) := by
  decide

/-- a chunk whose CRLF is missing: the pieces read before the completing read are delivered over
    the oracle socket, while the flat (maximal) read loses the whole chunk. -/
theorem chunk_crlf_reader_counterexample :
    (Body.readUpToO 11 (.chunked none) 10 10 ⟨b!"3\r\nabcXX", .eof, List.replicate 20 1⟩).1 = b!"ab" ∧
    (Body.readUpTo 11 (.chunked none) 10 10 b!"3\r\nabcXX" .eof).1 = [] := by
  decide

theorem body_reader_oracle_is_false :
    ¬ (∀ (fuel : Nat) (b : Body) (buf total : Nat) (s : OSrc), 1 ≤ buf → total < fuel →
      let r := Body.readUpToO fuel b buf total s
      let f := Body.readUpTo fuel b buf total s.bytes s.fin
      r.1 = f.1 ∧ r.2.1 = f.2.1 ∧ r.2.2.1 = f.2.2.1 ∧ r.2.2.2.bytes = f.2.2.2 ∧ r.2.2.2.fin = s.fin) := by
  intro h
  have h' := (h 11 (.chunked none) 10 10 ⟨b!"3\r\nabcXX", .eof, List.replicate 20 1⟩ (by decide) (by decide)).1
  rw [chunk_crlf_reader_counterexample.1] at h'
  have h'' : (Body.readUpTo 11 (.chunked none) 10 10 b!"3\r\nabcXX" .eof).1 = [] :=
    chunk_crlf_reader_counterexample.2
  rw [h''] at h'
  exact absurd h' (by decide)

/-- streamed bodies (corrected): however the socket cuts the data, reading `total` bytes ends the
    same way, leaves the reader in the same state and the stream at the same position as in the
    flat semantics; and it obtains the same bytes — unless the reader is the chunk decoder and the
    reading ended with an error or blocked. -/
theorem body_reader_oracle_partial (fuel : Nat) (b : Body) (buf total : Nat) (s : OSrc)
    (hb : 1 ≤ buf) (hf : total < fuel) (h0 : b ≠ .chunked (some 0)) :
    let r := Body.readUpToO fuel b buf total s
    let f := Body.readUpTo fuel b buf total s.bytes s.fin
    r.2.1 = f.2.1 ∧ r.2.2.1 = f.2.2.1 ∧ r.2.2.2.bytes = f.2.2.2 ∧ r.2.2.2.fin = s.fin ∧
    (((∀ ic, b ≠ .chunked ic) ∨ (f.2.1 ≠ some .err ∧ f.2.1 ≠ some .pending)) → r.1 = f.1) := by
  obtain ⟨bs, fin, orc⟩ := s
  obtain ⟨h1, h2, h3, h4, h5, _⟩ := readUpToO_vs_flat fuel b buf total bs fin orc hb hf h0
  refine ⟨h1, h2, h3, h4, fun h => h5 ?_⟩
  rcases h with h | h
  · left; intro ⟨ic, e⟩; exact h ic e
  · right; exact h

/-- in particular the original statement holds for every reader that is not the chunk decoder. -/
theorem body_reader_oracle_nonchunked (fuel : Nat) (b : Body) (buf total : Nat) (s : OSrc)
    (hb : 1 ≤ buf) (hf : total < fuel) (hc : ∀ ic, b ≠ .chunked ic) :
    let r := Body.readUpToO fuel b buf total s
    let f := Body.readUpTo fuel b buf total s.bytes s.fin
    r.1 = f.1 ∧ r.2.1 = f.2.1 ∧ r.2.2.1 = f.2.2.1 ∧ r.2.2.2.bytes = f.2.2.2 ∧ r.2.2.2.fin = s.fin := by
  obtain ⟨h1, h2, h3, h4, h5⟩ := body_reader_oracle_partial fuel b buf total s hb hf (hc _)
  exact ⟨h5 (Or.inl hc), h1, h2, h3, h4⟩

/-! ### whole connections -/

/- ORIGINAL STATEMENTS — FALSE (see `chunk_crlf_counterexample`):

theorem segmentation_independent (bs : Bytes) (fin : EndState) (script : Script) (o1 o2 : List Nat) :
    Conn.runO bs fin o1 script = Conn.runO bs fin o2 script

theorem runO_eq_run (bs : Bytes) (fin : EndState) (script : Script) (orc : List Nat) :
    Conn.runO bs fin orc script = Conn.run bs fin script
-/

/-- a chunked request whose (only) chunk is complete but not yet followed by CR LF, the client
    still connected: delivered byte by byte the application obtains `ab` before blocking, with
    maximal reads (and in the flat semantics) it obtains nothing.  Likewise when the chunk is
    followed by garbage and the stream is closed (the read ends with an error). -/
theorem chunk_crlf_counterexample :
    (Conn.runO b!"POST /a HTTP/1.1\r\nTransfer-Encoding: chunked\r\n\r\n3\r\nabc" .open
        (List.replicate 200 1) (fun _ => ⟨1, 10, 10, .drop, false⟩)).delivered.map (·.bodyRead) = [b!"ab"] ∧
    (Conn.runO b!"POST /a HTTP/1.1\r\nTransfer-Encoding: chunked\r\n\r\n3\r\nabc" .open
        [] (fun _ => ⟨1, 10, 10, .drop, false⟩)).delivered.map (·.bodyRead) = [[]] ∧
    (Conn.run b!"POST /a HTTP/1.1\r\nTransfer-Encoding: chunked\r\n\r\n3\r\nabc" .open
        (fun _ => ⟨1, 10, 10, .drop, false⟩)).delivered.map (·.bodyRead) = [[]] ∧
    (Conn.runO b!"POST /a HTTP/1.1\r\nTransfer-Encoding: chunked\r\n\r\n3\r\nabcXX" .eof
        (List.replicate 200 1) (fun _ => ⟨1, 10, 10, .drop, false⟩)).delivered.map (fun d => (d.bodyRead, d.readEnd))
      = [(b!"ab", .err)] ∧
    (Conn.run b!"POST /a HTTP/1.1\r\nTransfer-Encoding: chunked\r\n\r\n3\r\nabcXX" .eof
        (fun _ => ⟨1, 10, 10, .drop, false⟩)).delivered.map (fun d => (d.bodyRead, d.readEnd)) = [([], .err)] := by
  decide

theorem runO_eq_run_is_false :
    ¬ (∀ (bs : Bytes) (fin : EndState) (script : Script) (orc : List Nat),
      Conn.runO bs fin orc script = Conn.run bs fin script) := by
  intro h
  have h' := congrArg (fun t => t.delivered.map (·.bodyRead))
    (h b!"POST /a HTTP/1.1\r\nTransfer-Encoding: chunked\r\n\r\n3\r\nabc" .open
      (fun _ => ⟨1, 10, 10, .drop, false⟩) (List.replicate 200 1))
  simp only at h'
  rw [chunk_crlf_counterexample.1, chunk_crlf_counterexample.2.2.1] at h'
  exact absurd h' (by decide)

theorem segmentation_independent_is_false :
    ¬ (∀ (bs : Bytes) (fin : EndState) (script : Script) (o1 o2 : List Nat),
      Conn.runO bs fin o1 script = Conn.runO bs fin o2 script) := by
  intro h
  have h' := congrArg (fun t => t.delivered.map (·.bodyRead))
    (h b!"POST /a HTTP/1.1\r\nTransfer-Encoding: chunked\r\n\r\n3\r\nabc" .open
      (fun _ => ⟨1, 10, 10, .drop, false⟩) (List.replicate 200 1) [])
  simp only at h'
  rw [chunk_crlf_counterexample.1, chunk_crlf_counterexample.2.1] at h'
  exact absurd h' (by decide)

/-- Main theorem (corrected, unconditional): for every byte stream, every way it ends, every
    application script and every read oracle, the connection over the oracle socket behaves as
    in the flat semantics — same delivered requests, same response bytes, same status codes, same
    ending — up to `Trace.maskPartial`, which forgets `bodyRead` of those delivered requests that
    have a chunked body and whose reading ended with an error or blocked
    (`Delivered.lossy`; heads, `readEnd`, `bodyLength`, `last` of these requests are compared). -/
theorem runO_eq_run_masked (bs : Bytes) (fin : EndState) (script : Script) (orc : List Nat) :
    (Conn.runO bs fin orc script).maskPartial = (Conn.run bs fin script).maskPartial :=
  runO_masked bs fin script orc

/-- exact equality whenever the flat trace delivers no chunked request whose body reading ended
    with an error or blocked (a condition on the flat semantics alone). -/
theorem runO_eq_run_partial (bs : Bytes) (fin : EndState) (script : Script) (orc : List Nat)
    (h : ∀ d ∈ (Conn.run bs fin script).delivered, d.lossy = false) :
    Conn.runO bs fin orc script = Conn.run bs fin script :=
  Trace.eq_of_mask_eq _ _ (runO_eq_run_masked bs fin script orc) h

/-- the simplest sufficient condition: no body reading ended with an error or blocked. -/
theorem runO_eq_run_partial_simple (bs : Bytes) (fin : EndState) (script : Script) (orc : List Nat)
    (h : ∀ d ∈ (Conn.run bs fin script).delivered, d.readEnd ≠ .err ∧ d.readEnd ≠ .pending) :
    Conn.runO bs fin orc script = Conn.run bs fin script := by
  apply runO_eq_run_partial
  intro d hd
  obtain ⟨h1, h2⟩ := h d hd
  simp [Delivered.lossy, h1, h2]

theorem segmentation_independent_masked (bs : Bytes) (fin : EndState) (script : Script) (o1 o2 : List Nat) :
    (Conn.runO bs fin o1 script).maskPartial = (Conn.runO bs fin o2 script).maskPartial := by
  rw [runO_eq_run_masked, runO_eq_run_masked]

theorem segmentation_independent_partial (bs : Bytes) (fin : EndState) (script : Script) (o1 o2 : List Nat)
    (h : ∀ d ∈ (Conn.run bs fin script).delivered, d.lossy = false) :
    Conn.runO bs fin o1 script = Conn.runO bs fin o2 script := by
  rw [runO_eq_run_partial bs fin script o1 h, runO_eq_run_partial bs fin script o2 h]

/-- non-vacuity: one-byte-at-a-time delivery of a chunked request followed by another. -/
example : (Conn.runO b!"POST /a HTTP/1.1\r\nTransfer-Encoding: chunked\r\n\r\n3\r\nabc\r\n0\r\n\r\nGET /b HTTP/1.1\r\n\r\n" .eof
      (List.replicate 200 1) (fun _ => ⟨1, 10, 2, .drop, false⟩)).statuses = [500, 500] ∧
    (Conn.runO b!"POST /a HTTP/1.1\r\nTransfer-Encoding: chunked\r\n\r\n3\r\nabc\r\n0\r\n\r\nGET /b HTTP/1.1\r\n\r\n" .eof
      (List.replicate 200 1) (fun _ => ⟨1, 10, 2, .drop, false⟩)).delivered.map (·.bodyRead) = [b!"abc", []] := by decide

/-- non-vacuity of `runO_eq_run_partial`: its hypothesis holds for that stream. -/
example : ∀ d ∈ (Conn.run b!"POST /a HTTP/1.1\r\nTransfer-Encoding: chunked\r\n\r\n3\r\nabc\r\n0\r\n\r\nGET /b HTTP/1.1\r\n\r\n" .eof
      (fun _ => ⟨1, 10, 2, .drop, false⟩)).delivered, d.lossy = false := by decide

end TH.Props.C13
