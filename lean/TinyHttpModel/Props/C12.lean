/-
  C12 — connection persistence is decided correctly and the connection closes in order.
-/
import TinyHttpModel.WireSpec
import TinyHttpModel.Lemmas.Loop

namespace TH.Props.C12
open TH

/-- The persistence decision of the code equals the statement read literally, for HTTP/1.0 and
    1.1 and every Connection header value (first header wins, any letter case), outside the one
    contradictory corner (HTTP/1.0 saying both keep-alive and close/upgrade). -/
theorem last_request_decision (ver : Version) (hs : List Header)
    (hv : ver = ⟨1, 0⟩ ∨ ver = ⟨1, 1⟩)
    (hc : Spec.contradictory ver ((findHeader hs b!"Connection").map (·.value)) = false) :
    isLastRequest ver hs = Spec.isLast ver ((findHeader hs b!"Connection").map (·.value)) := by
  unfold isLastRequest Spec.isLast
  unfold Spec.contradictory at hc
  cases hfh : findHeader hs b!"Connection" with
  | none => simp
  | some e =>
    rw [hfh] at hc
    simp only [Option.map_some] at hc ⊢
    rcases hv with rfl | rfl
    · have h10 : ((⟨1, 0⟩ : Version) == ⟨1, 0⟩) = true := by decide
      simp only [h10, Bool.true_and, Bool.and_true] at hc ⊢
      cases h1 : containsSub (lower e.value) b!"close" <;>
        cases h2 : containsSub (lower e.value) b!"upgrade" <;>
        cases h3 : containsSub (lower e.value) b!"keep-alive" <;> simp_all
    · have h11 : ((⟨1, 1⟩ : Version) == ⟨1, 0⟩) = false := by decide
      simp only [h11, Bool.and_false]
      cases h1 : containsSub (lower e.value) b!"close" <;>
        cases h2 : containsSub (lower e.value) b!"upgrade" <;> simp

/-- After a request that ends the connection no further client byte is interpreted: whatever
    follows it in the stream (`bs` is arbitrary), exactly this one request is delivered from the
    current position, and the server then closes (everything flushed, write side closed). -/
theorem nothing_after_last (fuel idx : Nat) (s : St) (bs : Bytes) (fin : EndState) (script : Script)
    (h : Head) (rest : Bytes) (fr : Framing)
    (hh : readHead bs fin = .ok (h, rest))
    (hf : framingOf h.headers = .ok fr)
    (hshort : ∀ n, fr.kind = .buffered n → n ≤ rest.length)
    (hver : (⟨Extracted.maxVersion.1, Extracted.maxVersion.2⟩ : Version).lt h.version = false)
    (hlast : isLastRequest h.version h.headers = true) :
    let t := runLoop (fuel + 1) idx s bs fin script
    let r := handle s h fr true (script idx) (initialBody fr.kind rest).1 (initialBody fr.kind rest).2 fin
    t.delivered = r.1.delivered ∧ t.out = r.1.out ∧
      (r.2.2 = false → t.ending = .closed ∧ t.flushed = t.out.length) := by
  rw [runLoop_step fuel idx s bs fin script h rest fr hh hf hshort hver, hlast]
  cases hb : (handle s h fr true (script idx) (initialBody fr.kind rest).1 (initialBody fr.kind rest).2 fin).2.2 <;>
    simp [St.finish, hb]

/-- Otherwise the connection stays open: the loop goes on with the bytes after this request. -/
theorem stays_open (fuel idx : Nat) (s : St) (bs : Bytes) (fin : EndState) (script : Script)
    (h : Head) (rest : Bytes) (fr : Framing)
    (hh : readHead bs fin = .ok (h, rest))
    (hf : framingOf h.headers = .ok fr)
    (hshort : ∀ n, fr.kind = .buffered n → n ≤ rest.length)
    (hver : (⟨Extracted.maxVersion.1, Extracted.maxVersion.2⟩ : Version).lt h.version = false)
    (hlast : isLastRequest h.version h.headers = false) :
    let r := handle s h fr false (script idx) (initialBody fr.kind rest).1 (initialBody fr.kind rest).2 fin
    r.2.2 = false →
      runLoop (fuel + 1) idx s bs fin script = runLoop fuel (idx + 1) r.1 r.2.1 fin script := by
  intro r hr
  rw [runLoop_step fuel idx s bs fin script h rest fr hh hf hshort hver, hlast]
  simp [r, hr]

/-- Orderly close: when the client has closed its sending side and nothing is left to read, the
    server closes too, with every byte of every response already handed out on the wire:
    requests received earlier were answered before the close. -/
theorem close_after_client_eof (fuel idx : Nat) (s : St) (script : Script) :
    let t := runLoop (fuel + 1) idx s [] .eof script
    t.ending = .closed ∧ t.out = s.out ∧ t.flushed = t.out.length ∧ t.delivered = s.delivered := by
  have hh : readHead [] .eof = .error (.stop .eof) := by decide
  simp [runLoop, hh, St.finish]

/-- Nothing a connection has already sent or delivered is ever retracted or reordered by what
    happens later: the final trace extends the state at every point of the loop. -/
theorem trace_extends_state (fuel idx : Nat) (s : St) (bs : Bytes) (fin : EndState) (script : Script) :
    let t := runLoop fuel idx s bs fin script
    (∃ ds, t.delivered = s.delivered ++ ds) ∧ (∃ o, t.out = s.out ++ o) ∧ (∃ st, t.statuses = s.statuses ++ st) := by
  exact runLoop_ext fuel idx s bs fin script

example : isLastRequest ⟨1, 1⟩ [⟨b!"connection", b!"Keep-Alive, CLOSE"⟩] = true := by decide
example : isLastRequest ⟨1, 0⟩ [⟨b!"Connection", b!"keep-alive"⟩] = false := by decide

end TH.Props.C12
