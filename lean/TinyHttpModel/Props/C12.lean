/-
  C12 — connection persistence is decided correctly and the connection closes in order.
-/
import TinyHttpModel.WireSpec
import TinyHttpModel.Lemmas.Loop
import TinyHttpModel.Lemmas.PipelineClosing
import TinyHttpModel.Props.C09

namespace TH.Props.C12
open TH

/-- The persistence decision of the code equals the statement read literally, for HTTP/1.0 and
    1.1 and every Connection header value (first header wins, any letter case), outside the one
    contradictory corner (HTTP/1.0 saying both keep-alive and close/upgrade). -/
theorem last_request_decision (ver : Version) (hs : List Header)
    (hv : ver = ⟨1, 0⟩ ∨ ver = ⟨1, 1⟩)
    (hc : Spec.contradictory ver ((findHeader hs b!"Connection").map (·.value)) = false) :
    isLastRequest ver hs = Spec.isLast ver ((findHeader hs b!"Connection").map (·.value)) := by
  unfold isLastRequest Spec.isLast
  unfold Spec.contradictory at hc
  cases hfh : findHeader hs b!"Connection" with
  | none => simp
  | some e =>
    rw [hfh] at hc
    simp only [Option.map_some] at hc ⊢
    rcases hv with rfl | rfl
    · have h10 : ((⟨1, 0⟩ : Version) == ⟨1, 0⟩) = true := by decide
      simp only [h10, Bool.true_and, Bool.and_true] at hc ⊢
      cases h1 : containsSub (lower e.value) b!"close" <;>
        cases h2 : containsSub (lower e.value) b!"upgrade" <;>
        cases h3 : containsSub (lower e.value) b!"keep-alive" <;> simp_all
    · have h11 : ((⟨1, 1⟩ : Version) == ⟨1, 0⟩) = false := by decide
      simp only [h11, Bool.and_false]
      cases h1 : containsSub (lower e.value) b!"close" <;>
        cases h2 : containsSub (lower e.value) b!"upgrade" <;> simp

/-- After a request that ends the connection no further client byte is interpreted: whatever
    follows it in the stream (`bs` is arbitrary), exactly this one request is delivered from the
    current position, and the server then closes (everything flushed, write side closed). -/
theorem nothing_after_last (fuel idx : Nat) (s : St) (bs : Bytes) (fin : EndState) (script : Script)
    (h : Head) (rest : Bytes) (fr : Framing)
    (hh : readHead bs fin = .ok (h, rest))
    (hf : framingOf h.headers = .ok fr)
    (hshort : ∀ n, fr.kind = .buffered n → n ≤ rest.length)
    (hver : (⟨Extracted.maxVersion.1, Extracted.maxVersion.2⟩ : Version).lt h.version = false)
    (hlast : isLastRequest h.version h.headers = true) :
    let t := runLoop (fuel + 1) idx s bs fin script
    let r := handle s h fr true (script idx) (initialBody fr.kind rest).1 (initialBody fr.kind rest).2 fin
    t.delivered = r.1.delivered ∧ t.out = r.1.out ∧
      (r.2.2 = false → t.ending = .closed ∧ t.flushed = t.out.length) := by
  rw [runLoop_step fuel idx s bs fin script h rest fr hh hf hshort hver, hlast]
  cases hb : (handle s h fr true (script idx) (initialBody fr.kind rest).1 (initialBody fr.kind rest).2 fin).2.2 <;>
    simp [St.finish, hb]

/-- Otherwise the connection stays open: the loop goes on with the bytes after this request. -/
theorem stays_open (fuel idx : Nat) (s : St) (bs : Bytes) (fin : EndState) (script : Script)
    (h : Head) (rest : Bytes) (fr : Framing)
    (hh : readHead bs fin = .ok (h, rest))
    (hf : framingOf h.headers = .ok fr)
    (hshort : ∀ n, fr.kind = .buffered n → n ≤ rest.length)
    (hver : (⟨Extracted.maxVersion.1, Extracted.maxVersion.2⟩ : Version).lt h.version = false)
    (hlast : isLastRequest h.version h.headers = false) :
    let r := handle s h fr false (script idx) (initialBody fr.kind rest).1 (initialBody fr.kind rest).2 fin
    r.2.2 = false →
      runLoop (fuel + 1) idx s bs fin script = runLoop fuel (idx + 1) r.1 r.2.1 fin script := by
  intro r hr
  rw [runLoop_step fuel idx s bs fin script h rest fr hh hf hshort hver, hlast]
  simp [r, hr]

/-- Orderly close: when the client has closed its sending side and nothing is left to read, the
    server closes too, with every byte of every response already handed out on the wire:
    requests received earlier were answered before the close. -/
theorem close_after_client_eof (fuel idx : Nat) (s : St) (script : Script) :
    let t := runLoop (fuel + 1) idx s [] .eof script
    t.ending = .closed ∧ t.out = s.out ∧ t.flushed = t.out.length ∧ t.delivered = s.delivered := by
  have hh : readHead [] .eof = .error (.stop .eof) := by decide
  simp [runLoop, hh, St.finish]

/-- Nothing a connection has already sent or delivered is ever retracted or reordered by what
    happens later: the final trace extends the state at every point of the loop. -/
theorem trace_extends_state (fuel idx : Nat) (s : St) (bs : Bytes) (fin : EndState) (script : Script) :
    let t := runLoop fuel idx s bs fin script
    (∃ ds, t.delivered = s.delivered ++ ds) ∧ (∃ o, t.out = s.out ++ o) ∧ (∃ st, t.statuses = s.statuses ++ st) := by
  exact runLoop_ext fuel idx s bs fin script

/-! ### end to end: a pipeline that ends with a request that closes the connection -/

open TH.Props.C09 (CMsg SentBody cmsgBytes wellBodied)

/-- the body of `m` is entirely on the wire and is what the head's framing announces (the body
    clause of `C09.wellBodied`): a Content-Length body with as many bytes as declared (buffered at
    parse time or streamed; `Content-Length: 0`), a chunked body made of well-formed chunks and a
    well-formed terminal chunk, or no body and no framing header.  The framing kinds listed
    exclude `.upgrade`: a head whose Connection header names `upgrade` has none of them. -/
def bodyOnWire (m : CMsg) : Prop :=
  match m.body with
  | .plain body =>
    framingOf m.head.headers = .ok ⟨.buffered body.length, some body.length, false⟩ ∨
    framingOf m.head.headers = .ok ⟨.limited body.length, some body.length, false⟩ ∨
    (body = [] ∧ framingOf m.head.headers = .ok ⟨.empty, some 0, false⟩)
  | .chunked cs zero =>
    framingOf m.head.headers = .ok ⟨.chunked, none, false⟩ ∧
    (∀ c ∈ cs, Spec.wfChunk c = true) ∧
    (usizeFromHex zero = some 0 ∧ zero.all (fun b => b != 13 && b != 59 && b < 128) = true ∧
      trim zero = zero)
  | .absent => framingOf m.head.headers = .ok ⟨.empty, none, false⟩

/-- a well-formed request of a supported version that ENDS the connection (`isLastRequest`: by
    `last_request_decision` an HTTP/1.1 request whose Connection header contains `close`, or an
    HTTP/1.0 request without `Connection: keep-alive`), no Expect, its body — Content-Length,
    chunked or absent — entirely on the wire.  Requests naming `upgrade` in Connection are not
    covered (`bodyOnWire` excludes their framing): their body is the rest of the stream. -/
def closingRequest (m : CMsg) : Prop :=
  Spec.wfHead m.head = true ∧ (∀ o ∈ m.ows, Spec.isOwsList o.1 = true ∧ Spec.isOwsList o.2 = true) ∧
  bodyOnWire m ∧
  isLastRequest m.head.version m.head.headers = true ∧
  (⟨Extracted.maxVersion.1, Extracted.maxVersion.2⟩ : Version).lt m.head.version = false

/-- what `closingRequest` covers, in the words of the statement: the request's Connection header
    does not name `upgrade` (such a head is framed as an upgrade, which `bodyOnWire` excludes); so
    an HTTP/1.1 closing request is one whose Connection header contains `close`, and an HTTP/1.0
    closing request is one whose Connection header, if any, contains `close` or lacks `keep-alive`. -/
theorem closingRequest_covers (m : CMsg) (h : closingRequest m) :
    (∀ c, findHeader m.head.headers b!"Connection" = some c →
      containsSub (lower c.value) b!"upgrade" = false) ∧
    (m.head.version ≠ ⟨1, 0⟩ →
      ∃ c, findHeader m.head.headers b!"Connection" = some c ∧ containsSub (lower c.value) b!"close" = true) ∧
    (m.head.version = ⟨1, 0⟩ →
      ∀ c, findHeader m.head.headers b!"Connection" = some c →
        containsSub (lower c.value) b!"close" = true ∨ containsSub (lower c.value) b!"keep-alive" = false) := by
  obtain ⟨head, ows, body⟩ := m
  obtain ⟨_, _, hbody, hlast, _⟩ := h
  have hup : ∀ c, findHeader head.headers b!"Connection" = some c →
      containsSub (lower c.value) b!"upgrade" = false := by
    intro c hc
    cases hu : containsSub (lower c.value) b!"upgrade" with
    | false => rfl
    | true =>
      have hk := fun fr => framingOf_kind_upgrade head.headers fr c hc hu
      cases body with
      | plain B =>
        rcases hbody with hfr | hfr | ⟨_, hfr⟩ <;> exact absurd (hk _ hfr) (by simp)
      | chunked cs zero => exact absurd (hk _ hbody.1) (by simp)
      | absent => exact absurd (hk _ hbody) (by simp)
  refine ⟨hup, ?_, ?_⟩
  · intro hv
    have hv' : (head.version == (⟨1, 0⟩ : Version)) = false := by simpa using hv
    show ∃ c, findHeader head.headers b!"Connection" = some c ∧ _
    simp only [isLastRequest] at hlast
    cases hc : findHeader head.headers b!"Connection" with
    | none => rw [hc] at hlast; simp [hv'] at hlast
    | some c =>
      rw [hc] at hlast
      simp only [hup c hc, hv', Bool.and_false, Bool.false_eq_true, if_false] at hlast
      refine ⟨c, rfl, ?_⟩
      cases hcl : containsSub (lower c.value) b!"close" with
      | true => rfl
      | false => simp [hcl] at hlast
  · intro hv c hc
    show containsSub (lower c.value) b!"close" = true ∨ _
    simp only [isLastRequest] at hlast
    have hc' : findHeader head.headers b!"Connection" = some c := hc
    rw [hc'] at hlast
    cases hcl : containsSub (lower c.value) b!"close" with
    | true => exact Or.inl rfl
    | false =>
      right
      cases hka : containsSub (lower c.value) b!"keep-alive" with
      | false => rfl
      | true => simp [hcl, hup c hc, hka] at hlast

theorem wellBodied_bodyOnWire (m : CMsg) (h : wellBodied m) : bodyOnWire m := by
  obtain ⟨head, ows, body⟩ := m
  cases body <;> exact h.2.2.1

/-- such a request is framed in the sense of `Lemmas/PipelineClosing`, whether or not it ends the
    connection and however the client's stream ends. -/
theorem framedMsg_of_bodyOnWire (m : CMsg) (fin : EndState)
    (hwf : Spec.wfHead m.head = true)
    (hows : ∀ o ∈ m.ows, Spec.isOwsList o.1 = true ∧ Spec.isOwsList o.2 = true)
    (hbody : bodyOnWire m)
    (hver : (⟨Extracted.maxVersion.1, Extracted.maxVersion.2⟩ : Version).lt m.head.version = false) :
    FramedMsg m.head m.ows m.body.wire m.body.payload m.body.declared fin := by
  obtain ⟨head, ows, body⟩ := m
  refine ⟨hwf, hows, hver, ?_⟩
  cases body with
  | plain B =>
    rcases hbody with hfr | hfr | ⟨hB, hfr⟩
    · exact ⟨_, hfr, rfl, bodyFramed_buffered head B _ _ fin⟩
    · exact ⟨_, hfr, rfl, bodyFramed_limited head B _ _ fin⟩
    · subst hB
      exact ⟨_, hfr, rfl, bodyFramed_empty head _ _ fin⟩
  | chunked cs zero =>
    obtain ⟨hfr, hcs, hz⟩ := hbody
    exact ⟨_, hfr, rfl, bodyFramed_chunked head cs zero _ _ fin hcs hz⟩
  | absent =>
    exact ⟨_, hbody, rfl, bodyFramed_empty head _ _ fin⟩

/-- The run on `msgs`, then `last`, then anything: there is ONE final state `s` — determined by
    the requests, the script and the way the client's stream ends, not by the bytes after `last`
    — in which the server closes. -/
theorem closing_run (msgs : List CMsg) (last : CMsg) (fin : EndState) (script : Script)
    (hgood : ∀ m ∈ msgs, wellBodied m) (hlast : closingRequest last) :
    ∃ s : St,
      s.delivered.map (fun d => (d.method, d.url, d.version, d.headers, d.bodyLength)) =
        (msgs ++ [last]).map
          (fun m => (m.head.method, m.head.url, m.head.version, m.head.headers, m.body.declared)) ∧
      s.delivered.map (·.last) = List.replicate msgs.length false ++ [true] ∧
      (∀ (i : Nat) (d : Delivered) (m : CMsg), s.delivered[i]? = some d → (msgs ++ [last])[i]? = some m →
        d.bodyRead <+: m.body.payload) ∧
      ∀ tail : Bytes,
        Conn.run ((msgs.map cmsgBytes).flatten ++ cmsgBytes last ++ tail) fin script = s.finish .closed := by
  obtain ⟨lwf, lows, lbody, llast, lver⟩ := hlast
  obtain ⟨s1, ds, hdel1, hmap, hflags, hpres, hrun1⟩ :=
    framed_pipeline CMsg.head CMsg.ows (fun m => m.body.wire) (fun m => m.body.payload)
      (fun m => m.body.declared) fin msgs
      (fun m hm => ⟨framedMsg_of_bodyOnWire m fin (hgood m hm).1 (hgood m hm).2.1
        (wellBodied_bodyOnWire m (hgood m hm)) (hgood m hm).2.2.2.2, (hgood m hm).2.2.2.1⟩)
      0 {} script
  obtain ⟨s2, d, hdel2, hd, hdl, hpre, hrun2⟩ :=
    framed_step last.head last.ows last.body.wire last.body.payload last.body.declared fin
      (framedMsg_of_bodyOnWire last fin lwf lows lbody lver) (0 + msgs.length) s1 script
  have hdel1' : s1.delivered = ds := by rw [hdel1]; exact List.nil_append _
  have hs2 : s2.delivered = ds ++ [d] := by rw [hdel2, hdel1']
  have hdsl : ds.length = msgs.length := by simpa using congrArg List.length hmap
  refine ⟨s2, ?_, ?_, ?_, ?_⟩
  · rw [hs2, List.map_append, List.map_append, hmap]
    simp only [List.map_cons, List.map_nil, hd]
  · rw [hs2, List.map_append]
    congr 1
    · rw [← hdsl]
      clear hs2 hdel1' hdel1 hmap hpres hdsl
      induction ds with
      | nil => rfl
      | cons x xs ih =>
        simp only [List.map_cons, List.length_cons, List.replicate_succ]
        rw [hflags x (by simp), ih (fun y hy => hflags y (by simp [hy]))]
    · simp only [List.map_cons, List.map_nil, hdl, llast]
  · intro i d' m h1 h2
    rw [hs2] at h1
    by_cases hi : i < msgs.length
    · rw [List.getElem?_append_left (by omega)] at h1 h2
      exact hpres i d' m h1 h2
    · rw [List.getElem?_append_right (by omega)] at h1 h2
      rw [hdsl] at h1
      cases hj : i - msgs.length with
      | zero =>
        rw [hj] at h1 h2
        simp only [List.getElem?_cons_zero, Option.some.injEq] at h1 h2
        subst h1 h2
        exact hpre
      | succ j =>
        rw [hj] at h2
        simp at h2
  · intro tail
    have hl : msgs.length ≤ ((msgs.map cmsgBytes).flatten).length :=
      generic_pipeline_length_ge CMsg.head CMsg.ows (fun m => m.body.wire) msgs
    have e : (msgs.map cmsgBytes).flatten ++ cmsgBytes last ++ tail =
        (msgs.map (fun x => Spec.renderHead (CMsg.head x) (CMsg.ows x) ++ x.body.wire)).flatten ++
          (Spec.renderHead last.head last.ows ++ (last.body.wire ++ tail)) := by
      simp only [cmsgBytes, List.append_assoc]
      rfl
    unfold Conn.run
    generalize hF : ((msgs.map cmsgBytes).flatten ++ cmsgBytes last ++ tail).length + 1 = F
    have hFge : msgs.length + 1 ≤ F := by
      rw [← hF]
      simp only [List.length_append]
      omega
    obtain ⟨k, hk⟩ : ∃ k, F - msgs.length = k + 1 := ⟨F - msgs.length - 1, by omega⟩
    rw [e, hrun1 F _ (by omega), hk, hrun2 k tail, llast]
    simp only [if_true]

/-- C12, end to end, first half.  A pipeline of any number of requests on a connection that
    stays open (each with a Content-Length body, a chunked body or none), then a request `last`
    that ENDS the connection (an HTTP/1.1 request with `Connection: close`, or an HTTP/1.0 request
    without `Connection: keep-alive`; its body Content-Length delimited, chunked or absent, all of
    it on the wire; no `Connection: upgrade`), then ARBITRARY bytes `tail`; the application
    behaves in ANY way (`script`: reads all / part / none of each body, answers, drops, takes the
    raw writer, upgrades, fails); the client then stays connected, closes or resets (`fin`).  Then
    * exactly `msgs.length + 1` requests are delivered: the heads of `msgs`, then the head of
      `last`; only the last one is marked as ending the connection; each handler obtained a
      prefix of its own request's content;
    * the server closes (`ending = .closed`) — although the client may still be connected and
      although unread bytes are pending — with everything it wrote flushed;
    * no byte of `tail` is interpreted or has any influence: the whole trace (requests delivered,
      what each handler read, every byte sent, statuses, ending) is the same for every `tail'`.
    No hypothesis on the script is needed: with the body on the wire no handler blocks, and no
    `Finish` (not even `.upgrade` on a request that did not ask for it) keeps the connection. -/
theorem pipeline_then_closing_request (msgs : List CMsg) (last : CMsg) (tail : Bytes) (fin : EndState)
    (script : Script) (hgood : ∀ m ∈ msgs, wellBodied m) (hlast : closingRequest last) :
    let t := Conn.run ((msgs.map cmsgBytes).flatten ++ cmsgBytes last ++ tail) fin script
    t.delivered.map (fun d => (d.method, d.url, d.version, d.headers, d.bodyLength)) =
        (msgs ++ [last]).map
          (fun m => (m.head.method, m.head.url, m.head.version, m.head.headers, m.body.declared)) ∧
      t.delivered.length = msgs.length + 1 ∧
      t.delivered.map (·.last) = List.replicate msgs.length false ++ [true] ∧
      (∀ (i : Nat) (d : Delivered) (m : CMsg), t.delivered[i]? = some d → (msgs ++ [last])[i]? = some m →
        d.bodyRead <+: m.body.payload) ∧
      t.ending = .closed ∧
      t.flushed = t.out.length ∧
      ∀ tail' : Bytes,
        Conn.run ((msgs.map cmsgBytes).flatten ++ cmsgBytes last ++ tail') fin script = t := by
  intro t
  obtain ⟨s, h1, h2, h3, h4⟩ := closing_run msgs last fin script hgood hlast
  have ht : t = s.finish .closed := h4 tail
  rw [ht]
  refine ⟨h1, ?_, h2, h3, rfl, finish_closed_flushed s, h4⟩
  have := congrArg List.length h1
  simpa using this

/-- the trace does not depend on what follows the closing request (`pipeline_then_closing_request`,
    last clause, on its own): a request smuggled after it is never seen. -/
theorem bytes_after_closing_request_ignored (msgs : List CMsg) (last : CMsg) (tail tail' : Bytes)
    (fin : EndState) (script : Script) (hgood : ∀ m ∈ msgs, wellBodied m) (hlast : closingRequest last) :
    Conn.run ((msgs.map cmsgBytes).flatten ++ cmsgBytes last ++ tail) fin script =
      Conn.run ((msgs.map cmsgBytes).flatten ++ cmsgBytes last ++ tail') fin script :=
  ((pipeline_then_closing_request msgs last tail fin script hgood hlast).2.2.2.2.2.2 tail').symm

/-! ### end to end: a persistent connection is not closed by the server -/

/-- C12, end to end, second half.  A pipeline of any number of requests none of which ends the
    connection, after which the client stays connected and silent (`.open`): every request is
    delivered (none marked as the last, each handler obtaining a prefix of its own request's
    content) and the connection thread then WAITS for the next request — the server does not
    close a persistent connection on its own.  This holds for every script: in the model no
    `Finish` ends the connection (neither `.upgrade` on a request that did not ask for it nor a
    failing `respond`), and with the bodies on the wire no handler blocks. -/
theorem open_pipeline_waits (msgs : List CMsg) (script : Script) (hgood : ∀ m ∈ msgs, wellBodied m) :
    let t := Conn.run ((msgs.map cmsgBytes).flatten) .open script
    t.delivered.map (fun d => (d.method, d.url, d.version, d.headers, d.bodyLength)) =
        msgs.map (fun m => (m.head.method, m.head.url, m.head.version, m.head.headers, m.body.declared)) ∧
      (∀ d ∈ t.delivered, d.last = false) ∧
      (∀ (i : Nat) (d : Delivered) (m : CMsg), t.delivered[i]? = some d → msgs[i]? = some m →
        d.bodyRead <+: m.body.payload) ∧
      t.ending = .waiting := by
  intro t
  obtain ⟨s1, ds, hdel1, hmap, hflags, hpres, hrun1⟩ :=
    framed_pipeline CMsg.head CMsg.ows (fun m => m.body.wire) (fun m => m.body.payload)
      (fun m => m.body.declared) .open msgs
      (fun m hm => ⟨framedMsg_of_bodyOnWire m .open (hgood m hm).1 (hgood m hm).2.1
        (wellBodied_bodyOnWire m (hgood m hm)) (hgood m hm).2.2.2.2, (hgood m hm).2.2.2.1⟩)
      0 {} script
  have hdel1' : s1.delivered = ds := by rw [hdel1]; exact List.nil_append _
  have hl : msgs.length ≤ ((msgs.map cmsgBytes).flatten).length :=
    generic_pipeline_length_ge CMsg.head CMsg.ows (fun m => m.body.wire) msgs
  obtain ⟨k, hk⟩ : ∃ k, ((msgs.map cmsgBytes).flatten).length + 1 - msgs.length = k + 1 :=
    ⟨((msgs.map cmsgBytes).flatten).length - msgs.length, by omega⟩
  have ht : t = s1.finish .waiting := by
    have := hrun1 (((msgs.map cmsgBytes).flatten).length + 1) [] (by omega)
    rw [List.append_nil, hk] at this
    have hh : readHead [] .open = .error (.stop .pending) := by decide
    refine Eq.trans this ?_
    simp only [runLoop, hh]
  rw [ht]
  refine ⟨?_, ?_, ?_, rfl⟩
  · rw [St.finish_delivered, hdel1', hmap]
  · intro d hd
    rw [St.finish_delivered, hdel1'] at hd
    exact hflags d hd
  · intro i d m h1 h2
    rw [St.finish_delivered, hdel1'] at h1
    exact hpres i d m h1 h2

/-! non-vacuity: `GET /a HTTP/1.1`, a `POST /b HTTP/1.1` with a chunked body of two chunks, then
    `GET /c HTTP/1.1` with `Connection: close`, then a smuggled request -/

def exA : CMsg := ⟨⟨⟨b!"GET"⟩, b!"/a", ⟨1, 1⟩, []⟩, [], .absent⟩

def exB : CMsg :=
  ⟨⟨⟨b!"POST"⟩, b!"/b", ⟨1, 1⟩, [⟨b!"Transfer-Encoding", b!"chunked"⟩]⟩, [(b!" ", [])],
    .chunked [⟨b!"5", [], b!"hello"⟩, ⟨b!"0A", b!";x=y", b!"0123456789"⟩] b!"0"⟩

def exC : CMsg := ⟨⟨⟨b!"GET"⟩, b!"/c", ⟨1, 1⟩, [⟨b!"Connection", b!"close"⟩]⟩, [(b!" ", [])], .absent⟩

/-- the closing request of an HTTP/1.0 client: no Connection header at all -/
def exC10 : CMsg := ⟨⟨⟨b!"GET"⟩, b!"/c", ⟨1, 0⟩, []⟩, [], .absent⟩

/-- a closing request with a Content-Length body -/
def exCBody : CMsg :=
  ⟨⟨⟨b!"POST"⟩, b!"/c", ⟨1, 1⟩, [⟨b!"Connection", b!"close"⟩, ⟨b!"Content-Length", b!"5"⟩]⟩,
    [(b!" ", []), (b!" ", [])], .plain b!"world"⟩

def exTail : Bytes := b!"GET /smuggled HTTP/1.1\r\n\r\n"

/-- the bytes on the wire -/
example : ([exA, exB].map cmsgBytes).flatten ++ cmsgBytes exC ++ exTail =
    b!"GET /a HTTP/1.1\r\n\r\nPOST /b HTTP/1.1\r\nTransfer-Encoding: chunked\r\n\r\n5\r\nhello\r\n0A;x=y\r\n0123456789\r\n0\r\n\r\nGET /c HTTP/1.1\r\nConnection: close\r\n\r\nGET /smuggled HTTP/1.1\r\n\r\n" := by
  decide

/-- the hypotheses of `pipeline_then_closing_request` / `open_pipeline_waits` hold of them -/
theorem ex_wellBodied : ∀ m ∈ [exA, exB], wellBodied m := by
  intro m hm
  simp only [List.mem_cons, List.not_mem_nil, or_false] at hm
  rcases hm with rfl | rfl
  · refine ⟨by decide, by decide, ?_, by decide, by decide⟩
    show framingOf exA.head.headers = .ok ⟨.empty, none, false⟩
    decide
  · refine ⟨by decide, by decide, ?_, by decide, by decide⟩
    show framingOf exB.head.headers = .ok ⟨.chunked, none, false⟩ ∧
      (∀ c ∈ [(⟨b!"5", [], b!"hello"⟩ : Spec.SentChunk), ⟨b!"0A", b!";x=y", b!"0123456789"⟩],
        Spec.wfChunk c = true) ∧
      (usizeFromHex b!"0" = some 0 ∧ (b!"0").all (fun b => b != 13 && b != 59 && b < 128) = true ∧
        trim b!"0" = b!"0")
    decide

theorem ex_closing : closingRequest exC := by
  refine ⟨by decide, by decide, ?_, by decide, by decide⟩
  show framingOf exC.head.headers = .ok ⟨.empty, none, false⟩
  decide

theorem ex_closing10 : closingRequest exC10 := by
  refine ⟨by decide, by decide, ?_, by decide, by decide⟩
  show framingOf exC10.head.headers = .ok ⟨.empty, none, false⟩
  decide

theorem ex_closingBody : closingRequest exCBody := by
  refine ⟨by decide, by decide, ?_, by decide, by decide⟩
  show framingOf exCBody.head.headers = .ok ⟨.buffered (b!"world").length, some (b!"world").length, false⟩ ∨ _
  exact Or.inl (by decide)

/-- so the theorem applies, with every script and every way the client's stream ends: three
    requests, then the server closes; the smuggled request changes nothing -/
example (script : Script) (fin : EndState) :
    let t := Conn.run (([exA, exB].map cmsgBytes).flatten ++ cmsgBytes exC ++ exTail) fin script
    t.delivered.map (fun d => (d.method, d.url, d.version)) =
        [(⟨b!"GET"⟩, b!"/a", ⟨1, 1⟩), (⟨b!"POST"⟩, b!"/b", ⟨1, 1⟩), (⟨b!"GET"⟩, b!"/c", ⟨1, 1⟩)] ∧
      t.ending = .closed ∧ t.flushed = t.out.length ∧
      Conn.run (([exA, exB].map cmsgBytes).flatten ++ cmsgBytes exC) fin script = t := by
  intro t
  obtain ⟨h1, _, _, _, h5, h6, h7⟩ :=
    pipeline_then_closing_request [exA, exB] exC exTail fin script ex_wellBodied ex_closing
  refine ⟨?_, h5, h6, ?_⟩
  · have := congrArg (List.map (fun x : Method × Bytes × Version × List Header × Option Nat => (x.1, x.2.1, x.2.2.1))) h1
    rw [List.map_map] at this
    exact this
  · have := h7 []
    rwa [List.append_nil] at this

/-- the model run on it, the client still connected, with handlers that read 8 bytes with a
    3-byte buffer and answer 200 -/
def exRun : Trace :=
  Conn.run (([exA, exB].map cmsgBytes).flatten ++ cmsgBytes exC ++ exTail) .open
    (fun _ => ⟨1, 8, 3, .respond ⟨200, [], none, none, [b!"ok"]⟩, false⟩)

set_option maxRecDepth 8192 in
/-- three requests delivered — not the smuggled one —, only the last marked as closing, and the
    server closes although the client is still connected (as the theorem says) -/
example :
    exRun.delivered.map (fun d => (d.url, d.bodyRead, d.last)) =
        [(b!"/a", [], false), (b!"/b", b!"hello012", false), (b!"/c", [], true)] ∧
      exRun.statuses = [200, 200, 200] ∧ exRun.ending = .closed ∧ exRun.flushed = exRun.out.length := by
  decide

set_option maxRecDepth 8192 in
/-- an HTTP/1.0 request without `Connection: keep-alive` as the closing request -/
example :
    let t := Conn.run (([exA, exB].map cmsgBytes).flatten ++ cmsgBytes exC10 ++ exTail) .open
      (fun _ => ⟨0, 0, 1, .drop, false⟩)
    t.delivered.map (fun d => (d.url, d.version, d.last)) =
        [(b!"/a", ⟨1, 1⟩, false), (b!"/b", ⟨1, 1⟩, false), (b!"/c", ⟨1, 0⟩, true)] ∧
      t.statuses = [500, 500, 500] ∧ t.ending = .closed := by
  decide

example (script : Script) (fin : EndState) (tail : Bytes) :
    (Conn.run (([exA, exB].map cmsgBytes).flatten ++ cmsgBytes exC10 ++ tail) fin script).ending = .closed :=
  (pipeline_then_closing_request [exA, exB] exC10 tail fin script ex_wellBodied ex_closing10).2.2.2.2.1

example (script : Script) (fin : EndState) (tail : Bytes) :
    (Conn.run (([exA, exB].map cmsgBytes).flatten ++ cmsgBytes exCBody ++ tail) fin script).ending = .closed :=
  (pipeline_then_closing_request [exA, exB] exCBody tail fin script ex_wellBodied ex_closingBody).2.2.2.2.1

/-- without a closing request and with the client silent the server waits, whatever the script -/
example (script : Script) :
    (Conn.run (([exA, exB].map cmsgBytes).flatten) .open script).ending = .waiting :=
  (open_pipeline_waits [exA, exB] script ex_wellBodied).2.2.2

/-- not even a handler that answers with `upgrade` (to a request that did not ask for it) ends
    the connection in the model: the next request is served -/
example :
    let t := Conn.run (([exA, exA].map cmsgBytes).flatten) .open
      (fun _ => ⟨0, 0, 1, .upgrade b!"ws" ⟨101, [], none, none, []⟩ [.write b!"zz"], false⟩)
    t.delivered.map (·.url) = [b!"/a", b!"/a"] ∧ t.ending = .waiting := by
  decide

/-- why `Connection: upgrade` requests are left out of `closingRequest`: the body of such a
    request is the rest of the stream, so a handler that reads sees the bytes that follow it, and
    with the client still connected it blocks instead of letting the server close -/
def exUp : CMsg := ⟨⟨⟨b!"GET"⟩, b!"/c", ⟨1, 1⟩, [⟨b!"Connection", b!"upgrade"⟩]⟩, [(b!" ", [])], .absent⟩

example :
    isLastRequest exUp.head.version exUp.head.headers = true ∧
    (Conn.run (cmsgBytes exUp ++ b!"xy") .eof (fun _ => ⟨1, 8, 3, .drop, false⟩)).delivered.map (·.bodyRead)
      = [b!"xy"] ∧
    (Conn.run (cmsgBytes exUp ++ b!"xy") .open (fun _ => ⟨1, 8, 3, .drop, false⟩)).ending = .waiting ∧
    (Conn.run (cmsgBytes exUp ++ b!"xy") .open (fun _ => ⟨0, 0, 1, .drop, false⟩)).ending = .closed := by
  decide

example : isLastRequest ⟨1, 1⟩ [⟨b!"connection", b!"Keep-Alive, CLOSE"⟩] = true := by decide
example : isLastRequest ⟨1, 0⟩ [⟨b!"Connection", b!"keep-alive"⟩] = false := by decide

end TH.Props.C12
