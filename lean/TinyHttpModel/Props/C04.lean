/-
  C04 — every response is a well-formed, self-delimiting message with exactly the body.
-/
import TinyHttpModel.RespSpec
import TinyHttpModel.Lemmas.Digits
import TinyHttpModel.Lemmas.Chunk
import TinyHttpModel.Lemmas.Head

namespace TH.Props.C04
open TH

/-- The chunk encoder's output does not depend on how the body reader splits the body:
    whatever the pieces, chunks are cut at 8192 bytes and the terminal chunk follows. -/
theorem pieces_irrelevant (pieces : List Bytes) :
    encodeChunked pieces = Spec.enchunk pieces.flatten := by
  have h0 : EncInv' ⟨[], []⟩ [] :=
    ⟨⟨[], by simp, by simp, by simp, by simp⟩, fun h => absurd rfl h⟩
  have h := Enc.fold_inv pieces ⟨[], []⟩ [] h0
  rw [List.nil_append] at h
  exact Enc.finish_of_inv _ _ h

/-- An RFC 7230 chunk decoder recovers exactly the body from the encoder's output and stops at
    its end, whatever follows on the connection. -/
theorem dechunk_enchunk (body rest : Bytes) (fuel : Nat)
    (hf : (Spec.enchunk body ++ rest).length < fuel) :
    Client.dechunk fuel (Spec.enchunk body ++ rest) = some (body, rest) := by
  obtain ⟨cs, hne, hfl, heq⟩ := enchunkAux_chunks (body.length + 1) body (by omega)
  have hlen : cs.length < fuel := by
    have h1 := length_le_frames cs
    unfold Spec.enchunk at hf
    rw [heq] at hf
    simp only [List.length_append] at hf
    omega
  unfold Spec.enchunk
  rw [heq, dechunk_frames cs fuel rest hne hlen, hfl]

/-- In answer to HEAD and with 1xx, 204 and 304 statuses nothing follows the header block. -/
theorem no_body_bytes (r : Resp) (c : ReqCtx) (date : Bytes) (pieces : List Bytes) (out : Bytes)
    (hs : c.noBody = true ∨ (100 ≤ r.status ∧ r.status ≤ 199) ∨ r.status = 204 ∨ r.status = 304)
    (h : rawPrint r c date pieces = some out) :
    ∃ hs', out = messageHeader c.version r.status hs' := by
  have hsup : (c.noBody || Extracted.noBodyStatus r.status) = true := by
    rw [← noBodyFor_eq, noBodyFor_iff]; exact hs
  simp only [rawPrint] at h
  split at h
  · simp at h
  · simp only [hsup, if_true, List.append_nil, Option.some.injEq] at h
    exact ⟨_, h.symm⟩

/-- Main theorem.  For every response with well-formed headers and a correctly declared (or
    undeclared) length, every request context without upgrade, every splitting of the body into
    pieces and every continuation `rest` of the byte stream: an independent RFC 7230 client
    recovers the status code and exactly the body, is left exactly at `rest`, and never has to
    rely on connection close. -/
theorem client_roundtrip (r : Resp) (c : ReqCtx) (date : Bytes) (pieces : List Bytes)
    (out rest : Bytes)
    (hwf : Spec.wfResp r pieces.flatten.length = true)
    (hdate : date.contains 10 = false)
    (hup : c.upgrade = none)
    (h : rawPrint r c date pieces = some out) :
    ∃ m, Client.decode c.noBody (out ++ rest) = some (m, rest) ∧
      m.status = r.status ∧
      m.kind ≠ .untilClose ∧
      m.body = (if Client.noBodyFor c.noBody r.status then [] else pieces.flatten) := by
  obtain ⟨hok, hcl, hte, hlen⟩ := wfResp_elim r _ hwf
  simp only [rawPrint, hup] at h
  split at h
  · simp at h
  · rename_i te len hfr
    simp only [Option.some.injEq] at h
    subst h
    have hA_ok := insertAuto_lineOk r.headers date hdate hok
    have hA_cl := insertAuto_not r.headers date b!"Content-Length" (by decide) (by decide) hcl
    have hA_te := insertAuto_not r.headers date b!"Transfer-Encoding" (by decide) (by decide) hte
    rw [← noBodyFor_eq]
    rcases framing_cases r c _ te len hup hfr with rfl | ⟨rfl, rfl⟩
    · -- chunked
      have hall : ∀ h ∈ insertAuto r.headers date none ++ [teHeader], lineOk h := by
        intro h hh
        rcases List.mem_append.1 hh with hh | hh
        · exact hA_ok h hh
        · rw [List.mem_singleton.1 hh]; exact lineOk_teHeader
      rw [framingHeader_chunked, List.append_assoc, decode_messageHeader _ _ _ _ _ hall,
        decodeBody_chunked _ _ _ _ _ hA_te]
      cases hnb : Client.noBodyFor c.noBody r.status with
      | true => exact ⟨_, rfl, rfl, by simp, rfl⟩
      | false =>
        have hd := dechunk_enchunk pieces.flatten rest
          ((Spec.enchunk pieces.flatten ++ rest).length + 1) (by omega)
        simp only [Bool.false_eq_true, if_false, pieces_irrelevant, hd, Option.map_some]
        exact ⟨_, rfl, rfl, by simp, rfl⟩
    · -- identity
      have hall : ∀ h ∈ insertAuto r.headers date none ++ [clHeader (r.dataLength.getD pieces.flatten.length)],
          lineOk h := by
        intro h hh
        rcases List.mem_append.1 hh with hh | hh
        · exact hA_ok h hh
        · rw [List.mem_singleton.1 hh]; exact lineOk_clHeader _
      rw [framingHeader_identity, List.append_assoc, decode_messageHeader _ _ _ _ _ hall,
        decodeBody_identity _ _ _ _ _ _ hA_te hA_cl, hlen]
      generalize pieces.flatten = body
      cases hnb : Client.noBodyFor c.noBody r.status with
      | true => exact ⟨_, rfl, rfl, by simp, rfl⟩
      | false =>
        have hb : (if 1 ≤ body.length then body else []) = body := by
          split
          · rfl
          · rename_i h1
            have : body.length = 0 := by omega
            exact (List.length_eq_zero_iff.1 this).symm
        have hlt : ¬ (body ++ rest).length < body.length := by
          simp only [List.length_append]; omega
        simp only [Bool.false_eq_true, if_false, hb, hlt, List.take_left', List.drop_left']
        exact ⟨_, rfl, rfl, by simp, rfl⟩

/-- the oracle the check evaluates is exactly the conclusion of `client_roundtrip` with
    `rest = []`. -/
theorem oracle_of_roundtrip (r : Resp) (c : ReqCtx) (date : Bytes) (pieces : List Bytes) (out : Bytes)
    (hwf : Spec.wfResp r pieces.flatten.length = true)
    (hdate : date.contains 10 = false)
    (hup : c.upgrade = none)
    (h : rawPrint r c date pieces = some out) :
    Spec.c04Holds c.noBody r.status pieces.flatten out = true := by
  obtain ⟨m, hdec, hst, hk, hb⟩ := client_roundtrip r c date pieces out [] hwf hdate hup h
  rw [List.append_nil] at hdec
  simp [Spec.c04Holds, hdec, hst, hk, hb]

/-- non-vacuity: a concrete chunked response decodes. -/
example :
    (rawPrint ⟨200, [⟨b!"X-A", b!"b"⟩], none, none⟩ ⟨⟨1, 1⟩, [], false, none⟩ b!"D" [b!"hello", b!" world"]).map
      (fun out => Spec.c04Holds false 200 b!"hello world" out) = some true := by decide

end TH.Props.C04
