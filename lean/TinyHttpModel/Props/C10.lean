/-
  C10 — malformed or unsupported requests never reach the application and never hang.
-/
import TinyHttpModel.WireSpec
import TinyHttpModel.Lemmas.LoopA
import TinyHttpModel.Lemmas.HeadParse
import TinyHttpModel.Lemmas.Pipeline
import TinyHttpModel.Lemmas.PipelineRefused

namespace TH.Props.C10
open TH

/-- fewer than three request-line fields ⇒ rejected. -/
theorem request_line_needs_three_fields (line : Bytes)
    (h : (splitOn 32 (trim line)).length < 3) : parseRequestLine line = none := by
  exact parseRequestLine_short line h

/-- a version token outside the recognised table ⇒ rejected (lower case, HTTP/1.2, garbage …). -/
theorem unknown_version_rejected (m p v : Bytes) (rest : List Bytes) (line : Bytes)
    (hs : splitOn 32 (trim line) = m :: p :: v :: rest)
    (hv : ∀ e ∈ Extracted.versionTable, e.1 ≠ v) : parseRequestLine line = none := by
  exact parseRequestLine_unknown_version m p v rest line hs hv

/-- the recognised table is exactly the five tokens of the statement. -/
theorem version_table :
    Extracted.versionTable.map (·.1) = [b!"HTTP/0.9", b!"HTTP/1.0", b!"HTTP/1.1", b!"HTTP/2.0", b!"HTTP/3.0"] := by
  decide

/-- a header line without a colon ⇒ rejected. -/
theorem header_without_colon_rejected (line : Bytes) (h : line.contains 58 = false) :
    parseHeaderLine line = none := by
  exact parseHeaderLine_no_colon line h

/-- Malformed ASCII head (bad request line) at any point of a pipeline: not delivered, the client
    gets a 400 after everything produced so far, the connection closes, nothing after it is
    interpreted, and the connection thread does not block. -/
theorem bad_request_line_outcome (fuel idx : Nat) (s : St) (bs : Bytes) (fin : EndState) (script : Script)
    (h : readHead bs fin = .error .wrongRequestLine) :
    let t := runLoop (fuel + 1) idx s bs fin script
    t.delivered = s.delivered ∧ t.statuses = s.statuses ++ [400] ∧ t.ending = .closed ∧
      t.out = s.out ++ printError 400 ⟨1, 1⟩ false ∧ t.flushed = t.out.length := by
  simp [runLoop, h, St.emit, St.finish]

theorem bad_header_outcome (fuel idx : Nat) (s : St) (bs : Bytes) (fin : EndState) (script : Script) (v : Version)
    (h : readHead bs fin = .error (.wrongHeader v)) :
    let t := runLoop (fuel + 1) idx s bs fin script
    t.delivered = s.delivered ∧ t.statuses = s.statuses ++ [400] ∧ t.ending = .closed ∧
      t.out = s.out ++ printError 400 v false ∧ t.flushed = t.out.length := by
  simp [runLoop, h, St.emit, St.finish]

/-- non-ASCII bytes in the head: plain close, nothing delivered, nothing sent. -/
theorem non_ascii_outcome (fuel idx : Nat) (s : St) (bs : Bytes) (fin : EndState) (script : Script)
    (h : readHead bs fin = .error .notAscii) :
    let t := runLoop (fuel + 1) idx s bs fin script
    t.delivered = s.delivered ∧ t.statuses = s.statuses ∧ t.ending = .closed ∧ t.out = s.out := by
  simp [runLoop, h, St.finish]

/-- a line containing a byte ≥ 0x80 is never parsed. -/
theorem non_ascii_line (l rest : Bytes) (fin : EndState)
    (hl : ∀ b ∈ l, b ≠ 10) (hn : ∃ b ∈ l, 128 ≤ b) :
    readLine (l ++ 13 :: 10 :: rest) fin = .notAscii rest := by
  exact readLine_notAscii l rest fin hl hn

/-- unsupported Expect value (anything but 100-continue, any letter case): 417 then close, not
    delivered — provided the Content-Length headers are well-formed (else 400, see C16). -/
theorem unsupported_expect_outcome (fuel idx : Nat) (s : St) (bs : Bytes) (fin : EndState) (script : Script)
    (h : Head) (rest : Bytes)
    (hh : readHead bs fin = .ok (h, rest))
    (hf : framingOf h.headers = .error .expectationFailed) :
    let t := runLoop (fuel + 1) idx s bs fin script
    t.delivered = s.delivered ∧ t.statuses = s.statuses ++ [417] ∧ t.ending = .closed ∧
      t.out = s.out ++ printError 417 h.version true ∧ t.flushed = t.out.length := by
  have hf' : framingFor h.version h.headers = .error .expectationFailed :=
    (framingFor_error_iff _ _ _).2 hf
  simp [runLoop, hh, hf', St.emit, St.finish]

theorem expect_classification (hs : List Header) (e : Header)
    (hcl : ∀ h ∈ hs, h.is b!"Content-Length" = true → (strictContentLength h.value).isSome = true)
    (he : findHeader hs b!"Expect" = some e)
    (hv : eqIgnoreCase e.value b!"100-continue" = false) :
    framingOf hs = .error .expectationFailed := by
  exact framingOf_expectation_failed hs e hcl he hv

/-- HTTP version above 1.1: not delivered; the 505 is written and flushed at once (it does not
    wait for anything), its body is skipped, and the connection goes on with the next request.
    The body is the one `framingOfRefused` describes: framed by Transfer-Encoding / Content-Length,
    whatever the Connection header says (`new_request` honours `upgrade` only for the versions the
    server speaks). -/
theorem version_too_high_outcome (fuel idx : Nat) (s : St) (bs : Bytes) (fin : EndState) (script : Script)
    (h : Head) (rest : Bytes) (fr : Framing) (rest2 : Bytes)
    (hh : readHead bs fin = .ok (h, rest))
    (hf : framingOfRefused h.headers = .ok fr)
    (hshort : ∀ n, fr.kind = .buffered n → n ≤ rest.length)
    (hver : (⟨Extracted.maxVersion.1, Extracted.maxVersion.2⟩ : Version).lt h.version = true)
    (hd : Body.drain ((initialBody fr.kind rest).2.length + 2) (initialBody fr.kind rest).1 (initialBody fr.kind rest).2 fin = some rest2) :
    runLoop (fuel + 1) idx s bs fin script =
      runLoop fuel idx (s.emit 505 (some print505) true) rest2 fin script ∧
    (s.emit 505 (some print505) true).delivered = s.delivered ∧
    (s.emit 505 (some print505) true).flushed = (s.emit 505 (some print505) true).out.length := by
  refine ⟨?_, rfl, rfl⟩
  have hf' : framingFor h.version h.headers = .ok fr := by
    rw [framingFor_of_high _ _ hver]; exact hf
  rw [runLoop, hh]
  simp only [hf']
  split
  · rename_i n hk
    have hn : ¬ (rest.length < n) := by have := hshort n hk; omega
    simp only [hn, decide_false, hver, hd, if_true, Bool.false_eq_true, if_false]
  · simp only [hver, hd, if_true, Bool.false_eq_true, if_false]

/-- "HTTP version above 1.1" is exactly: HTTP/2.0 and HTTP/3.0 among the recognised tokens. -/
theorem too_high_versions :
    (Extracted.versionTable.filter (fun e => (⟨Extracted.maxVersion.1, Extracted.maxVersion.2⟩ : Version).lt ⟨e.2.1, e.2.2⟩)).map (·.1)
      = [b!"HTTP/2.0", b!"HTTP/3.0"] := by
  decide

/-- earlier pipelined requests are answered first: whatever the rest of the pipeline holds (bad
    heads included), the bytes already produced stay in front, in order. -/
theorem earlier_responses_first (fuel idx : Nat) (s : St) (bs : Bytes) (fin : EndState) (script : Script) :
    ∃ o, (runLoop fuel idx s bs fin script).out = s.out ++ o := by
  exact runLoop_out_prefix fuel idx s bs fin script

/-! ### end to end: a whole pipeline -/

/-- the bytes of a pipeline of heads, each rendered with its own optional whitespace -/
def pipelineBytes (items : List (Head × List (Bytes × Bytes))) : Bytes :=
  (items.map (fun x => Spec.renderHead x.1 x.2)).flatten

/-- a request without body on a connection that stays open, in a version the server speaks -/
def plainRequest (x : Head × List (Bytes × Bytes)) : Prop :=
  Spec.wfHead x.1 = true ∧ (∀ o ∈ x.2, Spec.isOwsList o.1 = true ∧ Spec.isOwsList o.2 = true) ∧
  framingOf x.1.headers = .ok ⟨.empty, none, false⟩ ∧
  isLastRequest x.1.version x.1.headers = false ∧
  (⟨Extracted.maxVersion.1, Extracted.maxVersion.2⟩ : Version).lt x.1.version = false

/-- Pipeline theorem (C02 + C01 + C10 composed): k well-formed requests without body, for any k,
    any heads, any optional whitespace, any application script, followed by a malformed request
    line and arbitrary further bytes — exactly those k requests are delivered, with the heads as
    sent, in order; then the client gets a 400 after all k answers; the connection is closed;
    nothing of what follows is interpreted. -/
theorem pipeline_then_bad_request_line (items : List (Head × List (Bytes × Bytes))) (bad tail : Bytes)
    (fin : EndState) (script : Script)
    (hgood : ∀ x ∈ items, plainRequest x)
    (hbad : readHead (bad ++ tail) fin = .error .wrongRequestLine) :
    let t := Conn.run (pipelineBytes items ++ (bad ++ tail)) fin script
    t.delivered.map (fun d => (d.method, d.url, d.version, d.headers)) =
        items.map (fun x => (x.1.method, x.1.url, x.1.version, x.1.headers)) ∧
      t.statuses.getLast? = some 400 ∧
      t.ending = .closed ∧
      (∃ before, t.out = before ++ printError 400 ⟨1, 1⟩ false) := by
  intro t
  have hlen := pipeline_length_ge items
  obtain ⟨s', hrun, hdel, ⟨o, hout⟩, _⟩ :=
    runLoop_pipeline items ((pipelineBytes items ++ (bad ++ tail)).length + 1) 0 {} (bad ++ tail) fin script
      (by simp only [pipelineBytes, List.length_append]; omega) hgood
  obtain ⟨k, hk⟩ : ∃ k, (pipelineBytes items ++ (bad ++ tail)).length + 1 - items.length = k + 1 :=
    ⟨(pipelineBytes items ++ (bad ++ tail)).length - items.length, by
      simp only [pipelineBytes, List.length_append]; omega⟩
  have ht : t = runLoop (k + 1) (0 + items.length) s' (bad ++ tail) fin script := by
    show runLoop _ 0 {} _ fin script = _
    rw [← hk]; exact hrun
  obtain ⟨b1, b2, b3, b4, _⟩ := bad_request_line_outcome k (0 + items.length) s' (bad ++ tail) fin script hbad
  rw [← ht] at b1 b2 b3 b4
  refine ⟨?_, ?_, b3, ⟨s'.out, b4⟩⟩
  · rw [b1, hdel]; rfl
  · rw [b2]; simp

/-- …and the same pipeline followed by the client's orderly close instead: all k requests are
    delivered and answered (one final status each), then the server closes. -/
theorem pipeline_then_eof (items : List (Head × List (Bytes × Bytes))) (script : Script)
    (hgood : ∀ x ∈ items, plainRequest x)
    (hfinal : ∀ i, i < items.length → ∀ ops, (script i).fin ≠ .writer ops) :
    let t := Conn.run (pipelineBytes items) .eof script
    t.delivered.map (fun d => (d.method, d.url, d.version, d.headers)) =
        items.map (fun x => (x.1.method, x.1.url, x.1.version, x.1.headers)) ∧
      t.ending = .closed ∧
      t.statuses.length = items.length := by
  intro t
  have hlen := pipeline_length_ge items
  obtain ⟨s', hrun, hdel, _, hst⟩ :=
    runLoop_pipeline items ((pipelineBytes items).length + 1) 0 {} [] .eof script
      (by simp only [pipelineBytes]; omega) hgood
  obtain ⟨k, hk⟩ : ∃ k, (pipelineBytes items).length + 1 - items.length = k + 1 :=
    ⟨(pipelineBytes items).length - items.length, by simp only [pipelineBytes]; omega⟩
  have ht : t = s'.finish .closed := by
    have := hrun
    rw [List.append_nil, hk] at this
    exact this
  rw [ht]
  refine ⟨?_, rfl, ?_⟩
  · rw [St.finish_delivered, hdel]; rfl
  · rw [St.finish_statuses, hst (fun i _ hi => hfinal i (by omega))]; exact Nat.zero_add _

/-! ### end to end: a pipeline that mixes ordinary requests with refused ones -/

/-- what a refused request carries after its head: `plain` — nothing (`[]`) or the bytes of a
    Content-Length body; `chunked` — a list of chunks and the size field of the terminal chunk -/
inductive RefusedBody where
  | plain (body : Bytes)
  | chunked (cs : List Spec.SentChunk) (zero : Bytes)

/-- its bytes on the wire -/
def RefusedBody.wire : RefusedBody → Bytes
  | .plain body => body
  | .chunked cs zero => Spec.renderChunked cs zero

/-- an element of a mixed pipeline: a request the application will see, or one the connection
    thread refuses by itself -/
inductive Item where
  | good (head : Head) (ows : List (Bytes × Bytes))
  | refused (head : Head) (ows : List (Bytes × Bytes)) (body : RefusedBody)

def Item.isGood : Item → Bool
  | .good _ _ => true
  | .refused _ _ _ => false

def Item.head : Item → Head
  | .good h _ => h
  | .refused h _ _ => h

/-- the item's bytes on the wire: the rendered head, then the body (if any) -/
def Item.bytes : Item → Bytes
  | .good h ows => Spec.renderHead h ows
  | .refused h ows body => Spec.renderHead h ows ++ body.wire

/-- a request in a version the request-line parser recognises and that is above the highest the
    server speaks (that is: HTTP/2.0 or HTTP/3.0, `too_high_versions`), otherwise well-formed
    (`Spec.wfHead` fixes the version to 1.0 / 1.1, so it is asked of the head with the version
    replaced), with ANY headers the framing rules accept (`Connection: close`, `keep-alive`, `upgrade`,
    `Expect: 100-continue`, … — none of them is acted upon), whose body is entirely on the wire:
    delimited by a Content-Length equal to the number of body bytes (buffered at parse time or
    streamed), or absent (no framing header or `Content-Length: 0`), or sent with the chunked
    transfer coding as well-formed chunks and terminal chunk.  The framing is the one of a refused
    request (`framingOfRefused`): the `upgrade` option of the Connection header plays no role, so a
    refused request may offer an upgrade AND carry a Content-Length or chunked body — the body is
    skipped like any other. -/
def refusedRequest (h : Head) (ows : List (Bytes × Bytes)) (body : RefusedBody) : Prop :=
  Spec.wfHead { h with version := ⟨1, 1⟩ } = true ∧
  (∀ o ∈ ows, Spec.isOwsList o.1 = true ∧ Spec.isOwsList o.2 = true) ∧
  h.version ∈ Extracted.versionTable.map (fun e => (⟨e.2.1, e.2.2⟩ : Version)) ∧
  (⟨Extracted.maxVersion.1, Extracted.maxVersion.2⟩ : Version).lt h.version = true ∧
  ∃ fr : Framing, framingOfRefused h.headers = .ok fr ∧
    (match body with
     | .plain B =>
       fr.kind = .buffered B.length ∨ fr.kind = .limited B.length ∨ (B = [] ∧ fr.kind = .empty)
     | .chunked cs zero =>
       fr.kind = .chunked ∧ (∀ c ∈ cs, Spec.wfChunk c = true) ∧
       (usizeFromHex zero = some 0 ∧ zero.all (fun b => b != 13 && b != 59 && b < 128) = true ∧
         trim zero = zero))

/-- the same with the framing read off `framingOf` (the framing of the versions the server speaks),
    for a request that does not offer an upgrade: nothing changes. -/
theorem refusedRequest_of_framingOf (h : Head) (ows : List (Bytes × Bytes)) (body : RefusedBody)
    (hwf : Spec.wfHead { h with version := ⟨1, 1⟩ } = true)
    (hows : ∀ o ∈ ows, Spec.isOwsList o.1 = true ∧ Spec.isOwsList o.2 = true)
    (hrec : h.version ∈ Extracted.versionTable.map (fun e => (⟨e.2.1, e.2.2⟩ : Version)))
    (hver : (⟨Extracted.maxVersion.1, Extracted.maxVersion.2⟩ : Version).lt h.version = true)
    (fr : Framing) (hf : framingOf h.headers = .ok fr)
    (hb : match (generalizing := false) body with
     | .plain B =>
       fr.kind = .buffered B.length ∨ fr.kind = .limited B.length ∨ (B = [] ∧ fr.kind = .empty)
     | .chunked cs zero =>
       fr.kind = .chunked ∧ (∀ c ∈ cs, Spec.wfChunk c = true) ∧
       (usizeFromHex zero = some 0 ∧ zero.all (fun b => b != 13 && b != 59 && b < 128) = true ∧
         trim zero = zero)) :
    refusedRequest h ows body := by
  obtain ⟨fr', hf', -, -, -, hk⟩ := framingOfRefused_of_framingOf h.headers fr hf
  have hne : fr.kind ≠ .upgrade := by
    intro hu
    cases body with
    | plain B => rcases hb with hb | hb | ⟨_, hb⟩ <;> rw [hu] at hb <;> cases hb
    | chunked cs zero => rw [hu] at hb; cases hb.1
  refine ⟨hwf, hows, hrec, hver, fr', hf', ?_⟩
  rw [hk hne]
  exact hb

/-- the hypotheses on one item: `plainRequest` for a good one, `refusedRequest` for a refused one -/
def Item.ok : Item → Prop
  | .good h ows => plainRequest (h, ows)
  | .refused h ows body => refusedRequest h ows body

/-- the bytes of a mixed pipeline -/
def mixedBytes (items : List Item) : Bytes := (items.map Item.bytes).flatten

/-- the statuses a mixed pipeline must produce, in order: a 505 for every refused item, and for
    every good item what its handler (the next unused script entry) finishes with — the
    response's status, 500 for a dropped request, nothing for a raw writer. -/
def expectedStatuses (script : Script) (items : List Item) : List Nat :=
  mixedStatuses Item.isGood script 0 items

theorem mixedStatuses_nil (script : Script) (idx : Nat) :
    mixedStatuses Item.isGood script idx [] = [] := rfl

theorem mixedStatuses_good (script : Script) (idx : Nat) (h : Head) (ows : List (Bytes × Bytes)) (xs : List Item) :
    mixedStatuses Item.isGood script idx (.good h ows :: xs) =
      Spec.finishStatus (script idx).fin ++ mixedStatuses Item.isGood script (idx + 1) xs := rfl

theorem mixedStatuses_refused (script : Script) (idx : Nat) (h : Head) (ows : List (Bytes × Bytes))
    (b : RefusedBody) (xs : List Item) :
    mixedStatuses Item.isGood script idx (.refused h ows b :: xs) =
      505 :: mixedStatuses Item.isGood script idx xs := rfl

/-- one iteration of the connection loop on a refused request, whatever follows it, in any state:
    the per-step theorem `version_too_high_outcome` applied to the request as the client sends it.
    Nothing is delivered, the 505 is written and flushed, the body is skipped, and the loop goes on
    at the first byte after the body with the SAME script entry. -/
theorem refused_step (h : Head) (ows : List (Bytes × Bytes)) (body : RefusedBody)
    (hr : refusedRequest h ows body)
    (fuel idx : Nat) (s : St) (rest : Bytes) (fin : EndState) (script : Script) :
    runLoop (fuel + 1) idx s ((Spec.renderHead h ows ++ body.wire) ++ rest) fin script =
      runLoop fuel idx (s.emit 505 (some print505) true) rest fin script := by
  obtain ⟨hwf, hows, hrec, hver, fr, hf, hb⟩ := hr
  rw [List.append_assoc]
  have hh := readHead_render_above h ows (body.wire ++ rest) fin hwf (version_above_cases _ hrec hver) hows
  cases body with
  | plain B =>
    have hb' : fr.kind = .buffered B.length ∨ fr.kind = .limited B.length ∨
        (B = [] ∧ (fr.kind = .empty ∨ fr.kind = .upgrade)) := by
      rcases hb with hk | hk | ⟨hB, hk⟩
      · exact Or.inl hk
      · exact Or.inr (Or.inl hk)
      · exact Or.inr (Or.inr ⟨hB, Or.inl hk⟩)
    refine (version_too_high_outcome fuel idx s _ fin script h (B ++ rest) fr rest hh hf ?_ hver
      (drain_initialBody_sent fr.kind B rest fin hb')).1
    intro n hn
    rcases hb with hk | hk | ⟨_, hk⟩ <;> rw [hk] at hn <;> cases hn
    simp
  | chunked cs zero =>
    obtain ⟨hk, hcs, hz⟩ := hb
    refine (version_too_high_outcome fuel idx s _ fin script h (Spec.renderChunked cs zero ++ rest) fr rest
      hh hf ?_ hver ?_).1
    · intro n hn
      rw [hk] at hn
      cases hn
    · rw [hk]
      exact drain_initialBody_chunked cs zero rest fin hcs hz

theorem Item.bytes_pos (x : Item) : 0 < x.bytes.length := by
  cases x with
  | good h ows => exact renderHead_length_pos h ows
  | refused h ows b =>
    have := renderHead_length_pos h ows
    simp only [Item.bytes, List.length_append]
    omega

/-- the loop over a mixed pipeline, started anywhere (instance of `runLoop_mixed_pipeline`). -/
theorem runLoop_items (items : List Item) (hok : ∀ x ∈ items, x.ok)
    (fuel idx : Nat) (s : St) (rest : Bytes) (fin : EndState) (script : Script)
    (hfuel : items.length ≤ fuel) :
    ∃ s' : St,
      runLoop fuel idx s (mixedBytes items ++ rest) fin script =
        runLoop (fuel - items.length) (idx + (items.filter Item.isGood).length) s' rest fin script ∧
      s'.delivered.map (fun d => (d.method, d.url, d.version, d.headers)) =
        s.delivered.map (fun d => (d.method, d.url, d.version, d.headers)) ++
          (items.filter Item.isGood).map
            (fun x => (x.head.method, x.head.url, x.head.version, x.head.headers)) ∧
      s'.statuses = s.statuses ++ mixedStatuses Item.isGood script idx items ∧
      (∃ o, s'.out = s.out ++ o) := by
  refine runLoop_mixed_pipeline Item.isGood Item.head Item.bytes items ?_ ?_ fuel idx s rest fin script hfuel
  · intro x hx hg f i s0 r fin0 sc
    cases x with
    | refused h ows b => cases hg
    | good h ows =>
      obtain ⟨hwf, hows, hfr, hlast, hver⟩ := hok _ hx
      exact runLoop_plain_step f i s0 h ows r fin0 sc hwf hows hfr hlast hver
  · intro x hx hg f i s0 r fin0 sc
    cases x with
    | good h ows => cases hg
    | refused h ows b => exact refused_step h ows b (hok _ hx) f i s0 r fin0 sc

/-- Mixed pipeline theorem (C10 + C02 + C09 composed): any number of requests, each either an
    ordinary body-less request on a connection that stays open (`plainRequest`) or a request in a
    version the server does not speak (`refusedRequest`: HTTP/2.0 or 3.0, any headers — `Connection:
    close` and `Connection: upgrade` included —, no body or a Content-Length / chunked body of any
    size, also behind an upgrade offer), in any order, answered by ANY application
    script, followed by the client's orderly close:
    1. exactly the good requests are delivered, in order, with the heads as sent — a refused request
       never reaches the application and never hides a later good one;
    2. the server closes only at the end;
    3. the statuses are exactly `expectedStatuses`: a 505 at the place of every refused request,
       interleaved with what the handlers of the good ones finish with — in particular at least one
       505 per refused request. -/
theorem pipeline_with_refused_requests (items : List Item) (script : Script)
    (hok : ∀ x ∈ items, x.ok) :
    let t := Conn.run (mixedBytes items) .eof script
    t.delivered.map (fun d => (d.method, d.url, d.version, d.headers)) =
        (items.filter Item.isGood).map (fun x => (x.head.method, x.head.url, x.head.version, x.head.headers)) ∧
      t.ending = .closed ∧
      t.statuses = expectedStatuses script items ∧
      (items.filter (fun x => !x.isGood)).length ≤ (t.statuses.filter (· == 505)).length := by
  intro t
  have hlen := mixed_pipeline_length_ge Item.bytes items (fun x _ => x.bytes_pos)
  obtain ⟨s', hrun, hdel, hst, _⟩ :=
    runLoop_items items hok ((mixedBytes items).length + 1) 0 {} [] .eof script
      (by simp only [mixedBytes]; omega)
  obtain ⟨k, hk⟩ : ∃ k, (mixedBytes items).length + 1 - items.length = k + 1 :=
    ⟨(mixedBytes items).length - items.length, by simp only [mixedBytes]; omega⟩
  have ht : t = s'.finish .closed := by
    have := hrun
    rw [List.append_nil, hk] at this
    exact this
  have hst' : t.statuses = expectedStatuses script items := by
    rw [ht, St.finish_statuses, hst]; exact List.nil_append _
  refine ⟨?_, by rw [ht]; rfl, hst', ?_⟩
  · rw [ht, St.finish_delivered, hdel]; rfl
  · rw [hst']
    exact mixedStatuses_count_ge Item.isGood script items 0

/-- the parts of `pipeline_with_refused_requests` about delivery alone. -/
theorem pipeline_with_refused_requests_delivery (items : List Item) (script : Script)
    (hok : ∀ x ∈ items, x.ok) :
    let t := Conn.run (mixedBytes items) .eof script
    t.delivered.map (fun d => (d.method, d.url, d.version, d.headers)) =
        (items.filter Item.isGood).map (fun x => (x.head.method, x.head.url, x.head.version, x.head.headers)) ∧
      t.ending = .closed :=
  ⟨(pipeline_with_refused_requests items script hok).1, (pipeline_with_refused_requests items script hok).2.1⟩

/-- …and if no handler answers 505 itself, there is exactly one 505 per refused request; if
    moreover no handler takes the raw writer, exactly one status per request. -/
theorem pipeline_with_refused_requests_exact (items : List Item) (script : Script)
    (hok : ∀ x ∈ items, x.ok)
    (hno : ∀ i, 505 ∉ Spec.finishStatus (script i).fin) :
    let t := Conn.run (mixedBytes items) .eof script
    (t.statuses.filter (· == 505)).length = (items.filter (fun x => !x.isGood)).length ∧
      ((∀ i ops, (script i).fin ≠ .writer ops) → t.statuses.length = items.length) := by
  intro t
  have hst : t.statuses = expectedStatuses script items := (pipeline_with_refused_requests items script hok).2.2.1
  rw [hst]
  exact ⟨mixedStatuses_count_eq Item.isGood script items hno 0,
    fun hnw => mixedStatuses_length Item.isGood script items hnw 0⟩

/-- Refused requests do not end the connection: a good request placed after any number of refused
    ones (each with any headers and a body of any size), followed by anything at all (`tail`, with
    the client closing, resetting or just staying silent afterwards), is the first request the
    application sees; before it the client got exactly one 505 per refused request, and then what
    the first handler finishes with. -/
theorem refused_requests_do_not_end_the_connection (rs : List Item) (g : Head) (ows : List (Bytes × Bytes))
    (tail : Bytes) (fin : EndState) (script : Script)
    (hrs : ∀ x ∈ rs, x.ok ∧ x.isGood = false)
    (hg : plainRequest (g, ows)) :
    let t := Conn.run (mixedBytes rs ++ (Spec.renderHead g ows ++ tail)) fin script
    (∃ d ds, t.delivered = d :: ds ∧
      (d.method, d.url, d.version, d.headers) = (g.method, g.url, g.version, g.headers)) ∧
    (∃ st, t.statuses = List.replicate rs.length 505 ++ Spec.finishStatus (script 0).fin ++ st) := by
  intro t
  have hbytes : mixedBytes rs ++ (Spec.renderHead g ows ++ tail) = mixedBytes (rs ++ [.good g ows]) ++ tail := by
    simp [mixedBytes, Item.bytes]
  have hok : ∀ x ∈ rs ++ [Item.good g ows], x.ok := by
    intro x hx
    rcases List.mem_append.mp hx with hx | hx
    · exact (hrs x hx).1
    · simp only [List.mem_singleton] at hx
      subst hx
      exact hg
  have hlen := mixed_pipeline_length_ge Item.bytes (rs ++ [.good g ows]) (fun x _ => x.bytes_pos)
  obtain ⟨s', hrun, hdel, hst, _⟩ :=
    runLoop_items (rs ++ [.good g ows]) hok ((mixedBytes (rs ++ [.good g ows]) ++ tail).length + 1) 0 {} tail
      fin script (by simp only [mixedBytes, List.length_append] at hlen ⊢; omega)
  have hext : St.ExtT s' t := by
    show St.ExtT s' (runLoop _ 0 {} _ fin script)
    rw [hbytes, hrun]
    exact runLoop_ext ..
  obtain ⟨⟨ds, hd⟩, _, ⟨st, hs⟩⟩ := hext
  have hfilter : rs.filter Item.isGood = [] := by
    rw [List.filter_eq_nil_iff]
    intro x hx
    rw [(hrs x hx).2]
    exact Bool.false_ne_true
  constructor
  · have hdel' : s'.delivered.map (fun d => (d.method, d.url, d.version, d.headers)) =
        [(g.method, g.url, g.version, g.headers)] := by
      rw [hdel, List.filter_append, hfilter]; rfl
    cases hs' : s'.delivered with
    | nil => rw [hs'] at hdel'; cases hdel'
    | cons d rest =>
      rw [hs'] at hdel'
      exact ⟨d, rest ++ ds, by rw [hd, hs']; rfl, (List.cons.inj hdel').1⟩
  · refine ⟨st, ?_⟩
    rw [hs, hst, mixedStatuses_append, mixedStatuses_all_refused Item.isGood script rs (fun x hx => (hrs x hx).2),
      hfilter]
    simp [mixedStatuses, Item.isGood]


example : plainRequest (⟨Method.mk b!"GET", b!"/a", ⟨1, 1⟩, [⟨b!"Host", b!"x"⟩]⟩, [(b!" ", b!"")]) := by
  refine ⟨by decide, ?_, by decide, by decide, by decide⟩
  intro o ho
  simp only [List.mem_singleton] at ho
  subst ho
  exact ⟨by decide, by decide⟩

example : (Conn.run b!"GET /a HTTP/1.1\r\n\r\nGET /b HTTP/2.0\r\n\r\nGET /c HTTP/1.1\r\n\r\nBAD\r\n\r\nGET /d HTTP/1.1\r\n\r\n" .eof
    (fun _ => ⟨0, 0, 1, .drop, false⟩)).statuses = [500, 505, 500, 400] := by decide

/-! non-vacuity of `pipeline_with_refused_requests`: `GET /a HTTP/1.1`, then `POST /v2 HTTP/2.0` with
    a 4-byte Content-Length body, then `GET /v3 HTTP/3.0` naming `Connection: close`, then
    `GET /b HTTP/1.1` -/

def exMixed : List Item :=
  [.good ⟨⟨b!"GET"⟩, b!"/a", ⟨1, 1⟩, []⟩ [],
   .refused ⟨⟨b!"POST"⟩, b!"/v2", ⟨2, 0⟩, [⟨b!"Content-Length", b!"4"⟩]⟩ [(b!" ", [])] (.plain b!"body"),
   .refused ⟨⟨b!"GET"⟩, b!"/v3", ⟨3, 0⟩, [⟨b!"Connection", b!"close"⟩]⟩ [(b!" ", [])] (.plain []),
   .good ⟨⟨b!"GET"⟩, b!"/b", ⟨1, 1⟩, []⟩ []]


/-- the bytes on the wire -/
theorem exMixed_bytes : mixedBytes exMixed =
    b!"GET /a HTTP/1.1\r\n\r\nPOST /v2 HTTP/2.0\r\nContent-Length: 4\r\n\r\nbodyGET /v3 HTTP/3.0\r\nConnection: close\r\n\r\nGET /b HTTP/1.1\r\n\r\n" := by
  decide

/-- the hypotheses of `pipeline_with_refused_requests` hold of it -/
theorem exMixed_ok : ∀ x ∈ exMixed, x.ok := by
  intro x hx
  simp only [exMixed, List.mem_cons, List.not_mem_nil, or_false] at hx
  rcases hx with rfl | rfl | rfl | rfl
  · exact ⟨by decide, by decide, by decide, by decide, by decide⟩
  · exact ⟨by decide, by decide, by decide, by decide, ⟨.buffered 4, some 4, false⟩, by decide, Or.inl rfl⟩
  · exact ⟨by decide, by decide, by decide, by decide, ⟨.empty, none, false⟩, by decide,
      Or.inr (Or.inr ⟨rfl, rfl⟩)⟩
  · exact ⟨by decide, by decide, by decide, by decide, by decide⟩

/-- so the theorem applies to it, with every script: `/a` and `/b` are delivered, the connection is
    closed at the end only, and the client got two 505s between the handlers' answers -/
example (script : Script) :
    let t := Conn.run (mixedBytes exMixed) .eof script
    t.delivered.map (fun d => (d.method, d.url, d.version, d.headers)) =
        [(⟨b!"GET"⟩, b!"/a", ⟨1, 1⟩, []), (⟨b!"GET"⟩, b!"/b", ⟨1, 1⟩, [])] ∧
      t.ending = .closed ∧
      t.statuses = Spec.finishStatus (script 0).fin ++ 505 :: 505 :: (Spec.finishStatus (script 1).fin ++ []) :=
  ⟨(pipeline_with_refused_requests exMixed script exMixed_ok).1,
   (pipeline_with_refused_requests exMixed script exMixed_ok).2.1,
   (pipeline_with_refused_requests exMixed script exMixed_ok).2.2.1⟩

/-- the model run on it with a script that drops every request -/
def exMixedDropped : Trace := Conn.run (mixedBytes exMixed) .eof (fun _ => ⟨0, 0, 1, .drop, false⟩)

/-- as the theorem says -/
example :
    exMixedDropped.delivered.map (fun d => (d.method, d.url, d.version)) =
        [(⟨b!"GET"⟩, b!"/a", ⟨1, 1⟩), (⟨b!"GET"⟩, b!"/b", ⟨1, 1⟩)] ∧
      exMixedDropped.statuses = [500, 505, 505, 500] ∧ exMixedDropped.ending = .closed := by
  rw [exMixedDropped, exMixed_bytes]
  decide

/-- …and with handlers that answer 200 -/
def exMixedAnswered : Trace :=
  Conn.run (mixedBytes exMixed) .eof (fun _ => ⟨0, 0, 1, .respond ⟨200, [], none, none, [b!"hi"]⟩, false⟩)

example :
    exMixedAnswered.delivered.map (·.url) = [b!"/a", b!"/b"] ∧
      exMixedAnswered.statuses = [200, 505, 505, 200] ∧ exMixedAnswered.ending = .closed := by
  rw [exMixedAnswered, exMixed_bytes]
  decide

/-- a second one: a refused request with a chunked body, then a good request -/
def exMixed2 : List Item :=
  [.refused ⟨⟨b!"POST"⟩, b!"/c", ⟨3, 0⟩, [⟨b!"Transfer-Encoding", b!"chunked"⟩]⟩ []
     (.chunked [⟨b!"3", [], b!"abc"⟩] b!"0"),
   .good ⟨⟨b!"GET"⟩, b!"/b", ⟨1, 1⟩, []⟩ []]

theorem exMixed2_bytes : mixedBytes exMixed2 =
    b!"POST /c HTTP/3.0\r\nTransfer-Encoding:chunked\r\n\r\n3\r\nabc\r\n0\r\n\r\nGET /b HTTP/1.1\r\n\r\n" := by
  decide

theorem exMixed2_ok : ∀ x ∈ exMixed2, x.ok := by
  intro x hx
  simp only [exMixed2, List.mem_cons, List.not_mem_nil, or_false] at hx
  rcases hx with rfl | rfl
  · refine ⟨by decide, by decide, by decide, by decide, ⟨.chunked, none, false⟩, by decide, rfl, ?_, ?_⟩
    · decide
    · decide
  · exact ⟨by decide, by decide, by decide, by decide, by decide⟩

def exMixed2Run : Trace := Conn.run (mixedBytes exMixed2) .eof (fun _ => ⟨1, 5, 2, .drop, false⟩)

example :
    exMixed2Run.delivered.map (·.url) = [b!"/b"] ∧ exMixed2Run.statuses = [505, 500] ∧
      exMixed2Run.ending = .closed := by
  rw [exMixed2Run, exMixed2_bytes]
  decide

/-- a third one: a refused request that offers an upgrade (no body; `exMixed4` / `exMixed5` below:
    with a body), then a good HTTP/1.0 keep-alive request -/
def exMixed3 : List Item :=
  [.refused ⟨⟨b!"GET"⟩, b!"/u", ⟨2, 0⟩, [⟨b!"Connection", b!"upgrade"⟩]⟩ [] (.plain []),
   .good ⟨⟨b!"GET"⟩, b!"/b", ⟨1, 0⟩, [⟨b!"Connection", b!"keep-alive"⟩]⟩ []]

theorem exMixed3_bytes : mixedBytes exMixed3 =
    b!"GET /u HTTP/2.0\r\nConnection:upgrade\r\n\r\nGET /b HTTP/1.0\r\nConnection:keep-alive\r\n\r\n" := by
  decide

theorem exMixed3_ok : ∀ x ∈ exMixed3, x.ok := by
  intro x hx
  simp only [exMixed3, List.mem_cons, List.not_mem_nil, or_false] at hx
  rcases hx with rfl | rfl
  · exact ⟨by decide, by decide, by decide, by decide, ⟨.empty, none, false⟩, by decide,
      Or.inr (Or.inr ⟨rfl, rfl⟩)⟩
  · exact ⟨by decide, by decide, by decide, by decide, by decide⟩

def exMixed3Run : Trace := Conn.run (mixedBytes exMixed3) .eof (fun _ => ⟨0, 0, 1, .drop, false⟩)

example :
    exMixed3Run.delivered.map (·.url) = [b!"/b"] ∧ exMixed3Run.statuses = [505, 500] ∧
      exMixed3Run.ending = .closed := by
  rw [exMixed3Run, exMixed3_bytes]
  decide

/-- `refused_requests_do_not_end_the_connection` applied: after the two refused requests in the
    middle of `exMixed`, `/b` is the first request delivered, whatever follows it -/
example (tail : Bytes) (fin : EndState) (script : Script) :
    ∃ d ds, (Conn.run (mixedBytes ((exMixed.drop 1).take 2) ++
        (Spec.renderHead ⟨⟨b!"GET"⟩, b!"/b", ⟨1, 1⟩, []⟩ [] ++ tail)) fin script).delivered = d :: ds ∧
      d.url = b!"/b" := by
  obtain ⟨⟨d, ds, h1, h2⟩, _⟩ := refused_requests_do_not_end_the_connection ((exMixed.drop 1).take 2)
    ⟨⟨b!"GET"⟩, b!"/b", ⟨1, 1⟩, []⟩ [] tail fin script
    (fun x hx => ⟨exMixed_ok x (List.mem_of_mem_drop (List.mem_of_mem_take hx)), by
      simp only [exMixed, List.drop, List.take, List.mem_cons, List.not_mem_nil, or_false] at hx
      rcases hx with rfl | rfl <;> rfl⟩)
    ⟨by decide, by decide, by decide, by decide, by decide⟩
  exact ⟨d, ds, h1, (Prod.mk.inj (Prod.mk.inj h2).2).1⟩

/-! A refused request that offers an upgrade AND announces a body.  Before the repair of
    `new_request` such a request got the socket itself as its body reader (`BodyKind.upgrade`),
    dropping it discarded nothing, the loop went on after the 505 and the bytes announced as the body
    were parsed as the next request: on the input below (`Content-Length: 27`, followed by the 26
    bytes of `GET /smuggled HTTP/1.1`) the application was handed `/smuggled`.  Now the `upgrade`
    option is honoured only for the versions the server speaks (`framingOfRefused`), the body is
    framed by its Content-Length and skipped. -/

/-- on this very input nothing is delivered any more: the 26 bytes after the head are (part of) the
    27 announced body bytes, the last one never comes, the connection is closed -/
example :
    let t := Conn.run b!"POST /v2 HTTP/2.0\r\nConnection: upgrade\r\nContent-Length: 27\r\n\r\nGET /smuggled HTTP/1.1\r\n\r\n" .eof
      (fun _ => ⟨0, 0, 1, .drop, false⟩)
    t.delivered = [] ∧ t.ending = .closed := by decide

/-- …and with more bytes behind it exactly 27 bytes are skipped after the 505 — the 26 of
    `GET /smuggled …` and the first one (`G`) of what follows; nothing of the skipped bytes is
    delivered -/
example :
    let t := Conn.run b!"POST /v2 HTTP/2.0\r\nConnection: upgrade\r\nContent-Length: 27\r\n\r\nGET /smuggled HTTP/1.1\r\n\r\nGGET /b HTTP/1.1\r\n\r\n" .eof
      (fun _ => ⟨0, 0, 1, .drop, false⟩)
    t.delivered.map (fun d => (d.method, d.url)) = [(⟨b!"GET"⟩, b!"/b")] ∧ t.statuses = [505, 500] ∧
      t.ending = .closed := by decide

/-- the same as a pipeline of items: the refused request offers an upgrade and carries the 27 bytes
    `GET /smuggled HTTP/1.1 CR LF CR LF G` as its Content-Length body; then `GET /b HTTP/1.1` -/
def exMixed4 : List Item :=
  [.refused ⟨⟨b!"POST"⟩, b!"/v2", ⟨2, 0⟩, [⟨b!"Connection", b!"upgrade"⟩, ⟨b!"Content-Length", b!"27"⟩]⟩
     [(b!" ", []), (b!" ", [])] (.plain b!"GET /smuggled HTTP/1.1\r\n\r\nG"),
   .good ⟨⟨b!"GET"⟩, b!"/b", ⟨1, 1⟩, []⟩ []]

theorem exMixed4_bytes : mixedBytes exMixed4 =
    b!"POST /v2 HTTP/2.0\r\nConnection: upgrade\r\nContent-Length: 27\r\n\r\nGET /smuggled HTTP/1.1\r\n\r\nGGET /b HTTP/1.1\r\n\r\n" := by
  decide

/-- `framingOf` would call it an upgrade; the framing of a refused request is by Content-Length -/
example : framingOf (exMixed4.head?.map (·.head.headers)).get! = .ok ⟨.upgrade, some 27, false⟩ ∧
    framingOfRefused (exMixed4.head?.map (·.head.headers)).get! = .ok ⟨.buffered 27, some 27, false⟩ := by
  decide

theorem exMixed4_ok : ∀ x ∈ exMixed4, x.ok := by
  intro x hx
  simp only [exMixed4, List.mem_cons, List.not_mem_nil, or_false] at hx
  rcases hx with rfl | rfl
  · exact ⟨by decide, by decide, by decide, by decide, ⟨.buffered 27, some 27, false⟩, by decide, Or.inl rfl⟩
  · exact ⟨by decide, by decide, by decide, by decide, by decide⟩

/-- so `pipeline_with_refused_requests` applies, with every script: only `/b` is delivered, after
    the 505 -/
example (script : Script) :
    let t := Conn.run (mixedBytes exMixed4) .eof script
    t.delivered.map (fun d => (d.method, d.url, d.version, d.headers)) = [(⟨b!"GET"⟩, b!"/b", ⟨1, 1⟩, [])] ∧
      t.ending = .closed ∧
      t.statuses = 505 :: (Spec.finishStatus (script 0).fin ++ []) :=
  ⟨(pipeline_with_refused_requests exMixed4 script exMixed4_ok).1,
   (pipeline_with_refused_requests exMixed4 script exMixed4_ok).2.1,
   (pipeline_with_refused_requests exMixed4 script exMixed4_ok).2.2.1⟩

/-- a refused upgrade offer with a CHUNKED body: skipped up to and including the terminal chunk -/
def exMixed5 : List Item :=
  [.refused ⟨⟨b!"POST"⟩, b!"/c", ⟨3, 0⟩, [⟨b!"Connection", b!"Upgrade"⟩, ⟨b!"Transfer-Encoding", b!"chunked"⟩]⟩ []
     (.chunked [⟨b!"1a", [], b!"GET /smuggled HTTP/1.1\r\n\r\n"⟩] b!"0"),
   .good ⟨⟨b!"GET"⟩, b!"/b", ⟨1, 1⟩, []⟩ []]

theorem exMixed5_ok : ∀ x ∈ exMixed5, x.ok := by
  intro x hx
  simp only [exMixed5, List.mem_cons, List.not_mem_nil, or_false] at hx
  rcases hx with rfl | rfl
  · refine ⟨by decide, by decide, by decide, by decide, ⟨.chunked, none, false⟩, by decide, rfl, ?_, ?_⟩
    · decide
    · decide
  · exact ⟨by decide, by decide, by decide, by decide, by decide⟩

example (script : Script) :
    (Conn.run (mixedBytes exMixed5) .eof script).delivered.map (·.url) = [b!"/b"] := by
  have h := (pipeline_with_refused_requests exMixed5 script exMixed5_ok).1
  have h2 := congrArg (List.map (fun x : Method × Bytes × Version × List Header => x.2.1)) h
  simpa [exMixed5, Item.isGood, Item.head, List.filter] using h2

end TH.Props.C10
