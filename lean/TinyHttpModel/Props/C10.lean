/-
  C10 — malformed or unsupported requests never reach the application and never hang.
-/
import TinyHttpModel.WireSpec
import TinyHttpModel.Lemmas.LoopA
import TinyHttpModel.Lemmas.HeadParse
import TinyHttpModel.Lemmas.Pipeline

namespace TH.Props.C10
open TH

/-- fewer than three request-line fields ⇒ rejected. -/
theorem request_line_needs_three_fields (line : Bytes)
    (h : (splitOn 32 (trim line)).length < 3) : parseRequestLine line = none := by
  exact parseRequestLine_short line h

/-- a version token outside the recognised table ⇒ rejected (lower case, HTTP/1.2, garbage …). -/
theorem unknown_version_rejected (m p v : Bytes) (rest : List Bytes) (line : Bytes)
    (hs : splitOn 32 (trim line) = m :: p :: v :: rest)
    (hv : ∀ e ∈ Extracted.versionTable, e.1 ≠ v) : parseRequestLine line = none := by
  exact parseRequestLine_unknown_version m p v rest line hs hv

/-- the recognised table is exactly the five tokens of the statement. -/
theorem version_table :
    Extracted.versionTable.map (·.1) = [b!"HTTP/0.9", b!"HTTP/1.0", b!"HTTP/1.1", b!"HTTP/2.0", b!"HTTP/3.0"] := by
  decide

/-- a header line without a colon ⇒ rejected. -/
theorem header_without_colon_rejected (line : Bytes) (h : line.contains 58 = false) :
    parseHeaderLine line = none := by
  exact parseHeaderLine_no_colon line h

/-- Malformed ASCII head (bad request line) at any point of a pipeline: not delivered, the client
    gets a 400 after everything produced so far, the connection closes, nothing after it is
    interpreted, and the connection thread does not block. -/
theorem bad_request_line_outcome (fuel idx : Nat) (s : St) (bs : Bytes) (fin : EndState) (script : Script)
    (h : readHead bs fin = .error .wrongRequestLine) :
    let t := runLoop (fuel + 1) idx s bs fin script
    t.delivered = s.delivered ∧ t.statuses = s.statuses ++ [400] ∧ t.ending = .closed ∧
      t.out = s.out ++ printError 400 ⟨1, 1⟩ false ∧ t.flushed = t.out.length := by
  simp [runLoop, h, St.emit, St.finish]

theorem bad_header_outcome (fuel idx : Nat) (s : St) (bs : Bytes) (fin : EndState) (script : Script) (v : Version)
    (h : readHead bs fin = .error (.wrongHeader v)) :
    let t := runLoop (fuel + 1) idx s bs fin script
    t.delivered = s.delivered ∧ t.statuses = s.statuses ++ [400] ∧ t.ending = .closed ∧
      t.out = s.out ++ printError 400 v false ∧ t.flushed = t.out.length := by
  simp [runLoop, h, St.emit, St.finish]

/-- non-ASCII bytes in the head: plain close, nothing delivered, nothing sent. -/
theorem non_ascii_outcome (fuel idx : Nat) (s : St) (bs : Bytes) (fin : EndState) (script : Script)
    (h : readHead bs fin = .error .notAscii) :
    let t := runLoop (fuel + 1) idx s bs fin script
    t.delivered = s.delivered ∧ t.statuses = s.statuses ∧ t.ending = .closed ∧ t.out = s.out := by
  simp [runLoop, h, St.finish]

/-- a line containing a byte ≥ 0x80 is never parsed. -/
theorem non_ascii_line (l rest : Bytes) (fin : EndState)
    (hl : ∀ b ∈ l, b ≠ 10) (hn : ∃ b ∈ l, 128 ≤ b) :
    readLine (l ++ 13 :: 10 :: rest) fin = .notAscii rest := by
  exact readLine_notAscii l rest fin hl hn

/-- unsupported Expect value (anything but 100-continue, any letter case): 417 then close, not
    delivered — provided the Content-Length headers are well-formed (else 400, see C16). -/
theorem unsupported_expect_outcome (fuel idx : Nat) (s : St) (bs : Bytes) (fin : EndState) (script : Script)
    (h : Head) (rest : Bytes)
    (hh : readHead bs fin = .ok (h, rest))
    (hf : framingOf h.headers = .error .expectationFailed) :
    let t := runLoop (fuel + 1) idx s bs fin script
    t.delivered = s.delivered ∧ t.statuses = s.statuses ++ [417] ∧ t.ending = .closed ∧
      t.out = s.out ++ printError 417 h.version true ∧ t.flushed = t.out.length := by
  simp [runLoop, hh, hf, St.emit, St.finish]

theorem expect_classification (hs : List Header) (e : Header)
    (hcl : ∀ h ∈ hs, h.is b!"Content-Length" = true → (strictContentLength h.value).isSome = true)
    (he : findHeader hs b!"Expect" = some e)
    (hv : eqIgnoreCase e.value b!"100-continue" = false) :
    framingOf hs = .error .expectationFailed := by
  exact framingOf_expectation_failed hs e hcl he hv

/-- HTTP version above 1.1: not delivered; the 505 is written and flushed at once (it does not
    wait for anything), its body is skipped, and the connection goes on with the next request. -/
theorem version_too_high_outcome (fuel idx : Nat) (s : St) (bs : Bytes) (fin : EndState) (script : Script)
    (h : Head) (rest : Bytes) (fr : Framing) (rest2 : Bytes)
    (hh : readHead bs fin = .ok (h, rest))
    (hf : framingOf h.headers = .ok fr)
    (hshort : ∀ n, fr.kind = .buffered n → n ≤ rest.length)
    (hver : (⟨Extracted.maxVersion.1, Extracted.maxVersion.2⟩ : Version).lt h.version = true)
    (hd : Body.drain ((initialBody fr.kind rest).2.length + 2) (initialBody fr.kind rest).1 (initialBody fr.kind rest).2 fin = some rest2) :
    runLoop (fuel + 1) idx s bs fin script =
      runLoop fuel idx (s.emit 505 (some print505) true) rest2 fin script ∧
    (s.emit 505 (some print505) true).delivered = s.delivered ∧
    (s.emit 505 (some print505) true).flushed = (s.emit 505 (some print505) true).out.length := by
  refine ⟨?_, rfl, rfl⟩
  rw [runLoop, hh]
  simp only [hf]
  split
  · rename_i n hk
    have hn : ¬ (rest.length < n) := by have := hshort n hk; omega
    simp only [hn, decide_false, hver, hd, if_true, Bool.false_eq_true, if_false]
  · simp only [hver, hd, if_true, Bool.false_eq_true, if_false]

/-- "HTTP version above 1.1" is exactly: HTTP/2.0 and HTTP/3.0 among the recognised tokens. -/
theorem too_high_versions :
    (Extracted.versionTable.filter (fun e => (⟨Extracted.maxVersion.1, Extracted.maxVersion.2⟩ : Version).lt ⟨e.2.1, e.2.2⟩)).map (·.1)
      = [b!"HTTP/2.0", b!"HTTP/3.0"] := by
  decide

/-- earlier pipelined requests are answered first: whatever the rest of the pipeline holds (bad
    heads included), the bytes already produced stay in front, in order. -/
theorem earlier_responses_first (fuel idx : Nat) (s : St) (bs : Bytes) (fin : EndState) (script : Script) :
    ∃ o, (runLoop fuel idx s bs fin script).out = s.out ++ o := by
  exact runLoop_out_prefix fuel idx s bs fin script

/-! ### end to end: a whole pipeline -/

/-- the bytes of a pipeline of heads, each rendered with its own optional whitespace -/
def pipelineBytes (items : List (Head × List (Bytes × Bytes))) : Bytes :=
  (items.map (fun x => Spec.renderHead x.1 x.2)).flatten

/-- a request without body on a connection that stays open, in a version the server speaks -/
def plainRequest (x : Head × List (Bytes × Bytes)) : Prop :=
  Spec.wfHead x.1 = true ∧ (∀ o ∈ x.2, Spec.isOwsList o.1 = true ∧ Spec.isOwsList o.2 = true) ∧
  framingOf x.1.headers = .ok ⟨.empty, none, false⟩ ∧
  isLastRequest x.1.version x.1.headers = false ∧
  (⟨Extracted.maxVersion.1, Extracted.maxVersion.2⟩ : Version).lt x.1.version = false

/-- Pipeline theorem (C02 + C01 + C10 composed): k well-formed requests without body, for any k,
    any heads, any optional whitespace, any application script, followed by a malformed request
    line and arbitrary further bytes — exactly those k requests are delivered, with the heads as
    sent, in order; then the client gets a 400 after all k answers; the connection is closed;
    nothing of what follows is interpreted. -/
theorem pipeline_then_bad_request_line (items : List (Head × List (Bytes × Bytes))) (bad tail : Bytes)
    (fin : EndState) (script : Script)
    (hgood : ∀ x ∈ items, plainRequest x)
    (hbad : readHead (bad ++ tail) fin = .error .wrongRequestLine) :
    let t := Conn.run (pipelineBytes items ++ (bad ++ tail)) fin script
    t.delivered.map (fun d => (d.method, d.url, d.version, d.headers)) =
        items.map (fun x => (x.1.method, x.1.url, x.1.version, x.1.headers)) ∧
      t.statuses.getLast? = some 400 ∧
      t.ending = .closed ∧
      (∃ before, t.out = before ++ printError 400 ⟨1, 1⟩ false) := by
  intro t
  have hlen := pipeline_length_ge items
  obtain ⟨s', hrun, hdel, ⟨o, hout⟩, _⟩ :=
    runLoop_pipeline items ((pipelineBytes items ++ (bad ++ tail)).length + 1) 0 {} (bad ++ tail) fin script
      (by simp only [pipelineBytes, List.length_append]; omega) hgood
  obtain ⟨k, hk⟩ : ∃ k, (pipelineBytes items ++ (bad ++ tail)).length + 1 - items.length = k + 1 :=
    ⟨(pipelineBytes items ++ (bad ++ tail)).length - items.length, by
      simp only [pipelineBytes, List.length_append]; omega⟩
  have ht : t = runLoop (k + 1) (0 + items.length) s' (bad ++ tail) fin script := by
    show runLoop _ 0 {} _ fin script = _
    rw [← hk]; exact hrun
  obtain ⟨b1, b2, b3, b4, _⟩ := bad_request_line_outcome k (0 + items.length) s' (bad ++ tail) fin script hbad
  rw [← ht] at b1 b2 b3 b4
  refine ⟨?_, ?_, b3, ⟨s'.out, b4⟩⟩
  · rw [b1, hdel]; rfl
  · rw [b2]; simp

/-- …and the same pipeline followed by the client's orderly close instead: all k requests are
    delivered and answered (one final status each), then the server closes. -/
theorem pipeline_then_eof (items : List (Head × List (Bytes × Bytes))) (script : Script)
    (hgood : ∀ x ∈ items, plainRequest x)
    (hfinal : ∀ i, i < items.length → ∀ ops, (script i).fin ≠ .writer ops) :
    let t := Conn.run (pipelineBytes items) .eof script
    t.delivered.map (fun d => (d.method, d.url, d.version, d.headers)) =
        items.map (fun x => (x.1.method, x.1.url, x.1.version, x.1.headers)) ∧
      t.ending = .closed ∧
      t.statuses.length = items.length := by
  intro t
  have hlen := pipeline_length_ge items
  obtain ⟨s', hrun, hdel, _, hst⟩ :=
    runLoop_pipeline items ((pipelineBytes items).length + 1) 0 {} [] .eof script
      (by simp only [pipelineBytes]; omega) hgood
  obtain ⟨k, hk⟩ : ∃ k, (pipelineBytes items).length + 1 - items.length = k + 1 :=
    ⟨(pipelineBytes items).length - items.length, by simp only [pipelineBytes]; omega⟩
  have ht : t = s'.finish .closed := by
    have := hrun
    rw [List.append_nil, hk] at this
    exact this
  rw [ht]
  refine ⟨?_, rfl, ?_⟩
  · rw [St.finish_delivered, hdel]; rfl
  · rw [St.finish_statuses, hst (fun i _ hi => hfinal i (by omega))]; exact Nat.zero_add _

example : plainRequest (⟨Method.mk b!"GET", b!"/a", ⟨1, 1⟩, [⟨b!"Host", b!"x"⟩]⟩, [(b!" ", b!"")]) := by
  refine ⟨by decide, ?_, by decide, by decide, by decide⟩
  intro o ho
  simp only [List.mem_singleton] at ho
  subst ho
  exact ⟨by decide, by decide⟩

example : (Conn.run b!"GET /a HTTP/1.1\r\n\r\nGET /b HTTP/2.0\r\n\r\nGET /c HTTP/1.1\r\n\r\nBAD\r\n\r\nGET /d HTTP/1.1\r\n\r\n" .eof
    (fun _ => ⟨0, 0, 1, .drop, false⟩)).statuses = [500, 505, 500, 400] := by decide

end TH.Props.C10
