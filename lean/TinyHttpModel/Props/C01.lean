/-
  C01 — pipelined responses leave in request order and are never interleaved.
-/
import TinyHttpModel.Lts.Seq
import TinyHttpModel.Lemmas.SeqInv

namespace TH.Props.C01
open TH.Lts.Seq

/-- Order: in every reachable state — any number of writers, any interleaving of the threads
    that write / flush / drop them, any response sizes, any buffering policy of the BufWriter —
    the bytes on the socket followed by the bytes still buffered are exactly the concatenation,
    in issue (= request) order, of what each writer submitted.  Bytes of different responses are
    never interleaved and never reordered. -/
theorem seq_order (s : State) (h : Reachable s) : s.sock ++ s.buf = inOrder s := by
  exact (inv_reachable h).order

/-- a writer has submitted something only if every earlier writer has been dropped (its
    response is complete): a later response never starts before an earlier one ended. -/
theorem no_overtaking (s : State) (h : Reachable s) (i : Nat) (hi : i < s.writers.length)
    (hs : (s.writers.getD i {}).submitted ≠ []) : ∀ j, j < i → isDropped s j = true := by
  exact (inv_reachable h).noOver i hi hs

/-- …and a dropped writer also means all earlier ones are dropped (with the repaired `Drop`,
    which waits for its turn: an untouched writer cannot let its successor overtake). -/
theorem dropped_prefix_closed (s : State) (h : Reachable s) (i : Nat) (hd : isDropped s i = true) :
    ∀ j, j < i → isDropped s j = true := by
  exact (inv_reachable h).pref i hd

/-- what reached the socket is always a prefix of the in-order concatenation. -/
theorem sock_is_prefix (s : State) (h : Reachable s) : ∃ rest, inOrder s = s.sock ++ rest := by
  exact ⟨s.buf, (seq_order s h).symm⟩

/-- after a flush everything submitted so far is on the socket. -/
theorem flush_delivers (s s' : State) (h : Reachable s) (i : Nat) (hs : step s (.flush i) = some s') :
    s'.sock = inOrder s' ∧ s'.buf = [] := by
  have ho := seq_order s h
  simp only [step] at hs
  split at hs
  · simp only [Option.some.injEq] at hs
    subst hs
    refine ⟨?_, rfl⟩
    simpa [inOrder] using ho
  · cases hs

/-- No deadlock, nobody held up: the earliest writer that is not yet dropped always has its turn
    — it can write, flush and be dropped whatever the others do; in particular dropping a request
    (500) or a raw writer releases the next response. -/
theorem first_alive_has_turn (s : State) (h : Reachable s) (m : Nat) (hm : m < s.writers.length)
    (ha : isDropped s m = false) (hmin : ∀ j, j < m → isDropped s j = true) : hasTurn s m = true := by
  have _ := h
  unfold hasTurn
  simp only [Bool.and_eq_true, decide_eq_true_eq, Bool.not_eq_true', Bool.or_eq_true, beq_iff_eq]
  refine ⟨⟨hm, ha⟩, ?_⟩
  by_cases h0 : m = 0
  · exact Or.inl h0
  · exact Or.inr (hmin (m - 1) (by omega))

example : (run {} [.issue, .issue, .write 0 [1, 2], .sock 1, .drop 0, .write 1 [3], .flush 1]).map
    (fun s => (s.sock, s.buf)) = some ([1, 2, 3], []) := by decide
/-- the repaired defect: an untouched writer can no longer be dropped out of turn. -/
example : run {} [.issue, .issue, .issue, .drop 1] = none := by decide

end TH.Props.C01
