/-
  C01 — pipelined responses leave in request order and are never interleaved.
-/
import TinyHttpModel.Lts.Seq
import TinyHttpModel.Lts.Par
import TinyHttpModel.Lemmas.SeqInv
import TinyHttpModel.Lemmas.ParInv

namespace TH.Props.C01
open TH.Lts.Seq

/-- Order: in every reachable state — any number of writers, any interleaving of the threads
    that write / flush / drop them, any response sizes, any buffering policy of the BufWriter —
    the bytes on the socket followed by the bytes still buffered are exactly the concatenation,
    in issue (= request) order, of what each writer submitted.  Bytes of different responses are
    never interleaved and never reordered. -/
theorem seq_order (s : State) (h : Reachable s) : s.sock ++ s.buf = inOrder s := by
  exact (inv_reachable h).order

/-- a writer has submitted something only if every earlier writer has been dropped (its
    response is complete): a later response never starts before an earlier one ended. -/
theorem no_overtaking (s : State) (h : Reachable s) (i : Nat) (hi : i < s.writers.length)
    (hs : (s.writers.getD i {}).submitted ≠ []) : ∀ j, j < i → isDropped s j = true := by
  exact (inv_reachable h).noOver i hi hs

/-- …and a dropped writer also means all earlier ones are dropped (with the repaired `Drop`,
    which waits for its turn: an untouched writer cannot let its successor overtake). -/
theorem dropped_prefix_closed (s : State) (h : Reachable s) (i : Nat) (hd : isDropped s i = true) :
    ∀ j, j < i → isDropped s j = true := by
  exact (inv_reachable h).pref i hd

/-- what reached the socket is always a prefix of the in-order concatenation. -/
theorem sock_is_prefix (s : State) (h : Reachable s) : ∃ rest, inOrder s = s.sock ++ rest := by
  exact ⟨s.buf, (seq_order s h).symm⟩

/-- after a flush everything submitted so far is on the socket. -/
theorem flush_delivers (s s' : State) (h : Reachable s) (i : Nat) (hs : step s (.flush i) = some s') :
    s'.sock = inOrder s' ∧ s'.buf = [] := by
  have ho := seq_order s h
  simp only [step] at hs
  split at hs
  · simp only [Option.some.injEq] at hs
    subst hs
    refine ⟨?_, rfl⟩
    simpa [inOrder] using ho
  · cases hs

/-- No deadlock, nobody held up: the earliest writer that is not yet dropped always has its turn
    — it can write, flush and be dropped whatever the others do; in particular dropping a request
    (500) or a raw writer releases the next response. -/
theorem first_alive_has_turn (s : State) (h : Reachable s) (m : Nat) (hm : m < s.writers.length)
    (ha : isDropped s m = false) (hmin : ∀ j, j < m → isDropped s j = true) : hasTurn s m = true := by
  have _ := h
  unfold hasTurn
  simp only [Bool.and_eq_true, decide_eq_true_eq, Bool.not_eq_true', Bool.or_eq_true, beq_iff_eq]
  refine ⟨⟨hm, ha⟩, ?_⟩
  by_cases h0 : m = 0
  · exact Or.inl h0
  · exact Or.inr (hmin (m - 1) (by omega))

/-! ### the whole connection with concurrently running handlers (`Lts.Par`) -/

/-- the writer side of every concurrent execution of a connection is an execution of `Lts.Seq`:
    all theorems above apply to it. -/
theorem par_writers_are_seq (bs : Bytes) (fin : EndState) (script : Script) (s : Lts.Par.State)
    (h : Lts.Par.Reachable bs fin script s) : Reachable s.seq := by
  exact Lts.Par.seq_reachable h

/-- Whatever the schedule — the connection thread parsing ahead, every handler asking for its
    body, reading, answering in pieces of any size and dropping its request at its own pace — the
    bytes submitted to the client are at every moment a prefix of what the SEQUENTIAL run
    (`Conn.run`: one request at a time) submits: same responses, same order, never interleaved. -/
theorem concurrent_handlers_prefix (bs : Bytes) (fin : EndState) (script : Script) (s : Lts.Par.State)
    (h : Lts.Par.Reachable bs fin script s) :
    Lts.Par.submitted s <+: (Conn.run bs fin script).out := by
  exact Lts.Par.reachable_prefix h

/-- …and when no thread can take a step any more, the client has been sent exactly the sequential
    run's bytes and the application has seen exactly the sequential run's requests (same heads,
    same body bytes, same read results). -/
theorem concurrent_handlers_same_bytes (bs : Bytes) (fin : EndState) (script : Script) (s : Lts.Par.State)
    (h : Lts.Par.Reachable bs fin script s) (ht : Lts.Par.Terminal s) :
    Lts.Par.submitted s = (Conn.run bs fin script).out ∧
    Lts.Par.delivered s = (Conn.run bs fin script).delivered := by
  exact Lts.Par.reachable_terminal_same h ht

/-- No deadlock between the two chains: the only states in which nothing can move are those in
    which every request has been answered and dropped or is blocked on the silent client, and
    the connection thread has stopped or waits for such a blocked request. -/
theorem concurrent_terminal_is_finished (bs : Bytes) (fin : EndState) (script : Script) (s : Lts.Par.State)
    (h : Lts.Par.Reachable bs fin script s) (ht : Lts.Par.Terminal s) :
    (∀ r ∈ s.reqs, r.stage = .gone ∨ r.stage = .stuck) ∧
    (s.parserEnd.isSome ∨ ∃ r ∈ s.reqs, r.stage = .stuck) := by
  exact Lts.Par.reachable_terminal_finished h ht

/-- a request is stuck only on a client that is silent but still connected. -/
theorem concurrent_stuck_only_when_open (bs : Bytes) (fin : EndState) (script : Script) (s : Lts.Par.State)
    (h : Lts.Par.Reachable bs fin script s) (hf : fin ≠ .open) :
    ∀ r ∈ s.reqs, r.stage ≠ .stuck := by
  exact Lts.Par.nostuck_reachable h hf

example : (run {} [.issue, .issue, .write 0 [1, 2], .sock 1, .drop 0, .write 1 [3], .flush 1]).map
    (fun s => (s.sock, s.buf)) = some ([1, 2, 3], []) := by decide
/-- the repaired defect: an untouched writer can no longer be dropped out of turn. -/
example : run {} [.issue, .issue, .issue, .drop 1] = none := by decide

end TH.Props.C01
