/-
  C09 — message boundaries hold whether or not the application consumes the body.
-/
import TinyHttpModel.WireSpec
import TinyHttpModel.Lemmas.BodyRead
import TinyHttpModel.Lemmas.PipelineBodies
import TinyHttpModel.Lemmas.PipelineChunked

namespace TH.Props.C09
open TH

/-- Content-Length body streamed from the socket (`limited`): whatever the application does
    (reads none / part / all / more than all, with any buffer size; responds, drops, takes the raw
    writer, upgrades), the next request is parsed from the first byte after the body. -/
theorem next_head_offset_limited (s : St) (h : Head) (fr : Framing) (last : Bool) (a : Action)
    (B after : Bytes) (fin : EndState) :
    let r := handle s h fr last a (.limited B.length) (B ++ after) fin
    r.2.1 = after ∧ r.2.2 = false := by
  exact handle_limited s h fr last a B after fin

/-- small body buffered at parse time: the stream is already positioned after it and handling
    the request does not move it. -/
theorem next_head_offset_buffered (s : St) (h : Head) (fr : Framing) (last : Bool) (a : Action)
    (B after : Bytes) (fin : EndState) :
    let r := handle s h fr last a (.cursor B) after fin
    r.2.1 = after ∧ r.2.2 = false := by
  exact handle_cursor s h fr last a B after fin

/-- no body. -/
theorem next_head_offset_empty (s : St) (h : Head) (fr : Framing) (last : Bool) (a : Action)
    (after : Bytes) (fin : EndState) :
    let r := handle s h fr last a .done after fin
    r.2.1 = after ∧ r.2.2 = false := by
  exact handle_done s h fr last a after fin

/-- Chunked body, any chunking: after the application read any prefix of the payload (or none,
    or everything with or without observing end-of-stream) and finished in any way, the next
    request is parsed from the first byte after the terminal chunk. -/
theorem next_head_offset_chunked (s : St) (h : Head) (fr : Framing) (last : Bool) (a : Action)
    (cs : List Spec.SentChunk) (zero after : Bytes) (fin : EndState)
    (hcs : ∀ c ∈ cs, Spec.wfChunk c = true)
    (hz : usizeFromHex zero = some 0 ∧ zero.all (fun b => b != 13 && b != 59 && b < 128) = true ∧ trim zero = zero) :
    let r := handle s h fr last a (.chunked none) (Spec.renderChunked cs zero ++ after) fin
    r.2.1 = after ∧ r.2.2 = false := by
  exact handle_chunked s h fr last a cs zero after fin hcs hz

/-- the discard on drop, for a chunk decoder in any state reachable by reading a prefix:
    reading `total` bytes and then dropping the reader leaves the stream exactly at `after`. -/
theorem chunked_read_then_drain (cs : List Spec.SentChunk) (zero after : Bytes) (buf total fuel dfuel : Nat)
    (fin : EndState)
    (hcs : ∀ c ∈ cs, Spec.wfChunk c = true)
    (hz : usizeFromHex zero = some 0 ∧ zero.all (fun b => b != 13 && b != 59 && b < 128) = true ∧ trim zero = zero)
    (hb : 1 ≤ buf) (hf : total < fuel) :
    let r := Body.readUpTo fuel (.chunked none) buf total (Spec.renderChunked cs zero ++ after) fin
    r.2.2.2.length + 2 ≤ dfuel → Body.drain dfuel r.2.2.1 r.2.2.2 fin = some after := by
  intro r hd
  obtain ⟨_, i2, i3⟩ := chunked_readUpTo zero after hz buf fin hb fuel none _ _ total
    (ChunkPos.line cs hcs) hf
  have hr : r = Body.readUpTo fuel (.chunked none) buf total (Spec.renderChunked cs zero ++ after) fin := rfl
  by_cases hle : total ≤ (Spec.chunkPayload cs).length
  · obtain ⟨ic', S', e, hp⟩ := i2 hle
    rw [e] at hr
    rw [hr] at hd ⊢
    exact chunked_drain zero after hz fin dfuel ic' S' _ hp (by simp only [] at hd; omega)
  · rw [i3 (by omega)] at hr
    rw [hr]
    exact drain_done dfuel after fin

/-- non-vacuity: unread chunked body followed by a request. -/
example :
    (handle {} default default false ⟨0, 0, 1, .drop, false⟩ (.chunked none)
      (Spec.renderChunked [⟨b!"5", [], b!"hello"⟩] b!"0" ++ b!"GET /next HTTP/1.1\r\n\r\n") .eof).2.1
      = b!"GET /next HTTP/1.1\r\n\r\n" := by decide

/-! ### end to end: a pipeline of requests with bodies -/

/-- a request head, the optional whitespace it is rendered with, and its body -/
structure Msg where
  head : Head
  ows : List (Bytes × Bytes)
  body : Bytes

def msgBytes (m : Msg) : Bytes := Spec.renderHead m.head m.ows ++ m.body

/-- a well-formed request on a connection that stays open whose body is delimited by a
    Content-Length equal to the number of body bytes on the wire (buffered at parse time if at most
    1024 bytes, streamed otherwise), no Expect -/
def plainBodied (m : Msg) : Prop :=
  Spec.wfHead m.head = true ∧ (∀ o ∈ m.ows, Spec.isOwsList o.1 = true ∧ Spec.isOwsList o.2 = true) ∧
  (framingOf m.head.headers = .ok ⟨.buffered m.body.length, some m.body.length, false⟩ ∨
   framingOf m.head.headers = .ok ⟨.limited m.body.length, some m.body.length, false⟩) ∧
  isLastRequest m.head.version m.head.headers = false ∧
  (⟨Extracted.maxVersion.1, Extracted.maxVersion.2⟩ : Version).lt m.head.version = false

/-- Message boundaries, end to end: a pipeline of any number of requests with Content-Length
    bodies of any sizes, answered by ANY application script — each handler reading all of its
    body, part of it or none of it, with any buffer size, then answering or dropping in any way —
    is delivered request by request with exactly the heads that were sent; what each handler
    obtained is a prefix of that request's own body (never a byte of a later message), and the
    server closes after the client's orderly close. -/
theorem pipeline_with_bodies (msgs : List Msg) (script : Script)
    (hgood : ∀ m ∈ msgs, plainBodied m) :
    let t := Conn.run ((msgs.map msgBytes).flatten) .eof script
    t.delivered.map (fun d => (d.method, d.url, d.version, d.headers, d.bodyLength)) =
        msgs.map (fun m => (m.head.method, m.head.url, m.head.version, m.head.headers, some m.body.length)) ∧
      (∀ (i : Nat) (d : Delivered) (m : Msg), t.delivered[i]? = some d → msgs[i]? = some m → d.bodyRead <+: m.body) ∧
      t.ending = .closed := by
  intro t
  have hbytes : msgs.map msgBytes = (msgs.map (fun m => (m.head, m.ows, m.body))).map bodiedBytes := by
    rw [List.map_map]; rfl
  have hlen := bodied_pipeline_length_ge (msgs.map (fun m => (m.head, m.ows, m.body)))
  rw [← hbytes] at hlen
  obtain ⟨s', ds, hrun, hdel, hmap, hpre⟩ :=
    runLoop_bodied_pipeline (msgs.map (fun m => (m.head, m.ows, m.body)))
      (((msgs.map msgBytes).flatten).length + 1) 0 {} [] .eof script (by omega)
      (by
        intro x hx
        obtain ⟨m, hm, rfl⟩ := List.mem_map.mp hx
        exact hgood m hm)
  obtain ⟨k, hk⟩ : ∃ k, ((msgs.map msgBytes).flatten).length + 1 -
      (msgs.map (fun m => (m.head, m.ows, m.body))).length = k + 1 :=
    ⟨((msgs.map msgBytes).flatten).length - (msgs.map (fun m => (m.head, m.ows, m.body))).length, by omega⟩
  have hdel' : s'.delivered = ds := by rw [hdel]; exact List.nil_append _
  have ht : t = s'.finish .closed := by
    have := hrun
    rw [List.append_nil, ← hbytes, hk] at this
    exact this
  rw [ht]
  refine ⟨?_, ?_, rfl⟩
  · rw [St.finish_delivered, hdel', hmap, List.map_map]
    rfl
  · intro i d m h1 h2
    rw [St.finish_delivered, hdel'] at h1
    exact hpre i d (m.head, m.ows, m.body) h1 (by rw [List.getElem?_map, h2]; rfl)

/-! ### end to end: a pipeline of requests whose bodies are Content-Length delimited or chunked -/

/-- a request body as the client sends it: `plain` — the bytes themselves, delimited by
    Content-Length; `chunked` — a list of chunks and the size field of the terminal chunk;
    `absent` — no body and no framing header at all (a bare `GET`) -/
inductive SentBody where
  | plain (body : Bytes)
  | chunked (cs : List Spec.SentChunk) (zero : Bytes)
  | absent

/-- the body's bytes on the wire -/
def SentBody.wire : SentBody → Bytes
  | .plain body => body
  | .chunked cs zero => Spec.renderChunked cs zero
  | .absent => []

/-- the body's content: what a handler reading it to the end must obtain -/
def SentBody.payload : SentBody → Bytes
  | .plain body => body
  | .chunked cs _ => Spec.chunkPayload cs
  | .absent => []

/-- the body length the delivered request reports: the Content-Length, none for a chunked body -/
def SentBody.declared : SentBody → Option Nat
  | .plain body => some body.length
  | .chunked _ _ => none
  | .absent => none

/-- a request head, the optional whitespace it is rendered with, and its body (either form) -/
structure CMsg where
  head : Head
  ows : List (Bytes × Bytes)
  body : SentBody

def cmsgBytes (m : CMsg) : Bytes := Spec.renderHead m.head m.ows ++ m.body.wire

/-- generalises `plainBodied`: a well-formed request on a connection that stays open, no Expect,
    whose body is either delimited by a Content-Length equal to the number of body bytes on the
    wire (buffered at parse time or streamed; `Content-Length: 0` with no bytes is allowed too), or
    sent with the chunked transfer coding as a list of well-formed chunks followed by a well-formed
    terminal chunk, or absent (no Content-Length, no Transfer-Encoding). -/
def wellBodied (m : CMsg) : Prop :=
  Spec.wfHead m.head = true ∧ (∀ o ∈ m.ows, Spec.isOwsList o.1 = true ∧ Spec.isOwsList o.2 = true) ∧
  (match m.body with
   | .plain body =>
     framingOf m.head.headers = .ok ⟨.buffered body.length, some body.length, false⟩ ∨
     framingOf m.head.headers = .ok ⟨.limited body.length, some body.length, false⟩ ∨
     (body = [] ∧ framingOf m.head.headers = .ok ⟨.empty, some 0, false⟩)
   | .chunked cs zero =>
     framingOf m.head.headers = .ok ⟨.chunked, none, false⟩ ∧
     (∀ c ∈ cs, Spec.wfChunk c = true) ∧
     (usizeFromHex zero = some 0 ∧ zero.all (fun b => b != 13 && b != 59 && b < 128) = true ∧
       trim zero = zero)
   | .absent => framingOf m.head.headers = .ok ⟨.empty, none, false⟩) ∧
  isLastRequest m.head.version m.head.headers = false ∧
  (⟨Extracted.maxVersion.1, Extracted.maxVersion.2⟩ : Version).lt m.head.version = false

/-- `wellBodied` on a `plain` body is implied by `plainBodied`. -/
theorem plainBodied_wellBodied (m : Msg) (h : plainBodied m) : wellBodied ⟨m.head, m.ows, .plain m.body⟩ := by
  obtain ⟨h1, h2, h3, h4, h5⟩ := h
  refine ⟨h1, h2, ?_, h4, h5⟩
  rcases h3 with h3 | h3
  · exact Or.inl h3
  · exact Or.inr (Or.inl h3)

/-- one iteration of the connection loop on a `wellBodied` message, whatever follows it. -/
theorem wellBodied_step (m : CMsg) (hm : wellBodied m)
    (fuel idx : Nat) (s : St) (rest : Bytes) (fin : EndState) (script : Script) :
    ∃ (s' : St) (d : Delivered),
      runLoop (fuel + 1) idx s (Spec.renderHead m.head m.ows ++ (m.body.wire ++ rest)) fin script =
        runLoop fuel (idx + 1) s' rest fin script ∧
      s'.delivered = s.delivered ++ [d] ∧
      (d.method, d.url, d.version, d.headers, d.bodyLength) =
        (m.head.method, m.head.url, m.head.version, m.head.headers, m.body.declared) ∧
      d.bodyRead <+: m.body.payload := by
  obtain ⟨head, ows, body⟩ := m
  obtain ⟨hwf, hows, hbody, hlast, hver⟩ := hm
  cases body with
  | plain B =>
    rcases hbody with hfr | hfr | ⟨hB, hfr⟩
    · exact runLoop_bodied_step fuel idx s head ows B rest fin script hwf hows (Or.inl hfr) hlast hver
    · exact runLoop_bodied_step fuel idx s head ows B rest fin script hwf hows (Or.inr hfr) hlast hver
    · subst hB
      obtain ⟨s', d, h1, h2, h3, h4⟩ :=
        runLoop_empty_step fuel idx s head ows (some 0) rest fin script hwf hows hfr hlast hver
      exact ⟨s', d, h1, h2, h3, by rw [h4]; exact List.nil_prefix⟩
  | chunked cs zero =>
    obtain ⟨hfr, hcs, hz⟩ := hbody
    exact runLoop_chunked_step fuel idx s head ows cs zero rest fin script hwf hows hfr hcs hz hlast hver
  | absent =>
    obtain ⟨s', d, h1, h2, h3, h4⟩ :=
      runLoop_empty_step fuel idx s head ows none rest fin script hwf hows hbody hlast hver
    exact ⟨s', d, h1, h2, h3, by rw [h4]; exact List.nil_prefix⟩

/-- Message boundaries, end to end, for bodies of either form: a pipeline of any number of
    requests, each with a Content-Length body of any size, a chunked body of any chunking, or no
    body, answered by ANY application script — each handler reading all of its body, part of it or
    none of it, with any buffer size (an empty-buffer read included), then answering, dropping,
    taking the raw writer or failing in any way — is delivered request by request with exactly the
    heads that were sent (`bodyLength` = the Content-Length, `none` for a chunked or absent body);
    what each handler obtained is a prefix of that request's own content — for a chunked body, of
    the concatenated chunk data: never a size line, an extension, a CRLF, or a byte of a later
    message — and the server closes after the client's orderly close. -/
theorem pipeline_with_any_bodies (msgs : List CMsg) (script : Script)
    (hgood : ∀ m ∈ msgs, wellBodied m) :
    let t := Conn.run ((msgs.map cmsgBytes).flatten) .eof script
    t.delivered.map (fun d => (d.method, d.url, d.version, d.headers, d.bodyLength)) =
        msgs.map (fun m => (m.head.method, m.head.url, m.head.version, m.head.headers, m.body.declared)) ∧
      (∀ (i : Nat) (d : Delivered) (m : CMsg), t.delivered[i]? = some d → msgs[i]? = some m →
        d.bodyRead <+: m.body.payload) ∧
      t.ending = .closed := by
  intro t
  have hlen := generic_pipeline_length_ge CMsg.head CMsg.ows (fun m => m.body.wire) msgs
  obtain ⟨s', ds, hrun, hdel, hmap, hpre⟩ :=
    runLoop_generic_pipeline CMsg.head CMsg.ows (fun m => m.body.wire) (fun m => m.body.payload)
      (fun m => m.body.declared) msgs (fun m hm => wellBodied_step m (hgood m hm))
      (((msgs.map cmsgBytes).flatten).length + 1) 0 {} [] .eof script
      (by exact Nat.le_succ_of_le hlen)
  obtain ⟨k, hk⟩ : ∃ k, ((msgs.map cmsgBytes).flatten).length + 1 - msgs.length = k + 1 :=
    ⟨((msgs.map cmsgBytes).flatten).length - msgs.length, by
      have : msgs.length ≤ ((msgs.map cmsgBytes).flatten).length := hlen
      omega⟩
  have hdel' : s'.delivered = ds := by rw [hdel]; exact List.nil_append _
  have ht : t = s'.finish .closed := by
    have := hrun
    rw [List.append_nil, hk] at this
    exact this
  rw [ht]
  refine ⟨?_, ?_, rfl⟩
  · rw [St.finish_delivered, hdel', hmap]
  · intro i d m h1 h2
    rw [St.finish_delivered, hdel'] at h1
    exact hpre i d m h1 h2

/-! non-vacuity: a concrete pipeline — a POST whose chunked body (two chunks, the second with an
    extension and an upper-case size with a leading zero) is left unread by a handler that drops
    the request, followed by a bare GET -/

def exChunked : CMsg :=
  ⟨⟨⟨b!"POST"⟩, b!"/up", ⟨1, 1⟩, [⟨b!"Transfer-Encoding", b!"chunked"⟩]⟩, [(b!" ", [])],
    .chunked [⟨b!"5", [], b!"hello"⟩, ⟨b!"0A", b!";x=y", b!"0123456789"⟩] b!"0"⟩

def exGet : CMsg := ⟨⟨⟨b!"GET"⟩, b!"/next", ⟨1, 1⟩, []⟩, [], .absent⟩

/-- the hypotheses of `pipeline_with_any_bodies` hold of it -/
theorem ex_wellBodied : ∀ m ∈ [exChunked, exGet], wellBodied m := by
  intro m hm
  simp only [List.mem_cons, List.not_mem_nil, or_false] at hm
  rcases hm with rfl | rfl
  · refine ⟨by decide, by decide, ?_, by decide, by decide⟩
    show framingOf exChunked.head.headers = .ok ⟨.chunked, none, false⟩ ∧
      (∀ c ∈ [(⟨b!"5", [], b!"hello"⟩ : Spec.SentChunk), ⟨b!"0A", b!";x=y", b!"0123456789"⟩],
        Spec.wfChunk c = true) ∧
      (usizeFromHex b!"0" = some 0 ∧ (b!"0").all (fun b => b != 13 && b != 59 && b < 128) = true ∧
        trim b!"0" = b!"0")
    decide
  · refine ⟨by decide, by decide, ?_, by decide, by decide⟩
    show framingOf exGet.head.headers = .ok ⟨.empty, none, false⟩
    decide

/-- so the theorem applies to it, with every script -/
example (script : Script) :
    let t := Conn.run (([exChunked, exGet].map cmsgBytes).flatten) .eof script
    t.delivered.map (fun d => (d.method, d.url, d.version, d.headers, d.bodyLength)) =
      [(⟨b!"POST"⟩, b!"/up", ⟨1, 1⟩, [⟨b!"Transfer-Encoding", b!"chunked"⟩], none),
       (⟨b!"GET"⟩, b!"/next", ⟨1, 1⟩, [], none)] ∧ t.ending = .closed :=
  ⟨(pipeline_with_any_bodies [exChunked, exGet] script ex_wellBodied).1,
   (pipeline_with_any_bodies [exChunked, exGet] script ex_wellBodied).2.2⟩

/-- the bytes on the wire -/
example : ([exChunked, exGet].map cmsgBytes).flatten =
    b!"POST /up HTTP/1.1\r\nTransfer-Encoding: chunked\r\n\r\n5\r\nhello\r\n0A;x=y\r\n0123456789\r\n0\r\n\r\nGET /next HTTP/1.1\r\n\r\n" := by
  decide

/-- the model run on it with a script that never looks at a body and drops every request -/
def exDropped : Trace :=
  Conn.run (([exChunked, exGet].map cmsgBytes).flatten) .eof (fun _ => ⟨0, 0, 1, .drop, false⟩)

/-- both heads delivered, nothing read, connection closed (as the theorem says) -/
example :
    exDropped.delivered.map (fun d => (d.method, d.url, d.version)) =
        [(⟨b!"POST"⟩, b!"/up", ⟨1, 1⟩), (⟨b!"GET"⟩, b!"/next", ⟨1, 1⟩)] ∧
      exDropped.delivered.map (fun d => (d.headers, d.bodyLength, d.bodyRead)) =
        [([⟨b!"Transfer-Encoding", b!"chunked"⟩], none, []), ([], none, [])] ∧
      exDropped.statuses = [500, 500] ∧ exDropped.ending = .closed := by
  decide

/-- with handlers that read 8 bytes with a 3-byte buffer and then drop the request -/
def exPartlyRead : Trace :=
  Conn.run (([exChunked, exGet].map cmsgBytes).flatten) .eof (fun _ => ⟨1, 8, 3, .drop, false⟩)

/-- the first handler obtains bytes of both chunks and nothing else -/
example :
    exPartlyRead.delivered.map (fun d => (d.url, d.bodyLength, d.bodyRead)) =
        [(b!"/up", none, b!"hello012"), (b!"/next", none, [])] ∧ exPartlyRead.ending = .closed := by
  decide

end TH.Props.C09
