/-
  C09 — message boundaries hold whether or not the application consumes the body.
-/
import TinyHttpModel.WireSpec
import TinyHttpModel.Lemmas.BodyRead
import TinyHttpModel.Lemmas.PipelineBodies

namespace TH.Props.C09
open TH

/-- Content-Length body streamed from the socket (`limited`): whatever the application does
    (reads none / part / all / more than all, with any buffer size; responds, drops, takes the raw
    writer, upgrades), the next request is parsed from the first byte after the body. -/
theorem next_head_offset_limited (s : St) (h : Head) (fr : Framing) (last : Bool) (a : Action)
    (B after : Bytes) (fin : EndState) :
    let r := handle s h fr last a (.limited B.length) (B ++ after) fin
    r.2.1 = after ∧ r.2.2 = false := by
  exact handle_limited s h fr last a B after fin

/-- small body buffered at parse time: the stream is already positioned after it and handling
    the request does not move it. -/
theorem next_head_offset_buffered (s : St) (h : Head) (fr : Framing) (last : Bool) (a : Action)
    (B after : Bytes) (fin : EndState) :
    let r := handle s h fr last a (.cursor B) after fin
    r.2.1 = after ∧ r.2.2 = false := by
  exact handle_cursor s h fr last a B after fin

/-- no body. -/
theorem next_head_offset_empty (s : St) (h : Head) (fr : Framing) (last : Bool) (a : Action)
    (after : Bytes) (fin : EndState) :
    let r := handle s h fr last a .done after fin
    r.2.1 = after ∧ r.2.2 = false := by
  exact handle_done s h fr last a after fin

/-- Chunked body, any chunking: after the application read any prefix of the payload (or none,
    or everything with or without observing end-of-stream) and finished in any way, the next
    request is parsed from the first byte after the terminal chunk. -/
theorem next_head_offset_chunked (s : St) (h : Head) (fr : Framing) (last : Bool) (a : Action)
    (cs : List Spec.SentChunk) (zero after : Bytes) (fin : EndState)
    (hcs : ∀ c ∈ cs, Spec.wfChunk c = true)
    (hz : usizeFromHex zero = some 0 ∧ zero.all (fun b => b != 13 && b != 59 && b < 128) = true ∧ trim zero = zero) :
    let r := handle s h fr last a (.chunked none) (Spec.renderChunked cs zero ++ after) fin
    r.2.1 = after ∧ r.2.2 = false := by
  exact handle_chunked s h fr last a cs zero after fin hcs hz

/-- the discard on drop, for a chunk decoder in any state reachable by reading a prefix:
    reading `total` bytes and then dropping the reader leaves the stream exactly at `after`. -/
theorem chunked_read_then_drain (cs : List Spec.SentChunk) (zero after : Bytes) (buf total fuel dfuel : Nat)
    (fin : EndState)
    (hcs : ∀ c ∈ cs, Spec.wfChunk c = true)
    (hz : usizeFromHex zero = some 0 ∧ zero.all (fun b => b != 13 && b != 59 && b < 128) = true ∧ trim zero = zero)
    (hb : 1 ≤ buf) (hf : total < fuel) :
    let r := Body.readUpTo fuel (.chunked none) buf total (Spec.renderChunked cs zero ++ after) fin
    r.2.2.2.length + 2 ≤ dfuel → Body.drain dfuel r.2.2.1 r.2.2.2 fin = some after := by
  intro r hd
  obtain ⟨_, i2, i3⟩ := chunked_readUpTo zero after hz buf fin hb fuel none _ _ total
    (ChunkPos.line cs hcs) hf
  have hr : r = Body.readUpTo fuel (.chunked none) buf total (Spec.renderChunked cs zero ++ after) fin := rfl
  by_cases hle : total ≤ (Spec.chunkPayload cs).length
  · obtain ⟨ic', S', e, hp⟩ := i2 hle
    rw [e] at hr
    rw [hr] at hd ⊢
    exact chunked_drain zero after hz fin dfuel ic' S' _ hp (by simp only [] at hd; omega)
  · rw [i3 (by omega)] at hr
    rw [hr]
    exact drain_done dfuel after fin

/-- non-vacuity: unread chunked body followed by a request. -/
example :
    (handle {} default default false ⟨0, 0, 1, .drop, false⟩ (.chunked none)
      (Spec.renderChunked [⟨b!"5", [], b!"hello"⟩] b!"0" ++ b!"GET /next HTTP/1.1\r\n\r\n") .eof).2.1
      = b!"GET /next HTTP/1.1\r\n\r\n" := by decide

/-! ### end to end: a pipeline of requests with bodies -/

/-- a request head, the optional whitespace it is rendered with, and its body -/
structure Msg where
  head : Head
  ows : List (Bytes × Bytes)
  body : Bytes

def msgBytes (m : Msg) : Bytes := Spec.renderHead m.head m.ows ++ m.body

/-- a well-formed request on a connection that stays open whose body is delimited by a
    Content-Length equal to the number of body bytes on the wire (buffered at parse time if at most
    1024 bytes, streamed otherwise), no Expect -/
def plainBodied (m : Msg) : Prop :=
  Spec.wfHead m.head = true ∧ (∀ o ∈ m.ows, Spec.isOwsList o.1 = true ∧ Spec.isOwsList o.2 = true) ∧
  (framingOf m.head.headers = .ok ⟨.buffered m.body.length, some m.body.length, false⟩ ∨
   framingOf m.head.headers = .ok ⟨.limited m.body.length, some m.body.length, false⟩) ∧
  isLastRequest m.head.version m.head.headers = false ∧
  (⟨Extracted.maxVersion.1, Extracted.maxVersion.2⟩ : Version).lt m.head.version = false

/-- Message boundaries, end to end: a pipeline of any number of requests with Content-Length
    bodies of any sizes, answered by ANY application script — each handler reading all of its
    body, part of it or none of it, with any buffer size, then answering or dropping in any way —
    is delivered request by request with exactly the heads that were sent; what each handler
    obtained is a prefix of that request's own body (never a byte of a later message), and the
    server closes after the client's orderly close. -/
theorem pipeline_with_bodies (msgs : List Msg) (script : Script)
    (hgood : ∀ m ∈ msgs, plainBodied m) :
    let t := Conn.run ((msgs.map msgBytes).flatten) .eof script
    t.delivered.map (fun d => (d.method, d.url, d.version, d.headers, d.bodyLength)) =
        msgs.map (fun m => (m.head.method, m.head.url, m.head.version, m.head.headers, some m.body.length)) ∧
      (∀ (i : Nat) (d : Delivered) (m : Msg), t.delivered[i]? = some d → msgs[i]? = some m → d.bodyRead <+: m.body) ∧
      t.ending = .closed := by
  intro t
  have hbytes : msgs.map msgBytes = (msgs.map (fun m => (m.head, m.ows, m.body))).map bodiedBytes := by
    rw [List.map_map]; rfl
  have hlen := bodied_pipeline_length_ge (msgs.map (fun m => (m.head, m.ows, m.body)))
  rw [← hbytes] at hlen
  obtain ⟨s', ds, hrun, hdel, hmap, hpre⟩ :=
    runLoop_bodied_pipeline (msgs.map (fun m => (m.head, m.ows, m.body)))
      (((msgs.map msgBytes).flatten).length + 1) 0 {} [] .eof script (by omega)
      (by
        intro x hx
        obtain ⟨m, hm, rfl⟩ := List.mem_map.mp hx
        exact hgood m hm)
  obtain ⟨k, hk⟩ : ∃ k, ((msgs.map msgBytes).flatten).length + 1 -
      (msgs.map (fun m => (m.head, m.ows, m.body))).length = k + 1 :=
    ⟨((msgs.map msgBytes).flatten).length - (msgs.map (fun m => (m.head, m.ows, m.body))).length, by omega⟩
  have hdel' : s'.delivered = ds := by rw [hdel]; exact List.nil_append _
  have ht : t = s'.finish .closed := by
    have := hrun
    rw [List.append_nil, ← hbytes, hk] at this
    exact this
  rw [ht]
  refine ⟨?_, ?_, rfl⟩
  · rw [St.finish_delivered, hdel', hmap, List.map_map]
    rfl
  · intro i d m h1 h2
    rw [St.finish_delivered, hdel'] at h1
    exact hpre i d (m.head, m.ows, m.body) h1 (by rw [List.getElem?_map, h2]; rfl)

end TH.Props.C09
