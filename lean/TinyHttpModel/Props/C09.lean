/-
  C09 — message boundaries hold whether or not the application consumes the body.
-/
import TinyHttpModel.WireSpec
import TinyHttpModel.Lemmas.BodyRead

namespace TH.Props.C09
open TH

/-- Content-Length body streamed from the socket (`limited`): whatever the application does
    (reads none / part / all / more than all, with any buffer size; responds, drops, takes the raw
    writer, upgrades), the next request is parsed from the first byte after the body. -/
theorem next_head_offset_limited (s : St) (h : Head) (fr : Framing) (last : Bool) (a : Action)
    (B after : Bytes) (fin : EndState) :
    let r := handle s h fr last a (.limited B.length) (B ++ after) fin
    r.2.1 = after ∧ r.2.2 = false := by
  exact handle_limited s h fr last a B after fin

/-- small body buffered at parse time: the stream is already positioned after it and handling
    the request does not move it. -/
theorem next_head_offset_buffered (s : St) (h : Head) (fr : Framing) (last : Bool) (a : Action)
    (B after : Bytes) (fin : EndState) :
    let r := handle s h fr last a (.cursor B) after fin
    r.2.1 = after ∧ r.2.2 = false := by
  exact handle_cursor s h fr last a B after fin

/-- no body. -/
theorem next_head_offset_empty (s : St) (h : Head) (fr : Framing) (last : Bool) (a : Action)
    (after : Bytes) (fin : EndState) :
    let r := handle s h fr last a .done after fin
    r.2.1 = after ∧ r.2.2 = false := by
  exact handle_done s h fr last a after fin

/-- Chunked body, any chunking: after the application read any prefix of the payload (or none,
    or everything with or without observing end-of-stream) and finished in any way, the next
    request is parsed from the first byte after the terminal chunk. -/
theorem next_head_offset_chunked (s : St) (h : Head) (fr : Framing) (last : Bool) (a : Action)
    (cs : List Spec.SentChunk) (zero after : Bytes) (fin : EndState)
    (hcs : ∀ c ∈ cs, Spec.wfChunk c = true)
    (hz : usizeFromHex zero = some 0 ∧ zero.all (fun b => b != 13 && b != 59 && b < 128) = true ∧ trim zero = zero) :
    let r := handle s h fr last a (.chunked none) (Spec.renderChunked cs zero ++ after) fin
    r.2.1 = after ∧ r.2.2 = false := by
  exact handle_chunked s h fr last a cs zero after fin hcs hz

/-- the discard on drop, for a chunk decoder in any state reachable by reading a prefix:
    reading `total` bytes and then dropping the reader leaves the stream exactly at `after`. -/
theorem chunked_read_then_drain (cs : List Spec.SentChunk) (zero after : Bytes) (buf total fuel dfuel : Nat)
    (fin : EndState)
    (hcs : ∀ c ∈ cs, Spec.wfChunk c = true)
    (hz : usizeFromHex zero = some 0 ∧ zero.all (fun b => b != 13 && b != 59 && b < 128) = true ∧ trim zero = zero)
    (hb : 1 ≤ buf) (hf : total < fuel) :
    let r := Body.readUpTo fuel (.chunked none) buf total (Spec.renderChunked cs zero ++ after) fin
    r.2.2.2.length + 2 ≤ dfuel → Body.drain dfuel r.2.2.1 r.2.2.2 fin = some after := by
  intro r hd
  obtain ⟨_, i2, i3⟩ := chunked_readUpTo zero after hz buf fin hb fuel none _ _ total
    (ChunkPos.line cs hcs) hf
  have hr : r = Body.readUpTo fuel (.chunked none) buf total (Spec.renderChunked cs zero ++ after) fin := rfl
  by_cases hle : total ≤ (Spec.chunkPayload cs).length
  · obtain ⟨ic', S', e, hp⟩ := i2 hle
    rw [e] at hr
    rw [hr] at hd ⊢
    exact chunked_drain zero after hz fin dfuel ic' S' _ hp (by simp only [] at hd; omega)
  · rw [i3 (by omega)] at hr
    rw [hr]
    exact drain_done dfuel after fin

/-- non-vacuity: unread chunked body followed by a request. -/
example :
    (handle {} default default false ⟨0, 0, 1, .drop, false⟩ (.chunked none)
      (Spec.renderChunked [⟨b!"5", [], b!"hello"⟩] b!"0" ++ b!"GET /next HTTP/1.1\r\n\r\n") .eof).2.1
      = b!"GET /next HTTP/1.1\r\n\r\n" := by decide

end TH.Props.C09
