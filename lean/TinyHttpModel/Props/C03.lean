/-
  C03 — the request body is delimited exactly by the message framing.
-/
import TinyHttpModel.WireSpec
import TinyHttpModel.Lemmas.BodyRead
import TinyHttpModel.Lemmas.PipelineReads
import TinyHttpModel.Props.C18

namespace TH.Props.C03
open TH

/-- Content-Length bodies streamed from the socket: whatever buffer size (≥ 1) the application
    reads with and however many bytes it asks for in total, it obtains exactly the first
    `total` bytes of the designated body `B`, never a byte of what follows (`after`), and
    end-of-stream exactly when it asks for more than `B`. -/
theorem limited_read_exact (B after : Bytes) (buf total fuel : Nat) (fin : EndState)
    (hb : 1 ≤ buf) (hf : total < fuel) :
    Body.readUpTo fuel (.limited B.length) buf total (B ++ after) fin =
      if total ≤ B.length then (B.take total, none, .limited (B.length - total), B.drop total ++ after)
      else (B, some .eof, .done, after) := by
  exact limited_readUpTo fuel B after buf total fin hb hf

/-- small bodies buffered at parse time: same contract, and the connection's byte stream is not
    touched by reading them. -/
theorem buffered_read_exact (B bs : Bytes) (buf total fuel : Nat) (fin : EndState)
    (hb : 1 ≤ buf) (hf : total < fuel) :
    Body.readUpTo fuel (.cursor B) buf total bs fin =
      if total ≤ B.length then (B.take total, none, .cursor (B.drop total), bs)
      else (B, some .eof, .cursor [], bs) := by
  exact cursor_readUpTo fuel B bs buf total fin hb hf

/-- the buffered body is exactly the next `n` bytes after the head. -/
theorem buffered_is_next_n (n : Nat) (B after : Bytes) (h : B.length = n) :
    initialBody (.buffered n) (B ++ after) = (.cursor B, after) := by
  subst h
  simp [initialBody]

/-- protocol upgrade: all remaining bytes of the connection, verbatim, then end-of-stream when
    the client has closed. -/
theorem upgrade_read_exact (bs : Bytes) (buf total fuel : Nat)
    (hb : 1 ≤ buf) (hf : total < fuel) :
    Body.readUpTo fuel .raw buf total bs .eof =
      if total ≤ bs.length then (bs.take total, none, .raw, bs.drop total)
      else (bs, some .eof, .raw, []) := by
  exact raw_readUpTo fuel bs buf total hb hf

/-- no framing header, or `Content-Length: 0`: the body is empty and nothing is consumed. -/
theorem empty_read (bs : Bytes) (buf total fuel : Nat) (fin : EndState) (ht : 0 < total) (hf : 0 < fuel) :
    Body.readUpTo fuel .done buf total bs fin = ([], some .eof, .done, bs) := by
  exact done_readUpTo bs buf total fuel fin ht hf

/-- Chunked bodies, for every chunking a client may choose (chunk sizes, hex case, leading
    zeros, extensions): the application obtains exactly the first `total` bytes of the
    concatenated chunk payloads; asking for more than the payload yields end-of-stream with the
    connection positioned exactly after the terminal chunk — no byte of `after` is ever returned
    or skipped. -/
theorem chunked_read_exact (cs : List Spec.SentChunk) (zero after : Bytes) (buf total fuel : Nat)
    (fin : EndState)
    (hcs : ∀ c ∈ cs, Spec.wfChunk c = true)
    (hz : usizeFromHex zero = some 0 ∧ zero.all (fun b => b != 13 && b != 59 && b < 128) = true ∧ trim zero = zero)
    (hb : 1 ≤ buf) (hf : total < fuel) :
    let r := Body.readUpTo fuel (.chunked none) buf total (Spec.renderChunked cs zero ++ after) fin
    r.1 = (Spec.chunkPayload cs).take total ∧
      (total ≤ (Spec.chunkPayload cs).length → r.2.1 = none) ∧
      ((Spec.chunkPayload cs).length < total → r.2.1 = some .eof ∧ r.2.2.1 = .done ∧ r.2.2.2 = after) := by
  intro r
  obtain ⟨i1, i2, i3⟩ := chunked_readUpTo zero after hz buf fin hb fuel none _ _ total
    (ChunkPos.line cs hcs) hf
  refine ⟨i1, ?_, ?_⟩
  · intro hle
    obtain ⟨ic', S', e, _⟩ := i2 hle
    show (Body.readUpTo fuel (.chunked none) buf total (Spec.renderChunked cs zero ++ after) fin).2.1 = none
    rw [e]
  · intro hlt
    show (Body.readUpTo fuel (.chunked none) buf total (Spec.renderChunked cs zero ++ after) fin).2.1 = some .eof ∧
      (Body.readUpTo fuel (.chunked none) buf total (Spec.renderChunked cs zero ++ after) fin).2.2.1 = .done ∧
      (Body.readUpTo fuel (.chunked none) buf total (Spec.renderChunked cs zero ++ after) fin).2.2.2 = after
    rw [i3 hlt]
    exact ⟨rfl, rfl, rfl⟩

/-- Transfer-Encoding takes precedence over Content-Length and the declared length is reported
    exactly when a Content-Length is used. -/
theorem te_precedence (hs : List Header) (fr : Framing)
    (hte : (findHeader hs b!"Transfer-Encoding").isSome = true)
    (hup : ∀ h, findHeader hs b!"Connection" = some h → containsSub (lower h.value) b!"upgrade" = false)
    (hf : framingOf hs = .ok fr) :
    fr.kind = .chunked ∧ fr.bodyLength = none := by
  exact framingOf_te hs fr hte hup hf

theorem declared_length (hs : List Header) (fr : Framing) (h : Header) (n : Nat)
    (hte : findHeader hs b!"Transfer-Encoding" = none)
    (hcl : findHeader hs b!"Content-Length" = some h)
    (hn : strictContentLength h.value = some n)
    (hf : framingOf hs = .ok fr) :
    fr.bodyLength = some n ∧
      (fr.kind = .upgrade ∨ (n = 0 ∧ fr.kind = .empty) ∨
       (0 < n ∧ n ≤ Extracted.smallBodyLimit ∧ fr.expectContinue = false ∧ fr.kind = .buffered n) ∨
       (0 < n ∧ fr.kind = .limited n)) := by
  exact framingOf_cl hs fr h n hte hcl hn hf

theorem no_framing_no_body (hs : List Header) (fr : Framing)
    (hte : findHeader hs b!"Transfer-Encoding" = none)
    (hcl : findHeader hs b!"Content-Length" = none)
    (hf : framingOf hs = .ok fr) :
    fr.bodyLength = none ∧ (fr.kind = .empty ∨ fr.kind = .upgrade) := by
  exact framingOf_none hs fr hte hcl hf

/-- non-vacuity: a two-chunk body with upper-case hex, leading zeros and an extension. -/
example : (Body.readUpTo 100 (.chunked none) 3 50
    (Spec.renderChunked [⟨b!"0A", b!";x=1", b!"0123456789"⟩, ⟨b!"1", [], b!"Z"⟩] b!"00" ++ b!"GET /next") .open)
    = (b!"0123456789Z", some .eof, .done, b!"GET /next") := by decide

/-! ### end to end: what every handler of a pipeline obtains from its body, exactly -/

open TH.Props.C09 (SentBody CMsg cmsgBytes wellBodied)
open TH.Props.C18 (expects expectBodied)

/-- Is the body read from the socket while the handler reads it (`true`), or was it buffered when
    the request was parsed / is there none (`false`)?  The rule of `framingOf`, literally: a chunked
    body is always streamed; a Content-Length body of `n` bytes is streamed iff `n ≠ 0` and
    (`n > 1024` or the request carries `Expect: 100-continue`); no body: nothing to stream.
    The distinction is observable through ONE thing only: a `read` with an empty buffer
    (`Action.zeroRead`), see `readPlanResult`. -/
def streamed (m : CMsg) : Bool :=
  match m.body with
  | .plain body => body.length != 0 && (decide (Extracted.smallBodyLimit < body.length) || expects m)
  | .chunked _ _ => true
  | .absent => false

/-- What a handler with action `a` obtains — the bytes, and how its reads ended — from a body
    whose content is `payload`, on a connection where the whole body is on the wire.  The rules of
    `handle`, literally:
    * it never calls `as_reader()` (`asReaderCalls = 0`), or it tries to obtain `readTotal = 0`
      bytes: nothing, no end observed (`readTotal > 0` with `asReaderCalls = 0` is "nothing" too:
      without a reader there is no read);
    * otherwise, if it first performs a `read` with an EMPTY buffer (`zeroRead`) and the body is
      `streamed`: nothing, and end-of-stream — the `0` that read returns is taken for the end of the
      body by the EOF fuse, the reader is dropped and the body discarded (a buffered body is not
      fused: the empty-buffer read changes nothing);
    * otherwise the first `min readTotal payload.length` bytes of the payload, and end-of-stream
      exactly when it asked for MORE than the payload holds (asking for exactly `payload.length`
      bytes returns them all without observing the end).
    `bufSize` does not occur: reading with any buffer size gives the same result, and the model
    treats `bufSize = 0` as `1` (`max a.bufSize 1`).  The end is never `.err` nor `.pending`. -/
def readPlanResult (a : Action) (streamed : Bool) (payload : Bytes) : Bytes × ReadEnd :=
  if a.asReaderCalls > 0 && a.readTotal > 0 then
    if a.zeroRead && streamed then ([], .eof)
    else (payload.take a.readTotal, if payload.length < a.readTotal then .eof else .none)
  else ([], .none)

/-- the buffer size is irrelevant (`bufSize = 0` included) -/
theorem readPlanResult_bufSize (a : Action) (buf : Nat) (st : Bool) (payload : Bytes) :
    readPlanResult { a with bufSize := buf } st payload = readPlanResult a st payload := rfl

/-- so is the way the handler finishes -/
theorem readPlanResult_fin (a : Action) (f : Finish) (st : Bool) (payload : Bytes) :
    readPlanResult { a with fin := f } st payload = readPlanResult a st payload := rfl

/-- a handler that asks for the body, does not start with an empty-buffer read on a streamed body,
    and tries to obtain more than the payload holds gets the whole payload and end-of-stream -/
theorem readPlanResult_full (a : Action) (st : Bool) (payload : Bytes)
    (hask : 0 < a.asReaderCalls) (hmore : payload.length < a.readTotal) (hz : (a.zeroRead && st) = false) :
    readPlanResult a st payload = (payload, .eof) := by
  unfold readPlanResult
  have h1 : (decide (a.asReaderCalls > 0) && decide (a.readTotal > 0)) = true := by
    simp only [Bool.and_eq_true, decide_eq_true_eq]; omega
  simp only [h1, hz, if_true, Bool.false_eq_true, if_false, hmore]
  rw [List.take_of_length_le (by omega)]

/-- a handler that asks for at most as many bytes as the payload holds gets exactly the first
    `readTotal` bytes and does not observe the end -/
theorem readPlanResult_part (a : Action) (st : Bool) (payload : Bytes)
    (hask : 0 < a.asReaderCalls) (hle : a.readTotal ≤ payload.length) (hz : (a.zeroRead && st) = false) :
    readPlanResult a st payload = (payload.take a.readTotal, .none) := by
  unfold readPlanResult
  by_cases h0 : a.readTotal = 0
  · simp [h0]
  · have h1 : (decide (a.asReaderCalls > 0) && decide (a.readTotal > 0)) = true := by
      simp only [Bool.and_eq_true, decide_eq_true_eq]; omega
    have h2 : ¬ payload.length < a.readTotal := by omega
    simp only [h1, hz, if_true, Bool.false_eq_true, if_false, h2]

theorem readPlanResult_streamed_zero (a : Action) (P : Bytes)
    (hc : (decide (a.asReaderCalls > 0) && a.zeroRead) = true) :
    readPlanResult a true P = readPlanResult a false [] := by
  simp only [Bool.and_eq_true, decide_eq_true_eq] at hc
  unfold readPlanResult
  simp only [hc.2, Bool.and_true, Bool.and_false, Bool.false_eq_true, if_true, if_false,
    List.take_nil, List.length_nil]
  split
  · rename_i h
    simp only [Bool.and_eq_true, decide_eq_true_eq] at h
    simp only [h.2, if_true]
  · rfl

theorem readPlanResult_streamed_nozero (a : Action) (P : Bytes)
    (hc : ¬ (decide (a.asReaderCalls > 0) && a.zeroRead) = true) :
    readPlanResult a true P = readPlanResult a false P := by
  unfold readPlanResult
  split
  · rename_i h
    simp only [Bool.and_eq_true, decide_eq_true_eq] at h hc
    have hz : a.zeroRead = false := by
      cases hzz : a.zeroRead with
      | false => rfl
      | true => exact absurd ⟨h.1, hzz⟩ hc
    simp only [hz, Bool.false_and]
  · rfl

/-- the read phase, from the exact result of `Body.readUpTo` on a reader whose remaining content
    is `P` -/
theorem readPhase_exact (a : Action) (body : Body) (bs : Bytes) (fin : EndState) (P : Bytes)
    (h1 : 0 < a.readTotal → a.readTotal ≤ P.length → ∃ b r,
      Body.readUpTo (a.readTotal + 1) body (max a.bufSize 1) a.readTotal bs fin = (P.take a.readTotal, none, b, r))
    (h2 : P.length < a.readTotal → ∃ b r,
      Body.readUpTo (a.readTotal + 1) body (max a.bufSize 1) a.readTotal bs fin = (P, some .eof, b, r)) :
    rsum (readPhase a body bs fin) = readPlanResult a false P := by
  unfold readPhase readPlanResult
  simp only [Bool.and_false, Bool.false_eq_true, if_false]
  split
  · rename_i hc
    simp only [Bool.and_eq_true, decide_eq_true_eq] at hc
    by_cases hle : a.readTotal ≤ P.length
    · obtain ⟨b, r, e⟩ := h1 hc.2 hle
      have : ¬ P.length < a.readTotal := by omega
      rw [e]
      simp only [this, if_false]
      rfl
    · obtain ⟨b, r, e⟩ := h2 (by omega)
      have : P.length < a.readTotal := by omega
      rw [e, List.take_of_length_le (by omega)]
      simp only [this, if_true]
      rfl
  · rfl

theorem readPhase_done_exact (a : Action) (bs : Bytes) (fin : EndState) :
    rsum (readPhase a .done bs fin) = readPlanResult a false [] := by
  apply readPhase_exact a .done bs fin []
  · intro h0 hle
    simp only [List.length_nil] at hle
    omega
  · intro hlt
    simp only [List.length_nil] at hlt
    exact ⟨_, _, done_readUpTo bs _ _ _ fin hlt (by omega)⟩

/-- no body -/
theorem handleRead_done_exact (a : Action) (bs : Bytes) (fin : EndState) :
    rsum (handleRead a .done bs fin) = readPlanResult a false [] := by
  unfold handleRead
  rw [handleZR_id a .done bs fin rfl]
  exact readPhase_done_exact a bs fin

/-- small body buffered at parse time (the empty-buffer read changes nothing) -/
theorem handleRead_cursor_exact (a : Action) (B bs : Bytes) (fin : EndState) :
    rsum (handleRead a (.cursor B) bs fin) = readPlanResult a false B := by
  unfold handleRead
  rw [handleZR_id a (.cursor B) bs fin rfl]
  apply readPhase_exact a (.cursor B) bs fin B
  · intro _ hle
    rw [cursor_readUpTo _ B bs _ _ fin (by omega) (by omega)]
    simp only [hle, if_true]
    exact ⟨_, _, rfl⟩
  · intro hlt
    have : ¬ a.readTotal ≤ B.length := by omega
    rw [cursor_readUpTo _ B bs _ _ fin (by omega) (by omega)]
    simp only [this, if_false]
    exact ⟨_, _, rfl⟩

theorem readPhase_limited_exact (a : Action) (B after : Bytes) (fin : EndState) :
    rsum (readPhase a (.limited B.length) (B ++ after) fin) = readPlanResult a false B := by
  apply readPhase_exact a (.limited B.length) (B ++ after) fin B
  · intro _ hle
    rw [limited_readUpTo _ B after _ _ fin (by omega) (by omega)]
    simp only [hle, if_true]
    exact ⟨_, _, rfl⟩
  · intro hlt
    have : ¬ a.readTotal ≤ B.length := by omega
    rw [limited_readUpTo _ B after _ _ fin (by omega) (by omega)]
    simp only [this, if_false]
    exact ⟨_, _, rfl⟩

theorem readPhase_chunked_exact (a : Action) (cs : List Spec.SentChunk) (zero after : Bytes) (fin : EndState)
    (hcs : ∀ c ∈ cs, Spec.wfChunk c = true) (hz : ZeroOk zero) :
    rsum (readPhase a (.chunked none) (Spec.renderChunked cs zero ++ after) fin) =
      readPlanResult a false (Spec.chunkPayload cs) := by
  obtain ⟨_, x2, x3⟩ := chunked_readUpTo zero after hz (max a.bufSize 1) fin (by omega)
    (a.readTotal + 1) none _ _ a.readTotal (ChunkPos.line cs hcs) (by omega)
  apply readPhase_exact a (.chunked none) _ fin (Spec.chunkPayload cs)
  · intro _ hle
    obtain ⟨ic', S', e, _⟩ := x2 hle
    exact ⟨_, _, e⟩
  · intro hlt
    exact ⟨_, _, x3 hlt⟩

/-- streamed Content-Length body, entirely on the wire -/
theorem handleRead_limited_exact (a : Action) (B after : Bytes) (fin : EndState) :
    rsum (handleRead a (.limited B.length) (B ++ after) fin) = readPlanResult a true B := by
  unfold handleRead handleZR
  by_cases hc : (decide (a.asReaderCalls > 0) && a.zeroRead) = true
  · simp only [hc, if_true, zeroReadEffect_limited]
    rw [readPlanResult_streamed_zero a B hc]
    exact readPhase_done_exact a after fin
  · simp only [hc]
    rw [readPlanResult_streamed_nozero a B hc]
    exact readPhase_limited_exact a B after fin

/-- chunked body, entirely on the wire -/
theorem handleRead_chunked_exact (a : Action) (cs : List Spec.SentChunk) (zero after : Bytes) (fin : EndState)
    (hcs : ∀ c ∈ cs, Spec.wfChunk c = true) (hz : ZeroOk zero) :
    rsum (handleRead a (.chunked none) (Spec.renderChunked cs zero ++ after) fin) =
      readPlanResult a true (Spec.chunkPayload cs) := by
  unfold handleRead handleZR
  by_cases hc : (decide (a.asReaderCalls > 0) && a.zeroRead) = true
  · simp only [hc, if_true, zeroReadEffect_chunked cs zero after fin hcs hz]
    rw [readPlanResult_streamed_zero a _ hc]
    exact readPhase_done_exact a after fin
  · simp only [hc]
    rw [readPlanResult_streamed_nozero a _ hc]
    exact readPhase_chunked_exact a cs zero after fin hcs hz

/-- which reader a Content-Length framing starts with, in terms of `streamed` -/
theorem streamed_of_buffered (head : Head) (ows : List (Bytes × Bytes)) (B : Bytes)
    (hfr : framingOf head.headers = .ok ⟨.buffered B.length, some B.length, false⟩) :
    streamed ⟨head, ows, .plain B⟩ = false := by
  have hk := ((framingOf_kind_rule _ _ hfr).1 B.length rfl).1
  have he : expects ⟨head, ows, .plain B⟩ = false := C18.expects_false_of_framing _ _ _ hfr
  have hd : decide (Extracted.smallBodyLimit < B.length) = false := by
    simp only [decide_eq_false_iff_not]; omega
  show (B.length != 0 && (decide (Extracted.smallBodyLimit < B.length) || expects ⟨head, ows, .plain B⟩)) = false
  rw [he, hd]
  simp

theorem streamed_of_limited (head : Head) (ows : List (Bytes × Bytes)) (B : Bytes)
    (hfr : framingOf head.headers = .ok ⟨.limited B.length, some B.length, expects ⟨head, ows, .plain B⟩⟩) :
    streamed ⟨head, ows, .plain B⟩ = true := by
  obtain ⟨h0, hk⟩ := (framingOf_kind_rule _ _ hfr).2 B.length rfl
  show (B.length != 0 && (decide (Extracted.smallBodyLimit < B.length) || expects ⟨head, ows, .plain B⟩)) = true
  simp only [Bool.and_eq_true, Bool.or_eq_true, decide_eq_true_eq, bne_iff_ne, ne_eq]
  exact ⟨h0, hk⟩

/-- One iteration of the connection loop on an `expectBodied` message, whatever follows it, with
    any script: the request is delivered with its declared length, and its handler — the script's
    entry `idx` — obtains exactly `readPlanResult`. -/
theorem expectBodied_reads_step (m : CMsg) (hm : expectBodied m)
    (fuel idx : Nat) (s : St) (rest : Bytes) (fin : EndState) (script : Script) :
    ∃ (s' : St) (d : Delivered),
      runLoop (fuel + 1) idx s (Spec.renderHead m.head m.ows ++ (m.body.wire ++ rest)) fin script =
        runLoop fuel (idx + 1) s' rest fin script ∧
      s'.delivered = s.delivered ++ [d] ∧
      d.bodyLength = m.body.declared ∧
      (d.bodyRead, d.readEnd) = readPlanResult (script idx) (streamed m) m.body.payload := by
  obtain ⟨head, ows, body⟩ := m
  obtain ⟨hwf, hows, hbody, hlast, hver⟩ := hm
  cases body with
  | plain B =>
    rcases hbody with hfr | hfr | ⟨hB, hfr⟩
    · obtain ⟨s', d, h1, h2, h3, _, h5⟩ :=
        runLoop_reads_step fuel idx s head ows B rest fin script _ (.cursor B) [] hwf hows hfr
          (by intro n hn; cases hn; exact Nat.le_refl _) (by simp [initialBody])
          (handle_cursor s head _ false (script idx) B rest fin) hlast hver
      refine ⟨s', d, h1, h2, (Prod.mk.inj (Prod.mk.inj (Prod.mk.inj (Prod.mk.inj h3).2).2).2).2, ?_⟩
      rw [h5, streamed_of_buffered head ows B hfr]
      exact handleRead_cursor_exact (script idx) B rest fin
    · obtain ⟨s', d, h1, h2, h3, _, h5⟩ :=
        runLoop_reads_step fuel idx s head ows B rest fin script _ (.limited B.length) B hwf hows hfr
          (by intro n hn; cases hn) rfl
          (handle_limited s head _ false (script idx) B rest fin) hlast hver
      refine ⟨s', d, h1, h2, (Prod.mk.inj (Prod.mk.inj (Prod.mk.inj (Prod.mk.inj h3).2).2).2).2, ?_⟩
      rw [h5, streamed_of_limited head ows B hfr]
      exact handleRead_limited_exact (script idx) B rest fin
    · subst hB
      obtain ⟨s', d, h1, h2, h3, _, h5⟩ :=
        runLoop_reads_step fuel idx s head ows [] rest fin script _ .done [] hwf hows hfr
          (by intro n hn; cases hn) rfl
          (handle_done s head _ false (script idx) rest fin) hlast hver
      refine ⟨s', d, h1, h2, (Prod.mk.inj (Prod.mk.inj (Prod.mk.inj (Prod.mk.inj h3).2).2).2).2, ?_⟩
      rw [h5]
      exact handleRead_done_exact (script idx) rest fin
  | chunked cs zero =>
    obtain ⟨hfr, hcs, hz⟩ := hbody
    obtain ⟨s', d, h1, h2, h3, _, h5⟩ :=
      runLoop_reads_step fuel idx s head ows (Spec.renderChunked cs zero) rest fin script _ (.chunked none)
        (Spec.renderChunked cs zero) hwf hows hfr
        (by intro n hn; cases hn) rfl
        (handle_chunked s head _ false (script idx) cs zero rest fin hcs hz) hlast hver
    refine ⟨s', d, h1, h2, (Prod.mk.inj (Prod.mk.inj (Prod.mk.inj (Prod.mk.inj h3).2).2).2).2, ?_⟩
    rw [h5]
    exact handleRead_chunked_exact (script idx) cs zero rest fin hcs hz
  | absent =>
    obtain ⟨s', d, h1, h2, h3, _, h5⟩ :=
      runLoop_reads_step fuel idx s head ows [] rest fin script _ .done [] hwf hows hbody
        (by intro n hn; cases hn) rfl
        (handle_done s head _ false (script idx) rest fin) hlast hver
    refine ⟨s', d, h1, h2, (Prod.mk.inj (Prod.mk.inj (Prod.mk.inj (Prod.mk.inj h3).2).2).2).2, ?_⟩
    rw [h5]
    exact handleRead_done_exact (script idx) rest fin

/-- **The body the application reads is exactly the body the client sent — end to end.**
    A pipeline of any number of requests — each with a Content-Length body of any size (buffered at
    parse time or streamed), a chunked body of any chunking, or no body; with or without
    `Expect: 100-continue` — answered by ANY application script (each handler asking for the body or
    not, trying to obtain any number of bytes through a buffer of any size, with or without an
    empty-buffer read first, then answering, dropping, taking the raw writer, upgrading or failing in
    any way).  One record is delivered per request, and for every `i` the `i`-th handler obtained
    EXACTLY `readPlanResult (script i)` of the `i`-th request's own content, and `body_length()`
    reported exactly the declared length (`none` for a chunked or absent body): the handler that
    reads to the end gets the payload — for a chunked body the concatenated chunk data, no size
    line, extension or CRLF — and then end-of-stream, never a byte of the next request; the one that
    reads 7 bytes through a 3-byte buffer gets exactly the first 7; and whatever one handler does
    with its body (nothing, part, all, the empty-buffer read that discards it) changes nothing of what
    the later handlers obtain.  The server closes after the client's orderly close. -/
theorem pipeline_reads_exact (msgs : List CMsg) (script : Script)
    (hgood : ∀ m ∈ msgs, expectBodied m) :
    let t := Conn.run ((msgs.map cmsgBytes).flatten) .eof script
    t.delivered.length = msgs.length ∧
      (∀ (i : Nat) (d : Delivered) (m : CMsg), t.delivered[i]? = some d → msgs[i]? = some m →
        (d.bodyRead, d.readEnd) = readPlanResult (script i) (streamed m) m.body.payload ∧
        d.bodyLength = m.body.declared) ∧
      t.ending = .closed := by
  intro t
  have hlen := generic_pipeline_length_ge CMsg.head CMsg.ows (fun m => m.body.wire) msgs
  obtain ⟨s', ds, hrun, hdel, hdl, hres⟩ :=
    runLoop_reads_pipeline CMsg.head CMsg.ows (fun m => m.body.wire) (fun m => m.body.declared)
      (fun a m => readPlanResult a (streamed m) m.body.payload) .eof msgs
      (fun m hm fuel idx s rest script => expectBodied_reads_step m (hgood m hm) fuel idx s rest .eof script)
      (((msgs.map cmsgBytes).flatten).length + 1) 0 {} [] script
      (by exact Nat.le_succ_of_le hlen)
  obtain ⟨k, hk⟩ : ∃ k, ((msgs.map cmsgBytes).flatten).length + 1 - msgs.length = k + 1 :=
    ⟨((msgs.map cmsgBytes).flatten).length - msgs.length, by
      have : msgs.length ≤ ((msgs.map cmsgBytes).flatten).length := hlen
      omega⟩
  have hdel' : s'.delivered = ds := by rw [hdel]; exact List.nil_append _
  have ht : t = s'.finish .closed := by
    have := hrun
    rw [List.append_nil, hk] at this
    exact this
  rw [ht]
  refine ⟨?_, ?_, rfl⟩
  · rw [St.finish_delivered, hdel', hdl]
  · intro i d m h1 h2
    rw [St.finish_delivered, hdel'] at h1
    have := hres i d m h1 h2
    rw [Nat.zero_add] at this
    exact ⟨this.2, this.1⟩

/-- the same for messages without the expectation (`C09.wellBodied`, the hypothesis of
    `C09.pipeline_with_any_bodies`, which this theorem strengthens from "a prefix" to "exactly") -/
theorem pipeline_reads_exact_wellBodied (msgs : List CMsg) (script : Script)
    (hgood : ∀ m ∈ msgs, wellBodied m) :
    let t := Conn.run ((msgs.map cmsgBytes).flatten) .eof script
    t.delivered.length = msgs.length ∧
      (∀ (i : Nat) (d : Delivered) (m : CMsg), t.delivered[i]? = some d → msgs[i]? = some m →
        (d.bodyRead, d.readEnd) = readPlanResult (script i) (streamed m) m.body.payload ∧
        d.bodyLength = m.body.declared) ∧
      t.ending = .closed :=
  pipeline_reads_exact msgs script (fun m hm => C18.wellBodied_expectBodied m (hgood m hm))

/-- Handlers that read to the end get whole bodies.  If every handler asks for its body
    (`asReaderCalls > 0`), tries to obtain MORE bytes than its request's payload holds (so that it
    observes the end), and does not start with an empty-buffer read on a streamed body — with a
    buffer of ANY size, `bufSize = 0` (which the model takes for 1) included — then the bodies the
    handlers obtained are, in order, exactly the payloads the client sent, and every handler saw
    end-of-stream. -/
theorem pipeline_full_reads_get_whole_bodies (msgs : List CMsg) (script : Script)
    (hgood : ∀ m ∈ msgs, expectBodied m)
    (hfull : ∀ (i : Nat) (m : CMsg), msgs[i]? = some m →
      0 < (script i).asReaderCalls ∧ m.body.payload.length < (script i).readTotal ∧
      ((script i).zeroRead && streamed m) = false) :
    let t := Conn.run ((msgs.map cmsgBytes).flatten) .eof script
    t.delivered.map (·.bodyRead) = msgs.map (·.body.payload) ∧
      (∀ d ∈ t.delivered, d.readEnd = .eof) ∧
      t.delivered.map (·.bodyLength) = msgs.map (·.body.declared) := by
  intro t
  obtain ⟨hlen, hres, _⟩ := pipeline_reads_exact msgs script hgood
  have key : ∀ (i : Nat) (d : Delivered) (m : CMsg), t.delivered[i]? = some d → msgs[i]? = some m →
      d.bodyRead = m.body.payload ∧ d.readEnd = .eof ∧ d.bodyLength = m.body.declared := by
    intro i d m h1 h2
    obtain ⟨e1, e2⟩ := hres i d m h1 h2
    obtain ⟨f1, f2, f3⟩ := hfull i m h2
    rw [readPlanResult_full _ _ _ f1 f2 f3] at e1
    exact ⟨(Prod.mk.inj e1).1, (Prod.mk.inj e1).2, e2⟩
  have hget : ∀ i, i < msgs.length → ∃ d m, t.delivered[i]? = some d ∧ msgs[i]? = some m := by
    intro i hi
    exact ⟨t.delivered[i]'(by rw [hlen]; exact hi), msgs[i], List.getElem?_eq_getElem _, List.getElem?_eq_getElem _⟩
  refine ⟨?_, ?_, ?_⟩
  · apply List.ext_getElem?
    intro i
    by_cases hi : i < msgs.length
    · obtain ⟨d, m, h1, h2⟩ := hget i hi
      rw [List.getElem?_map, List.getElem?_map, h1, h2, Option.map_some, Option.map_some, (key i d m h1 h2).1]
    · rw [List.getElem?_eq_none (by rw [List.length_map, hlen]; omega),
        List.getElem?_eq_none (by rw [List.length_map]; omega)]
  · intro d hd
    obtain ⟨i, hi, rfl⟩ := List.getElem_of_mem hd
    have hi' : i < msgs.length := by rw [← hlen]; exact hi
    exact (key i _ msgs[i] (List.getElem?_eq_getElem _) (List.getElem?_eq_getElem _)).2.1
  · apply List.ext_getElem?
    intro i
    by_cases hi : i < msgs.length
    · obtain ⟨d, m, h1, h2⟩ := hget i hi
      rw [List.getElem?_map, List.getElem?_map, h1, h2, Option.map_some, Option.map_some, (key i d m h1 h2).2.2]
    · rw [List.getElem?_eq_none (by rw [List.length_map, hlen]; omega),
        List.getElem?_eq_none (by rw [List.length_map]; omega)]

/-! non-vacuity: a concrete pipeline of three requests — a POST with a chunked body of two chunks
    (the second with an extension and an upper-case size with a leading zero; 15 bytes of content),
    a PUT with a 5-byte Content-Length body (buffered at parse time), a bare GET -/

def exChunked : CMsg :=
  ⟨⟨⟨b!"POST"⟩, b!"/up", ⟨1, 1⟩, [⟨b!"Transfer-Encoding", b!"chunked"⟩]⟩, [(b!" ", [])],
    .chunked [⟨b!"5", [], b!"hello"⟩, ⟨b!"0A", b!";x=y", b!"0123456789"⟩] b!"0"⟩

def exPlain : CMsg :=
  ⟨⟨⟨b!"PUT"⟩, b!"/p", ⟨1, 1⟩, [⟨b!"Content-Length", b!"5"⟩]⟩, [], .plain b!"world"⟩

def exGet : CMsg := ⟨⟨⟨b!"GET"⟩, b!"/next", ⟨1, 1⟩, []⟩, [], .absent⟩

/-- the hypotheses of `pipeline_reads_exact_wellBodied` hold of it -/
theorem ex_wellBodied : ∀ m ∈ [exChunked, exPlain, exGet], wellBodied m := by
  intro m hm
  simp only [List.mem_cons, List.not_mem_nil, or_false] at hm
  rcases hm with rfl | rfl | rfl
  · refine ⟨by decide, by decide, ?_, by decide, by decide⟩
    show framingOf exChunked.head.headers = .ok ⟨.chunked, none, false⟩ ∧
      (∀ c ∈ [(⟨b!"5", [], b!"hello"⟩ : Spec.SentChunk), ⟨b!"0A", b!";x=y", b!"0123456789"⟩],
        Spec.wfChunk c = true) ∧
      (usizeFromHex b!"0" = some 0 ∧ (b!"0").all (fun b => b != 13 && b != 59 && b < 128) = true ∧
        trim b!"0" = b!"0")
    decide
  · refine ⟨by decide, by decide, ?_, by decide, by decide⟩
    show framingOf exPlain.head.headers = .ok ⟨.buffered (b!"world").length, some (b!"world").length, false⟩ ∨
      framingOf exPlain.head.headers = .ok ⟨.limited (b!"world").length, some (b!"world").length, false⟩ ∨
      (b!"world" = [] ∧ framingOf exPlain.head.headers = .ok ⟨.empty, some 0, false⟩)
    decide
  · refine ⟨by decide, by decide, ?_, by decide, by decide⟩
    show framingOf exGet.head.headers = .ok ⟨.empty, none, false⟩
    decide

/-- the bytes on the wire -/
def exWire : Bytes :=
  b!"POST /up HTTP/1.1\r\nTransfer-Encoding: chunked\r\n\r\n5\r\nhello\r\n0A;x=y\r\n0123456789\r\n0\r\n\r\nPUT /p HTTP/1.1\r\nContent-Length:5\r\n\r\nworldGET /next HTTP/1.1\r\n\r\n"

theorem ex_wire : ([exChunked, exPlain, exGet].map cmsgBytes).flatten = exWire := by decide

/-- the chunked body is streamed, the 5-byte body and the absent one are not -/
example : [exChunked, exPlain, exGet].map streamed = [true, false, false] := by decide

/-- so the theorem applies to it, with EVERY script: three requests delivered, and the three
    handlers obtain `readPlanResult` of `hello0123456789`, of `world` and of nothing -/
example (script : Script) :
    let t := Conn.run exWire .eof script
    t.delivered.map (fun d => (d.bodyRead, d.readEnd)) =
      [readPlanResult (script 0) true b!"hello0123456789", readPlanResult (script 1) false b!"world",
        readPlanResult (script 2) false []] ∧
    t.delivered.map (·.bodyLength) = [none, some 5, none] := by
  intro t
  obtain ⟨hlen, hres, _⟩ := pipeline_reads_exact_wellBodied [exChunked, exPlain, exGet] script ex_wellBodied
  rw [ex_wire] at hlen hres
  match hd : t.delivered, hlen with
  | [d0, d1, d2], _ =>
    have hd' : (Conn.run exWire .eof script).delivered = [d0, d1, d2] := hd
    have h0 := hres 0 d0 exChunked (by rw [hd']; rfl) rfl
    have h1 := hres 1 d1 exPlain (by rw [hd']; rfl) rfl
    have h2 := hres 2 d2 exGet (by rw [hd']; rfl) rfl
    simp only [List.map_cons, List.map_nil, h0.1, h1.1, h2.1, h0.2, h1.2, h2.2]
    exact ⟨rfl, rfl⟩

/-- a script that reads 8 bytes through a 3-byte buffer from each body and then drops the request -/
def exRead8 : Trace := Conn.run exWire .eof (fun _ => ⟨1, 8, 3, .drop, false⟩)

/-- the model run with it: the first handler gets exactly the first 8 bytes of the chunks' content
    (5 of the first chunk, 3 of the second) and does not see the end; the second asked for more than
    the 5 bytes there are: all 5, then end-of-stream — not a byte of the GET that follows; the
    third: nothing, end-of-stream -/
example :
    exRead8.delivered.map (fun d => (d.bodyRead, d.readEnd)) =
        [(b!"hello012", .none), (b!"world", .eof), ([], .eof)] ∧
      exRead8.delivered.map (·.bodyLength) = [none, some 5, none] ∧ exRead8.ending = .closed := by
  set_option maxRecDepth 20000 in decide

/-- and what `readPlanResult` says of that script -/
example : [exChunked, exPlain, exGet].map
      (fun m => readPlanResult ⟨1, 8, 3, .drop, false⟩ (streamed m) m.body.payload) =
    [(b!"hello012", .none), (b!"world", .eof), ([], .eof)] := by decide

/-- handlers that read to the end (100 bytes asked, buffer sizes 4096, 1 and 0): whole payloads -/
example :
    (Conn.run exWire .eof (fun i => ⟨1, 100, [4096, 1, 0].getD i 7, .drop, false⟩)).delivered.map
        (fun d => (d.bodyRead, d.readEnd)) =
      [(b!"hello0123456789", .eof), (b!"world", .eof), ([], .eof)] := by
  set_option maxRecDepth 20000 in decide

/-- the corners of the model, by computation.  (1) Why `readPlanResult` needs `streamed`: the same
    action — an empty-buffer read first, then 8 bytes — on the chunked body yields NOTHING and
    end-of-stream (the `0` returned by the empty-buffer read trips the EOF fuse and the body is
    discarded), on the buffered 5-byte body yields the whole body: what a handler obtains is not a
    function of the action and the content alone.  The pipeline stays in step all the same. -/
example :
    (Conn.run exWire .eof (fun _ => ⟨1, 8, 3, .drop, true⟩)).delivered.map (fun d => (d.url, d.bodyRead, d.readEnd)) =
      [(b!"/up", [], .eof), (b!"/p", b!"world", .eof), (b!"/next", [], .eof)] := by
  set_option maxRecDepth 20000 in decide

/-- (2) `readTotal > 0` without any `as_reader()` call: nothing is read; (3) asking for exactly
    the 5 bytes of the body: all 5, and the end is not observed -/
example :
    (Conn.run exWire .eof (fun i => if i = 1 then ⟨2, 5, 2, .drop, false⟩ else ⟨0, 8, 3, .drop, false⟩)).delivered.map
        (fun d => (d.bodyRead, d.readEnd)) =
      [([], .none), (b!"world", .none), ([], .none)] := by
  set_option maxRecDepth 20000 in decide

end TH.Props.C03
