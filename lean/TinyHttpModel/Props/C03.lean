/-
  C03 — the request body is delimited exactly by the message framing.
-/
import TinyHttpModel.WireSpec
import TinyHttpModel.Lemmas.BodyRead

namespace TH.Props.C03
open TH

/-- Content-Length bodies streamed from the socket: whatever buffer size (≥ 1) the application
    reads with and however many bytes it asks for in total, it obtains exactly the first
    `total` bytes of the designated body `B`, never a byte of what follows (`after`), and
    end-of-stream exactly when it asks for more than `B`. -/
theorem limited_read_exact (B after : Bytes) (buf total fuel : Nat) (fin : EndState)
    (hb : 1 ≤ buf) (hf : total < fuel) :
    Body.readUpTo fuel (.limited B.length) buf total (B ++ after) fin =
      if total ≤ B.length then (B.take total, none, .limited (B.length - total), B.drop total ++ after)
      else (B, some .eof, .done, after) := by
  exact limited_readUpTo fuel B after buf total fin hb hf

/-- small bodies buffered at parse time: same contract, and the connection's byte stream is not
    touched by reading them. -/
theorem buffered_read_exact (B bs : Bytes) (buf total fuel : Nat) (fin : EndState)
    (hb : 1 ≤ buf) (hf : total < fuel) :
    Body.readUpTo fuel (.cursor B) buf total bs fin =
      if total ≤ B.length then (B.take total, none, .cursor (B.drop total), bs)
      else (B, some .eof, .cursor [], bs) := by
  exact cursor_readUpTo fuel B bs buf total fin hb hf

/-- the buffered body is exactly the next `n` bytes after the head. -/
theorem buffered_is_next_n (n : Nat) (B after : Bytes) (h : B.length = n) :
    initialBody (.buffered n) (B ++ after) = (.cursor B, after) := by
  subst h
  simp [initialBody]

/-- protocol upgrade: all remaining bytes of the connection, verbatim, then end-of-stream when
    the client has closed. -/
theorem upgrade_read_exact (bs : Bytes) (buf total fuel : Nat)
    (hb : 1 ≤ buf) (hf : total < fuel) :
    Body.readUpTo fuel .raw buf total bs .eof =
      if total ≤ bs.length then (bs.take total, none, .raw, bs.drop total)
      else (bs, some .eof, .raw, []) := by
  exact raw_readUpTo fuel bs buf total hb hf

/-- no framing header, or `Content-Length: 0`: the body is empty and nothing is consumed. -/
theorem empty_read (bs : Bytes) (buf total fuel : Nat) (fin : EndState) (ht : 0 < total) (hf : 0 < fuel) :
    Body.readUpTo fuel .done buf total bs fin = ([], some .eof, .done, bs) := by
  exact done_readUpTo bs buf total fuel fin ht hf

/-- Chunked bodies, for every chunking a client may choose (chunk sizes, hex case, leading
    zeros, extensions): the application obtains exactly the first `total` bytes of the
    concatenated chunk payloads; asking for more than the payload yields end-of-stream with the
    connection positioned exactly after the terminal chunk — no byte of `after` is ever returned
    or skipped. -/
theorem chunked_read_exact (cs : List Spec.SentChunk) (zero after : Bytes) (buf total fuel : Nat)
    (fin : EndState)
    (hcs : ∀ c ∈ cs, Spec.wfChunk c = true)
    (hz : usizeFromHex zero = some 0 ∧ zero.all (fun b => b != 13 && b != 59 && b < 128) = true ∧ trim zero = zero)
    (hb : 1 ≤ buf) (hf : total < fuel) :
    let r := Body.readUpTo fuel (.chunked none) buf total (Spec.renderChunked cs zero ++ after) fin
    r.1 = (Spec.chunkPayload cs).take total ∧
      (total ≤ (Spec.chunkPayload cs).length → r.2.1 = none) ∧
      ((Spec.chunkPayload cs).length < total → r.2.1 = some .eof ∧ r.2.2.1 = .done ∧ r.2.2.2 = after) := by
  intro r
  obtain ⟨i1, i2, i3⟩ := chunked_readUpTo zero after hz buf fin hb fuel none _ _ total
    (ChunkPos.line cs hcs) hf
  refine ⟨i1, ?_, ?_⟩
  · intro hle
    obtain ⟨ic', S', e, _⟩ := i2 hle
    show (Body.readUpTo fuel (.chunked none) buf total (Spec.renderChunked cs zero ++ after) fin).2.1 = none
    rw [e]
  · intro hlt
    show (Body.readUpTo fuel (.chunked none) buf total (Spec.renderChunked cs zero ++ after) fin).2.1 = some .eof ∧
      (Body.readUpTo fuel (.chunked none) buf total (Spec.renderChunked cs zero ++ after) fin).2.2.1 = .done ∧
      (Body.readUpTo fuel (.chunked none) buf total (Spec.renderChunked cs zero ++ after) fin).2.2.2 = after
    rw [i3 hlt]
    exact ⟨rfl, rfl, rfl⟩

/-- Transfer-Encoding takes precedence over Content-Length and the declared length is reported
    exactly when a Content-Length is used. -/
theorem te_precedence (hs : List Header) (fr : Framing)
    (hte : (findHeader hs b!"Transfer-Encoding").isSome = true)
    (hup : ∀ h, findHeader hs b!"Connection" = some h → containsSub (lower h.value) b!"upgrade" = false)
    (hf : framingOf hs = .ok fr) :
    fr.kind = .chunked ∧ fr.bodyLength = none := by
  exact framingOf_te hs fr hte hup hf

theorem declared_length (hs : List Header) (fr : Framing) (h : Header) (n : Nat)
    (hte : findHeader hs b!"Transfer-Encoding" = none)
    (hcl : findHeader hs b!"Content-Length" = some h)
    (hn : strictContentLength h.value = some n)
    (hf : framingOf hs = .ok fr) :
    fr.bodyLength = some n ∧
      (fr.kind = .upgrade ∨ (n = 0 ∧ fr.kind = .empty) ∨
       (0 < n ∧ n ≤ Extracted.smallBodyLimit ∧ fr.expectContinue = false ∧ fr.kind = .buffered n) ∨
       (0 < n ∧ fr.kind = .limited n)) := by
  exact framingOf_cl hs fr h n hte hcl hn hf

theorem no_framing_no_body (hs : List Header) (fr : Framing)
    (hte : findHeader hs b!"Transfer-Encoding" = none)
    (hcl : findHeader hs b!"Content-Length" = none)
    (hf : framingOf hs = .ok fr) :
    fr.bodyLength = none ∧ (fr.kind = .empty ∨ fr.kind = .upgrade) := by
  exact framingOf_none hs fr hte hcl hf

/-- non-vacuity: a two-chunk body with upper-case hex, leading zeros and an extension. -/
example : (Body.readUpTo 100 (.chunked none) 3 50
    (Spec.renderChunked [⟨b!"0A", b!";x=1", b!"0123456789"⟩, ⟨b!"1", [], b!"Z"⟩] b!"00" ++ b!"GET /next") .open)
    = (b!"0123456789Z", some .eof, .done, b!"GET /next") := by decide

end TH.Props.C03
