/-
  C18 — 100 Continue is sent exactly when the application first asks for the body.
-/
import TinyHttpModel.WireSpec
import TinyHttpModel.Lemmas.Loop

namespace TH.Props.C18
open TH

/-- For every request and every way of handling it: the messages the server generates for it
    are — one `100 Continue` iff the request carried `Expect: 100-continue` and the application
    asked for the body at least once (however many times), emitted *before* anything else for
    this request — followed by the final response of the way it finishes. -/
theorem continue_exactly_once (s : St) (h : Head) (fr : Framing) (last : Bool) (a : Action) (body : Body)
    (bs : Bytes) (fin : EndState)
    (hnb : (handle s h fr last a body bs fin).2.2 = false ∨
           ((handle s h fr last a body bs fin).1.delivered.getLast?.map (·.readEnd)) ≠ some .pending) :
    (handle s h fr last a body bs fin).1.statuses =
      s.statuses ++ (if fr.expectContinue ∧ 0 < a.asReaderCalls then [100] else []) ++ Spec.finishStatus a.fin := by
  sorry

/-- the interim response is flushed immediately: a client waiting for it can send the body. -/
theorem continue_is_flushed (s : St) (h : Head) (fr : Framing) (last : Bool) (a : Action) (body : Body)
    (bs : Bytes) (fin : EndState) (msg : Bytes) (hx : fr.expectContinue = true) (ha : 0 < a.asReaderCalls)
    (hm : printResp (Resp.empty 100) [] h.version h.headers true none = some msg) :
    ∃ rest, (handle s h fr last a body bs fin).1.out = s.out ++ msg ++ rest ∧
      (s.out ++ msg).length ≤ (handle s h fr last a body bs fin).1.flushed := by
  sorry

/-- the Expect header is recognised in any letter case, and the request is then marked. -/
theorem expect_recognised (hs : List Header) (e : Header) (fr : Framing)
    (he : findHeader hs b!"Expect" = some e) (hv : eqIgnoreCase e.value b!"100-continue" = true)
    (hf : framingOf hs = .ok fr) : fr.expectContinue = true := by
  sorry

/-- requests without the expectation never get an interim response. -/
theorem no_expect_no_continue (hs : List Header) (fr : Framing)
    (he : findHeader hs b!"Expect" = none) (hf : framingOf hs = .ok fr) : fr.expectContinue = false := by
  sorry

/-- the body of an expecting request is never consumed at parse time, so it is still to be read
    from the socket in full after the interim response. -/
theorem expect_body_not_preread (hs : List Header) (fr : Framing)
    (hf : framingOf hs = .ok fr) (hx : fr.expectContinue = true) : ∀ n, fr.kind ≠ .buffered n := by
  sorry

example : (Conn.run b!"POST / HTTP/1.1\r\nexpect: 100-Continue\r\nContent-Length: 3\r\n\r\nabc" .eof
    (fun _ => ⟨2, 3, 1, .drop⟩)).statuses = [100, 500] := by decide
example : (Conn.run b!"POST / HTTP/1.1\r\nexpect: 100-Continue\r\nContent-Length: 3\r\n\r\nabc" .eof
    (fun _ => ⟨0, 0, 1, .drop⟩)).statuses = [500] := by decide

end TH.Props.C18
