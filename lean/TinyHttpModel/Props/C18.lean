/-
  C18 — 100 Continue is sent exactly when the application first asks for the body.
-/
import TinyHttpModel.WireSpec
import TinyHttpModel.Lemmas.Loop

namespace TH.Props.C18
open TH

/-- For every request and every way of handling it: the messages the server generates for it
    are — one `100 Continue` iff the request carried `Expect: 100-continue` and the application
    asked for the body at least once (however many times), emitted *before* anything else for
    this request — followed by the final response of the way it finishes. -/
theorem continue_exactly_once (s : St) (h : Head) (fr : Framing) (last : Bool) (a : Action) (body : Body)
    (bs : Bytes) (fin : EndState)
    (hnb : (handle s h fr last a body bs fin).2.2 = false ∨
           ((handle s h fr last a body bs fin).1.delivered.getLast?.map (·.readEnd)) ≠ some .pending) :
    (handle s h fr last a body bs fin).1.statuses =
      s.statuses ++ (if fr.expectContinue ∧ 0 < a.asReaderCalls then [100] else []) ++ Spec.finishStatus a.fin := by
  rw [handle_eq] at hnb ⊢
  simp only at hnb ⊢
  by_cases hp : readEndOf (handleRead a body bs fin).2.1 = .pending
  · simp [hp] at hnb
  · simp only [hp, if_false]
    split <;> simp [handleS3_statuses, handleS1_statuses]

/-- the interim response is flushed immediately: a client waiting for it can send the body. -/
theorem continue_is_flushed (s : St) (h : Head) (fr : Framing) (last : Bool) (a : Action) (body : Body)
    (bs : Bytes) (fin : EndState) (msg : Bytes) (hx : fr.expectContinue = true) (ha : 0 < a.asReaderCalls)
    (hm : printResp (Resp.empty 100) [] h.version h.headers true none = some msg) :
    ∃ rest, (handle s h fr last a body bs fin).1.out = s.out ++ msg ++ rest ∧
      (s.out ++ msg).length ≤ (handle s h fr last a body bs fin).1.flushed := by
  have h1 : handleS1 s h fr a = s.emit 100 (some msg) true := by
    simp [handleS1, hx, ha, hm]
  rw [handle_eq]
  simp only [h1]
  split
  · exact ⟨[], by simp [St.emit], by simp [St.emit]⟩
  · have key : ∀ d, ∃ rest,
        (handleS3 { s.emit 100 (some msg) true with
            delivered := (s.emit 100 (some msg) true).delivered ++ [d] } h a.fin).out = s.out ++ msg ++ rest ∧
        (s.out ++ msg).length ≤
          (handleS3 { s.emit 100 (some msg) true with
            delivered := (s.emit 100 (some msg) true).delivered ++ [d] } h a.fin).flushed := by
      intro d
      obtain ⟨rest, ho, hfl⟩ := handleS3_out { s.emit 100 (some msg) true with
            delivered := (s.emit 100 (some msg) true).delivered ++ [d] } h a.fin (by simp [St.emit])
      exact ⟨rest, by simpa [St.emit] using ho, by simpa [St.emit] using hfl⟩
    split <;> exact key _

/-- the Expect header is recognised in any letter case, and the request is then marked. -/
theorem expect_recognised (hs : List Header) (e : Header) (fr : Framing)
    (he : findHeader hs b!"Expect" = some e) (hv : eqIgnoreCase e.value b!"100-continue" = true)
    (hf : framingOf hs = .ok fr) : fr.expectContinue = true := by
  unfold framingOf at hf
  simp only [he, hv] at hf
  split at hf
  · cases hf
  · simp at hf; rw [← hf]

/-- requests without the expectation never get an interim response. -/
theorem no_expect_no_continue (hs : List Header) (fr : Framing)
    (he : findHeader hs b!"Expect" = none) (hf : framingOf hs = .ok fr) : fr.expectContinue = false := by
  unfold framingOf at hf
  simp only [he] at hf
  split at hf
  · cases hf
  · simp at hf; rw [← hf]

/-- the body of an expecting request is never consumed at parse time, so it is still to be read
    from the socket in full after the interim response. -/
theorem expect_body_not_preread (hs : List Header) (fr : Framing)
    (hf : framingOf hs = .ok fr) (hx : fr.expectContinue = true) : ∀ n, fr.kind ≠ .buffered n := by
  intro n hk
  unfold framingOf at hf
  split at hf
  · cases hf
  · cases hE : findHeader hs b!"Expect" with
    | none =>
      simp only [hE, Except.ok.injEq] at hf
      subst hf
      simp at hx
    | some e =>
      cases hV : eqIgnoreCase e.value b!"100-continue" with
      | false => simp [hE, hV] at hf
      | true =>
        simp only [hE, hV, if_true, Except.ok.injEq] at hf
        subst hf
        revert hk
        simp only [Bool.not_true, Bool.and_false]
        repeat' split
        all_goals simp_all

example : (Conn.run b!"POST / HTTP/1.1\r\nexpect: 100-Continue\r\nContent-Length: 3\r\n\r\nabc" .eof
    (fun _ => ⟨2, 3, 1, .drop, false⟩)).statuses = [100, 500] := by decide
example : (Conn.run b!"POST / HTTP/1.1\r\nexpect: 100-Continue\r\nContent-Length: 3\r\n\r\nabc" .eof
    (fun _ => ⟨0, 0, 1, .drop, false⟩)).statuses = [500] := by decide

end TH.Props.C18
