/-
  C18 — 100 Continue is sent exactly when the application first asks for the body.
-/
import TinyHttpModel.WireSpec
import TinyHttpModel.Lemmas.Loop
import TinyHttpModel.Lemmas.PipelineStatuses
import TinyHttpModel.Props.C09

namespace TH.Props.C18
open TH

/-- For every request and every way of handling it: the messages the server generates for it
    are — one `100 Continue` iff the request carried `Expect: 100-continue` and the application
    asked for the body at least once (however many times), emitted *before* anything else for
    this request — followed by the final response of the way it finishes. -/
theorem continue_exactly_once (s : St) (h : Head) (fr : Framing) (last : Bool) (a : Action) (body : Body)
    (bs : Bytes) (fin : EndState)
    (hnb : (handle s h fr last a body bs fin).2.2 = false ∨
           ((handle s h fr last a body bs fin).1.delivered.getLast?.map (·.readEnd)) ≠ some .pending) :
    (handle s h fr last a body bs fin).1.statuses =
      s.statuses ++ (if fr.expectContinue ∧ 0 < a.asReaderCalls then [100] else []) ++ Spec.finishStatus a.fin := by
  rw [handle_eq] at hnb ⊢
  simp only at hnb ⊢
  by_cases hp : readEndOf (handleRead a body bs fin).2.1 = .pending
  · simp [hp] at hnb
  · simp only [hp, if_false]
    split <;> simp [handleS3_statuses, handleS1_statuses]

/-- the interim response is flushed immediately: a client waiting for it can send the body. -/
theorem continue_is_flushed (s : St) (h : Head) (fr : Framing) (last : Bool) (a : Action) (body : Body)
    (bs : Bytes) (fin : EndState) (msg : Bytes) (hx : fr.expectContinue = true) (ha : 0 < a.asReaderCalls)
    (hm : printResp (Resp.empty 100) [] h.version h.headers true none = some msg) :
    ∃ rest, (handle s h fr last a body bs fin).1.out = s.out ++ msg ++ rest ∧
      (s.out ++ msg).length ≤ (handle s h fr last a body bs fin).1.flushed := by
  have h1 : handleS1 s h fr a = s.emit 100 (some msg) true := by
    simp [handleS1, hx, ha, hm]
  rw [handle_eq]
  simp only [h1]
  split
  · exact ⟨[], by simp [St.emit], by simp [St.emit]⟩
  · have key : ∀ d, ∃ rest,
        (handleS3 { s.emit 100 (some msg) true with
            delivered := (s.emit 100 (some msg) true).delivered ++ [d] } h a.fin).out = s.out ++ msg ++ rest ∧
        (s.out ++ msg).length ≤
          (handleS3 { s.emit 100 (some msg) true with
            delivered := (s.emit 100 (some msg) true).delivered ++ [d] } h a.fin).flushed := by
      intro d
      obtain ⟨rest, ho, hfl⟩ := handleS3_out { s.emit 100 (some msg) true with
            delivered := (s.emit 100 (some msg) true).delivered ++ [d] } h a.fin (by simp [St.emit])
      exact ⟨rest, by simpa [St.emit] using ho, by simpa [St.emit] using hfl⟩
    split <;> exact key _

/-- the Expect header is recognised in any letter case, and the request is then marked. -/
theorem expect_recognised (hs : List Header) (e : Header) (fr : Framing)
    (he : findHeader hs b!"Expect" = some e) (hv : eqIgnoreCase e.value b!"100-continue" = true)
    (hf : framingOf hs = .ok fr) : fr.expectContinue = true := by
  unfold framingOf at hf
  simp only [he, hv] at hf
  split at hf
  · cases hf
  · simp at hf; rw [← hf]

/-- requests without the expectation never get an interim response. -/
theorem no_expect_no_continue (hs : List Header) (fr : Framing)
    (he : findHeader hs b!"Expect" = none) (hf : framingOf hs = .ok fr) : fr.expectContinue = false := by
  unfold framingOf at hf
  simp only [he] at hf
  split at hf
  · cases hf
  · simp at hf; rw [← hf]

/-- the body of an expecting request is never consumed at parse time, so it is still to be read
    from the socket in full after the interim response. -/
theorem expect_body_not_preread (hs : List Header) (fr : Framing)
    (hf : framingOf hs = .ok fr) (hx : fr.expectContinue = true) : ∀ n, fr.kind ≠ .buffered n := by
  intro n hk
  unfold framingOf at hf
  split at hf
  · cases hf
  · cases hE : findHeader hs b!"Expect" with
    | none =>
      simp only [hE, Except.ok.injEq] at hf
      subst hf
      simp at hx
    | some e =>
      cases hV : eqIgnoreCase e.value b!"100-continue" with
      | false => simp [hE, hV] at hf
      | true =>
        simp only [hE, hV, if_true, Except.ok.injEq] at hf
        subst hf
        revert hk
        simp only [Bool.not_true, Bool.and_false]
        repeat' split
        all_goals simp_all

/-! ### end to end: the interim responses of a whole pipeline -/

open TH.Props.C09 (SentBody CMsg cmsgBytes wellBodied)

/-- the framing's expectation is what the first `Expect` header says: `true` iff there is one and
    its value is `100-continue` in any letter case (`expect_recognised`, `no_expect_no_continue`
    and the remaining case — any other value is refused with 417 — in one statement) -/
theorem framing_expectation (hs : List Header) (fr : Framing) (hf : framingOf hs = .ok fr) :
    fr.expectContinue =
      (match findHeader hs b!"Expect" with
       | some e => eqIgnoreCase e.value b!"100-continue"
       | none => false) := by
  cases hE : findHeader hs b!"Expect" with
  | none => exact no_expect_no_continue hs fr hE hf
  | some e =>
    show fr.expectContinue = eqIgnoreCase e.value b!"100-continue"
    cases hV : eqIgnoreCase e.value b!"100-continue" with
    | true => exact expect_recognised hs e fr hE hV hf
    | false =>
      exfalso
      unfold framingOf at hf
      simp only [hE, hV] at hf
      split at hf
      · cases hf
      · simp at hf

/-- the request says `Expect: 100-continue` (first `Expect` header, value in any letter case) -/
def expects (m : CMsg) : Bool :=
  match findHeader m.head.headers b!"Expect" with
  | some e => eqIgnoreCase e.value b!"100-continue"
  | none => false

/-- generalises `C09.wellBodied`: the request may carry `Expect: 100-continue` — the framing's
    expectation component is `expects m`.  A Content-Length body of an expecting request is always
    streamed (`.limited`, whatever its length: `expect_body_not_preread`), so the `.buffered`
    alternative is there for requests without the expectation only; chunked and absent bodies as
    before. -/
def expectBodied (m : CMsg) : Prop :=
  Spec.wfHead m.head = true ∧ (∀ o ∈ m.ows, Spec.isOwsList o.1 = true ∧ Spec.isOwsList o.2 = true) ∧
  (match m.body with
   | .plain body =>
     framingOf m.head.headers = .ok ⟨.buffered body.length, some body.length, false⟩ ∨
     framingOf m.head.headers = .ok ⟨.limited body.length, some body.length, expects m⟩ ∨
     (body = [] ∧ framingOf m.head.headers = .ok ⟨.empty, some 0, expects m⟩)
   | .chunked cs zero =>
     framingOf m.head.headers = .ok ⟨.chunked, none, expects m⟩ ∧
     (∀ c ∈ cs, Spec.wfChunk c = true) ∧
     (usizeFromHex zero = some 0 ∧ zero.all (fun b => b != 13 && b != 59 && b < 128) = true ∧
       trim zero = zero)
   | .absent => framingOf m.head.headers = .ok ⟨.empty, none, expects m⟩) ∧
  isLastRequest m.head.version m.head.headers = false ∧
  (⟨Extracted.maxVersion.1, Extracted.maxVersion.2⟩ : Version).lt m.head.version = false

/-- a framing without the expectation: the request does not expect -/
theorem expects_false_of_framing (m : CMsg) (k : BodyKind) (len : Option Nat)
    (hf : framingOf m.head.headers = .ok ⟨k, len, false⟩) : expects m = false :=
  (framing_expectation m.head.headers _ hf).symm

/-- `expectBodied` generalises `wellBodied`. -/
theorem wellBodied_expectBodied (m : CMsg) (h : wellBodied m) : expectBodied m := by
  obtain ⟨head, ows, body⟩ := m
  obtain ⟨h1, h2, h3, h4, h5⟩ := h
  refine ⟨h1, h2, ?_, h4, h5⟩
  cases body with
  | plain B =>
    rcases h3 with h3 | h3 | ⟨hB, h3⟩
    · exact Or.inl h3
    · exact Or.inr (Or.inl (by rw [expects_false_of_framing _ _ _ h3]; exact h3))
    · exact Or.inr (Or.inr ⟨hB, by rw [expects_false_of_framing _ _ _ h3]; exact h3⟩)
  | chunked cs zero =>
    obtain ⟨h3, hcs, hz⟩ := h3
    exact ⟨by rw [expects_false_of_framing _ _ _ h3]; exact h3, hcs, hz⟩
  | absent =>
    show framingOf head.headers = .ok ⟨.empty, none, expects ⟨head, ows, .absent⟩⟩
    rw [expects_false_of_framing _ _ _ h3]; exact h3

/-- a message without the expectation that is `expectBodied` is `wellBodied` -/
theorem expectBodied_wellBodied (m : CMsg) (h : expectBodied m) (hno : expects m = false) : wellBodied m := by
  obtain ⟨head, ows, body⟩ := m
  obtain ⟨h1, h2, h3, h4, h5⟩ := h
  refine ⟨h1, h2, ?_, h4, h5⟩
  cases body <;> (rw [hno] at h3; exact h3)

/-- such a request is framed in the sense of `Lemmas/PipelineStatuses`, with expectation `expects m` -/
theorem framedMsgE_of_expectBodied (m : CMsg) (fin : EndState) (h : expectBodied m) :
    FramedMsgE m.head m.ows m.body.wire m.body.payload m.body.declared (expects m) fin := by
  obtain ⟨head, ows, body⟩ := m
  obtain ⟨hwf, hows, hbody, _, hver⟩ := h
  refine ⟨hwf, hows, hver, ?_⟩
  cases body with
  | plain B =>
    rcases hbody with hfr | hfr | ⟨hB, hfr⟩
    · exact ⟨_, hfr, rfl, (expects_false_of_framing _ _ _ hfr).symm, bodyFramed_buffered head B _ _ fin⟩
    · exact ⟨_, hfr, rfl, rfl, bodyFramed_limited head B _ _ fin⟩
    · subst hB
      exact ⟨_, hfr, rfl, rfl, bodyFramed_empty head _ _ fin⟩
  | chunked cs zero =>
    obtain ⟨hfr, hcs, hz⟩ := hbody
    exact ⟨_, hfr, rfl, rfl, bodyFramed_chunked head cs zero _ _ fin hcs hz⟩
  | absent =>
    exact ⟨_, hbody, rfl, rfl, bodyFramed_empty head _ _ fin⟩

/-- The status codes the server must write for the pipeline `msgs` answered by `script` (entry
    `idx` for the first message): message by message, `100` if the message expects it AND its
    handler asks for the body (the condition under which `handle` emits the interim response,
    `(script i).asReaderCalls > 0 && …expectContinue`), then the status of the handler's finish
    (`Spec.finishStatus`: none for a raw writer). -/
def expectedStatuses (script : Script) : Nat → List CMsg → List Nat
  | _, [] => []
  | idx, m :: ms =>
    (if (script idx).asReaderCalls > 0 && expects m then [100] else []) ++ Spec.finishStatus (script idx).fin
      ++ expectedStatuses script (idx + 1) ms

theorem expectedStatuses_eq_pipeStatuses (script : Script) (msgs : List CMsg) :
    ∀ idx, expectedStatuses script idx msgs = pipeStatuses expects script idx msgs := by
  induction msgs with
  | nil => intro idx; rfl
  | cons m ms ih =>
    intro idx
    rw [expectedStatuses, pipeStatuses, ih (idx + 1)]
    rfl

/-- the number of messages that expect `100 Continue` and whose handler asks for the body -/
def askedAndExpected (script : Script) (idx : Nat) (msgs : List CMsg) : Nat :=
  interimCount expects script idx msgs

/-- `100 Continue`, end to end.  A pipeline of any number of requests — with or without
    `Expect: 100-continue`, each with a Content-Length body of any size, a chunked body or no body
    — answered by ANY application script: the status codes of everything the server writes are
    EXACTLY `expectedStatuses`: for each request in order, one `100` iff the request expects it and
    its handler asks for the body (however often) — never for another request, never twice,
    always directly before that request's own final status — then the status of the handler's
    finish (the automatic 500 for a dropped request, nothing for a raw writer).  No hypothesis on
    the script is needed: a failing `respond` (`respondFail`) still writes its status, and no
    handler blocks because every body is entirely on the wire.  As in
    `C09.pipeline_with_any_bodies`, the delivered heads are the heads sent, every handler obtains a
    prefix of its own request's content, and the server closes after the client's orderly close. -/
theorem pipeline_statuses (msgs : List CMsg) (script : Script)
    (hgood : ∀ m ∈ msgs, expectBodied m) :
    let t := Conn.run ((msgs.map cmsgBytes).flatten) .eof script
    t.statuses = expectedStatuses script 0 msgs ∧
      t.delivered.map (fun d => (d.method, d.url, d.version, d.headers, d.bodyLength)) =
        msgs.map (fun m => (m.head.method, m.head.url, m.head.version, m.head.headers, m.body.declared)) ∧
      (∀ (i : Nat) (d : Delivered) (m : CMsg), t.delivered[i]? = some d → msgs[i]? = some m →
        d.bodyRead <+: m.body.payload) ∧
      t.ending = .closed := by
  intro t
  have hlen := generic_pipeline_length_ge CMsg.head CMsg.ows (fun m => m.body.wire) msgs
  obtain ⟨s', ds, hdel, hmap, _, hpre, hst, hrun⟩ :=
    framed_pipeline_statuses CMsg.head CMsg.ows (fun m => m.body.wire) (fun m => m.body.payload)
      (fun m => m.body.declared) expects .eof msgs
      (fun m hm => ⟨framedMsgE_of_expectBodied m .eof (hgood m hm), (hgood m hm).2.2.2.1⟩) 0 {} script
  obtain ⟨k, hk⟩ : ∃ k, ((msgs.map cmsgBytes).flatten).length + 1 - msgs.length = k + 1 :=
    ⟨((msgs.map cmsgBytes).flatten).length - msgs.length, by
      have : msgs.length ≤ ((msgs.map cmsgBytes).flatten).length := hlen
      omega⟩
  have hdel' : s'.delivered = ds := by rw [hdel]; exact List.nil_append _
  have hst' : s'.statuses = expectedStatuses script 0 msgs := by
    rw [hst, expectedStatuses_eq_pipeStatuses]; exact List.nil_append _
  have ht : t = s'.finish .closed := by
    have := hrun (((msgs.map cmsgBytes).flatten).length + 1) [] (by exact Nat.le_succ_of_le hlen)
    rw [List.append_nil, hk] at this
    exact this
  rw [ht]
  refine ⟨?_, ?_, ?_, rfl⟩
  · rw [St.finish_statuses, hst']
  · rw [St.finish_delivered, hdel', hmap]
  · intro i d m h1 h2
    rw [St.finish_delivered, hdel'] at h1
    exact hpre i d m h1 h2

/-- the hypothesis-free form of `no_expectation_no_interim`: if no message expects, the server
    writes the handlers' final statuses and nothing else. -/
theorem no_expectation_only_finals (msgs : List CMsg) (script : Script)
    (hgood : ∀ m ∈ msgs, expectBodied m) (hno : ∀ m ∈ msgs, expects m = false) :
    (Conn.run ((msgs.map cmsgBytes).flatten) .eof script).statuses = finalStatuses script 0 msgs.length := by
  rw [(pipeline_statuses msgs script hgood).1, expectedStatuses_eq_pipeStatuses]
  exact pipeStatuses_no_expectation expects script msgs hno 0

/-- Requests without the expectation never get an interim response, whatever the handlers do
    with their bodies.  (`hfin`: the handlers themselves do not choose `100` as the status of a
    final response — the model lets them; see the counterexample below.) -/
theorem no_expectation_no_interim (msgs : List CMsg) (script : Script)
    (hgood : ∀ m ∈ msgs, expectBodied m) (hno : ∀ m ∈ msgs, expects m = false)
    (hfin : ∀ i, 100 ∉ Spec.finishStatus (script i).fin) :
    100 ∉ (Conn.run ((msgs.map cmsgBytes).flatten) .eof script).statuses := by
  rw [no_expectation_only_finals msgs script hgood hno]
  exact finalStatuses_no_100 script hfin _ _

/-- the hypothesis-free form of `interim_count`: the `100`s on the wire are the interim
    responses asked for and expected, plus the `100`s handlers chose as final statuses. -/
theorem interim_count_general (msgs : List CMsg) (script : Script)
    (hgood : ∀ m ∈ msgs, expectBodied m) :
    ((Conn.run ((msgs.map cmsgBytes).flatten) .eof script).statuses.filter (· == 100)).length =
      askedAndExpected script 0 msgs + ((finalStatuses script 0 msgs.length).filter (· == 100)).length := by
  rw [(pipeline_statuses msgs script hgood).1, expectedStatuses_eq_pipeStatuses]
  exact pipeStatuses_count_100 expects script msgs 0

/-- The number of interim responses on the wire is the number of requests that expect one and
    whose handler asks for the body.  (`hfin` as in `no_expectation_no_interim`.) -/
theorem interim_count (msgs : List CMsg) (script : Script)
    (hgood : ∀ m ∈ msgs, expectBodied m)
    (hfin : ∀ i, 100 ∉ Spec.finishStatus (script i).fin) :
    ((Conn.run ((msgs.map cmsgBytes).flatten) .eof script).statuses.filter (· == 100)).length =
      askedAndExpected script 0 msgs := by
  rw [interim_count_general msgs script hgood,
    filter_eq_100_of_not_mem _ (finalStatuses_no_100 script hfin _ _)]
  rfl

/-- the statuses other than `100` are, without any hypothesis on the script, those of the
    handlers' final statuses that are not `100` (used by `C06.pipeline_one_final_response_each`) -/
theorem non_interim_statuses (msgs : List CMsg) (script : Script)
    (hgood : ∀ m ∈ msgs, expectBodied m) :
    (Conn.run ((msgs.map cmsgBytes).flatten) .eof script).statuses.filter (· != 100) =
      (finalStatuses script 0 msgs.length).filter (· != 100) := by
  rw [(pipeline_statuses msgs script hgood).1, expectedStatuses_eq_pipeStatuses]
  exact pipeStatuses_filter_ne_100 expects script msgs 0

/-! non-vacuity: a concrete pipeline of three requests — a POST that expects `100 Continue` and
    has a Content-Length body, a bare GET, a PUT that expects it (other letter case) and has a
    chunked body -/

def exPost : CMsg :=
  ⟨⟨⟨b!"POST"⟩, b!"/a", ⟨1, 1⟩, [⟨b!"Expect", b!"100-continue"⟩, ⟨b!"Content-Length", b!"5"⟩]⟩, [],
    .plain b!"hello"⟩

def exGet : CMsg := ⟨⟨⟨b!"GET"⟩, b!"/b", ⟨1, 1⟩, []⟩, [], .absent⟩

def exPut : CMsg :=
  ⟨⟨⟨b!"PUT"⟩, b!"/c", ⟨1, 1⟩, [⟨b!"Expect", b!"100-Continue"⟩, ⟨b!"Transfer-Encoding", b!"chunked"⟩]⟩,
    [(b!" ", []), (b!" ", [])], .chunked [⟨b!"3", [], b!"abc"⟩] b!"0"⟩

/-- the first and the third expect, the second does not -/
example : expects exPost = true ∧ expects exGet = false ∧ expects exPut = true := by decide

/-- the hypotheses of `pipeline_statuses` hold of it (the POST's 5-byte body is streamed, not
    buffered, because of the expectation) -/
theorem ex_expectBodied : ∀ m ∈ [exPost, exGet, exPut], expectBodied m := by
  intro m hm
  simp only [List.mem_cons, List.not_mem_nil, or_false] at hm
  rcases hm with rfl | rfl | rfl
  · refine ⟨by decide, by decide, ?_, by decide, by decide⟩
    show framingOf exPost.head.headers = .ok ⟨.buffered (b!"hello").length, some (b!"hello").length, false⟩ ∨
      framingOf exPost.head.headers = .ok ⟨.limited (b!"hello").length, some (b!"hello").length, expects exPost⟩ ∨
      (b!"hello" = [] ∧ framingOf exPost.head.headers = .ok ⟨.empty, some 0, expects exPost⟩)
    decide
  · refine ⟨by decide, by decide, ?_, by decide, by decide⟩
    show framingOf exGet.head.headers = .ok ⟨.empty, none, expects exGet⟩
    decide
  · refine ⟨by decide, by decide, ?_, by decide, by decide⟩
    show framingOf exPut.head.headers = .ok ⟨.chunked, none, expects exPut⟩ ∧
      (∀ c ∈ [(⟨b!"3", [], b!"abc"⟩ : Spec.SentChunk)], Spec.wfChunk c = true) ∧
      (usizeFromHex b!"0" = some 0 ∧ (b!"0").all (fun b => b != 13 && b != 59 && b < 128) = true ∧
        trim b!"0" = b!"0")
    decide

/-- the bytes on the wire -/
def exWire : Bytes :=
  b!"POST /a HTTP/1.1\r\nExpect:100-continue\r\nContent-Length:5\r\n\r\nhelloGET /b HTTP/1.1\r\n\r\nPUT /c HTTP/1.1\r\nExpect: 100-Continue\r\nTransfer-Encoding: chunked\r\n\r\n3\r\nabc\r\n0\r\n\r\n"

theorem ex_wire : ([exPost, exGet, exPut].map cmsgBytes).flatten = exWire := by decide

/-- so the theorem applies to it, with every script: an interim response for the first request iff
    its handler asks for the body, never one for the second — even if its handler asks —, one for
    the third iff its handler asks; each directly before that request's final status -/
example (script : Script) :
    (Conn.run exWire .eof script).statuses =
      (if (script 0).asReaderCalls > 0 then [100] else []) ++ Spec.finishStatus (script 0).fin ++
      (Spec.finishStatus (script 1).fin ++
      ((if (script 2).asReaderCalls > 0 then [100] else []) ++ Spec.finishStatus (script 2).fin)) := by
  rw [← ex_wire, (pipeline_statuses [exPost, exGet, exPut] script ex_expectBodied).1]
  simp only [expectedStatuses, show expects exPost = true from by decide,
    show expects exGet = false from by decide, show expects exPut = true from by decide,
    Bool.and_true, Bool.and_false, Bool.false_eq_true, if_false, List.nil_append, List.append_nil,
    decide_eq_true_eq, List.append_assoc]

def ok200 : Finish := .respond ⟨200, [], none, none, []⟩

/-- a script whose first handler reads its body (5 bytes, 2 at a time) and whose other handlers
    never ask for theirs -/
def exReadsFirst : Script := fun i => if i = 0 then ⟨1, 5, 2, ok200, false⟩ else ⟨0, 0, 1, ok200, false⟩

/-- the model run with it: one interim response, for the first request; the third request's
    chunked body is skipped unread and without an interim response -/
example :
    (Conn.run exWire .eof exReadsFirst).statuses = [100, 200, 200, 200] ∧
      (Conn.run exWire .eof exReadsFirst).delivered.map (fun d => (d.url, d.bodyRead)) =
        [(b!"/a", b!"hello"), (b!"/b", []), (b!"/c", [])] ∧
      (Conn.run exWire .eof exReadsFirst).ending = .closed := by
  set_option maxRecDepth 20000 in decide

/-- with handlers that never ask for a body: no interim response at all -/
example : (Conn.run exWire .eof (fun _ => ⟨0, 0, 1, ok200, false⟩)).statuses = [200, 200, 200] := by
  set_option maxRecDepth 20000 in decide

/-- with handlers that all ask (twice) and read: interim responses for the first and the third
    request, none for the GET that did not expect one; a dropped request gets its 500 after it -/
example : (Conn.run exWire .eof (fun _ => ⟨2, 9, 4, .drop, false⟩)).statuses = [100, 500, 500, 100, 500] := by
  set_option maxRecDepth 20000 in decide

/-- and what the theorem says of these scripts -/
example : expectedStatuses exReadsFirst 0 [exPost, exGet, exPut] = [100, 200, 200, 200] ∧
    askedAndExpected exReadsFirst 0 [exPost, exGet, exPut] = 1 ∧
    askedAndExpected (fun _ => ⟨2, 9, 4, .drop, false⟩) 0 [exPost, exGet, exPut] = 2 := by decide

/-- why `no_expectation_no_interim` and `interim_count` need `hfin`: the model (like the library)
    lets a handler answer with any status code, `100` included — a bare GET, no expectation, a
    handler that never asks for the body, and yet a `100` among the statuses: the handler's own
    final response.  (`no_expectation_only_finals` / `interim_count_general` say exactly this.) -/
example : expects exGet = false ∧
    (Conn.run (cmsgBytes exGet) .eof (fun _ => ⟨0, 0, 1, .respond ⟨100, [], none, none, []⟩, false⟩)).statuses
      = [100] := by decide

example : (Conn.run b!"POST / HTTP/1.1\r\nexpect: 100-Continue\r\nContent-Length: 3\r\n\r\nabc" .eof
    (fun _ => ⟨2, 3, 1, .drop, false⟩)).statuses = [100, 500] := by decide
example : (Conn.run b!"POST / HTTP/1.1\r\nexpect: 100-Continue\r\nContent-Length: 3\r\n\r\nabc" .eof
    (fun _ => ⟨0, 0, 1, .drop, false⟩)).statuses = [500] := by decide

end TH.Props.C18
