/-
  C15 — a client vanishing at any point is contained.
  Partial by nature: which error kinds the OS reports for a vanished peer, RST discarding queued
  data, and "the server keeps accepting" are runtime facts, observed by the check.
-/
import TinyHttpModel.WireSpec
import TinyHttpModel.Lemmas.Cut
import TinyHttpModel.Lemmas.Prefix

namespace TH.Props.C15
open TH

/-- error kinds for which `respond` reports success (request.rs:462-470). -/
inductive IoKind where
  | brokenPipe | connectionAborted | connectionRefused | connectionReset | other
deriving DecidableEq, Repr

/-- `ignore_client_closing_errors`: the result `respond` returns for a write that failed with `k`. -/
def respondReportsOk : Option IoKind → Bool
  | none => true
  | some .brokenPipe => true
  | some .connectionAborted => true
  | some .connectionRefused => true
  | some .connectionReset => true
  | some .other => false

/-- answering a vanished client returns success rather than an error. -/
theorem respond_swallows_client_errors (k : IoKind) (h : k ≠ .other) : respondReportsOk (some k) = true := by
  cases k <;> first | rfl | exact absurd rfl h

/-- A head that is not complete when the client closes is never delivered: the head reader
    reports "ran out of bytes", the loop ends with nothing more delivered, nothing sent for it,
    and the connection is closed rather than left waiting. -/
theorem incomplete_head_not_delivered (fuel idx : Nat) (s : St) (bs : Bytes) (script : Script) (st : Stop)
    (h : readHead bs .eof = .error (.stop st)) :
    let t := runLoop (fuel + 1) idx s bs .eof script
    t.delivered = s.delivered ∧ t.out = s.out ∧ t.ending = .closed := by
  have hst : st ≠ .pending := by
    intro hp; subst hp
    exact readHead_not_pending bs .eof (by decide) h
  simp only [runLoop, h]
  cases st with
  | pending => exact absurd rfl hst
  | eof => exact ⟨rfl, rfl, rfl⟩
  | reset => exact ⟨rfl, rfl, rfl⟩

/-- bytes without a CR LF CR LF cannot be a complete head: on an orderly close the reader runs out. -/
theorem no_terminator_no_head (bs : Bytes) (h : ∀ pre post, bs ≠ pre ++ [13, 10, 13, 10] ++ post) :
    ∀ hd rest, readHead bs .eof ≠ .ok (hd, rest) := by
  intro hd rest hok
  obtain ⟨pre, hpre⟩ := readHead_ok_split bs .eof hd rest hok
  exact h pre rest hpre

/-- a request whose buffered small body is incomplete is never delivered — stated with the framing
    the connection thread uses for the request's version (`framingFor`: for a refused version the
    `upgrade` option is not looked at, so this includes a refused upgrade offer with a small
    Content-Length body). -/
theorem incomplete_small_body_not_delivered_for (fuel idx : Nat) (s : St) (bs : Bytes) (fin : EndState)
    (script : Script) (h : Head) (rest : Bytes) (fr : Framing) (n : Nat)
    (hh : readHead bs fin = .ok (h, rest)) (hf : framingFor h.version h.headers = .ok fr)
    (hk : fr.kind = .buffered n) (hs : rest.length < n) :
    (runLoop (fuel + 1) idx s bs fin script).delivered = s.delivered ∧
    (runLoop (fuel + 1) idx s bs fin script).out = s.out := by
  have hd : decide (rest.length < n) = true := by simpa using hs
  simp only [runLoop, hh, hf, hk, hd]
  cases fin <;> exact ⟨rfl, rfl⟩

/-- a request whose buffered small body is incomplete is never delivered. -/
theorem incomplete_small_body_not_delivered (fuel idx : Nat) (s : St) (bs : Bytes) (fin : EndState) (script : Script)
    (h : Head) (rest : Bytes) (fr : Framing) (n : Nat)
    (hh : readHead bs fin = .ok (h, rest)) (hf : framingOf h.headers = .ok fr)
    (hk : fr.kind = .buffered n) (hs : rest.length < n) :
    (runLoop (fuel + 1) idx s bs fin script).delivered = s.delivered ∧
    (runLoop (fuel + 1) idx s bs fin script).out = s.out := by
  have hne : fr.kind ≠ .upgrade := by rw [hk]; intro h; cases h
  exact incomplete_small_body_not_delivered_for fuel idx s bs fin script h rest fr n hh
    (framingFor_of_framingOf_not_upgrade _ _ _ hf hne) hk hs

/-- what was parsed from a prefix of the stream is what is parsed from the whole stream: a head
    complete in the prefix is the same head, and the position after it is the same position. -/
theorem head_in_prefix_is_head (p x : Bytes) (h : Head) (r : Bytes) (fin fin' : EndState)
    (hp : readHead p fin = .ok (h, r)) : readHead (p ++ x) fin' = .ok (h, r ++ x) := by
  exact readHead_ok_ext p x h r fin fin' hp

/-- body reads end instead of blocking forever: once the client is gone (orderly close or reset)
    no read on any body reader state blocks. -/
theorem body_read_never_blocks_when_closed (b : Body) (want : Nat) (bs : Bytes) (fin : EndState)
    (hf : fin ≠ .open) : (b.read want bs fin).1 ≠ .pending := by
  exact Body.read_not_pending b want bs fin hf

theorem read_up_to_never_blocks_when_closed (fuel : Nat) (b : Body) (buf total : Nat) (bs : Bytes) (fin : EndState)
    (hf : fin ≠ .open) : (Body.readUpTo fuel b buf total bs fin).2.1 ≠ some .pending := by
  exact Body.readUpTo_not_pending fuel b buf total bs fin hf

/-- the discard loop stops at EOF or error. -/
theorem drain_terminates_when_closed (fuel : Nat) (b : Body) (bs : Bytes) (fin : EndState)
    (hf : fin ≠ .open) : Body.drain fuel b bs fin ≠ none := by
  exact Body.drain_not_none fuel b bs fin hf

/-- handling a request never blocks once the client is gone. -/
theorem handle_never_blocks_when_closed (s : St) (h : Head) (fr : Framing) (last : Bool) (a : Action)
    (body : Body) (bs : Bytes) (fin : EndState) (hf : fin ≠ .open) :
    (handle s h fr last a body bs fin).2.2 = false := by
  exact handle_not_blocked s h fr last a body bs fin hf

/-- what the application learns about a delivered request's head. -/
def headOf (d : Delivered) : Method × Bytes × Version × List Header × Option Nat :=
  (d.method, d.url, d.version, d.headers, d.bodyLength)

/-- Prefix delivery: if the client disappears (orderly close) after ANY prefix of its byte stream,
    the requests delivered are — as heads, in order — a prefix of the requests delivered for the
    whole stream: nothing is delivered that would not have been, nothing is delivered out of
    order, and no request with an incomplete head or incomplete buffered body is delivered (such a
    request is not in the prefix run at all, see `incomplete_head_not_delivered`).  For every
    stream (well-formed or not), every cut point and every application script. -/
theorem prefix_delivery (bs : Bytes) (k : Nat) (script : Script) :
    ((Conn.run (bs.take k) .eof script).delivered.map headOf) <+:
      ((Conn.run bs .eof script).delivered.map headOf) := by
  exact run_prefix bs k script

example : (Conn.run b!"GET /a HTTP/1.1\r\n\r\nGET /b HTTP/1.1\r\nHost: x" .eof (fun _ => ⟨0, 0, 1, .drop, false⟩)).statuses = [500]
    ∧ (Conn.run b!"GET /a HTTP/1.1\r\n\r\nGET /b HTTP/1.1\r\nHost: x" .eof (fun _ => ⟨0, 0, 1, .drop, false⟩)).ending = .closed := by decide

end TH.Props.C15
