/-
  C11 — pipelined requests are read ahead without waiting for earlier answers.
-/
import TinyHttpModel.Req
import TinyHttpModel.WireSpec
import TinyHttpModel.Lemmas.Ahead
import TinyHttpModel.Lts.Par

namespace TH.Props.C11
open TH TH.Req

/-- which requests release the socket reader at parse time: exactly those with no body or a
    Content-Length of at most 1024 bytes and no Expect (and no upgrade). -/
theorem released_at_parse_iff (hs : List Header) (fr : Framing) (hf : framingOf hs = .ok fr) :
    (fr.kind = .empty ∨ ∃ n, fr.kind = .buffered n) ↔
      (fr.kind ≠ .upgrade ∧ fr.kind ≠ .chunked ∧ ∀ n, fr.kind ≠ .limited n) := by
  cases hk : fr.kind <;> simp

theorem small_body_limit : Extracted.smallBodyLimit = 1024 := by decide

/-- a buffered body is never larger than the limit, and never belongs to an expecting request. -/
theorem buffered_is_small (hs : List Header) (fr : Framing) (n : Nat) (hf : framingOf hs = .ok fr)
    (hk : fr.kind = .buffered n) : n ≤ Extracted.smallBodyLimit ∧ fr.expectContinue = false := by
  exact framingOf_buffered hs fr n hf hk

/-- One more request becomes available without anything being answered: if the stream starts
    with a head whose body is absent or buffered (and complete), the read-ahead continues with the
    bytes after it. -/
theorem ahead_step_small (fuel : Nat) (bs rest : Bytes) (fin : EndState) (h : Head) (fr : Framing)
    (hh : readHead bs fin = .ok (h, rest)) (hf : framingOf h.headers = .ok fr)
    (hver : (⟨Extracted.maxVersion.1, Extracted.maxVersion.2⟩ : Version).lt h.version = false)
    (hlast : isLastRequest h.version h.headers = false)
    (hk : fr.kind = .empty ∨ ∃ n, fr.kind = .buffered n ∧ n ≤ rest.length) :
    ∃ rest', (aheadLoop (fuel + 1) bs fin).1 = h :: (aheadLoop fuel rest' fin).1 ∧
      (aheadLoop (fuel + 1) bs fin).2 = (aheadLoop fuel rest' fin).2 ∧
      rest' = (match fr.kind with | .buffered n => rest.drop n | _ => rest) := by
  have hf' : framingFor h.version h.headers = .ok fr := by
    rw [framingFor_of_not_high _ _ hver]; exact hf
  rw [aheadLoop]
  simp only [hh, hf', hver, hlast, Bool.false_eq_true, if_false]
  rcases hk with hk | ⟨n, hk, hn⟩
  · rw [hk]; exact ⟨rest, rfl, rfl, rfl⟩
  · rw [hk]
    have hlt : ¬ rest.length < n := by omega
    simp only [hlt, if_false]
    exact ⟨rest.drop n, rfl, rfl, rfl⟩

/-- the read-ahead never ends blocked on a body when every delivered request released its reader:
    `blockedOnBody` only arises from a streamed body (limited / chunked / upgrade) or the 505 path. -/
theorem ahead_blocks_only_on_streamed_body (fuel : Nat) (bs : Bytes) (fin : EndState)
    (hb : (aheadLoop fuel bs fin).2 = .blockedOnBody) : (aheadLoop fuel bs fin).1 ≠ [] ∨
      ∃ h rest, readHead bs fin = .ok (h, rest) := by
  cases fuel with
  | zero => simp [aheadLoop] at hb
  | succ fuel =>
    rcases aheadLoop_succ_cases fuel bs fin with ⟨_, himp⟩ | ⟨h, rest, _, hh, _⟩
    · exact Or.inr (himp hb)
    · exact Or.inr ⟨h, rest, hh⟩

/-- what is read ahead is what the sequential connection loop delivers first: the read-ahead
    heads are a prefix of the heads `runLoop` delivers under any script whose handlers do not block. -/
theorem ahead_heads_prefix_of_run (fuel : Nat) (bs : Bytes) (script : Script) (idx : Nat) (s : St) :
    ∃ more, ((runLoop fuel idx s bs .eof script).delivered.drop s.delivered.length).map
        (fun d => (d.method, d.url, d.version, d.headers))
      = ((aheadLoop fuel bs .eof).1.map (fun h => (h.method, h.url, h.version, h.headers))) ++ more := by
  exact ahead_prefix fuel idx s bs .eof script

example : (aheadLoop 10 b!"GET /a HTTP/1.1\r\n\r\nPOST /b HTTP/1.1\r\nContent-Length: 3\r\n\r\nabcGET /c HTTP/1.1\r\n\r\n" .open).1.map (·.url)
    = [b!"/a", b!"/b", b!"/c"] := by decide
example : (aheadLoop 10 b!"POST /b HTTP/1.1\r\nContent-Length: 2000\r\n\r\nabcGET /c HTTP/1.1\r\n\r\n" .open)
    = ([⟨⟨b!"POST"⟩, b!"/b", ⟨1, 1⟩, [⟨b!"Content-Length", b!"2000"⟩]⟩], .blockedOnBody) := by decide

/-! ### the same on the connection with concurrent handlers (`Lts.Par`) -/

/-- a body that was buffered at parse time, or is absent, never owns the client stream. -/
theorem small_body_never_owns_stream (k : BodyKind) (bs : Bytes)
    (hk : k = .empty ∨ ∃ n, k = .buffered n) : (initialBody k bs).1.holdsStream = false := by
  rcases hk with h | ⟨n, h⟩ <;> subst h <;> rfl

/-- …and every other kind of body does, from the moment the request is created. -/
theorem streamed_body_owns_stream (k : BodyKind) (bs : Bytes)
    (hk : k ≠ .empty ∧ ∀ n, k ≠ .buffered n) : (initialBody k bs).1.holdsStream = true := by
  cases k with
  | empty => exact absurd rfl hk.1
  | buffered n => exact absurd rfl (hk.2 n)
  | upgrade => rfl
  | limited n => rfl
  | chunked => rfl

/-- Read-ahead under concurrency: whatever the handlers have or have not done with the requests
    they hold — nothing answered, nothing read — the connection thread can parse the next head as
    long as no live request's body owns the stream (all bodies so far absent or at most 1024
    bytes) and it is not itself busy answering. -/
theorem par_parse_enabled (s : Lts.Par.State) (hp : s.parserEnd = none)
    (hh : Lts.Par.streamHeld s = false) (hc : Lts.Par.connBusy s = false) :
    (Lts.Par.step s .parse).isSome = true := by
  simp [Lts.Par.step, hp, hh, hc]

/-- the stream is held only by a request that is still alive and whose reader owns it: once
    every such request is gone, parsing goes on. -/
theorem par_stream_free_when_owners_gone (s : Lts.Par.State)
    (h : ∀ r ∈ s.reqs, r.body.holdsStream = true → r.stage = .gone) : Lts.Par.streamHeld s = false := by
  unfold Lts.Par.streamHeld
  rw [List.any_eq_false]
  intro r hr
  cases hb : r.body.holdsStream with
  | false => simp
  | true => simp [h r hr hb]

example : (Lts.Par.run (Lts.Par.init b!"GET /a HTTP/1.1\r\n\r\nPOST /b HTTP/1.1\r\nContent-Length: 2\r\n\r\nhiGET /c HTTP/1.1\r\n\r\n" .eof
      (fun _ => ⟨0, 0, 1, .drop, false⟩)) [.parse, .parse, .parse]).map (fun s => (s.reqs.length, s.reqs.map (·.stage)))
    = some (3, [.fresh, .fresh, .fresh]) := by decide

end TH.Props.C11

