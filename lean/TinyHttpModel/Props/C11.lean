/-
  C11 — pipelined requests are read ahead without waiting for earlier answers.
-/
import TinyHttpModel.Req
import TinyHttpModel.WireSpec
import TinyHttpModel.Lemmas.Ahead
import TinyHttpModel.Lts.Par
import TinyHttpModel.Lemmas.PipelineAhead
import TinyHttpModel.Props.C09

namespace TH.Props.C11
open TH TH.Req

/-- which requests release the socket reader at parse time: exactly those with no body or a
    Content-Length of at most 1024 bytes and no Expect (and no upgrade). -/
theorem released_at_parse_iff (hs : List Header) (fr : Framing) (hf : framingOf hs = .ok fr) :
    (fr.kind = .empty ∨ ∃ n, fr.kind = .buffered n) ↔
      (fr.kind ≠ .upgrade ∧ fr.kind ≠ .chunked ∧ ∀ n, fr.kind ≠ .limited n) := by
  cases hk : fr.kind <;> simp

theorem small_body_limit : Extracted.smallBodyLimit = 1024 := by decide

/-- a buffered body is never larger than the limit, and never belongs to an expecting request. -/
theorem buffered_is_small (hs : List Header) (fr : Framing) (n : Nat) (hf : framingOf hs = .ok fr)
    (hk : fr.kind = .buffered n) : n ≤ Extracted.smallBodyLimit ∧ fr.expectContinue = false := by
  exact framingOf_buffered hs fr n hf hk

/-- One more request becomes available without anything being answered: if the stream starts
    with a head whose body is absent or buffered (and complete), the read-ahead continues with the
    bytes after it. -/
theorem ahead_step_small (fuel : Nat) (bs rest : Bytes) (fin : EndState) (h : Head) (fr : Framing)
    (hh : readHead bs fin = .ok (h, rest)) (hf : framingOf h.headers = .ok fr)
    (hver : (⟨Extracted.maxVersion.1, Extracted.maxVersion.2⟩ : Version).lt h.version = false)
    (hlast : isLastRequest h.version h.headers = false)
    (hk : fr.kind = .empty ∨ ∃ n, fr.kind = .buffered n ∧ n ≤ rest.length) :
    ∃ rest', (aheadLoop (fuel + 1) bs fin).1 = h :: (aheadLoop fuel rest' fin).1 ∧
      (aheadLoop (fuel + 1) bs fin).2 = (aheadLoop fuel rest' fin).2 ∧
      rest' = (match fr.kind with | .buffered n => rest.drop n | _ => rest) := by
  have hf' : framingFor h.version h.headers = .ok fr := by
    rw [framingFor_of_not_high _ _ hver]; exact hf
  rw [aheadLoop]
  simp only [hh, hf', hver, hlast, Bool.false_eq_true, if_false]
  rcases hk with hk | ⟨n, hk, hn⟩
  · rw [hk]; exact ⟨rest, rfl, rfl, rfl⟩
  · rw [hk]
    have hlt : ¬ rest.length < n := by omega
    simp only [hlt, if_false]
    exact ⟨rest.drop n, rfl, rfl, rfl⟩

/-- the read-ahead never ends blocked on a body when every delivered request released its reader:
    `blockedOnBody` only arises from a streamed body (limited / chunked / upgrade) or the 505 path. -/
theorem ahead_blocks_only_on_streamed_body (fuel : Nat) (bs : Bytes) (fin : EndState)
    (hb : (aheadLoop fuel bs fin).2 = .blockedOnBody) : (aheadLoop fuel bs fin).1 ≠ [] ∨
      ∃ h rest, readHead bs fin = .ok (h, rest) := by
  cases fuel with
  | zero => simp [aheadLoop] at hb
  | succ fuel =>
    rcases aheadLoop_succ_cases fuel bs fin with ⟨_, himp⟩ | ⟨h, rest, _, hh, _⟩
    · exact Or.inr (himp hb)
    · exact Or.inr ⟨h, rest, hh⟩

/-- what is read ahead is what the sequential connection loop delivers first: the read-ahead
    heads are a prefix of the heads `runLoop` delivers under any script whose handlers do not block. -/
theorem ahead_heads_prefix_of_run (fuel : Nat) (bs : Bytes) (script : Script) (idx : Nat) (s : St) :
    ∃ more, ((runLoop fuel idx s bs .eof script).delivered.drop s.delivered.length).map
        (fun d => (d.method, d.url, d.version, d.headers))
      = ((aheadLoop fuel bs .eof).1.map (fun h => (h.method, h.url, h.version, h.headers))) ++ more := by
  exact ahead_prefix fuel idx s bs .eof script

example : (aheadLoop 10 b!"GET /a HTTP/1.1\r\n\r\nPOST /b HTTP/1.1\r\nContent-Length: 3\r\n\r\nabcGET /c HTTP/1.1\r\n\r\n" .open).1.map (·.url)
    = [b!"/a", b!"/b", b!"/c"] := by decide
example : (aheadLoop 10 b!"POST /b HTTP/1.1\r\nContent-Length: 2000\r\n\r\nabcGET /c HTTP/1.1\r\n\r\n" .open)
    = ([⟨⟨b!"POST"⟩, b!"/b", ⟨1, 1⟩, [⟨b!"Content-Length", b!"2000"⟩]⟩], .blockedOnBody) := by decide

/-! ### end to end: a whole pipeline is read ahead while nothing is answered -/

/-- a well-formed request on a connection that stays open, not asking for 100-continue
    (`C09.wellBodied`), whose body is absent or at most 1024 bytes (an explicit `Content-Length: 0`
    included) -/
def smallBodied (m : C09.CMsg) : Prop :=
  C09.wellBodied m ∧
  (match m.body with
   | .absent => True
   | .plain body => body.length ≤ Extracted.smallBodyLimit
   | .chunked _ _ => False)

/-- a `C09.wellBodied` request whose body is streamed from the socket: a Content-Length body of
    more than 1024 bytes, or a chunked body -/
def streamedBodied (m : C09.CMsg) : Prop :=
  C09.wellBodied m ∧
  (match m.body with
   | .absent => False
   | .plain body => Extracted.smallBodyLimit < body.length
   | .chunked _ _ => True)

/-- the framing of a `smallBodied` request: its body is buffered at parse time (`.buffered n`,
    `n ≤ 1024`) or there is none (`.empty`) — its reader never keeps the stream. -/
theorem smallBodied_framing (m : C09.CMsg) (hm : smallBodied m) :
    ∃ fr, framingOf m.head.headers = .ok fr ∧ fr.expectContinue = false ∧
      ((fr.kind = .empty ∧ m.body.wire = []) ∨
        (fr.kind = .buffered m.body.wire.length ∧ m.body.wire.length ≤ Extracted.smallBodyLimit)) := by
  obtain ⟨head, ows, body⟩ := m
  obtain ⟨⟨_, _, hbody, _, _⟩, hsmall⟩ := hm
  cases body with
  | absent => exact ⟨_, hbody, rfl, Or.inl ⟨rfl, rfl⟩⟩
  | chunked cs zero => exact absurd hsmall (fun h => h)
  | plain B =>
    rcases hbody with hfr | hfr | ⟨hB, hfr⟩
    · exact ⟨_, hfr, rfl, Or.inr ⟨rfl, hsmall⟩⟩
    · have := framingOf_limited_large _ _ _ hfr rfl rfl
      have hs : B.length ≤ Extracted.smallBodyLimit := hsmall
      omega
    · subst hB
      exact ⟨_, hfr, rfl, Or.inl ⟨rfl, rfl⟩⟩

/-- the framing of a `streamedBodied` request: `.limited n` with `n > 1024`, or `.chunked`. -/
theorem streamedBodied_framing (m : C09.CMsg) (hm : streamedBodied m) :
    ∃ fr, framingOf m.head.headers = .ok fr ∧
      ((∃ n, fr.kind = .limited n ∧ Extracted.smallBodyLimit < n) ∨ fr.kind = .chunked) := by
  obtain ⟨head, ows, body⟩ := m
  obtain ⟨⟨_, _, hbody, _, _⟩, hbig⟩ := hm
  cases body with
  | absent => exact absurd hbig (fun h => h)
  | chunked cs zero => exact ⟨_, hbody.1, Or.inr rfl⟩
  | plain B =>
    have hb : Extracted.smallBodyLimit < B.length := hbig
    rcases hbody with hfr | hfr | ⟨hB, hfr⟩
    · have := (framingOf_buffered _ _ _ hfr rfl).1
      omega
    · exact ⟨_, hfr, Or.inl ⟨_, rfl, hb⟩⟩
    · subst hB
      simp at hb

/-- one iteration of the read-ahead on a `smallBodied` message, whatever follows it: the request
    becomes available and the read-ahead goes on at the first byte after the message. -/
theorem smallBodied_step (m : C09.CMsg) (hm : smallBodied m) (fuel : Nat) (rest : Bytes) (fin : EndState) :
    aheadLoop (fuel + 1) (Spec.renderHead m.head m.ows ++ (m.body.wire ++ rest)) fin =
      (m.head :: (aheadLoop fuel rest fin).1, (aheadLoop fuel rest fin).2) := by
  obtain ⟨fr, hfr, _, hk⟩ := smallBodied_framing m hm
  obtain ⟨⟨hwf, hows, _, hlast, hver⟩, _⟩ := hm
  obtain ⟨k, len, ex⟩ := fr
  rcases hk with ⟨hk, hw⟩ | ⟨hk, _⟩
  · simp only [] at hk
    subst hk
    rw [hw, List.nil_append]
    exact aheadLoop_empty_step fuel m.head m.ows len ex rest fin hwf hows hfr hlast hver
  · simp only [] at hk
    subst hk
    exact aheadLoop_buffered_step fuel m.head m.ows len ex m.body.wire rest fin hwf hows hfr hlast hver

/-- one iteration of the read-ahead on a `streamedBodied` message: the request becomes available
    as soon as its head is there, and the read-ahead stops — whatever bytes follow the head. -/
theorem streamedBodied_step (m : C09.CMsg) (hm : streamedBodied m) (fuel : Nat) (tail : Bytes) (fin : EndState) :
    aheadLoop (fuel + 1) (Spec.renderHead m.head m.ows ++ tail) fin = ([m.head], .blockedOnBody) := by
  obtain ⟨fr, hfr, hk⟩ := streamedBodied_framing m hm
  obtain ⟨⟨hwf, hows, _, _, hver⟩, _⟩ := hm
  refine aheadLoop_streamed_step fuel m.head m.ows fr tail fin hwf hows hfr ?_ hver
  rcases hk with ⟨n, hk, _⟩ | hk <;> rw [hk] <;> exact ⟨by simp, by simp⟩

/-- the pipeline lemma behind the two theorems below: `msgs` all `smallBodied`, followed by ANY
    bytes `rest`: all the heads of `msgs` become available and the read-ahead goes on with `rest`. -/
theorem ahead_small_pipeline (msgs : List C09.CMsg) (fin : EndState) (fuel : Nat) (rest : Bytes)
    (hgood : ∀ m ∈ msgs, smallBodied m) (hfuel : msgs.length ≤ fuel) :
    aheadLoop fuel ((msgs.map C09.cmsgBytes).flatten ++ rest) fin =
      (msgs.map (·.head) ++ (aheadLoop (fuel - msgs.length) rest fin).1,
        (aheadLoop (fuel - msgs.length) rest fin).2) :=
  aheadLoop_generic_pipeline C09.CMsg.head C09.CMsg.ows (fun m => m.body.wire) fin msgs
    (fun m hm fuel rest => smallBodied_step m (hgood m hm) fuel rest fin) fuel rest hfuel

/-- Read-ahead, end to end (first sentence of C11): in a pipeline of ANY number of requests whose
    bodies are all absent or at most 1024 bytes (none asking for 100-continue), however the
    client's stream ends after it, EVERY request becomes available to the application while none
    has been answered — the heads read ahead are exactly the heads sent, in order — and the
    connection thread is never blocked on a body: it ends waiting for the client if the stream is
    still open, and closed otherwise. -/
theorem pipeline_all_available_unanswered (msgs : List C09.CMsg) (fin : EndState)
    (hgood : ∀ m ∈ msgs, smallBodied m) :
    let bytes := (msgs.map C09.cmsgBytes).flatten
    (aheadLoop (bytes.length + 1) bytes fin).1 = msgs.map (·.head) ∧
      (aheadLoop (bytes.length + 1) bytes fin).2 = aheadEndOf fin := by
  intro bytes
  have hlen : msgs.length ≤ bytes.length :=
    generic_pipeline_length_ge C09.CMsg.head C09.CMsg.ows (fun m => m.body.wire) msgs
  have h := ahead_small_pipeline msgs fin (bytes.length + 1) [] hgood (by omega)
  rw [List.append_nil] at h
  obtain ⟨k, hk⟩ : ∃ k, bytes.length + 1 - msgs.length = k + 1 := ⟨bytes.length - msgs.length, by omega⟩
  rw [hk, aheadLoop_nil] at h
  show (aheadLoop (bytes.length + 1) bytes fin).1 = _ ∧ (aheadLoop (bytes.length + 1) bytes fin).2 = _
  rw [h]
  exact ⟨List.append_nil _, rfl⟩

/-- …after the client's orderly close: all available, then closed. -/
theorem pipeline_all_available_unanswered_eof (msgs : List C09.CMsg) (hgood : ∀ m ∈ msgs, smallBodied m) :
    let bytes := (msgs.map C09.cmsgBytes).flatten
    aheadLoop (bytes.length + 1) bytes .eof = (msgs.map (·.head), .closed) := by
  intro bytes
  have h := pipeline_all_available_unanswered msgs .eof hgood
  exact Prod.ext h.1 h.2

/-- …with the client still connected: all available, and the connection thread waits for the
    client — not for the application. -/
theorem pipeline_all_available_unanswered_open (msgs : List C09.CMsg) (hgood : ∀ m ∈ msgs, smallBodied m) :
    let bytes := (msgs.map C09.cmsgBytes).flatten
    aheadLoop (bytes.length + 1) bytes .open = (msgs.map (·.head), .waitingForClient) := by
  intro bytes
  have h := pipeline_all_available_unanswered msgs .open hgood
  exact Prod.ext h.1 h.2

/-- Read-ahead, end to end (second sentence of C11, the delay): after any number of
    `smallBodied` requests `msgs₁`, a request `big` with a streamed body (Content-Length above
    1024, or chunked), then ANY bytes `tail` (its body followed by any number of further requests,
    part of its body, nothing, garbage), with any end of the stream: the requests of `msgs₁` and
    `big` itself become available — `big` as soon as its head has been read, before any byte of its
    body — and the connection thread is then blocked on that body.  The right-hand side does not
    mention `tail`: nothing after the head of `big` is looked at. -/
theorem pipeline_blocked_exactly_at_first_streamed_head (msgs₁ : List C09.CMsg) (big : C09.CMsg)
    (tail : Bytes) (fin : EndState)
    (h₁ : ∀ m ∈ msgs₁, smallBodied m) (hb : streamedBodied big) :
    let bytes := (msgs₁.map C09.cmsgBytes).flatten ++ (Spec.renderHead big.head big.ows ++ tail)
    aheadLoop (bytes.length + 1) bytes fin = (msgs₁.map (·.head) ++ [big.head], .blockedOnBody) := by
  intro bytes
  have hlen : msgs₁.length ≤ ((msgs₁.map C09.cmsgBytes).flatten).length :=
    generic_pipeline_length_ge C09.CMsg.head C09.CMsg.ows (fun m => m.body.wire) msgs₁
  have hb1 : msgs₁.length ≤ bytes.length := by
    show msgs₁.length ≤ ((msgs₁.map C09.cmsgBytes).flatten ++ _).length
    rw [List.length_append]; omega
  have h := ahead_small_pipeline msgs₁ fin (bytes.length + 1) (Spec.renderHead big.head big.ows ++ tail)
    h₁ (by omega)
  obtain ⟨k, hk⟩ : ∃ k, bytes.length + 1 - msgs₁.length = k + 1 := ⟨bytes.length - msgs₁.length, by omega⟩
  rw [hk, streamedBodied_step big hb k tail fin] at h
  exact h

/-- the same with the whole of `big` on the wire, followed by any bytes (for instance the requests
    `msgs₂`): exactly the heads of `msgs₁` and of `big` are available, the successors wait. -/
theorem pipeline_blocked_exactly_at_first_streamed (msgs₁ : List C09.CMsg) (big : C09.CMsg)
    (tail : Bytes) (fin : EndState)
    (h₁ : ∀ m ∈ msgs₁, smallBodied m) (hb : streamedBodied big) :
    let bytes := ((msgs₁ ++ [big]).map C09.cmsgBytes).flatten ++ tail
    aheadLoop (bytes.length + 1) bytes fin = (msgs₁.map (·.head) ++ [big.head], .blockedOnBody) := by
  intro bytes
  have hbytes : bytes = (msgs₁.map C09.cmsgBytes).flatten ++
      (Spec.renderHead big.head big.ows ++ (big.body.wire ++ tail)) := by
    show ((msgs₁ ++ [big]).map C09.cmsgBytes).flatten ++ tail = _
    simp [C09.cmsgBytes]
  rw [hbytes]
  exact pipeline_blocked_exactly_at_first_streamed_head msgs₁ big (big.body.wire ++ tail) fin h₁ hb

/-- …in particular with further requests `msgs₂` of any kind behind `big`: none of them is
    available while `big` is unanswered and its body unread, whatever they are. -/
theorem successors_wait_for_streamed_body (msgs₁ msgs₂ : List C09.CMsg) (big : C09.CMsg) (fin : EndState)
    (h₁ : ∀ m ∈ msgs₁, smallBodied m) (hb : streamedBodied big) :
    let bytes := ((msgs₁ ++ [big] ++ msgs₂).map C09.cmsgBytes).flatten
    aheadLoop (bytes.length + 1) bytes fin = (msgs₁.map (·.head) ++ [big.head], .blockedOnBody) := by
  intro bytes
  have hbytes : bytes = ((msgs₁ ++ [big]).map C09.cmsgBytes).flatten ++ (msgs₂.map C09.cmsgBytes).flatten := by
    show ((msgs₁ ++ [big] ++ msgs₂).map C09.cmsgBytes).flatten = _
    rw [List.map_append, List.flatten_append]
  rw [hbytes]
  exact pipeline_blocked_exactly_at_first_streamed msgs₁ big _ fin h₁ hb

theorem smallBodied_wellBodied (m : C09.CMsg) (h : smallBodied m) : C09.wellBodied m := h.1
theorem streamedBodied_wellBodied (m : C09.CMsg) (h : streamedBodied m) : C09.wellBodied m := h.1

/-- Second sentence of C11, the end of the delay, on the full connection model: in
    `msgs₁ ++ [big] ++ msgs₂` (all `C09.wellBodied`: `big` and the others with bodies of any size
    and either form) answered by ANY script — the handler of `big` reading all of its body, part
    of it or none, then answering, dropping, taking the writer or failing — the requests after
    `big` ARE delivered, all of them and as sent: the delivered list is the list sent, its part
    after the first `msgs₁.length + 1` entries is `msgs₂`, and the connection closes in order.
    (Instance of `C09.pipeline_with_any_bodies`.) -/
theorem successors_delivered_after_streamed_body (msgs₁ msgs₂ : List C09.CMsg) (big : C09.CMsg)
    (script : Script)
    (h₁ : ∀ m ∈ msgs₁, C09.wellBodied m) (hb : C09.wellBodied big) (h₂ : ∀ m ∈ msgs₂, C09.wellBodied m) :
    let t := Conn.run (((msgs₁ ++ [big] ++ msgs₂).map C09.cmsgBytes).flatten) .eof script
    t.delivered.map (fun d => (d.method, d.url, d.version, d.headers, d.bodyLength)) =
        (msgs₁ ++ [big] ++ msgs₂).map
          (fun m => (m.head.method, m.head.url, m.head.version, m.head.headers, m.body.declared)) ∧
      (t.delivered.drop (msgs₁.length + 1)).map (fun d => (d.method, d.url, d.version, d.headers, d.bodyLength)) =
        msgs₂.map (fun m => (m.head.method, m.head.url, m.head.version, m.head.headers, m.body.declared)) ∧
      (∀ d, t.delivered[msgs₁.length]? = some d → d.bodyRead <+: big.body.payload) ∧
      t.ending = .closed := by
  intro t
  have hall : ∀ m ∈ msgs₁ ++ [big] ++ msgs₂, C09.wellBodied m := by
    intro m hm
    simp only [List.mem_append, List.mem_cons, List.not_mem_nil, or_false] at hm
    rcases hm with (hm | rfl) | hm
    · exact h₁ m hm
    · exact hb
    · exact h₂ m hm
  obtain ⟨hd, hpre, hend⟩ := C09.pipeline_with_any_bodies (msgs₁ ++ [big] ++ msgs₂) script hall
  refine ⟨hd, ?_, ?_, hend⟩
  · have hd' : t.delivered.map (fun d => (d.method, d.url, d.version, d.headers, d.bodyLength)) = _ := hd
    rw [List.map_drop, hd', ← List.map_drop]
    have : (msgs₁ ++ [big] ++ msgs₂).drop (msgs₁.length + 1) = msgs₂ := by
      have hl : (msgs₁ ++ [big]).length = msgs₁.length + 1 := by simp
      rw [← hl, List.drop_left]
    rw [this]
  · intro d hdl
    exact hpre msgs₁.length d big hdl (by simp)

/-- Both sentences on one pipeline: `msgs₁` small, `big` streamed, `msgs₂` small.  While nothing
    is answered, exactly `msgs₁` and `big` are available (the connection thread is blocked on the
    body of `big`); once the handlers run — any script — everything is delivered, and without
    `big` (all bodies small) everything is available at once. -/
theorem streamed_body_delays_successors_only_until_handled (msgs₁ msgs₂ : List C09.CMsg) (big : C09.CMsg)
    (script : Script)
    (h₁ : ∀ m ∈ msgs₁, smallBodied m) (hb : streamedBodied big) (h₂ : ∀ m ∈ msgs₂, smallBodied m) :
    let bytes := ((msgs₁ ++ [big] ++ msgs₂).map C09.cmsgBytes).flatten
    let small := ((msgs₁ ++ msgs₂).map C09.cmsgBytes).flatten
    aheadLoop (bytes.length + 1) bytes .eof = (msgs₁.map (·.head) ++ [big.head], .blockedOnBody) ∧
    (Conn.run bytes .eof script).delivered.map (fun d => (d.method, d.url, d.version, d.headers)) =
      (msgs₁ ++ [big] ++ msgs₂).map (fun m => (m.head.method, m.head.url, m.head.version, m.head.headers)) ∧
    aheadLoop (small.length + 1) small .eof = ((msgs₁ ++ msgs₂).map (·.head), .closed) := by
  intro bytes small
  refine ⟨successors_wait_for_streamed_body msgs₁ msgs₂ big .eof h₁ hb, ?_, ?_⟩
  · have h := (successors_delivered_after_streamed_body msgs₁ msgs₂ big script
      (fun m hm => (h₁ m hm).1) hb.1 (fun m hm => (h₂ m hm).1)).1
    have h' := congrArg (List.map (fun (x : Method × Bytes × Version × List Header × Option Nat) =>
      (x.1, x.2.1, x.2.2.1, x.2.2.2.1))) h
    simp only [List.map_map] at h'
    exact h'
  · exact pipeline_all_available_unanswered_eof (msgs₁ ++ msgs₂) (by
      intro m hm
      rcases List.mem_append.mp hm with hm | hm
      · exact h₁ m hm
      · exact h₂ m hm)

/-! non-vacuity: concrete pipelines -/

def exA : C09.CMsg := ⟨⟨⟨b!"GET"⟩, b!"/a", ⟨1, 1⟩, []⟩, [], .absent⟩
def exB : C09.CMsg := ⟨⟨⟨b!"POST"⟩, b!"/b", ⟨1, 1⟩, [⟨b!"Content-Length", b!"3"⟩]⟩, [(b!" ", [])], .plain b!"abc"⟩
def exC : C09.CMsg := ⟨⟨⟨b!"PUT"⟩, b!"/c", ⟨1, 1⟩, [⟨b!"Content-Length", b!"0"⟩]⟩, [(b!" ", [])], .plain []⟩
def exD : C09.CMsg := ⟨⟨⟨b!"GET"⟩, b!"/d", ⟨1, 1⟩, []⟩, [], .absent⟩
/-- a body one byte above the limit -/
def exBig : C09.CMsg :=
  ⟨⟨⟨b!"POST"⟩, b!"/big", ⟨1, 1⟩, [⟨b!"Content-Length", b!"1025"⟩]⟩, [(b!" ", [])], .plain (List.replicate 1025 120)⟩

/-- the hypotheses of `pipeline_all_available_unanswered` hold of `GET /a`, `POST /b` with three
    body bytes, `PUT /c` with an explicit `Content-Length: 0`, `GET /d` -/
theorem ex_smallBodied : ∀ m ∈ [exA, exB, exC, exD], smallBodied m := by
  intro m hm
  simp only [List.mem_cons, List.not_mem_nil, or_false] at hm
  rcases hm with rfl | rfl | rfl | rfl
  · refine ⟨⟨by decide, by decide, ?_, by decide, by decide⟩, trivial⟩
    show framingOf exA.head.headers = .ok ⟨.empty, none, false⟩
    decide
  · refine ⟨⟨by decide, by decide, ?_, by decide, by decide⟩, ?_⟩
    · show framingOf exB.head.headers = .ok ⟨.buffered (b!"abc").length, some (b!"abc").length, false⟩ ∨ _
      exact Or.inl (by decide)
    · show (b!"abc").length ≤ Extracted.smallBodyLimit
      decide
  · refine ⟨⟨by decide, by decide, ?_, by decide, by decide⟩, ?_⟩
    · show _ ∨ _ ∨ (([] : Bytes) = [] ∧ framingOf exC.head.headers = .ok ⟨.empty, some 0, false⟩)
      exact Or.inr (Or.inr ⟨rfl, by decide⟩)
    · show ([] : Bytes).length ≤ Extracted.smallBodyLimit
      decide
  · refine ⟨⟨by decide, by decide, ?_, by decide, by decide⟩, trivial⟩
    show framingOf exD.head.headers = .ok ⟨.empty, none, false⟩
    decide

/-- …and `exBig` is `streamedBodied` -/
theorem ex_streamedBodied : streamedBodied exBig := by
  refine ⟨⟨by decide, by decide, ?_, by decide, by decide⟩, ?_⟩
  · show _ ∨ framingOf exBig.head.headers =
        .ok ⟨.limited (List.replicate 1025 120).length, some (List.replicate 1025 120).length, false⟩ ∨ _
    rw [List.length_replicate]
    exact Or.inr (Or.inl (by decide))
  · show Extracted.smallBodyLimit < (List.replicate 1025 120).length
    rw [List.length_replicate]
    decide

/-- the bytes on the wire -/
example : ([exA, exB, exC, exD].map C09.cmsgBytes).flatten =
    b!"GET /a HTTP/1.1\r\n\r\nPOST /b HTTP/1.1\r\nContent-Length: 3\r\n\r\nabcPUT /c HTTP/1.1\r\nContent-Length: 0\r\n\r\nGET /d HTTP/1.1\r\n\r\n" := by
  decide

/-- the theorem applied: all four available while none is answered, then closed / waiting -/
example :
    aheadLoop ((([exA, exB, exC, exD].map C09.cmsgBytes).flatten).length + 1)
        (([exA, exB, exC, exD].map C09.cmsgBytes).flatten) .eof
      = ([exA.head, exB.head, exC.head, exD.head], .closed) :=
  pipeline_all_available_unanswered_eof _ ex_smallBodied

/-- the model evaluated on it, directly -/
example :
    aheadLoop 200 b!"GET /a HTTP/1.1\r\n\r\nPOST /b HTTP/1.1\r\nContent-Length: 3\r\n\r\nabcPUT /c HTTP/1.1\r\nContent-Length: 0\r\n\r\nGET /d HTTP/1.1\r\n\r\n" .eof
      = ([exA.head, exB.head, exC.head, exD.head], .closed) := by decide
example :
    (aheadLoop 200 b!"GET /a HTTP/1.1\r\n\r\nPOST /b HTTP/1.1\r\nContent-Length: 3\r\n\r\nabcPUT /c HTTP/1.1\r\nContent-Length: 0\r\n\r\nGET /d HTTP/1.1\r\n\r\n" .open).2
      = .waitingForClient := by decide

/-- a 1025-byte body in the middle: `GET /a`, `POST /b` and `POST /big` are available, `GET /d`
    behind the large body is not, the connection thread is blocked on that body (by the theorem) -/
example (fin : EndState) :
    aheadLoop (((([exA, exB] ++ [exBig] ++ [exD]).map C09.cmsgBytes).flatten).length + 1)
        ((([exA, exB] ++ [exBig] ++ [exD]).map C09.cmsgBytes).flatten) fin
      = ([exA.head, exB.head, exBig.head], .blockedOnBody) :=
  successors_wait_for_streamed_body [exA, exB] [exD] exBig fin
    (fun m hm => ex_smallBodied m (by
      simp only [List.mem_cons, List.not_mem_nil, or_false] at hm ⊢
      rcases hm with h | h <;> simp [h])) ex_streamedBodied

set_option maxRecDepth 20000 in
/-- the model evaluated on it, directly -/
example :
    aheadLoop 2000 (b!"GET /a HTTP/1.1\r\n\r\nPOST /big HTTP/1.1\r\nContent-Length: 1025\r\n\r\n" ++
        List.replicate 1025 120 ++ b!"GET /d HTTP/1.1\r\n\r\n") .eof
      = ([exA.head, exBig.head], .blockedOnBody) := by decide

set_option maxRecDepth 20000 in
/-- with 1024 bytes — exactly the limit — the successor is available -/
example :
    (aheadLoop 2000 (b!"GET /a HTTP/1.1\r\n\r\nPOST /big HTTP/1.1\r\nContent-Length: 1024\r\n\r\n" ++
        List.replicate 1024 120 ++ b!"GET /d HTTP/1.1\r\n\r\n") .eof).1.map (·.url)
      = [b!"/a", b!"/big", b!"/d"] := by decide

/-- a chunked body in the middle: blocked after it -/
example :
    (aheadLoop 200 (([exA, C09.exChunked, exD].map C09.cmsgBytes).flatten) .eof)
      = ([exA.head, C09.exChunked.head], .blockedOnBody) := by decide

/-! ### the same on the connection with concurrent handlers (`Lts.Par`) -/

/-- a body that was buffered at parse time, or is absent, never owns the client stream. -/
theorem small_body_never_owns_stream (k : BodyKind) (bs : Bytes)
    (hk : k = .empty ∨ ∃ n, k = .buffered n) : (initialBody k bs).1.holdsStream = false := by
  rcases hk with h | ⟨n, h⟩ <;> subst h <;> rfl

/-- …and every other kind of body does, from the moment the request is created. -/
theorem streamed_body_owns_stream (k : BodyKind) (bs : Bytes)
    (hk : k ≠ .empty ∧ ∀ n, k ≠ .buffered n) : (initialBody k bs).1.holdsStream = true := by
  cases k with
  | empty => exact absurd rfl hk.1
  | buffered n => exact absurd rfl (hk.2 n)
  | upgrade => rfl
  | limited n => rfl
  | chunked => rfl

/-- Read-ahead under concurrency: whatever the handlers have or have not done with the requests
    they hold — nothing answered, nothing read — the connection thread can parse the next head as
    long as no live request's body owns the stream (all bodies so far absent or at most 1024
    bytes) and it is not itself busy answering. -/
theorem par_parse_enabled (s : Lts.Par.State) (hp : s.parserEnd = none)
    (hh : Lts.Par.streamHeld s = false) (hc : Lts.Par.connBusy s = false) :
    (Lts.Par.step s .parse).isSome = true := by
  simp [Lts.Par.step, hp, hh, hc]

/-- the stream is held only by a request that is still alive and whose reader owns it: once
    every such request is gone, parsing goes on. -/
theorem par_stream_free_when_owners_gone (s : Lts.Par.State)
    (h : ∀ r ∈ s.reqs, r.body.holdsStream = true → r.stage = .gone) : Lts.Par.streamHeld s = false := by
  unfold Lts.Par.streamHeld
  rw [List.any_eq_false]
  intro r hr
  cases hb : r.body.holdsStream with
  | false => simp
  | true => simp [h r hr hb]

example : (Lts.Par.run (Lts.Par.init b!"GET /a HTTP/1.1\r\n\r\nPOST /b HTTP/1.1\r\nContent-Length: 2\r\n\r\nhiGET /c HTTP/1.1\r\n\r\n" .eof
      (fun _ => ⟨0, 0, 1, .drop, false⟩)) [.parse, .parse, .parse]).map (fun s => (s.reqs.length, s.reqs.map (·.stage)))
    = some (3, [.fresh, .fresh, .fresh]) := by decide

end TH.Props.C11

