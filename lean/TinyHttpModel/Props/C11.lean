/-
  C11 — pipelined requests are read ahead without waiting for earlier answers.
-/
import TinyHttpModel.Req
import TinyHttpModel.WireSpec
import TinyHttpModel.Lemmas.Ahead

namespace TH.Props.C11
open TH TH.Req

/-- which requests release the socket reader at parse time: exactly those with no body or a
    Content-Length of at most 1024 bytes and no Expect (and no upgrade). -/
theorem released_at_parse_iff (hs : List Header) (fr : Framing) (hf : framingOf hs = .ok fr) :
    (fr.kind = .empty ∨ ∃ n, fr.kind = .buffered n) ↔
      (fr.kind ≠ .upgrade ∧ fr.kind ≠ .chunked ∧ ∀ n, fr.kind ≠ .limited n) := by
  cases hk : fr.kind <;> simp

theorem small_body_limit : Extracted.smallBodyLimit = 1024 := by decide

/-- a buffered body is never larger than the limit, and never belongs to an expecting request. -/
theorem buffered_is_small (hs : List Header) (fr : Framing) (n : Nat) (hf : framingOf hs = .ok fr)
    (hk : fr.kind = .buffered n) : n ≤ Extracted.smallBodyLimit ∧ fr.expectContinue = false := by
  exact framingOf_buffered hs fr n hf hk

/-- One more request becomes available without anything being answered: if the stream starts
    with a head whose body is absent or buffered (and complete), the read-ahead continues with the
    bytes after it. -/
theorem ahead_step_small (fuel : Nat) (bs rest : Bytes) (fin : EndState) (h : Head) (fr : Framing)
    (hh : readHead bs fin = .ok (h, rest)) (hf : framingOf h.headers = .ok fr)
    (hver : (⟨Extracted.maxVersion.1, Extracted.maxVersion.2⟩ : Version).lt h.version = false)
    (hlast : isLastRequest h.version h.headers = false)
    (hk : fr.kind = .empty ∨ ∃ n, fr.kind = .buffered n ∧ n ≤ rest.length) :
    ∃ rest', (aheadLoop (fuel + 1) bs fin).1 = h :: (aheadLoop fuel rest' fin).1 ∧
      (aheadLoop (fuel + 1) bs fin).2 = (aheadLoop fuel rest' fin).2 ∧
      rest' = (match fr.kind with | .buffered n => rest.drop n | _ => rest) := by
  rw [aheadLoop]
  simp only [hh, hf, hver, hlast, Bool.false_eq_true, if_false]
  rcases hk with hk | ⟨n, hk, hn⟩
  · rw [hk]; exact ⟨rest, rfl, rfl, rfl⟩
  · rw [hk]
    have hlt : ¬ rest.length < n := by omega
    simp only [hlt, if_false]
    exact ⟨rest.drop n, rfl, rfl, rfl⟩

/-- the read-ahead never ends blocked on a body when every delivered request released its reader:
    `blockedOnBody` only arises from a streamed body (limited / chunked / upgrade) or the 505 path. -/
theorem ahead_blocks_only_on_streamed_body (fuel : Nat) (bs : Bytes) (fin : EndState)
    (hb : (aheadLoop fuel bs fin).2 = .blockedOnBody) : (aheadLoop fuel bs fin).1 ≠ [] ∨
      ∃ h rest, readHead bs fin = .ok (h, rest) := by
  cases fuel with
  | zero => simp [aheadLoop] at hb
  | succ fuel =>
    rcases aheadLoop_succ_cases fuel bs fin with ⟨_, himp⟩ | ⟨h, rest, _, hh, _⟩
    · exact Or.inr (himp hb)
    · exact Or.inr ⟨h, rest, hh⟩

/-- what is read ahead is what the sequential connection loop delivers first: the read-ahead
    heads are a prefix of the heads `runLoop` delivers under any script whose handlers do not block. -/
theorem ahead_heads_prefix_of_run (fuel : Nat) (bs : Bytes) (script : Script) (idx : Nat) (s : St) :
    ∃ more, ((runLoop fuel idx s bs .eof script).delivered.drop s.delivered.length).map
        (fun d => (d.method, d.url, d.version, d.headers))
      = ((aheadLoop fuel bs .eof).1.map (fun h => (h.method, h.url, h.version, h.headers))) ++ more := by
  exact ahead_prefix fuel idx s bs .eof script

example : (aheadLoop 10 b!"GET /a HTTP/1.1\r\n\r\nPOST /b HTTP/1.1\r\nContent-Length: 3\r\n\r\nabcGET /c HTTP/1.1\r\n\r\n" .open).1.map (·.url)
    = [b!"/a", b!"/b", b!"/c"] := by decide
example : (aheadLoop 10 b!"POST /b HTTP/1.1\r\nContent-Length: 2000\r\n\r\nabcGET /c HTTP/1.1\r\n\r\n" .open)
    = ([⟨⟨b!"POST"⟩, b!"/b", ⟨1, 1⟩, [⟨b!"Content-Length", b!"2000"⟩]⟩], .blockedOnBody) := by decide

end TH.Props.C11

