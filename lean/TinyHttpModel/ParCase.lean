/-
  ParCase.lean — trace acceptance of whole-server runs with concurrent handlers against `Lts.Par`.

  The harness's handler threads report, in real order (the controlled runtime serialises them):
      g<i>  request number i (in delivery order) was received by the application
      b<i>  its handler is about to call as_reader() (or decided not to look at the body)
      c<i>  as_reader() returned (the interim response, if any, has been written and flushed)
      r<i>  the handler's reads are over
      f<i>  the handler is about to answer / drop / take the writer
      d<i>  that call returned: the request is gone
  What the library does in between is not visible from outside; the acceptor supplies it:
  * `parse` steps as late as possible (when a `g` event needs the request to exist),
  * the steps of requests the connection thread answers itself (505 / 400 / 417) whenever they are
    needed and enabled, and all of them at the end,
  * the writes of a message in one piece when the call that performs them returns (`c`, `d`) —
    this is where the writer chain's turn is checked: a call that returned although an earlier
    request was not yet gone is rejected.
  Afterwards the bytes the model submitted must be the bytes the client received.
-/
import TinyHttpModel.Proto
import TinyHttpModel.Lts.Par

namespace TH.ParCase
open TH.Proto TH.Lts.Par

inductive Ev where
  | got (i : Nat) | begin (i : Nat) | cont (i : Nat) | readsDone (i : Nat) | finish (i : Nat) | done (i : Nat)
deriving Repr

def evOf (s : String) : Option Ev :=
  match s.toList with
  | 'g' :: r => (natOfChars r 0).map .got
  | 'b' :: r => (natOfChars r 0).map .begin
  | 'c' :: r => (natOfChars r 0).map .cont
  | 'r' :: r => (natOfChars r 0).map .readsDone
  | 'f' :: r => (natOfChars r 0).map .finish
  | 'd' :: r => (natOfChars r 0).map .done
  | _ => none

/-- index in `reqs` of the i-th request delivered to the application -/
def appIndex (s : State) (i : Nat) : Option Nat :=
  let idxs := (List.range s.reqs.length).filter (fun k => (s.reqs.getD k default).owner == .app)
  idxs[i]?

def steps (s : State) : List Label → Option State
  | [] => some s
  | l :: ls => match step s l with
    | some s' => steps s' ls
    | none => none

/-- submit everything request `k` has pending, in one piece -/
def writeAll (s : State) (k : Nat) : Option State :=
  let n := (s.reqs.getD k default).toEmit.length
  if n == 0 then some s else step s (.write k n)

/-- one step of a request owned by the connection thread, if any is enabled -/
def connStep (s : State) : Option State :=
  (List.range s.reqs.length).findSome? (fun k =>
    let r := s.reqs.getD k default
    if r.owner == .conn then
      match r.stage with
      | .readDone => step s (.finish k)
      | .answering => if r.toEmit.isEmpty then step s (.drop k) else step s (.write k r.toEmit.length)
      | _ => none
    else none)

/-- run the connection thread's own business as far as it goes (fuel-bounded) -/
def settleConn : Nat → State → State
  | 0, s => s
  | fuel + 1, s => match connStep s with
    | some s' => settleConn fuel s'
    | none => s

/-- make the i-th delivered request exist: parse (and let the connection thread answer what it
    answers itself) until it does; `none` if that is impossible in this state -/
def ensure : Nat → State → Nat → Option State
  | 0, _, _ => none
  | fuel + 1, s, i =>
    match appIndex s i with
    | some _ => some s
    | none =>
      match step s .parse with
      | some s' => ensure fuel s' i
      | none =>
        match connStep s with
        | some s' => ensure fuel s' i
        | none => none

def applyEv (s : State) : Ev → Option State
  | .got i => ensure (s.rest.length + 8 * s.reqs.length + 16) s i
  | .begin i => (appIndex s i).bind (fun k => step s (.begin k))
  | .cont i => (appIndex s i).bind (fun k => (writeAll s k).bind (fun s' =>
      if (s.reqs.getD k default).toEmit.isEmpty then some s' else step s' (.flush k)))
  | .readsDone i => (appIndex s i).bind (fun k => step s (.reads k))
  | .finish i => (appIndex s i).bind (fun k => step s (.finish k))
  | .done i => (appIndex s i).bind (fun k => (writeAll s k).bind (fun s' => step s' (.drop k)))

/-- replay; reports the index of the first rejected event -/
def replay : State → List Ev → Nat → State × Option Nat
  | s, [], _ => (s, none)
  | s, e :: es, n =>
    match applyEv s e with
    | some s' => replay s' es (n + 1)
    | none => (s, some n)

/-- after the last event: remaining parses (error heads, 505s) and the connection thread's answers -/
def finishUp : Nat → State → State
  | 0, s => s
  | fuel + 1, s =>
    let s1 := settleConn (8 * s.reqs.length + 8) s
    match step s1 .parse with
    | some s2 => finishUp fuel s2
    | none => s1

structure Verdict where
  accepted : Bool
  rejectedAt : Option Nat
  bytesOk : Bool
  terminal : Bool
  deliveredOk : Bool

def judge (bs : Bytes) (fin : EndState) (script : Script) (events : List String) (wire : Bytes)
    (seen : List (Bytes × ReadEnd)) : Verdict :=
  let evs := events.filterMap evOf
  let parsed := evs.length == events.length
  let (s, rej) := replay (init bs fin script) evs 0
  let s := if rej.isNone then finishUp (bs.length + 4) s else s
  let model := (delivered s).map (fun d => (d.bodyRead, d.readEnd))
  ⟨parsed && rej.isNone, rej, submitted s == wire, terminalB s, model == seen⟩

end TH.ParCase
