/-
  SrvCase.lean — `srv` cases: OS-level observations of the pristine crate (server drop, connection
  bursts over real sockets, thread reclamation).  No model behind them: they are the "observed
  only" clauses of C08 and C20; the predicates are evaluated here so that all verdicts come from Lean.
-/
import TinyHttpModel.Proto
import TinyHttpModel.Extracted

namespace TH.SrvCase
open TH.Proto

/-- C20, first sentence: refused within a short bounded time (1 s), handed-out request still
    answered, UNIX socket path removed. -/
def dropHolds (refusedMs : Option Nat) (answered : Bool) (pathRemoved : Option Bool) : Bool :=
  (match refusedMs with | some ms => decide (ms ≤ 1000) | none => false) && answered && pathRemoved.getD true

/-- C20, second sentence: after the idle period the thread count is back at (or below) what it was
    with the freshly started pool. -/
def reclaimHolds (n ok base after : Nat) : Bool := ok == n && decide (after ≤ base)

def run (kv : KV) : String :=
  let kind := get kv "kind"
  let (c08, c20, tag) :=
    if kind == "drop-tcp" || kind == "drop-unix" || kind == "drop-queued" || kind == "drop-unix-dead" then
      let r := if (get kv "refused_ms").startsWith "-" then none else toNat? (get kv "refused_ms")
      let pr := if get kv "path_removed" == "na" then none else some (get kv "path_removed" == "1")
      ("na", b01 (dropHolds r (get kv "answered" == "1") pr && (!has kv "drop_returned" || get kv "drop_returned" == "1")
          && (!has kv "first_refused" || get kv "first_refused" == "1")), kind)
    else if kind == "burst" then (b01 (get kv "answered_all" == "1"), "na", "burst:" ++ get kv "n" ++ (if toNatD (get kv "held") > 0 then ",srv:held" else ""))
    else if kind == "reclaim" then
      ("na", b01 (reclaimHolds (toNatD (get kv "n")) (toNatD (get kv "ok")) (toNatD (get kv "base")) (toNatD (get kv "after"))),
       "reclaim:" ++ get kv "n")
    else if kind == "backlog" then
      -- (controlled run, virtual time) the server was dropped with unreceived requests queued; after
      -- the clients left and more than the idle period passed no thread of the server is left, and
      -- what had been handed out was answered
      ("na", b01 (decide (toNatD (get kv "after") ≤ toNatD (get kv "base")) && get kv "answered" == get kv "taken" && get kv "aborted" == "0"
          && (!has kv "refused" || get kv "refused" == "1")),
       "backlog:" ++ (if toNatD (get kv "n") > 8 then "gt8" else "le8")
         -- F13 (known finding): a refused request behind requests nobody received; the tag says that
         -- nothing but the thread count is wrong and that at most one thread per such connection is left
         ++ (if get kv "badlast" == "1" then ",srv:badlast" else "")
         ++ (if get kv "badlast" == "1" && get kv "answered" == get kv "taken" && get kv "aborted" == "0"
               && (!has kv "refused" || get kv "refused" == "1")
               && decide (toNatD (get kv "after") ≤ toNatD (get kv "base") + toNatD (get kv "nbad")) then ",srv:badlast-leak" else ""))
    else ("na", "na", "unknown")
  "res id=" ++ get kv "id" ++ " agree=1 skip=0 aC08=1 aC20=1 C08=" ++ c08 ++ " C20=" ++ c20 ++ " tags=srv:" ++ tag ++ " diff=-"

end TH.SrvCase
