/- helper lemmas: the whole-server composition (Lts.Whole) — what is queued is what the connection
   threads took from their connections -/
import TinyHttpModel.Lemmas.WholeInvBase

namespace TH.Lts.Queue

theorem lookReady_pushed (s : State) (t : Nat) (c : Call) (cs dur : Nat) (e : Bool) :
    (lookReady s t c cs dur e).pushed = s.pushed := by
  unfold lookReady
  split
  · simp
  · simp
  · split
    · simp
    · simp
    · split <;> simp

theorem step_push_pushed {s s' : State} {v : Nat} {woke : Option Nat}
    (h : step s (.push v woke) = some s') : s'.pushed = s.pushed ++ [v] := by
  simp only [step] at h
  split at h
  · simp only [Option.some.injEq] at h; subst h; simp
  · cases h

theorem step_other_pushed {s s' : State} {l : Label} (hl : ∀ v woke, l ≠ .push v woke)
    (h : step s l = some s') : s'.pushed = s.pushed := by
  cases l with
  | call t c =>
    simp only [step] at h
    split at h
    · simp only [Option.some.injEq] at h; subst h; simp
    · cases h
  | look t =>
    simp only [step] at h
    split at h
    · simp only [Option.some.injEq] at h; subst h; exact lookReady_pushed ..
    · simp only [Option.some.injEq] at h; subst h; exact lookReady_pushed ..
    · cases h
  | push v woke => exact absurd rfl (hl v woke)
  | unblock woke =>
    simp only [step] at h
    split at h
    · simp only [Option.some.injEq] at h; subst h; simp
    · cases h
  | wake t r =>
    simp only [step] at h
    split at h
    · split at h
      · simp only [Option.some.injEq] at h; subst h; simp
      · split at h
        · split at h
          · simp only [Option.some.injEq] at h; subst h; simp
          · cases h
        · cases h
    · cases h
  | tick d =>
    simp only [step, Option.some.injEq] at h; subst h; rfl

end TH.Lts.Queue

namespace TH.Lts.Whole

/-! ### lists: replacing one element under `map f` / `flatten` -/

theorem map_set_of_eq {α β : Type} (f : α → β) :
    ∀ (l : List α) (k : Nat) (c c' : α), l[k]? = some c → f c' = f c →
      (l.set k c').map f = l.map f
  | [], _, _, _, h, _ => by simp at h
  | a :: l, 0, c, c', h, hf => by
    simp only [List.getElem?_cons_zero, Option.some.injEq] at h
    subst h
    simp [hf]
  | a :: l, k+1, c, c', h, hf => by
    simp only [List.getElem?_cons_succ] at h
    simp [map_set_of_eq f l k c c' h hf]

theorem flatten_map_set_perm {α β : Type} (f : α → List β) (v : β) :
    ∀ (l : List α) (k : Nat) (c c' : α), l[k]? = some c → f c' = f c ++ [v] →
      (((l.set k c').map f).flatten).Perm ((l.map f).flatten ++ [v])
  | [], _, _, _, h, _ => by simp at h
  | a :: l, 0, c, c', h, hf => by
    simp only [List.getElem?_cons_zero, Option.some.injEq] at h
    subst h
    simp only [List.set_cons_zero, List.map_cons, List.flatten_cons, hf, List.append_assoc]
    exact List.Perm.append_left _ List.perm_append_comm
  | a :: l, k+1, c, c', h, hf => by
    simp only [List.getElem?_cons_succ] at h
    simp only [List.set_cons_succ, List.map_cons, List.flatten_cons, List.append_assoc]
    exact List.Perm.append_left _ (flatten_map_set_perm f v l k c c' h hf)

theorem mem_of_getElem? {α : Type} {l : List α} {k : Nat} {c : α} (h : l[k]? = some c) : c ∈ l :=
  List.mem_of_getElem? h

/-! ### `pushedOf` under the three updates of a connection -/

theorem pushedOf_arrive (c : Conn) (v : Nat) (h : c.pushed ≤ c.sent.length) :
    pushedOf { c with sent := c.sent ++ [v] } = pushedOf c := by
  simp only [pushedOf]
  exact List.take_append_of_le_length h

theorem pushedOf_close (c : Conn) : pushedOf { c with closed := true } = pushedOf c := rfl

theorem pushedOf_push (c : Conn) (v : Nat) (h : c.sent[c.pushed]? = some v) :
    pushedOf { c with pushed := c.pushed + 1 } = pushedOf c ++ [v] := by
  simp only [pushedOf, List.take_add_one, h, Option.toList_some]

/-! ### the invariant -/

structure DataInv (s : State) : Prop where
  le : ∀ c ∈ s.conns, c.pushed ≤ c.sent.length
  perm : s.queue.pushed.Perm ((s.conns.map pushedOf).flatten)
  sub : ∀ c ∈ s.conns, (pushedOf c).Sublist s.queue.pushed

theorem queueOnly_ne_push {l : Queue.Label} (h : queueOnly l = true) : ∀ v woke, l ≠ .push v woke := by
  intro v woke he
  subst he
  simp [queueOnly] at h

theorem dataInv_step {s s' : State} {l : Label} (hi : DataInv s) (hs : step s l = some s') :
    DataInv s' := by
  obtain ⟨le, perm, sub⟩ := hi
  cases step_sound hs with
  | accept b p hp =>
    refine ⟨?_, ?_, ?_⟩
    · intro c hc
      rcases List.mem_append.mp hc with hc | hc
      · exact le c hc
      · simp only [List.mem_singleton] at hc; subst hc; exact Nat.le_refl _
    · simpa [pushedOf] using perm
    · intro c hc
      rcases List.mem_append.mp hc with hc | hc
      · exact sub c hc
      · simp only [List.mem_singleton] at hc; subst hc; simp [pushedOf]
  | arrive k v c hc hcl =>
    have hle := le c (mem_of_getElem? hc)
    refine ⟨?_, ?_, ?_⟩
    · intro c' hc'
      rcases List.mem_or_eq_of_mem_set hc' with h | h
      · exact le c' h
      · subst h; simp only [List.length_append, List.length_singleton]; omega
    · show s.queue.pushed.Perm _
      rw [map_set_of_eq pushedOf s.conns k c _ hc (pushedOf_arrive c v hle)]
      exact perm
    · intro c' hc'
      rcases List.mem_or_eq_of_mem_set hc' with h | h
      · exact sub c' h
      · subst h; rw [pushedOf_arrive c v hle]; exact sub c (mem_of_getElem? hc)
  | close k c hc =>
    refine ⟨?_, ?_, ?_⟩
    · intro c' hc'
      rcases List.mem_or_eq_of_mem_set hc' with h | h
      · exact le c' h
      · subst h; exact le c (mem_of_getElem? hc)
    · show s.queue.pushed.Perm _
      rw [map_set_of_eq pushedOf s.conns k c _ hc (pushedOf_close c)]
      exact perm
    · intro c' hc'
      rcases List.mem_or_eq_of_mem_set hc' with h | h
      · exact sub c' h
      · subst h; exact sub c (mem_of_getElem? hc)
  | push w woke k c v q hw hc hv hq =>
    have hqp := Queue.step_push_pushed hq
    have hlt : c.pushed < c.sent.length := by
      obtain ⟨h, _⟩ := List.getElem?_eq_some_iff.mp hv
      exact h
    refine ⟨?_, ?_, ?_⟩
    · intro c' hc'
      rcases List.mem_or_eq_of_mem_set hc' with h | h
      · exact le c' h
      · subst h; exact hlt
    · show q.pushed.Perm _
      rw [hqp]
      exact (List.Perm.append_right [v] perm).trans
        (flatten_map_set_perm pushedOf v s.conns k c _ hc (pushedOf_push c v hv)).symm
    · show ∀ c' ∈ _, (pushedOf c').Sublist q.pushed
      rw [hqp]
      intro c' hc'
      rcases List.mem_or_eq_of_mem_set hc' with h | h
      · exact (sub c' h).trans (List.sublist_append_left _ _)
      · subst h
        rw [pushedOf_push c v hv]
        exact List.Sublist.append (sub c (mem_of_getElem? hc)) (List.Sublist.refl _)
  | done w k c p hw hc hcl hpu hp => exact ⟨le, perm, sub⟩
  | pool l p hl hp => exact ⟨le, perm, sub⟩
  | queue l q hl hq =>
    have hqp := Queue.step_other_pushed (queueOnly_ne_push hl) hq
    refine ⟨le, ?_, ?_⟩
    · show q.pushed.Perm _
      rw [hqp]; exact perm
    · show ∀ c' ∈ _, (pushedOf c').Sublist q.pushed
      rw [hqp]; exact sub

theorem dataInv_reachable {s : State} (h : Reachable s) : DataInv s := by
  refine reachable_inv (Inv := DataInv) ⟨?_, ?_, ?_⟩ (fun _ _ _ hi hs => dataInv_step hi hs) s h
  · intro c hc; cases hc
  · exact List.Perm.refl _
  · intro c hc; cases hc

end TH.Lts.Whole
