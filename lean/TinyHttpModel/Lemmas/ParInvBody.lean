/- helper lemmas for Lts.Par (1): body readers that do not own the stream; stream lengths -/
import TinyHttpModel.Lts.Par
import TinyHttpModel.Lemmas.Cut

namespace TH
namespace Lts.Par

/-! ### readers that do not own the stream neither read nor change it -/

theorem par_read_nohold (b : Body) (h : b.holdsStream = false) (want : Nat) (bs : Bytes) (fin : EndState) :
    (b.read want bs fin).2.2 = bs ∧ (b.read want bs fin).2.1.holdsStream = false ∧
    ∀ bs' fin', (b.read want bs' fin').1 = (b.read want bs fin).1 ∧
      (b.read want bs' fin').2.1 = (b.read want bs fin).2.1 := by
  cases b with
  | done => simp [Body.read, Body.holdsStream]
  | cursor d =>
    simp only [Body.read]
    split <;> simp [Body.holdsStream]
  | limited n => simp [Body.holdsStream] at h
  | chunked c => simp [Body.holdsStream] at h
  | raw => simp [Body.holdsStream] at h
  | failed => simp [Body.holdsStream] at h

theorem par_readUpTo_nohold : ∀ (fuel : Nat) (b : Body), b.holdsStream = false →
    ∀ (buf total : Nat) (bs : Bytes) (fin : EndState),
    (Body.readUpTo fuel b buf total bs fin).2.2.2 = bs ∧
    (Body.readUpTo fuel b buf total bs fin).2.2.1.holdsStream = false ∧
    ∀ bs' fin', (Body.readUpTo fuel b buf total bs' fin').1 = (Body.readUpTo fuel b buf total bs fin).1 ∧
      (Body.readUpTo fuel b buf total bs' fin').2.1 = (Body.readUpTo fuel b buf total bs fin).2.1 ∧
      (Body.readUpTo fuel b buf total bs' fin').2.2.1 = (Body.readUpTo fuel b buf total bs fin).2.2.1 := by
  intro fuel
  induction fuel with
  | zero => intro b h buf total bs fin; simp [Body.readUpTo, h]
  | succ fuel ih =>
    intro b h buf total bs fin
    by_cases ht : total = 0
    · simp [Body.readUpTo, ht, h]
    · obtain ⟨h1, h2, h3⟩ := par_read_nohold b h (min buf total) bs fin
      refine ⟨?_, ?_, ?_⟩
      · unfold Body.readUpTo
        simp only [ht, if_false]
        generalize hR : b.read (min buf total) bs fin = R at h1 h2
        obtain ⟨o, b', bs1⟩ := R
        simp only at h1 h2
        subst h1
        cases o with
        | data d =>
          simp only
          split
          · rfl
          · exact (ih b' h2 buf (total - d.length) bs1 fin).1
        | eof => rfl
        | err => rfl
        | pending => rfl
      · unfold Body.readUpTo
        simp only [ht, if_false]
        generalize hR : b.read (min buf total) bs fin = R at h1 h2
        obtain ⟨o, b', bs1⟩ := R
        simp only at h1 h2
        cases o with
        | data d =>
          simp only
          split
          · exact h2
          · exact (ih b' h2 buf (total - d.length) bs1 fin).2.1
        | eof => exact h2
        | err => exact h2
        | pending => exact h2
      · intro bs' fin'
        obtain ⟨e1, e2⟩ := h3 bs' fin'
        obtain ⟨g1, -, -⟩ := par_read_nohold b h (min buf total) bs' fin'
        unfold Body.readUpTo
        simp only [ht, if_false]
        generalize hR : b.read (min buf total) bs fin = R at h1 h2 e1 e2
        generalize hR' : b.read (min buf total) bs' fin' = R' at g1 e1 e2
        obtain ⟨o, b', bs1⟩ := R
        obtain ⟨o', b'', bs1'⟩ := R'
        simp only at h1 h2 e1 e2 g1
        subst e1 e2 h1 g1
        cases o' with
        | data d =>
          simp only
          split
          · exact ⟨rfl, rfl, rfl⟩
          · obtain ⟨-, -, k⟩ := ih b'' h2 buf (total - d.length) bs1 fin
            obtain ⟨k1, k2, k3⟩ := k bs1' fin'
            simp only [k1, k2, k3, and_self]
        | eof => exact ⟨rfl, rfl, rfl⟩
        | err => exact ⟨rfl, rfl, rfl⟩
        | pending => exact ⟨rfl, rfl, rfl⟩

theorem par_zeroRead_nohold (b : Body) (h : b.holdsStream = false) (bs : Bytes) (fin : EndState) :
    zeroReadEffect b bs fin = some (b, bs) := by
  cases b <;> simp_all [Body.holdsStream, zeroReadEffect]

theorem par_drain_nohold (fuel : Nat) (b : Body) (h : b.holdsStream = false) (bs : Bytes) (fin : EndState) :
    Body.drain fuel b bs fin = some bs := by
  cases fuel with
  | zero => rfl
  | succ fuel => cases b <;> simp_all [Body.holdsStream, Body.drain]

/-- the reads of a request whose body does not own the stream: the stream is left alone and the
    result does not depend on it. -/
theorem par_readPhase_nohold (a : Action) (b : Body) (h : b.holdsStream = false) (bs : Bytes) (fin : EndState) :
    (handlerReads a b bs fin).2.2.2 = bs ∧ (handlerReads a b bs fin).2.2.1.holdsStream = false ∧
    ∀ bs' fin', (handlerReads a b bs' fin').1 = (handlerReads a b bs fin).1 ∧
      (handlerReads a b bs' fin').2.1 = (handlerReads a b bs fin).2.1 ∧
      (handlerReads a b bs' fin').2.2.1 = (handlerReads a b bs fin).2.2.1 := by
  have hz : ∀ bs fin, (if (decide (a.asReaderCalls > 0) && a.zeroRead) = true then zeroReadEffect b bs fin
      else some (b, bs)) = some (b, bs) := by
    intro bs fin; split
    · exact par_zeroRead_nohold b h bs fin
    · rfl
  unfold handlerReads
  simp only [hz]
  by_cases hc : (decide (a.asReaderCalls > 0) && decide (a.readTotal > 0)) = true
  · simp only [hc, if_true]
    obtain ⟨h1, h2, h3⟩ := par_readUpTo_nohold (a.readTotal + 1) b h (max a.bufSize 1) a.readTotal bs fin
    refine ⟨h1, h2, ?_⟩
    intro bs' fin'
    obtain ⟨k1, k2, k3⟩ := h3 bs' fin'
    simp only [k1, k2, k3, and_self]
  · simp only [hc]
    exact ⟨rfl, h, fun _ _ => ⟨rfl, rfl, rfl⟩⟩

/-! ### the stream never grows -/

theorem par_takeSizeField_len : ∀ (bs f r : Bytes) (e : Bool),
    takeSizeField bs = some (f, e, r) → r.length < bs.length := by
  intro bs
  induction bs with
  | nil => intro f r e h; simp [takeSizeField] at h
  | cons b rest ih =>
    intro f r e h
    unfold takeSizeField at h
    split at h
    · simp only [Option.some.injEq, Prod.mk.injEq] at h; obtain ⟨_, _, rfl⟩ := h; simp
    · split at h
      · simp only [Option.some.injEq, Prod.mk.injEq] at h; obtain ⟨_, _, rfl⟩ := h; simp
      · cases hq : takeSizeField rest with
        | none => simp [hq] at h
        | some q =>
          obtain ⟨f', e', r'⟩ := q
          simp only [hq, Option.some.injEq, Prod.mk.injEq] at h
          obtain ⟨_, _, rfl⟩ := h
          have := ih f' r' e' hq
          simp only [List.length_cons]; omega

theorem par_skipToCR_len : ∀ (bs r : Bytes), skipToCR bs = some r → r.length < bs.length := by
  intro bs
  induction bs with
  | nil => intro r h; simp [skipToCR] at h
  | cons b rest ih =>
    intro r h
    unfold skipToCR at h
    split at h
    · simp only [Option.some.injEq] at h; subst h; simp
    · have := ih r h; simp only [List.length_cons]; omega

theorem par_stop_bad_len (fin : EndState) (bs : Bytes) :
    (∀ n r, (if (fin == EndState.open) = true then SizeRes.stop Stop.pending else SizeRes.bad []) = .ok n r →
      r.length ≤ bs.length) ∧
    (∀ r, (if (fin == EndState.open) = true then SizeRes.stop Stop.pending else SizeRes.bad []) = .bad r →
      r.length ≤ bs.length) := by
  constructor
  · intro n r h; split at h <;> simp at h
  · intro r h; split at h
    · simp at h
    · simp only [SizeRes.bad.injEq] at h; subst h; simp

theorem par_readChunkSize_len (bs : Bytes) (fin : EndState) :
    (∀ n r, readChunkSize bs fin = .ok n r → r.length ≤ bs.length) ∧
    (∀ r, readChunkSize bs fin = .bad r → r.length ≤ bs.length) := by
  unfold readChunkSize
  cases h1 : takeSizeField bs with
  | none => exact par_stop_bad_len fin bs
  | some q =>
    obtain ⟨f, ext, r1⟩ := q
    have l1 := par_takeSizeField_len bs f r1 ext h1
    simp only
    cases h2 : (if ext = true then skipToCR r1 else some r1) with
    | none => exact par_stop_bad_len fin bs
    | some r2 =>
      have l2 : r2.length ≤ r1.length := by
        split at h2
        · have := par_skipToCR_len r1 r2 h2; omega
        · simp only [Option.some.injEq] at h2; subst h2; exact Nat.le_refl _
      simp only
      cases r2 with
      | nil => exact par_stop_bad_len fin bs
      | cons b r3 =>
        simp only [List.length_cons] at l2
        simp only
        constructor
        · intro n r h
          split at h
          · simp at h
          · split at h
            · simp only [SizeRes.ok.injEq] at h; obtain ⟨_, rfl⟩ := h; omega
            · simp at h
        · intro r h
          split at h
          · simp only [SizeRes.bad.injEq] at h; subst h; omega
          · split at h
            · simp at h
            · simp only [SizeRes.bad.injEq] at h; subst h; omega

theorem par_expectCRLF_len (bs r : Bytes) (fin : EndState) (h : expectCRLF bs fin = some (.ok r)) :
    r.length ≤ bs.length := by
  unfold expectCRLF at h
  split at h
  · simp only [Option.some.injEq, Except.ok.injEq] at h; subst h; simp only [List.length_cons]; omega
  · split at h <;> simp at h
  · split at h <;> simp at h
  · simp at h

theorem par_read_chunked_some_len (c want : Nat) (r : Bytes) (fin : EndState) :
    (Body.read (.chunked (some c)) want r fin).2.2.length ≤ r.length := by
  cases r with
  | nil => simp only [Body.read]; split <;> simp
  | cons x xs =>
    simp only [Body.read]
    split
    · simp only [List.length_drop]; omega
    · split
      · cases he : expectCRLF (List.drop (min c (x :: xs).length) (x :: xs)) fin with
        | none => simp only [List.length_drop]; omega
        | some q =>
          cases q with
          | error e => simp only [List.length_drop]; omega
          | ok r'' =>
            have := par_expectCRLF_len _ _ _ he
            simp only [List.length_drop] at this ⊢; omega
      · simp only [List.length_drop]; omega

theorem par_read_len (b : Body) (want : Nat) (r : Bytes) (fin : EndState) :
    (b.read want r fin).2.2.length ≤ r.length := by
  cases b with
  | done => simp [Body.read]
  | failed => simp [Body.read]
  | cursor d => simp only [Body.read]; split <;> simp
  | raw =>
    simp only [Body.read]
    split
    · split <;> simp
    · simp
  | limited rem =>
    simp only [Body.read]; split
    · simp
    · split
      · split <;> simp
      · simp
  | chunked ic =>
    cases ic with
    | some c => exact par_read_chunked_some_len c want r fin
    | none =>
      obtain ⟨hok, hbad⟩ := par_readChunkSize_len r fin
      cases hrc : readChunkSize r fin with
      | stop s => simp [Body.read, hrc]
      | bad r' => have := hbad r' hrc; simp [Body.read, hrc]; exact this
      | ok n r' =>
        have l1 := hok n r' hrc
        by_cases hn : n = 0
        · subst hn
          cases he : expectCRLF r' fin with
          | none => simp [Body.read, hrc, he]; exact l1
          | some q =>
            cases q with
            | error e => simp [Body.read, hrc, he]
            | ok r'' =>
              have := par_expectCRLF_len _ _ _ he
              simp [Body.read, hrc, he]; omega
        · have : Body.read (.chunked none) want r fin = Body.read (.chunked (some n)) want r' fin := by
            cases n with
            | zero => exact absurd rfl hn
            | succ m => simp [Body.read, hrc]
          rw [this]
          have := par_read_chunked_some_len n want r' fin
          omega

theorem par_readUpTo_len : ∀ (fuel : Nat) (b : Body) (buf total : Nat) (bs : Bytes) (fin : EndState),
    (Body.readUpTo fuel b buf total bs fin).2.2.2.length ≤ bs.length := by
  intro fuel
  induction fuel with
  | zero => intro b buf total bs fin; simp [Body.readUpTo]
  | succ fuel ih =>
    intro b buf total bs fin
    unfold Body.readUpTo
    split
    · simp
    · have hr := par_read_len b (min buf total) bs fin
      generalize b.read (min buf total) bs fin = R at hr
      obtain ⟨o, b', bs'⟩ := R
      simp only at hr
      cases o with
      | data d =>
        simp only
        split
        · exact hr
        · exact Nat.le_trans (ih b' buf (total - d.length) bs' fin) hr
      | eof => exact hr
      | err => exact hr
      | pending => exact hr

theorem par_drain_len : ∀ (fuel : Nat) (b : Body) (bs r : Bytes) (fin : EndState),
    Body.drain fuel b bs fin = some r → r.length ≤ bs.length := by
  intro fuel
  induction fuel with
  | zero => intro b bs r fin h; simp only [Body.drain, Option.some.injEq] at h; subst h; exact Nat.le_refl _
  | succ fuel ih =>
    intro b bs r fin h
    cases b with
    | done => simp only [Body.drain, Option.some.injEq] at h; subst h; exact Nat.le_refl _
    | failed => simp only [Body.drain, Option.some.injEq] at h; subst h; exact Nat.le_refl _
    | cursor d => simp only [Body.drain, Option.some.injEq] at h; subst h; exact Nat.le_refl _
    | raw => simp only [Body.drain, Option.some.injEq] at h; subst h; exact Nat.le_refl _
    | limited rem =>
      simp only [Body.drain] at h
      split at h
      · simp only [Option.some.injEq] at h; subst h; simp
      · split at h
        · simp at h
        · simp only [Option.some.injEq] at h; subst h; simp
    | chunked ic =>
      have hr := par_read_len (.chunked ic) 4096 bs fin
      simp only [Body.drain] at h
      generalize (Body.chunked ic).read 4096 bs fin = R at hr h
      obtain ⟨o, b', bs'⟩ := R
      simp only at hr
      cases o with
      | data d => have := ih b' bs' r fin h; omega
      | eof => simp only [Option.some.injEq] at h; subst h; exact hr
      | err => simp only [Option.some.injEq] at h; subst h; exact hr
      | pending => simp at h

theorem par_zeroRead_len (b b' : Body) (bs r : Bytes) (fin : EndState)
    (h : zeroReadEffect b bs fin = some (b', r)) : r.length ≤ bs.length := by
  have key : ∀ b0, (match Body.drain (bs.length + 2) b0 bs fin with
      | some bs' => some (Body.done, bs')
      | none => none) = some (b', r) → r.length ≤ bs.length := by
    intro b0 h
    split at h
    · rename_i bs' hd
      simp only [Option.some.injEq, Prod.mk.injEq] at h
      obtain ⟨_, rfl⟩ := h
      exact par_drain_len _ _ _ _ _ hd
    · simp at h
  cases b with
  | limited n => exact key _ h
  | chunked ic => exact key _ h
  | done => simp only [zeroReadEffect, Option.some.injEq, Prod.mk.injEq] at h; rw [← h.2]; exact Nat.le_refl _
  | failed => simp only [zeroReadEffect, Option.some.injEq, Prod.mk.injEq] at h; rw [← h.2]; exact Nat.le_refl _
  | cursor d => simp only [zeroReadEffect, Option.some.injEq, Prod.mk.injEq] at h; rw [← h.2]; exact Nat.le_refl _
  | raw => simp only [zeroReadEffect, Option.some.injEq, Prod.mk.injEq] at h; rw [← h.2]; exact Nat.le_refl _

theorem par_readPhase_len (a : Action) (b : Body) (bs : Bytes) (fin : EndState) :
    (handlerReads a b bs fin).2.2.2.length ≤ bs.length := by
  unfold handlerReads
  generalize hz : (if (decide (a.asReaderCalls > 0) && a.zeroRead) = true then zeroReadEffect b bs fin
      else some (b, bs)) = zr
  cases zr with
  | none => exact Nat.le_refl _
  | some q =>
    obtain ⟨b', bs'⟩ := q
    have l1 : bs'.length ≤ bs.length := by
      split at hz
      · exact par_zeroRead_len _ _ _ _ _ hz
      · simp only [Option.some.injEq, Prod.mk.injEq] at hz; rw [← hz.2]; exact Nat.le_refl _
    simp only
    split
    · have := par_readUpTo_len (a.readTotal + 1) b' (max a.bufSize 1) a.readTotal bs' fin
      exact Nat.le_trans this l1
    · exact l1

theorem par_readHead_len (bs : Bytes) (fin : EndState) (hd : Head) (r : Bytes)
    (h : readHead bs fin = .ok (hd, r)) : r.length < bs.length := by
  obtain ⟨pre, hpre⟩ := readHead_ok_split bs fin hd r h
  rw [hpre]; simp only [List.length_append, List.length_cons, List.length_nil]; omega

theorem par_initialBody_len (k : BodyKind) (bs : Bytes) : (initialBody k bs).2.length ≤ bs.length := by
  cases k <;> simp [initialBody]

/-! ### on a closed stream nothing blocks -/

theorem par_readPhase_not_pending (a : Action) (b : Body) (bs : Bytes) (fin : EndState) (hf : fin ≠ .open) :
    (handlerReads a b bs fin).2.1 ≠ .pending := by
  unfold handlerReads
  generalize hz : (if (decide (a.asReaderCalls > 0) && a.zeroRead) = true then zeroReadEffect b bs fin
      else some (b, bs)) = zr
  cases zr with
  | none =>
    split at hz
    · exact absurd hz (zeroReadEffect_not_none b bs fin hf)
    · simp at hz
  | some q =>
    obtain ⟨b', bs'⟩ := q
    have key : (if (decide (a.asReaderCalls > 0) && decide (a.readTotal > 0)) = true then
          Body.readUpTo (a.readTotal + 1) b' (max a.bufSize 1) a.readTotal bs' fin
        else ([], none, b', bs')).2.1 ≠ some ReadOut.pending := by
      split
      · exact Body.readUpTo_not_pending (a.readTotal + 1) b' (max a.bufSize 1) a.readTotal bs' fin hf
      · simp
    simp only
    generalize (if (decide (a.asReaderCalls > 0) && decide (a.readTotal > 0)) = true then
          Body.readUpTo (a.readTotal + 1) b' (max a.bufSize 1) a.readTotal bs' fin
        else ([], none, b', bs')) = R at key
    obtain ⟨got, o, b1, bs1⟩ := R
    simp only at key ⊢
    rcases o with _ | (_ | _ | _ | _) <;> simp_all

theorem par_read_chunked_none_ok (want : Nat) (bs r : Bytes) (n : Nat) (fin : EndState)
    (h : readChunkSize bs fin = .ok n r) (hn : n ≠ 0) :
    Body.read (.chunked none) want bs fin = Body.read (.chunked (some n)) want r fin := by
  cases n with
  | zero => exact absurd rfl hn
  | succ m => simp [Body.read, h]

theorem par_read_chunked_some_pending (c want : Nat) (bs : Bytes) (fin : EndState)
    (h : (Body.read (.chunked (some c)) want bs fin).1 = .pending) :
    (Body.read (.chunked (some c)) want bs fin).2.1.holdsStream = true := by
  cases bs with
  | nil =>
    simp only [Body.read] at h ⊢
    split <;> simp_all [Body.holdsStream]
  | cons x xs =>
    simp only [Body.read] at h ⊢
    split
    · rename_i hw; simp [hw] at h
    · rename_i hw
      simp only [hw, if_false] at h
      split
      · rename_i hn
        simp only [hn, if_true] at h
        split <;> simp_all [Body.holdsStream]
      · rfl

/-- a read that blocks leaves a reader that owns the stream. -/
theorem par_read_pending_holds (b : Body) (want : Nat) (bs : Bytes) (fin : EndState)
    (h : (b.read want bs fin).1 = .pending) : (b.read want bs fin).2.1.holdsStream = true := by
  cases b with
  | done => simp [Body.read] at h
  | cursor d => simp only [Body.read] at h; split at h <;> simp at h
  | failed => simp [Body.read] at h
  | raw =>
    simp only [Body.read] at h ⊢
    split
    · split <;> rfl
    · rfl
  | limited rem =>
    simp only [Body.read] at h ⊢
    split
    · rename_i h0; simp [h0] at h
    · rename_i h0
      simp only [h0, if_false] at h
      split
      · split <;> simp_all [Body.holdsStream]
      · rfl
  | chunked ic =>
    cases ic with
    | some c => exact par_read_chunked_some_pending c want bs fin h
    | none =>
      cases hrc : readChunkSize bs fin with
      | stop s => simp [Body.read, hrc, Body.holdsStream]
      | bad r => simp [Body.read, hrc] at h
      | ok n r =>
        by_cases hn : n = 0
        · subst hn
          cases he : expectCRLF r fin with
          | none => simp [Body.read, hrc, he] at h
          | some q =>
            cases q with
            | error e => simp [Body.read, hrc, he, Body.holdsStream]
            | ok r' => simp [Body.read, hrc, he] at h
        · rw [par_read_chunked_none_ok want bs r n fin hrc hn] at h ⊢
          exact par_read_chunked_some_pending n want r fin h

theorem par_readUpTo_pending_holds : ∀ (fuel : Nat) (b : Body) (buf total : Nat) (bs : Bytes) (fin : EndState),
    (Body.readUpTo fuel b buf total bs fin).2.1 = some .pending →
    (Body.readUpTo fuel b buf total bs fin).2.2.1.holdsStream = true := by
  intro fuel
  induction fuel with
  | zero => intro b buf total bs fin h; simp [Body.readUpTo] at h
  | succ fuel ih =>
    intro b buf total bs fin h
    unfold Body.readUpTo at h ⊢
    split
    · rename_i ht; simp [ht] at h
    · rename_i ht
      simp only [ht, if_false] at h
      have hp := par_read_pending_holds b (min buf total) bs fin
      generalize b.read (min buf total) bs fin = R at hp h
      obtain ⟨o, b', bs'⟩ := R
      simp only at hp
      cases o with
      | data d =>
        simp only at h ⊢
        split
        · rename_i hd; simp [hd] at h
        · rename_i hd
          simp only [hd] at h
          exact ih b' buf (total - d.length) bs' fin h
      | eof => simp at h
      | err => simp at h
      | pending => exact hp rfl

/-- reads that block leave a reader that owns the stream. -/
theorem par_readPhase_pending_holds (a : Action) (b : Body) (bs : Bytes) (fin : EndState)
    (h : (handlerReads a b bs fin).2.1 = .pending) : (handlerReads a b bs fin).2.2.1.holdsStream = true := by
  by_cases hh : b.holdsStream = false
  · exfalso
    obtain ⟨-, -, h3⟩ := par_readPhase_nohold a b hh bs .eof
    rw [(h3 bs fin).2.1] at h
    exact par_readPhase_not_pending a b bs .eof (by decide) h
  · have hh' : b.holdsStream = true := by simpa using hh
    unfold handlerReads at h ⊢
    generalize hz : (if (decide (a.asReaderCalls > 0) && a.zeroRead) = true then zeroReadEffect b bs fin
        else some (b, bs)) = zr at h ⊢
    cases zr with
    | none => exact hh'
    | some q =>
      obtain ⟨b', bs'⟩ := q
      simp only at h ⊢
      have key : (if (decide (a.asReaderCalls > 0) && decide (a.readTotal > 0)) = true then
            Body.readUpTo (a.readTotal + 1) b' (max a.bufSize 1) a.readTotal bs' fin
          else ([], none, b', bs')).2.1 = some ReadOut.pending →
          (if (decide (a.asReaderCalls > 0) && decide (a.readTotal > 0)) = true then
            Body.readUpTo (a.readTotal + 1) b' (max a.bufSize 1) a.readTotal bs' fin
          else ([], none, b', bs')).2.2.1.holdsStream = true := by
        split
        · exact par_readUpTo_pending_holds _ _ _ _ _ _
        · intro h; simp at h
      generalize (if (decide (a.asReaderCalls > 0) && decide (a.readTotal > 0)) = true then
            Body.readUpTo (a.readTotal + 1) b' (max a.bufSize 1) a.readTotal bs' fin
          else ([], none, b', bs')) = R at key h
      obtain ⟨got, o, b1, bs1⟩ := R
      simp only at key h ⊢
      rcases o with _ | (_ | _ | _ | _) <;> simp_all

theorem par_drain_none_holds (fuel : Nat) (b : Body) (bs : Bytes) (fin : EndState)
    (h : Body.drain fuel b bs fin = none) : b.holdsStream = true := by
  by_cases hh : b.holdsStream = false
  · rw [par_drain_nohold fuel b hh bs fin] at h; simp at h
  · simpa using hh

theorem par_drain_none_open (fuel : Nat) (b : Body) (bs : Bytes) (fin : EndState)
    (h : Body.drain fuel b bs fin = none) : fin = .open := by
  by_cases hf : fin = .open
  · exact hf
  · exact absurd h (Body.drain_not_none fuel b bs fin hf)

end Lts.Par
end TH
