/- helper lemmas: truncated streams -/
import TinyHttpModel.WireSpec
namespace TH
end TH
