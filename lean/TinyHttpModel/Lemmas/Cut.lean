/- helper lemmas: truncated streams -/
import TinyHttpModel.WireSpec
import TinyHttpModel.Lemmas.Loop
namespace TH

/-! ### findCRLF / readLine: shape of the split, stability under extension -/

theorem findCRLF_split : ∀ (bs l r : Bytes), findCRLF bs = some (l, r) → bs = l ++ 13 :: 10 :: r := by
  intro bs
  induction bs with
  | nil => intro l r h; simp [findCRLF] at h
  | cons b rest ih =>
    intro l r h
    unfold findCRLF at h
    split at h
    · cases h; rfl
    · cases hr : findCRLF rest with
      | none => simp [hr] at h
      | some q =>
        obtain ⟨l', r'⟩ := q
        simp only [hr, Option.some.injEq, Prod.mk.injEq] at h
        obtain ⟨rfl, rfl⟩ := h
        rw [ih l' r' hr]; rfl

theorem findCRLF_crlf (r : Bytes) : findCRLF (13 :: 10 :: r) = some ([], r) := by
  simp [findCRLF]

theorem findCRLF_other (b : Nat) (rest : Bytes) (h : ¬ (b = 13 ∧ rest.head? = some 10)) :
    findCRLF (b :: rest) = (findCRLF rest).map (fun q => (b :: q.1, q.2)) := by
  rw [findCRLF]
  · cases findCRLF rest with
    | none => rfl
    | some q => rfl
  · intro rest' hb hr; apply h; simp [hb, hr]

theorem findCRLF_ext : ∀ (bs x l r : Bytes), findCRLF bs = some (l, r) → findCRLF (bs ++ x) = some (l, r ++ x) := by
  intro bs
  induction bs with
  | nil => intro x l r h; simp [findCRLF] at h
  | cons b rest ih =>
    intro x l r h
    by_cases hc : b = 13 ∧ rest.head? = some 10
    · obtain ⟨rfl, h10⟩ := hc
      cases rest with
      | nil => simp at h10
      | cons c rest' =>
        simp at h10; subst h10
        rw [findCRLF_crlf] at h
        cases h
        simp [findCRLF_crlf]
    · rw [findCRLF_other b rest hc] at h
      have hc' : ¬ (b = 13 ∧ (rest ++ x).head? = some 10) := by
        intro ⟨h1, h2⟩
        apply hc
        refine ⟨h1, ?_⟩
        cases rest with
        | nil => simp [findCRLF] at h
        | cons c rest' => simpa using h2
      rw [List.cons_append, findCRLF_other b (rest ++ x) hc']
      cases hr : findCRLF rest with
      | none => simp [hr] at h
      | some q =>
        obtain ⟨l', r'⟩ := q
        simp only [hr, Option.map_some, Option.some.injEq, Prod.mk.injEq] at h
        obtain ⟨rfl, rfl⟩ := h
        rw [ih x l' r' hr]; rfl

theorem readLine_line_split (bs : Bytes) (fin : EndState) (l r : Bytes) (h : readLine bs fin = .line l r) :
    bs = l ++ 13 :: 10 :: r := by
  unfold readLine at h
  cases hf : findCRLF bs with
  | none => simp [hf] at h
  | some q =>
    obtain ⟨l', r'⟩ := q
    simp only [hf] at h
    split at h
    · cases h; exact findCRLF_split _ _ _ hf
    · cases h

theorem readLine_line_ext (bs x : Bytes) (fin fin' : EndState) (l r : Bytes) (h : readLine bs fin = .line l r) :
    readLine (bs ++ x) fin' = .line l (r ++ x) := by
  unfold readLine at h ⊢
  cases hf : findCRLF bs with
  | none => simp [hf] at h
  | some q =>
    obtain ⟨l', r'⟩ := q
    simp only [hf] at h
    rw [findCRLF_ext _ x _ _ hf]
    split at h
    · rename_i ha
      cases h; simp [ha]
    · cases h

theorem readLine_stop_closed (bs : Bytes) (fin : EndState) (s : Stop) (hf : fin ≠ .open)
    (h : readLine bs fin = .stop s) : s ≠ .pending := by
  unfold readLine at h
  split at h
  · split at h <;> cases h
  · cases h; cases fin <;> simp_all [EndState.stop]

/-! ### readHeaders -/

/-- with enough fuel, the header loop only reports "pending" on an open stream. -/
theorem readHeaders_not_pending : ∀ (fuel : Nat) (ver : Version) (bs : Bytes) (fin : EndState),
    fin ≠ .open → bs.length < fuel → readHeaders fuel ver bs fin ≠ .error (.stop .pending) := by
  intro fuel
  induction fuel with
  | zero => intro ver bs fin _ hl; omega
  | succ fuel ih =>
    intro ver bs fin hf hl
    unfold readHeaders
    cases hr : readLine bs fin with
    | stop s =>
      have := readLine_stop_closed bs fin s hf hr
      simp only; intro h; cases h; exact this rfl
    | notAscii r => simp
    | line l rest =>
      simp only
      split
      · simp
      · cases parseHeaderLine l with
        | none => simp
        | some hd =>
          simp only
          have hs := readLine_line_split bs fin l rest hr
          have hlen : rest.length < fuel := by
            have := congrArg List.length hs
            simp at this; omega
          have := ih ver rest fin hf hlen
          cases hrec : readHeaders fuel ver rest fin with
          | ok q => simp
          | error e =>
            simp only
            intro h; cases h; exact this hrec

theorem readHead_not_pending (bs : Bytes) (fin : EndState) (hf : fin ≠ .open) :
    readHead bs fin ≠ .error (.stop .pending) := by
  unfold readHead
  cases hr : readLine bs fin with
  | stop s =>
    have := readLine_stop_closed bs fin s hf hr
    simp only; intro h; cases h; exact this rfl
  | notAscii r => simp
  | line l rest =>
    simp only
    cases parseRequestLine l with
    | none => simp
    | some q =>
      obtain ⟨m, p, v⟩ := q
      simp only
      have := readHeaders_not_pending (rest.length + 1) v rest fin hf (by omega)
      cases hrec : readHeaders (rest.length + 1) v rest fin with
      | ok q => simp
      | error e =>
        simp only
        intro h; cases h; exact this hrec

/-- what a successful header loop consumed ends with the CR LF of the empty line, right after the
    CR LF that precedes its input. -/
theorem readHeaders_ok_split : ∀ (fuel : Nat) (ver : Version) (bs : Bytes) (fin : EndState) (hs : List Header)
    (r : Bytes), readHeaders fuel ver bs fin = .ok (hs, r) →
    ∃ pre, 13 :: 10 :: bs = pre ++ [13, 10, 13, 10] ++ r := by
  intro fuel
  induction fuel with
  | zero => intro ver bs fin hs r h; simp [readHeaders] at h
  | succ fuel ih =>
    intro ver bs fin hs r h
    unfold readHeaders at h
    cases hr : readLine bs fin with
    | stop s => simp [hr] at h
    | notAscii r => simp [hr] at h
    | line l rest =>
      have hsplit := readLine_line_split bs fin l rest hr
      simp only [hr] at h
      split at h
      · rename_i hl
        cases h
        have : l = [] := by simpa using hl
        subst this
        exact ⟨[], by simp [hsplit]⟩
      · cases hp : parseHeaderLine l with
        | none => simp [hp] at h
        | some hd =>
          simp only [hp] at h
          cases hrec : readHeaders fuel ver rest fin with
          | error e => simp [hrec] at h
          | ok q =>
            obtain ⟨hs', r'⟩ := q
            simp only [hrec, Except.ok.injEq, Prod.mk.injEq] at h
            obtain ⟨_, rfl⟩ := h
            obtain ⟨pre, hpre⟩ := ih ver rest fin hs' r' hrec
            refine ⟨13 :: 10 :: l ++ pre, ?_⟩
            rw [hsplit]
            simp only [List.append_assoc, List.cons_append, List.nil_append] at hpre ⊢
            rw [hpre]

theorem readHead_ok_split (bs : Bytes) (fin : EndState) (hd : Head) (r : Bytes)
    (h : readHead bs fin = .ok (hd, r)) : ∃ pre, bs = pre ++ [13, 10, 13, 10] ++ r := by
  unfold readHead at h
  cases hr : readLine bs fin with
  | stop s => simp [hr] at h
  | notAscii r => simp [hr] at h
  | line l rest =>
    have hsplit := readLine_line_split bs fin l rest hr
    simp only [hr] at h
    cases hp : parseRequestLine l with
    | none => simp [hp] at h
    | some q =>
      obtain ⟨m, p, v⟩ := q
      simp only [hp] at h
      cases hrec : readHeaders (rest.length + 1) v rest fin with
      | error e => simp [hrec] at h
      | ok q =>
        obtain ⟨hs', r'⟩ := q
        simp only [hrec, Except.ok.injEq, Prod.mk.injEq] at h
        obtain ⟨_, rfl⟩ := h
        obtain ⟨pre, hpre⟩ := readHeaders_ok_split _ v rest fin hs' r' hrec
        refine ⟨l ++ pre, ?_⟩
        rw [hsplit]
        simp only [List.append_assoc, List.cons_append, List.nil_append] at hpre ⊢
        rw [hpre]

/-- success of the header loop is stable under more fuel, more bytes, and any end state. -/
theorem readHeaders_ok_ext : ∀ (fuel k : Nat) (ver : Version) (bs x : Bytes) (fin fin' : EndState)
    (hs : List Header) (r : Bytes), readHeaders fuel ver bs fin = .ok (hs, r) →
    readHeaders (fuel + k) ver (bs ++ x) fin' = .ok (hs, r ++ x) := by
  intro fuel
  induction fuel with
  | zero => intro k ver bs x fin fin' hs r h; simp [readHeaders] at h
  | succ fuel ih =>
    intro k ver bs x fin fin' hs r h
    have hk : fuel + 1 + k = (fuel + k) + 1 := by omega
    rw [hk]
    unfold readHeaders at h ⊢
    cases hr : readLine bs fin with
    | stop s => simp [hr] at h
    | notAscii r => simp [hr] at h
    | line l rest =>
      rw [readLine_line_ext bs x fin fin' l rest hr]
      simp only [hr] at h ⊢
      split at h
      · rename_i hl
        cases h
        simp [hl]
      · rename_i hl
        simp only [hl]
        cases hp : parseHeaderLine l with
        | none => simp [hp] at h
        | some hd =>
          simp only [hp] at h ⊢
          cases hrec : readHeaders fuel ver rest fin with
          | error e => simp [hrec] at h
          | ok q =>
            obtain ⟨hs', r'⟩ := q
            simp only [hrec, Except.ok.injEq, Prod.mk.injEq] at h
            obtain ⟨rfl, rfl⟩ := h
            rw [ih k ver rest x fin fin' hs' r' hrec]
            simp

theorem readHead_ok_ext (p x : Bytes) (h : Head) (r : Bytes) (fin fin' : EndState)
    (hp : readHead p fin = .ok (h, r)) : readHead (p ++ x) fin' = .ok (h, r ++ x) := by
  unfold readHead at hp ⊢
  cases hr : readLine p fin with
  | stop s => simp [hr] at hp
  | notAscii r => simp [hr] at hp
  | line l rest =>
    rw [readLine_line_ext p x fin fin' l rest hr]
    simp only [hr] at hp ⊢
    cases hpl : parseRequestLine l with
    | none => simp [hpl] at hp
    | some q =>
      obtain ⟨m, u, v⟩ := q
      simp only [hpl] at hp ⊢
      cases hrec : readHeaders (rest.length + 1) v rest fin with
      | error e => simp [hrec] at hp
      | ok q =>
        obtain ⟨hs', r'⟩ := q
        simp only [hrec, Except.ok.injEq, Prod.mk.injEq] at hp
        obtain ⟨rfl, rfl⟩ := hp
        have hlen : (rest ++ x).length + 1 = (rest.length + 1) + x.length := by
          simp; omega
        rw [hlen, readHeaders_ok_ext _ x.length v rest x fin fin' hs' r' hrec]

/-! ### body reads on a closed stream -/

theorem readChunkSize_stop_open (bs : Bytes) (fin : EndState) (s : Stop) (hf : fin ≠ .open) :
    readChunkSize bs fin ≠ .stop s := by
  have hb : (fin == EndState.open) = false := by cases fin <;> simp_all
  unfold readChunkSize
  simp only [hb]
  repeat' split
  all_goals simp_all

theorem expectCRLF_error_open (bs : Bytes) (fin : EndState) (s : Stop) (hf : fin ≠ .open) :
    expectCRLF bs fin ≠ some (.error s) := by
  have hb : (fin == EndState.open) = false := by cases fin <;> simp_all
  unfold expectCRLF
  simp only [hb]
  repeat' split
  all_goals simp_all

theorem stop_closed (fin : EndState) (hf : fin ≠ .open) : fin.stop = .eof ∨ fin.stop = .reset := by
  cases fin <;> simp_all [EndState.stop]


theorem read_chunked_some_not_pending (c want : Nat) (bs : Bytes) (fin : EndState)
    (hf : fin ≠ .open) : ((Body.chunked (some c)).read want bs fin).1 ≠ .pending := by
  have hs := stop_closed fin hf
  have h2 := fun bs s => expectCRLF_error_open bs fin s hf
  unfold Body.read
  simp only
  cases bs with
  | nil => rcases hs with h | h <;> simp [h]
  | cons x xs =>
    simp only
    split
    · simp
    · split
      · split <;> simp_all
      · simp

theorem read_chunked_none_not_pending (want : Nat) (bs : Bytes) (fin : EndState)
    (hf : fin ≠ .open) : ((Body.chunked none).read want bs fin).1 ≠ .pending := by
  have h1 := fun s => readChunkSize_stop_open bs fin s hf
  have h2 := fun bs s => expectCRLF_error_open bs fin s hf
  cases hrc : readChunkSize bs fin with
  | stop s => exact absurd hrc (h1 s)
  | bad r => simp [Body.read, hrc]
  | ok c r =>
    cases c with
    | zero =>
      cases he : expectCRLF r fin with
      | none => simp [Body.read, hrc, he]
      | some q =>
        cases q with
        | ok r' => simp [Body.read, hrc, he]
        | error s => exact absurd he (h2 r s)
    | succ c =>
      have : (Body.chunked none).read want bs fin = (Body.chunked (some (c + 1))).read want r fin := by
        simp [Body.read, hrc]
      rw [this]
      exact read_chunked_some_not_pending _ _ _ _ hf

theorem Body.read_not_pending (b : Body) (want : Nat) (bs : Bytes) (fin : EndState)
    (hf : fin ≠ .open) : (b.read want bs fin).1 ≠ .pending := by
  have hs := stop_closed fin hf
  cases b with
  | done => simp [Body.read]
  | failed => simp [Body.read]
  | cursor d => simp only [Body.read]; split <;> simp
  | raw =>
    simp only [Body.read]
    split
    · rcases hs with h | h <;> simp [h]
    · simp
  | limited rem =>
    simp only [Body.read]
    split
    · simp
    · split
      · rcases hs with h | h <;> simp [h]
      · simp
  | chunked ic =>
    cases ic with
    | none => exact read_chunked_none_not_pending _ _ _ hf
    | some c => exact read_chunked_some_not_pending _ _ _ _ hf

theorem Body.readUpTo_not_pending : ∀ (fuel : Nat) (b : Body) (buf total : Nat) (bs : Bytes) (fin : EndState),
    fin ≠ .open → (Body.readUpTo fuel b buf total bs fin).2.1 ≠ some .pending := by
  intro fuel
  induction fuel with
  | zero => intro b buf total bs fin hf; simp [Body.readUpTo]
  | succ fuel ih =>
    intro b buf total bs fin hf
    unfold Body.readUpTo
    split
    · simp
    · have hr := Body.read_not_pending b (min buf total) bs fin hf
      generalize b.read (min buf total) bs fin = R at hr
      obtain ⟨o, b', bs'⟩ := R
      cases o with
      | data d =>
        simp only
        split
        · simp
        · exact ih b' buf (total - d.length) bs' fin hf
      | eof => simp
      | err => simp
      | pending => exact absurd rfl hr

theorem Body.drain_not_none : ∀ (fuel : Nat) (b : Body) (bs : Bytes) (fin : EndState),
    fin ≠ .open → Body.drain fuel b bs fin ≠ none := by
  intro fuel
  induction fuel with
  | zero => intro b bs fin hf; simp [Body.drain]
  | succ fuel ih =>
    intro b bs fin hf
    have hb : (fin == EndState.open) = false := by cases fin <;> simp_all
    cases b with
    | done => simp [Body.drain]
    | failed => simp [Body.drain]
    | cursor d => simp [Body.drain]
    | raw => simp [Body.drain]
    | limited rem =>
      simp only [Body.drain, hb]
      split <;> simp
    | chunked ic =>
      have hr := Body.read_not_pending (.chunked ic) 4096 bs fin hf
      simp only [Body.drain]
      generalize (Body.chunked ic).read 4096 bs fin = R at hr
      obtain ⟨o, b', bs'⟩ := R
      cases o with
      | data d => exact ih b' bs' fin hf
      | eof => simp
      | err => simp
      | pending => exact absurd rfl hr

/-- on a closed stream the empty-buffer read never blocks. -/
theorem zeroReadEffect_not_none (b : Body) (bs : Bytes) (fin : EndState) (hf : fin ≠ .open) :
    zeroReadEffect b bs fin ≠ none := by
  have key : ∀ b', (match Body.drain (bs.length + 2) b' bs fin with
      | some bs' => some (Body.done, bs')
      | none => none) ≠ none := by
    intro b'
    have hd := Body.drain_not_none (bs.length + 2) b' bs fin hf
    split
    · simp
    · rename_i hn; exact absurd hn hd
  cases b with
  | limited n => exact key _
  | chunked ic => exact key _
  | done => simp [zeroReadEffect]
  | failed => simp [zeroReadEffect]
  | cursor d => simp [zeroReadEffect]
  | raw => simp [zeroReadEffect]

theorem handleZR_not_none (a : Action) (b : Body) (bs : Bytes) (fin : EndState) (hf : fin ≠ .open) :
    handleZR a b bs fin ≠ none := by
  unfold handleZR
  split
  · exact zeroReadEffect_not_none b bs fin hf
  · simp

theorem handle_not_blocked (s : St) (h : Head) (fr : Framing) (last : Bool) (a : Action)
    (body : Body) (bs : Bytes) (fin : EndState) (hf : fin ≠ .open) :
    (handle s h fr last a body bs fin).2.2 = false := by
  rw [handle_eq]
  have hrd : (handleRead a body bs fin).2.1 ≠ some .pending := by
    unfold handleRead
    split
    · unfold handleRead0
      split
      · exact Body.readUpTo_not_pending _ _ _ _ _ _ hf
      · simp
    · rename_i hn; exact absurd hn (handleZR_not_none a body bs fin hf)
  have hre : readEndOf (handleRead a body bs fin).2.1 ≠ .pending := by
    generalize (handleRead a body bs fin).2.1 = o at hrd
    rcases o with _ | (_ | _ | _ | _) <;> simp_all [readEndOf]
  simp only [if_neg hre]
  have hd := Body.drain_not_none ((handleRead a body bs fin).2.2.2.length + 2) (handleRead a body bs fin).2.2.1
    (handleRead a body bs fin).2.2.2 fin hf
  split
  · rfl
  · rename_i hn; exact absurd hn hd

end TH
