/- helper lemmas for Lts.Par (2): what a request still has to do, and one iteration of the
   sequential loop `runLoop` expressed with it -/
import TinyHttpModel.Lemmas.ParInvBody
import TinyHttpModel.Lemmas.LoopA

namespace TH
namespace Lts.Par

/-! ### the future of a request in a given state, run to its end on the stream `rest` -/

/-- the bytes request `r` will still submit to its writer -/
def futEmit (fin : EndState) (rest : Bytes) (r : PReq) : Bytes :=
  match r.stage with
  | .fresh => contBytes r.head r.fr r.act ++
      (if (handlerReads r.act r.body rest fin).2.1 = .pending then [] else finishBytes r.head r.act)
  | .cont => r.toEmit ++
      (if (handlerReads r.act r.body rest fin).2.1 = .pending then [] else finishBytes r.head r.act)
  | .readDone => if r.owner == .conn then r.fixed else finishBytes r.head r.act
  | .answering => r.toEmit
  | .gone => []
  | .stuck => []

/-- the stream once `r` is dropped (`none`: `r` blocks for ever) -/
def futAfter (fin : EndState) (rest : Bytes) (r : PReq) : Option Bytes :=
  match r.stage with
  | .fresh | .cont =>
    if (handlerReads r.act r.body rest fin).2.1 = .pending then none
    else Body.drain ((handlerReads r.act r.body rest fin).2.2.2.length + 2) (handlerReads r.act r.body rest fin).2.2.1
      (handlerReads r.act r.body rest fin).2.2.2 fin
  | .readDone | .answering => Body.drain (rest.length + 2) r.body rest fin
  | .gone => some rest
  | .stuck => none

/-- what the application will have seen of `r` -/
def futDel (fin : EndState) (rest : Bytes) (r : PReq) : List Delivered :=
  if r.owner == .app then
    match r.stage with
    | .fresh | .cont =>
      [⟨r.head.method, r.head.url, r.head.version, r.head.headers, r.fr.bodyLength,
        (handlerReads r.act r.body rest fin).1, (handlerReads r.act r.body rest fin).2.1, r.last⟩]
    | _ => [deliveredOf r]
  else []

/-- what the sequential loop does once the stream is released -/
def tailOut (fin : EndState) (script : Script) (pe : Option ConnEnd) (idx : Nat) (after : Option Bytes)
    (fuel : Nat) : Bytes :=
  if pe.isSome then [] else
    match after with
    | none => []
    | some rest' => (runLoop fuel idx {} rest' fin script).out

def tailDel (fin : EndState) (script : Script) (pe : Option ConnEnd) (idx : Nat) (after : Option Bytes)
    (fuel : Nat) : List Delivered :=
  if pe.isSome then [] else
    match after with
    | none => []
    | some rest' => (runLoop fuel idx {} rest' fin script).delivered

/-! ### independence of the stream for readers that do not own it -/

theorem futEmit_nohold (fin : EndState) (rest rest' : Bytes) (r : PReq) (h : r.body.holdsStream = false) :
    futEmit fin rest r = futEmit fin rest' r := by
  obtain ⟨-, -, h3⟩ := par_readPhase_nohold r.act r.body h rest' fin
  unfold futEmit
  rw [(h3 rest fin).2.1]

theorem futDel_nohold (fin : EndState) (rest rest' : Bytes) (r : PReq) (h : r.body.holdsStream = false) :
    futDel fin rest r = futDel fin rest' r := by
  obtain ⟨-, -, h3⟩ := par_readPhase_nohold r.act r.body h rest' fin
  unfold futDel
  rw [(h3 rest fin).2.1, (h3 rest fin).1]

theorem futAfter_nohold (fin : EndState) (rest : Bytes) (r : PReq) (h : r.body.holdsStream = false)
    (hs : r.stage ≠ .stuck) : futAfter fin rest r = some rest := by
  obtain ⟨h1, h2, -⟩ := par_readPhase_nohold r.act r.body h rest fin
  have hnp : (handlerReads r.act r.body rest fin).2.1 ≠ .pending := by
    intro hp
    have := par_readPhase_pending_holds r.act r.body rest fin hp
    rw [h2] at this; cases this
  unfold futAfter
  cases hst : r.stage with
  | fresh => simp only [hnp, if_false]; rw [par_drain_nohold _ _ h2, h1]
  | cont => simp only [hnp, if_false]; rw [par_drain_nohold _ _ h2, h1]
  | readDone => exact par_drain_nohold _ _ h _ _
  | answering => exact par_drain_nohold _ _ h _ _
  | gone => rfl
  | stuck => exact absurd hst hs

theorem futAfter_len (fin : EndState) (rest rest' : Bytes) (r : PReq) (h : futAfter fin rest r = some rest') :
    rest'.length ≤ rest.length := by
  unfold futAfter at h
  cases hst : r.stage with
  | fresh =>
    simp only [hst] at h
    split at h
    · cases h
    · exact Nat.le_trans (par_drain_len _ _ _ _ _ h) (par_readPhase_len _ _ _ _)
  | cont =>
    simp only [hst] at h
    split at h
    · cases h
    · exact Nat.le_trans (par_drain_len _ _ _ _ _ h) (par_readPhase_len _ _ _ _)
  | readDone => simp only [hst] at h; exact par_drain_len _ _ _ _ _ h
  | answering => simp only [hst] at h; exact par_drain_len _ _ _ _ _ h
  | gone => simp only [hst, Option.some.injEq] at h; subst h; exact Nat.le_refl _
  | stuck => simp [hst] at h

/-! ### `handle`, in terms of the pieces -/

theorem par_readPhase_eq (a : Action) (body : Body) (bs : Bytes) (fin : EndState) :
    handlerReads a body bs fin = ((handleRead a body bs fin).1, readEndOf (handleRead a body bs fin).2.1,
      (handleRead a body bs fin).2.2.1, (handleRead a body bs fin).2.2.2) := by
  unfold handlerReads handleRead handleZR
  generalize (if (decide (a.asReaderCalls > 0) && a.zeroRead) = true then zeroReadEffect body bs fin
      else some (body, bs)) = zr
  rcases zr with _ | ⟨b', bs'⟩
  · rfl
  · unfold handleRead0
    simp only
    generalize (if (decide (a.asReaderCalls > 0) && decide (a.readTotal > 0)) = true then
          Body.readUpTo (a.readTotal + 1) b' (max a.bufSize 1) a.readTotal bs' fin
        else ([], none, b', bs')) = rd
    obtain ⟨got, rend, body1, bs1⟩ := rd
    rcases rend with _ | (_ | _ | _ | _) <;> rfl

theorem par_handleS1_out (s : St) (h : Head) (fr : Framing) (a : Action) :
    (handleS1 s h fr a).out = s.out ++ contBytes h fr a ∧ (handleS1 s h fr a).delivered = s.delivered := by
  unfold handleS1 contBytes
  split
  · exact ⟨rfl, rfl⟩
  · simp

theorem par_handleS3_out (s2 : St) (h : Head) (a : Action) :
    (handleS3 s2 h a.fin).out = s2.out ++ finishBytes h a ∧ (handleS3 s2 h a.fin).delivered = s2.delivered := by
  unfold finishBytes
  cases hf : a.fin with
  | respond r => exact ⟨rfl, rfl⟩
  | drop => exact ⟨rfl, rfl⟩
  | writer ops => exact ⟨rfl, rfl⟩
  | upgrade proto r ops => simp [handleS3, St.emit]
  | respondFail r n =>
    simp only [handleS3]
    split
    · rename_i bytes ok hp; simp [hp]
    · rename_i hp; simp [hp]

/-- the bytes `handle` submits, the record it delivers, where it leaves the stream. -/
theorem par_handle_spec (s : St) (h : Head) (fr : Framing) (last : Bool) (a : Action) (body : Body) (bs : Bytes)
    (fin : EndState) :
    (handle s h fr last a body bs fin).1.out = s.out ++ (contBytes h fr a ++
      (if (handlerReads a body bs fin).2.1 = .pending then [] else finishBytes h a)) ∧
    (handle s h fr last a body bs fin).1.delivered = s.delivered ++
      [⟨h.method, h.url, h.version, h.headers, fr.bodyLength, (handlerReads a body bs fin).1,
        (handlerReads a body bs fin).2.1, last⟩] ∧
    ((handle s h fr last a body bs fin).2.2 = false →
      (handlerReads a body bs fin).2.1 ≠ .pending ∧
      Body.drain ((handlerReads a body bs fin).2.2.2.length + 2) (handlerReads a body bs fin).2.2.1
        (handlerReads a body bs fin).2.2.2 fin = some (handle s h fr last a body bs fin).2.1) ∧
    ((handle s h fr last a body bs fin).2.2 = true →
      (handlerReads a body bs fin).2.1 = .pending ∨
      Body.drain ((handlerReads a body bs fin).2.2.2.length + 2) (handlerReads a body bs fin).2.2.1
        (handlerReads a body bs fin).2.2.2 fin = none) := by
  rw [handle_eq, par_readPhase_eq]
  obtain ⟨o1, d1⟩ := par_handleS1_out s h fr a
  simp only
  by_cases hp : readEndOf (handleRead a body bs fin).2.1 = .pending
  · simp only [hp, if_true]
    refine ⟨by simp [o1], by simp [d1], by simp, by simp⟩
  · simp only [hp, if_false]
    cases hd : Body.drain ((handleRead a body bs fin).2.2.2.length + 2) (handleRead a body bs fin).2.2.1
        (handleRead a body bs fin).2.2.2 fin with
    | none =>
      simp only
      obtain ⟨o3, d3⟩ := par_handleS3_out { handleS1 s h fr a with delivered := (handleS1 s h fr a).delivered ++
        [⟨h.method, h.url, h.version, h.headers, fr.bodyLength, (handleRead a body bs fin).1,
          readEndOf (handleRead a body bs fin).2.1, last⟩] } h a
      refine ⟨by rw [o3]; simp [o1], by rw [d3]; simp [d1], by simp, by simp⟩
    | some bs2 =>
      simp only
      obtain ⟨o3, d3⟩ := par_handleS3_out { handleS1 s h fr a with delivered := (handleS1 s h fr a).delivered ++
        [⟨h.method, h.url, h.version, h.headers, fr.bodyLength, (handleRead a body bs fin).1,
          readEndOf (handleRead a body bs fin).2.1, last⟩] } h a
      refine ⟨by rw [o3]; simp [o1], by rw [d3]; simp [d1], by simp [hp], by simp⟩

/-! ### the sequential loop only appends to its state -/

theorem par_runLoop_505 (fuel idx : Nat) (s : St) (bs : Bytes) (fin : EndState) (script : Script)
    (h : Head) (rest : Bytes) (fr : Framing)
    (hh : readHead bs fin = .ok (h, rest))
    (hf : framingFor h.version h.headers = .ok fr)
    (hshort : ∀ n, fr.kind = .buffered n → n ≤ rest.length)
    (hver : (⟨Extracted.maxVersion.1, Extracted.maxVersion.2⟩ : Version).lt h.version = true) :
    runLoop (fuel + 1) idx s bs fin script =
      match Body.drain ((initialBody fr.kind rest).2.length + 2) (initialBody fr.kind rest).1
          (initialBody fr.kind rest).2 fin with
      | some rest2 => runLoop fuel idx (s.emit 505 (some print505) true) rest2 fin script
      | none => (s.emit 505 (some print505) true).finish .waiting := by
  simp only [runLoop, hh, hf, hver]
  cases hk : fr.kind with
  | buffered n =>
    have := hshort n hk
    have hd : decide (rest.length < n) = false := by simp; omega
    simp only [hd]; rfl
  | _ => rfl

theorem par_runLoop_short (fuel idx : Nat) (s : St) (bs : Bytes) (fin : EndState) (script : Script)
    (h : Head) (rest : Bytes) (fr : Framing) (n : Nat)
    (hh : readHead bs fin = .ok (h, rest))
    (hf : framingFor h.version h.headers = .ok fr)
    (hk : fr.kind = .buffered n) (hs : rest.length < n) :
    (runLoop (fuel + 1) idx s bs fin script).out = s.out ∧
    (runLoop (fuel + 1) idx s bs fin script).delivered = s.delivered := by
  have hd : decide (rest.length < n) = true := by simpa using hs
  simp only [runLoop, hh, hf, hk, hd]
  cases fin <;> exact ⟨rfl, rfl⟩

/-- the small body of the request is not completely there yet -/
def isShort (k : BodyKind) (rest : Bytes) : Prop := ∃ n, k = .buffered n ∧ rest.length < n

theorem not_isShort {k : BodyKind} {rest : Bytes} (h : ¬ isShort k rest) :
    ∀ n, k = .buffered n → n ≤ rest.length := by
  intro n hk
  by_cases hl : n ≤ rest.length
  · exact hl
  · exact absurd ⟨n, hk, by omega⟩ h

/-- bytes of the error response the connection thread writes for a head it cannot use -/
def headErrBytes : HeadErr → Bytes
  | .wrongRequestLine => printError 400 ⟨1, 1⟩ false
  | .wrongHeader v => printError 400 v false
  | _ => []

theorem par_runLoop_head_error (fuel idx : Nat) (s : St) (bs : Bytes) (fin : EndState) (script : Script)
    (e : HeadErr) (hh : readHead bs fin = .error e) :
    (runLoop (fuel + 1) idx s bs fin script).out = s.out ++ headErrBytes e ∧
    (runLoop (fuel + 1) idx s bs fin script).delivered = s.delivered := by
  simp only [runLoop, hh]
  cases e with
  | wrongRequestLine => exact ⟨rfl, rfl⟩
  | wrongHeader v => exact ⟨rfl, rfl⟩
  | notAscii => simp [headErrBytes]
  | stop st => cases st <;> simp [headErrBytes]

def framingErrBytes (v : Version) : CreateErr → Bytes
  | .expectationFailed => printError 417 v true
  | _ => printError 400 v false

theorem par_runLoop_framing_error (fuel idx : Nat) (s : St) (bs : Bytes) (fin : EndState) (script : Script)
    (h : Head) (rest : Bytes) (e : CreateErr)
    (hh : readHead bs fin = .ok (h, rest)) (hf : framingFor h.version h.headers = .error e) :
    (runLoop (fuel + 1) idx s bs fin script).out = s.out ++ framingErrBytes h.version e ∧
    (runLoop (fuel + 1) idx s bs fin script).delivered = s.delivered := by
  simp only [runLoop, hh, hf]
  cases e <;> exact ⟨rfl, rfl⟩

theorem par_runLoop_acc (fuel : Nat) : ∀ (idx : Nat) (s : St) (bs : Bytes) (fin : EndState) (script : Script),
    (runLoop fuel idx s bs fin script).out = s.out ++ (runLoop fuel idx {} bs fin script).out ∧
    (runLoop fuel idx s bs fin script).delivered = s.delivered ++ (runLoop fuel idx {} bs fin script).delivered := by
  induction fuel with
  | zero => intro idx s bs fin script; simp [runLoop]
  | succ fuel ih =>
    intro idx s bs fin script
    cases hh : readHead bs fin with
    | error e =>
      obtain ⟨a1, a2⟩ := par_runLoop_head_error fuel idx s bs fin script e hh
      obtain ⟨b1, b2⟩ := par_runLoop_head_error fuel idx {} bs fin script e hh
      rw [a1, a2, b1, b2]; simp
    | ok p =>
      obtain ⟨h, rest⟩ := p
      cases hf : framingFor h.version h.headers with
      | error e =>
        obtain ⟨a1, a2⟩ := par_runLoop_framing_error fuel idx s bs fin script h rest e hh hf
        obtain ⟨b1, b2⟩ := par_runLoop_framing_error fuel idx {} bs fin script h rest e hh hf
        rw [a1, a2, b1, b2]; simp
      | ok fr =>
        by_cases hshort : isShort fr.kind rest
        · obtain ⟨n, hk, hs⟩ := hshort
          obtain ⟨a1, a2⟩ := par_runLoop_short fuel idx s bs fin script h rest fr n hh hf hk hs
          obtain ⟨b1, b2⟩ := par_runLoop_short fuel idx {} bs fin script h rest fr n hh hf hk hs
          rw [a1, a2, b1, b2]; simp
        · have hshort := not_isShort hshort
          cases hver : (⟨Extracted.maxVersion.1, Extracted.maxVersion.2⟩ : Version).lt h.version with
          | true =>
            rw [par_runLoop_505 fuel idx s bs fin script h rest fr hh hf hshort hver,
              par_runLoop_505 fuel idx {} bs fin script h rest fr hh hf hshort hver]
            cases Body.drain ((initialBody fr.kind rest).2.length + 2) (initialBody fr.kind rest).1
                (initialBody fr.kind rest).2 fin with
            | none => simp
            | some rest2 =>
              simp only
              obtain ⟨a1, a2⟩ := ih idx (s.emit 505 (some print505) true) rest2 fin script
              obtain ⟨b1, b2⟩ := ih idx (({} : St).emit 505 (some print505) true) rest2 fin script
              rw [a1, a2, b1, b2]; simp
          | false =>
            rw [framingFor_of_not_high _ _ hver] at hf
            rw [runLoop_step fuel idx s bs fin script h rest fr hh hf hshort hver,
              runLoop_step fuel idx {} bs fin script h rest fr hh hf hshort hver]
            have hs := par_handle_spec s h fr (isLastRequest h.version h.headers) (script idx)
              (initialBody fr.kind rest).1 (initialBody fr.kind rest).2 fin
            have h0 := par_handle_spec {} h fr (isLastRequest h.version h.headers) (script idx)
              (initialBody fr.kind rest).1 (initialBody fr.kind rest).2 fin
            have hrest : (handle s h fr (isLastRequest h.version h.headers) (script idx)
                (initialBody fr.kind rest).1 (initialBody fr.kind rest).2 fin).2 =
              (handle {} h fr (isLastRequest h.version h.headers) (script idx)
                (initialBody fr.kind rest).1 (initialBody fr.kind rest).2 fin).2 := by
              rw [handle_eq, handle_eq]
              simp only
              split
              · rfl
              · split <;> rfl
            generalize handle s h fr (isLastRequest h.version h.headers) (script idx)
                (initialBody fr.kind rest).1 (initialBody fr.kind rest).2 fin = R at hs hrest
            generalize handle {} h fr (isLastRequest h.version h.headers) (script idx)
                (initialBody fr.kind rest).1 (initialBody fr.kind rest).2 fin = R0 at h0 hrest
            obtain ⟨s1, r1, b1⟩ := R
            obtain ⟨s0, r0, b0⟩ := R0
            simp only [Prod.mk.injEq] at hrest
            obtain ⟨rfl, rfl⟩ := hrest
            obtain ⟨so, sd, -, -⟩ := hs
            obtain ⟨zo, zd, -, -⟩ := h0
            simp only at so sd zo zd ⊢
            split
            · simp only [St.finish_out, St.finish_delivered, so, sd, zo, zd]; simp
            · split
              · simp only [St.finish_out, St.finish_delivered, so, sd, zo, zd]; simp
              · obtain ⟨a1, a2⟩ := ih (idx + 1) s1 r1 fin script
                obtain ⟨c1, c2⟩ := ih (idx + 1) s0 r1 fin script
                rw [a1, a2, c1, c2, so, sd, zo, zd]; simp

end Lts.Par
end TH
