/- helper lemmas: invariants of the pool LTS and of the accept-loop LTS -/
import TinyHttpModel.Lts.Pool
import TinyHttpModel.Lts.Server
namespace TH.Lts.Pool
end TH.Lts.Pool
