/- helper lemmas: invariants of the pool LTS and of the accept-loop LTS -/
import TinyHttpModel.Lts.Pool
import TinyHttpModel.Lts.Server
import TinyHttpModel.Lemmas.PoolInvBase
import TinyHttpModel.Lemmas.PoolInvWait
import TinyHttpModel.Lemmas.PoolInvTasks
import TinyHttpModel.Lemmas.PoolInvActive
import TinyHttpModel.Lemmas.PoolInvServer
