/- helper lemmas (LoopA) -/
import TinyHttpModel.WireSpec
namespace TH
end TH
