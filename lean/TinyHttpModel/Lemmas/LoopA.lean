/- helper lemmas (LoopA): facts about `St.emit`, `St.finish`, `handle`, `runLoop`. -/
import TinyHttpModel.WireSpec
import TinyHttpModel.Lemmas.Loop
namespace TH

@[simp] theorem St.emit_out (s : St) (st : Nat) (bs : Option Bytes) (f : Bool) :
    (s.emit st bs f).out = s.out ++ bs.getD [] := rfl

@[simp] theorem St.emit_delivered (s : St) (st : Nat) (bs : Option Bytes) (f : Bool) :
    (s.emit st bs f).delivered = s.delivered := rfl

@[simp] theorem St.emit_statuses (s : St) (st : Nat) (bs : Option Bytes) (f : Bool) :
    (s.emit st bs f).statuses = s.statuses ++ [st] := rfl

theorem St.emit_flushed_true (s : St) (st : Nat) (bs : Option Bytes) :
    (s.emit st bs true).flushed = (s.emit st bs true).out.length := rfl

@[simp] theorem St.finish_out (s : St) (e : ConnEnd) : (s.finish e).out = s.out := rfl
@[simp] theorem St.finish_delivered (s : St) (e : ConnEnd) : (s.finish e).delivered = s.delivered := rfl
@[simp] theorem St.finish_statuses (s : St) (e : ConnEnd) : (s.finish e).statuses = s.statuses := rfl
@[simp] theorem St.finish_ending (s : St) (e : ConnEnd) : (s.finish e).ending = e := rfl
@[simp] theorem St.finish_flushed_closed (s : St) : (s.finish .closed).flushed = s.out.length := rfl

/-- `handle` only appends to `out`, and appends exactly one `Delivered` record that carries the
    parsed head. -/
theorem handle_spec (s : St) (h : Head) (fr : Framing) (last : Bool) (a : Action) (body : Body)
    (bs : Bytes) (fin : EndState) :
    ∃ o d, (handle s h fr last a body bs fin).1.out = s.out ++ o ∧
      (handle s h fr last a body bs fin).1.delivered = s.delivered ++ [d] ∧
      d.method = h.method ∧ d.url = h.url ∧ d.version = h.version ∧ d.headers = h.headers ∧
      d.bodyLength = fr.bodyLength := by
  rw [handle_eq]
  obtain ⟨⟨_, hd1⟩, ⟨o1, ho1⟩, _⟩ := handleS1_ext s h fr a
  have hd1' : (handleS1 s h fr a).delivered = s.delivered := by
    unfold handleS1; split <;> rfl
  simp only
  have key : ∀ (s2 : St) (f : Finish), ∃ o, (handleS3 s2 h f).out = s2.out ++ o ∧
      (handleS3 s2 h f).delivered = s2.delivered := by
    intro s2 f
    cases f with
    | respond r => exact ⟨_, rfl, rfl⟩
    | drop => exact ⟨_, rfl, rfl⟩
    | writer ops => exact ⟨_, rfl, rfl⟩
    | upgrade proto r ops =>
      exact ⟨(printResp r.toResp r.pieces h.version h.headers false (some proto)).getD [] ++ wopsBytes ops,
        by simp [handleS3, List.append_assoc], rfl⟩
    | respondFail r n =>
      simp only [handleS3]
      split
      · exact ⟨_, rfl, rfl⟩
      · exact ⟨_, rfl, rfl⟩
  split
  · exact ⟨o1, _, ho1, by rw [hd1'], rfl, rfl, rfl, rfl, rfl⟩
  · split
    all_goals
      rename_i hh
      obtain ⟨o, ho, hd⟩ := key _ a.fin
      refine ⟨o1 ++ o, ⟨h.method, h.url, h.version, h.headers, fr.bodyLength, (handleRead a body bs fin).1,
        readEndOf (handleRead a body bs fin).2.1, last⟩, ?_, ?_, rfl, rfl, rfl, rfl, rfl⟩
      · rw [ho, ← List.append_assoc, ← ho1]
      · rw [hd, hd1']

theorem handle_out_prefix (s : St) (h : Head) (fr : Framing) (last : Bool) (a : Action) (body : Body)
    (bs : Bytes) (fin : EndState) :
    ∃ o, (handle s h fr last a body bs fin).1.out = s.out ++ o := by
  obtain ⟨o, _, ho, _⟩ := handle_spec s h fr last a body bs fin
  exact ⟨o, ho⟩

/-- the loop only appends to `out`. -/
theorem runLoop_out_prefix (fuel : Nat) : ∀ (idx : Nat) (s : St) (bs : Bytes) (fin : EndState) (script : Script),
    ∃ o, (runLoop fuel idx s bs fin script).out = s.out ++ o := by
  induction fuel with
  | zero => intro idx s bs fin script; exact ⟨[], by simp [runLoop]⟩
  | succ fuel ih =>
    intro idx s bs fin script
    rw [runLoop]
    split
    · exact ⟨_, rfl⟩
    · exact ⟨_, rfl⟩
    · exact ⟨[], by simp⟩
    · exact ⟨[], by simp⟩
    · exact ⟨[], by simp⟩
    · rename_i h rest hh
      split
      · exact ⟨_, rfl⟩
      · exact ⟨_, rfl⟩
      · rename_i fr hf
        simp only []
        have hfin : ∃ o, (if (fin == EndState.open) = true then s.finish ConnEnd.waiting
            else s.finish ConnEnd.closed).out = s.out ++ o := by
          split <;> exact ⟨[], by simp⟩
        have htail : ∃ o, (if (⟨Extracted.maxVersion.1, Extracted.maxVersion.2⟩ : Version).lt h.version = true then
              match Body.drain (List.length (initialBody fr.kind rest).snd + 2) (initialBody fr.kind rest).fst
                  (initialBody fr.kind rest).snd fin with
              | some rest2 => runLoop fuel idx (s.emit 505 (some print505) true) rest2 fin script
              | none => (s.emit 505 (some print505) true).finish ConnEnd.waiting
            else
              if (handle s h fr (isLastRequest h.version h.headers) (script idx) (initialBody fr.kind rest).fst
                    (initialBody fr.kind rest).snd fin).2.snd = true then
                (handle s h fr (isLastRequest h.version h.headers) (script idx) (initialBody fr.kind rest).fst
                    (initialBody fr.kind rest).snd fin).fst.finish ConnEnd.waiting
              else if isLastRequest h.version h.headers = true then
                (handle s h fr (isLastRequest h.version h.headers) (script idx) (initialBody fr.kind rest).fst
                    (initialBody fr.kind rest).snd fin).fst.finish ConnEnd.closed
              else runLoop fuel (idx + 1)
                (handle s h fr (isLastRequest h.version h.headers) (script idx) (initialBody fr.kind rest).fst
                    (initialBody fr.kind rest).snd fin).fst
                (handle s h fr (isLastRequest h.version h.headers) (script idx) (initialBody fr.kind rest).fst
                    (initialBody fr.kind rest).snd fin).2.fst fin script).out = s.out ++ o := by
          split
          · split
            · rename_i rest2 hd
              obtain ⟨o, ho⟩ := ih idx (s.emit 505 (some print505) true) rest2 fin script
              exact ⟨_, by rw [ho, St.emit_out, List.append_assoc]⟩
            · exact ⟨_, rfl⟩
          · obtain ⟨o1, ho1⟩ := handle_out_prefix s h fr (isLastRequest h.version h.headers) (script idx)
              (initialBody fr.kind rest).1 (initialBody fr.kind rest).2 fin
            split
            · exact ⟨o1, by simp [ho1]⟩
            · split
              · exact ⟨o1, by simp [ho1]⟩
              · obtain ⟨o, ho⟩ := ih (idx + 1) (handle s h fr (isLastRequest h.version h.headers) (script idx)
                  (initialBody fr.kind rest).1 (initialBody fr.kind rest).2 fin).1
                  (handle s h fr (isLastRequest h.version h.headers) (script idx)
                  (initialBody fr.kind rest).1 (initialBody fr.kind rest).2 fin).2.1 fin script
                exact ⟨o1 ++ o, by rw [ho, ho1, List.append_assoc]⟩
        split
        · split
          · exact hfin
          · exact htail
        · rw [if_neg (by decide)]
          exact htail

end TH
