/- pool invariant: `active_tasks` is exact and untimed waiters are bounded (live pool) -/
import TinyHttpModel.Lemmas.PoolInvBase
namespace TH.Lts.Pool

def isBegun : WPhase → Bool :=
  fun p => isLive p && !(match p with | .starting _ => true | _ => false)

theorem filter_length_mono (f g : WPhase → Bool) (hfg : ∀ p, f p = true → g p = true) :
    ∀ l : List WPhase, (l.filter f).length ≤ (l.filter g).length
  | [] => by simp
  | a :: l => by
    have ih := filter_length_mono f g hfg l
    have := hfg a
    simp only [List.filter_cons]
    cases hf : f a <;> cases hg : g a <;> simp_all <;> omega

theorem untimed_le_begun (l : List WPhase) :
    (l.filter isUntimedWaiting).length ≤ (l.filter isBegun).length :=
  filter_length_mono _ _ (by intro p; cases p <;> simp [isUntimedWaiting, isBegun, isLive]) l

theorem untimed_le_begun' (s : State) (w : Nat) (p q : WPhase) (_hq : phaseOf s w = q) :
    ((s.workers.set w p).filter isUntimedWaiting).length
      ≤ ((s.workers.set w p).filter isBegun).length := untimed_le_begun _

structure Inv3 (s : State) : Prop where
  act : s.dropped = false → s.active = count s isBegun
  unt : s.dropped = false → count s isUntimedWaiting ≤ minThreads

theorem inv3_init : Inv3 init := by
  constructor <;> intro _ <;> decide

local macro "setc " hph:ident p:term : tactic => `(tactic| (
  have e1 := filter_set_length' isBegun _ _ $p _ $hph (by simp)
  have e2 := filter_set_length' isUntimedWaiting _ _ $p _ $hph (by simp)
  have e3 := untimed_le_begun' _ _ $p _ $hph
  simp only [isBegun, isLive, isUntimedWaiting] at e1 e2
  constructor <;> intro hd <;> simp_all [count] <;> omega))

theorem inv3_step {s s' : State} {l : Label} (hi : Inv3 s) (h : step s l = some s') : Inv3 s' := by
  obtain ⟨act, unt⟩ := hi
  simp only [count] at act unt
  cases step_sound h with
  | dispNew k hd hc =>
    constructor <;> intro hd <;>
      simp_all [count, List.filter_append, isBegun, isLive, isUntimedWaiting]
  | dispQNone k hd hc hn => constructor <;> intro hd <;> simp_all [count]
  | dispQSome k w dl hd hc hph => setc hph (.woken false)
  | beginSome w k hph => setc hph (.running k)
  | beginNone w hph => setc hph .seeking
  | finish w k hph => setc hph .seeking
  | seekTake w k rest hph hp => setc hph (.running k)
  | seekWaitU w hph hp ha => setc hph (.waiting none)
  | seekWaitT w hph hp ha => setc hph (.waiting (some (s.now + idleNs)))
  | wokenExit w hph hp => setc hph .exited
  | wokenTake w k b rest hph hp => setc hph (.running k)
  | wokenWaitU w hph hp ha => setc hph (.waiting none)
  | wokenWaitT w hph hp ha => setc hph (.waiting (some (s.now + idleNs)))
  | wakeTimeout w d hph hd => setc hph (.woken true)
  | wakeSpurious w dl hph => setc hph (.woken false)
  | tick d => constructor <;> intro hd <;> simp_all [count]
  | dropPool => constructor <;> intro hd <;> simp at hd

theorem inv3_reachable {s : State} (h : Reachable s) : Inv3 s :=
  reachable_invariant Inv3 inv3_init (fun _ _ _ hi h => inv3_step hi h) s h

end TH.Lts.Pool
