/- helper lemmas (HeadParse) -/
import TinyHttpModel.WireSpec
namespace TH
end TH
