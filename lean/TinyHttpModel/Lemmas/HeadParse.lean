/- helper lemmas (HeadParse): line reader, trimming, splitting, request line, header lines, heads. -/
import TinyHttpModel.WireSpec
import TinyHttpModel.ConnSpec
namespace TH

/-! ### findCRLF / readLine -/

theorem findCRLF_append (l rest : Bytes) (h : ∀ b ∈ l, b ≠ 10) :
    findCRLF (l ++ 13 :: 10 :: rest) = some (l, rest) := by
  induction l with
  | nil => simp [findCRLF]
  | cons b l ih =>
    have ih' := ih (fun x hx => h x (List.mem_cons_of_mem _ hx))
    rw [List.cons_append, findCRLF, ih']
    intro rest' _ heq
    cases l with
    | nil => simp at heq
    | cons c l' =>
      simp at heq
      exact absurd heq.1 (h c (by simp))

theorem readLine_line (l rest : Bytes) (fin : EndState) (h : ∀ b ∈ l, b ≠ 10 ∧ b < 128) :
    readLine (l ++ 13 :: 10 :: rest) fin = .line l rest := by
  have ha : isAscii l = true := by
    simp only [isAscii, List.all_eq_true, decide_eq_true_eq]
    exact fun b hb => (h b hb).2
  simp [readLine, findCRLF_append l rest (fun b hb => (h b hb).1), ha]

theorem readLine_notAscii (l rest : Bytes) (fin : EndState)
    (hl : ∀ b ∈ l, b ≠ 10) (hn : ∃ b ∈ l, 128 ≤ b) :
    readLine (l ++ 13 :: 10 :: rest) fin = .notAscii rest := by
  have ha : isAscii l = false := by
    obtain ⟨b, hb, h128⟩ := hn
    simp only [isAscii, List.all_eq_false, decide_eq_true_eq]
    exact ⟨b, hb, by omega⟩
  simp [readLine, findCRLF_append l rest hl, ha]

/-! ### trimStart / trimEnd / trim -/

theorem trimStart_ws_append (w l : Bytes) (hw : ∀ b ∈ w, isWs b = true) :
    trimStart (w ++ l) = trimStart l := by
  induction w with
  | nil => rfl
  | cons b w ih =>
    have hb : isWs b = true := hw b (by simp)
    simp only [List.cons_append, trimStart, hb, if_true]
    exact ih (fun x hx => hw x (List.mem_cons_of_mem _ hx))

theorem trimStart_length_le (l : Bytes) : (trimStart l).length ≤ l.length := by
  induction l with
  | nil => simp [trimStart]
  | cons b l ih =>
    simp only [trimStart]
    split
    · simp only [List.length_cons]; omega
    · exact Nat.le_refl _

theorem trimStart_eq_self_of_length (l : Bytes) (h : (trimStart l).length = l.length) :
    trimStart l = l := by
  cases l with
  | nil => rfl
  | cons b l =>
    simp only [trimStart] at h ⊢
    split
    · rename_i hb
      rw [if_pos hb] at h
      have := trimStart_length_le l
      simp only [List.length_cons] at h
      omega
    · rfl

theorem trimEnd_ws (w : Bytes) (hw : ∀ b ∈ w, isWs b = true) : trimEnd w = [] := by
  induction w with
  | nil => rfl
  | cons b w ih =>
    have hb : isWs b = true := hw b (by simp)
    simp [trimEnd, ih (fun x hx => hw x (List.mem_cons_of_mem _ hx)), hb]

theorem trimEnd_cons (b : Nat) (l : Bytes) :
    trimEnd (b :: l) = if trimEnd l = [] then (if isWs b then [] else [b]) else b :: trimEnd l := by
  rw [trimEnd]
  split
  · rename_i h; simp [h]
  · rename_i h; rw [if_neg (fun e => h e)]

theorem trimEnd_append_ws (l w : Bytes) (hw : ∀ b ∈ w, isWs b = true) :
    trimEnd (l ++ w) = trimEnd l := by
  induction l with
  | nil => simp [trimEnd_ws w hw, trimEnd]
  | cons b l ih => rw [List.cons_append, trimEnd_cons, trimEnd_cons, ih]

theorem trimEnd_append_of_ne_nil (a b : Bytes) (h : trimEnd b ≠ []) :
    trimEnd (a ++ b) = a ++ trimEnd b := by
  induction a with
  | nil => rfl
  | cons x a ih =>
    rw [List.cons_append, trimEnd_cons, ih]
    simp [h]

theorem trimEnd_length_le (l : Bytes) : (trimEnd l).length ≤ l.length := by
  induction l with
  | nil => simp [trimEnd]
  | cons b l ih =>
    rw [trimEnd_cons]
    split
    · split <;> simp
    · simp only [List.length_cons]; omega

theorem mem_of_mem_trimEnd (l : Bytes) : ∀ b ∈ trimEnd l, b ∈ l := by
  induction l with
  | nil => simp [trimEnd]
  | cons x l ih =>
    rw [trimEnd_cons]
    intro b hb
    split at hb
    · split at hb
      · simp at hb
      · simp at hb; simp [hb]
    · rcases List.mem_cons.1 hb with h | h
      · simp [h]
      · exact List.mem_cons_of_mem _ (ih b h)

/-- `trimEnd` never removes a leading non-whitespace byte. -/
theorem trimEnd_cons_nonws (b : Nat) (r : Bytes) (hb : isWs b = false) :
    ∃ t, trimEnd (b :: r) = b :: t := by
  rw [trimEnd_cons]
  split
  · exact ⟨[], by simp [hb]⟩
  · exact ⟨_, rfl⟩

theorem trimEnd_cons_cases (w : Nat) (l : Bytes) :
    trimEnd (w :: l) = [] ∨ ∃ t, trimEnd (w :: l) = w :: t := by
  rw [trimEnd_cons]
  split
  · split
    · exact .inl rfl
    · exact .inr ⟨[], rfl⟩
  · exact .inr ⟨_, rfl⟩

/-- `trim v = v` means neither end can be trimmed. -/
theorem trim_eq_self (v : Bytes) (h : trim v = v) : trimStart v = v ∧ trimEnd v = v := by
  have h1 := trimEnd_length_le (trimStart v)
  have h2 := trimStart_length_le v
  have hs : trimStart v = v := by
    apply trimStart_eq_self_of_length
    have : (trimEnd (trimStart v)).length = v.length := by
      unfold trim at h; rw [h]
    omega
  refine ⟨hs, ?_⟩
  unfold trim at h; rw [hs] at h; exact h

/-! ### splitOn / splitFirst -/

theorem splitOn_ne_nil (c : Nat) (l : Bytes) : splitOn c l ≠ [] := by
  induction l with
  | nil => simp [splitOn]
  | cons b l ih =>
    rw [splitOn]
    split
    · simp
    · split <;> simp

theorem splitOn_none (c : Nat) (l : Bytes) (h : ∀ b ∈ l, b ≠ c) : splitOn c l = [l] := by
  induction l with
  | nil => rfl
  | cons b l ih =>
    have hb : b ≠ c := h b (by simp)
    rw [splitOn, if_neg hb, ih (fun x hx => h x (List.mem_cons_of_mem _ hx))]

theorem splitOn_append (c : Nat) (l r : Bytes) (h : ∀ b ∈ l, b ≠ c) :
    splitOn c (l ++ c :: r) = l :: splitOn c r := by
  induction l with
  | nil => simp [splitOn]
  | cons b l ih =>
    have hb : b ≠ c := h b (by simp)
    rw [List.cons_append, splitOn, if_neg hb, ih (fun x hx => h x (List.mem_cons_of_mem _ hx))]

theorem splitFirst_append' (c : Nat) (l r : Bytes) (h : ∀ b ∈ l, b ≠ c) :
    splitFirst c (l ++ c :: r) = (l, some r) := by
  induction l with
  | nil => simp [splitFirst]
  | cons b l ih =>
    have hb : b ≠ c := h b (by simp)
    rw [List.cons_append, splitFirst, if_neg hb, ih (fun x hx => h x (List.mem_cons_of_mem _ hx))]

theorem splitFirst_none' (c : Nat) (l : Bytes) (h : ∀ b ∈ l, b ≠ c) :
    splitFirst c l = (l, none) := by
  induction l with
  | nil => rfl
  | cons b l ih =>
    have hb : b ≠ c := h b (by simp)
    rw [splitFirst, if_neg hb, ih (fun x hx => h x (List.mem_cons_of_mem _ hx))]


/-! ### request line -/

theorem lookupVersion_none (tok : Bytes) (tbl : List (Bytes × (Nat × Nat)))
    (h : ∀ e ∈ tbl, e.1 ≠ tok) : lookupVersion tok tbl = none := by
  induction tbl with
  | nil => rfl
  | cons e tbl ih =>
    obtain ⟨lit, a, b⟩ := e
    have he : lit ≠ tok := h (lit, a, b) (by simp)
    rw [lookupVersion, if_neg he]
    exact ih (fun x hx => h x (List.mem_cons_of_mem _ hx))

theorem parseRequestLine_fields (m u tok : Bytes) (ver : Version)
    (hm : m ≠ []) (hmw : ∀ b ∈ m, isWs b = false) (huw : ∀ b ∈ u, isWs b = false)
    (htrim : trimEnd tok = tok) (hne : tok ≠ []) (hsp : ∀ b ∈ tok, b ≠ 32)
    (hpv : parseVersion tok = some ver) :
    parseRequestLine (m ++ 32 :: (u ++ 32 :: tok)) = some (⟨m⟩, u, ver) := by
  have h32 : isWs 32 = true := by decide
  have hm32 : ∀ b ∈ m, b ≠ 32 := fun b hb e => by have := hmw b hb; rw [e, h32] at this; cases this
  have hu32 : ∀ b ∈ u, b ≠ 32 := fun b hb e => by have := huw b hb; rw [e, h32] at this; cases this
  have htrimL : trim (m ++ 32 :: (u ++ 32 :: tok)) = m ++ 32 :: (u ++ 32 :: tok) := by
    unfold trim
    have hs : trimStart (m ++ 32 :: (u ++ 32 :: tok)) = m ++ 32 :: (u ++ 32 :: tok) := by
      cases m with
      | nil => exact absurd rfl hm
      | cons m0 m' =>
        have : isWs m0 = false := hmw m0 (by simp)
        simp [trimStart, this]
    rw [hs]
    have : m ++ 32 :: (u ++ 32 :: tok) = (m ++ 32 :: (u ++ [32])) ++ tok := by simp
    rw [this, trimEnd_append_of_ne_nil _ _ (by rw [htrim]; exact hne), htrim]
  unfold parseRequestLine
  rw [htrimL, splitOn_append 32 m _ hm32, splitOn_append 32 u _ hu32, splitOn_none 32 tok hsp]
  simp [hpv]

theorem versionToken_10 : Spec.versionToken ⟨1, 0⟩ = b!"HTTP/1.0" := by decide
theorem versionToken_11 : Spec.versionToken ⟨1, 1⟩ = b!"HTTP/1.1" := by decide

theorem parseRequestLine_render (m u : Bytes) (v : Version)
    (hm : m ≠ []) (hmw : ∀ b ∈ m, isWs b = false) (huw : ∀ b ∈ u, isWs b = false)
    (hv : v = ⟨1, 0⟩ ∨ v = ⟨1, 1⟩) :
    parseRequestLine (m ++ 32 :: (u ++ 32 :: Spec.versionToken v)) = some (⟨m⟩, u, v) := by
  rcases hv with rfl | rfl
  · rw [versionToken_10]
    exact parseRequestLine_fields m u _ _ hm hmw huw (by decide) (by decide) (by decide) (by decide)
  · rw [versionToken_11]
    exact parseRequestLine_fields m u _ _ hm hmw huw (by decide) (by decide) (by decide) (by decide)

theorem versionToken_safe (v : Version) (hv : v = ⟨1, 0⟩ ∨ v = ⟨1, 1⟩) :
    ∀ b ∈ Spec.versionToken v, b ≠ 10 ∧ b < 128 := by
  rcases hv with rfl | rfl
  · rw [versionToken_10]; decide
  · rw [versionToken_11]; decide

/-! ### header line -/

theorem parseHeaderLine_render (n v o1 o2 : Bytes)
    (hnw : ∀ b ∈ n, isWs b = false) (hnc : ∀ b ∈ n, b ≠ 58) (hv : trim v = v)
    (ho1 : ∀ b ∈ o1, isWs b = true) (ho2 : ∀ b ∈ o2, isWs b = true) :
    parseHeaderLine (n ++ [58] ++ o1 ++ v ++ o2) = some ⟨n, v⟩ := by
  obtain ⟨hvs, hve⟩ := trim_eq_self v hv
  have hany : n.any isWs = false := by
    rw [List.any_eq_false]; intro b hb; simp [hnw b hb]
  unfold parseHeaderLine
  rw [trimEnd_append_ws _ o2 ho2]
  by_cases hvn : v = []
  · subst hvn
    have h1 : trimEnd (n ++ [58] ++ o1 ++ []) = n ++ [58] := by
      rw [List.append_nil, trimEnd_append_ws _ o1 ho1, trimEnd_append_of_ne_nil n [58] (by decide)]
      rfl
    rw [h1, splitFirst_append' 58 n [] hnc]
    simp [hany, trim, trimStart, trimEnd]
  · have h1 : trimEnd (n ++ [58] ++ o1 ++ v) = n ++ 58 :: (o1 ++ v) := by
      rw [trimEnd_append_of_ne_nil _ v (by rw [hve]; exact hvn), hve]; simp
    rw [h1, splitFirst_append' 58 n _ hnc]
    have h2 : trim (o1 ++ v) = v := by
      unfold trim; rw [trimStart_ws_append o1 v ho1, hvs, hve]
    simp [hany, h2]

/-! ### the header loop -/

theorem isOwsList_ws (o : Bytes) (h : Spec.isOwsList o = true) :
    (∀ b ∈ o, isWs b = true) ∧ (∀ b ∈ o, b ≠ 10 ∧ b < 128) := by
  simp only [Spec.isOwsList, List.all_eq_true, Bool.or_eq_true, beq_iff_eq] at h
  constructor
  · intro b hb; rcases h b hb with rfl | rfl <;> decide
  · intro b hb; rcases h b hb with rfl | rfl <;> decide

theorem lineSafe_elim (l : Bytes) (h : Spec.lineSafe l = true) : ∀ b ∈ l, b ≠ 10 ∧ b < 128 := by
  simp only [Spec.lineSafe, List.all_eq_true, Bool.and_eq_true, bne_iff_ne, decide_eq_true_eq] at h
  exact fun b hb => ⟨(h b hb).1.2, (h b hb).2⟩

theorem wfReqHeader_elim (h : Header) (hw : Spec.wfReqHeader h = true) :
    (∀ b ∈ h.name, b ≠ 10 ∧ b < 128) ∧ (∀ b ∈ h.name, isWs b = false) ∧ (∀ b ∈ h.name, b ≠ 58) ∧
      (∀ b ∈ h.value, b ≠ 10 ∧ b < 128) ∧ trim h.value = h.value := by
  simp only [Spec.wfReqHeader, Bool.and_eq_true, Bool.not_eq_true', beq_iff_eq] at hw
  obtain ⟨⟨⟨⟨h1, h2⟩, h3⟩, h4⟩, h5⟩ := hw
  refine ⟨lineSafe_elim _ h1, ?_, ?_, lineSafe_elim _ h4, h5⟩
  · rw [List.any_eq_false] at h2
    intro b hb; simpa using h2 b hb
  · intro b hb e
    subst e
    rw [List.contains_eq_mem] at h3
    simp [hb] at h3

/-- one rendered header line, followed by anything, is read back as that header. -/
theorem readLine_renderHeader (h : Header) (o : Bytes × Bytes) (rest : Bytes) (fin : EndState)
    (hw : Spec.wfReqHeader h = true)
    (ho : Spec.isOwsList o.1 = true ∧ Spec.isOwsList o.2 = true) :
    ∃ l, readLine (Spec.renderHeader h o ++ rest) fin = .line l rest ∧ l.isEmpty = false ∧
      parseHeaderLine l = some h := by
  obtain ⟨hn1, hn2, hn3, hv1, hv2⟩ := wfReqHeader_elim h hw
  obtain ⟨ho1w, ho1s⟩ := isOwsList_ws o.1 ho.1
  obtain ⟨ho2w, ho2s⟩ := isOwsList_ws o.2 ho.2
  refine ⟨h.name ++ [58] ++ o.1 ++ h.value ++ o.2, ?_, ?_, ?_⟩
  · have : Spec.renderHeader h o ++ rest = (h.name ++ [58] ++ o.1 ++ h.value ++ o.2) ++ 13 :: 10 :: rest := by
      simp [Spec.renderHeader, crlf]
    rw [this]
    apply readLine_line
    intro b hb
    simp only [List.mem_append, List.mem_singleton] at hb
    rcases hb with (((hb | hb) | hb) | hb) | hb
    · exact hn1 b hb
    · subst hb; decide
    · exact ho1s b hb
    · exact hv1 b hb
    · exact ho2s b hb
  · cases hn : h.name <;> simp
  · exact parseHeaderLine_render h.name h.value o.1 o.2 hn2 hn3 hv2 ho1w ho2w

theorem readHeaders_render (ver : Version) (rest : Bytes) (fin : EndState) :
    ∀ (hs : List Header) (ows : List (Bytes × Bytes)) (fuel : Nat), hs.length < fuel →
      (∀ h ∈ hs, Spec.wfReqHeader h = true) →
      (∀ o ∈ ows, Spec.isOwsList o.1 = true ∧ Spec.isOwsList o.2 = true) →
      readHeaders fuel ver (Spec.renderHeaders hs ows ++ 13 :: 10 :: rest) fin = .ok (hs, rest) := by
  intro hs
  induction hs with
  | nil =>
    intro ows fuel hf _ _
    cases fuel with
    | zero => omega
    | succ fuel =>
      have : Spec.renderHeaders [] ows = [] := by cases ows <;> rfl
      rw [this, readHeaders, readLine_line [] rest fin (by simp)]
      simp
  | cons h hs ih =>
    intro ows fuel hf hwf hows
    cases fuel with
    | zero => omega
    | succ fuel =>
      have hf' : hs.length < fuel := by simp only [List.length_cons] at hf; omega
      have hwf' : ∀ x ∈ hs, Spec.wfReqHeader x = true := fun x hx => hwf x (List.mem_cons_of_mem _ hx)
      have key : ∀ (o : Bytes × Bytes) (os : List (Bytes × Bytes)),
          (Spec.isOwsList o.1 = true ∧ Spec.isOwsList o.2 = true) →
          (∀ o ∈ os, Spec.isOwsList o.1 = true ∧ Spec.isOwsList o.2 = true) →
          readHeaders (fuel + 1) ver
            (Spec.renderHeader h o ++ Spec.renderHeaders hs os ++ 13 :: 10 :: rest) fin = .ok (h :: hs, rest) := by
        intro o os ho hos
        obtain ⟨l, hl, hle, hp⟩ := readLine_renderHeader h o (Spec.renderHeaders hs os ++ 13 :: 10 :: rest) fin
          (hwf h (by simp)) ho
        rw [List.append_assoc, readHeaders, hl]
        simp only [hle, hp, ih os fuel hf' hwf' hos]
        simp
      cases ows with
      | nil => exact key ([], []) [] (by decide) (by simp)
      | cons o os => exact key o os (hows o (by simp)) (fun x hx => hows x (List.mem_cons_of_mem _ hx))

theorem length_le_renderHeaders : ∀ (hs : List Header) (ows : List (Bytes × Bytes)),
    hs.length ≤ (Spec.renderHeaders hs ows).length := by
  intro hs
  induction hs with
  | nil => intro ows; simp
  | cons h hs ih =>
    intro ows
    cases ows with
    | nil =>
      have := ih []
      simp only [Spec.renderHeaders, Spec.renderHeader, List.length_append, List.length_cons, List.length_nil]
      omega
    | cons o os =>
      have := ih os
      simp only [Spec.renderHeaders, Spec.renderHeader, List.length_append, List.length_cons, List.length_nil]
      omega

/-! ### whole heads -/

theorem wfHead_elim (h : Head) (hwf : Spec.wfHead h = true) :
    h.method.token ≠ [] ∧ (∀ b ∈ h.method.token, b ≠ 10 ∧ b < 128) ∧ (∀ b ∈ h.method.token, isWs b = false) ∧
      (∀ b ∈ h.url, b ≠ 10 ∧ b < 128) ∧ (∀ b ∈ h.url, isWs b = false) ∧
      (h.version = ⟨1, 0⟩ ∨ h.version = ⟨1, 1⟩) ∧ (∀ x ∈ h.headers, Spec.wfReqHeader x = true) := by
  simp only [Spec.wfHead, Bool.and_eq_true, Bool.not_eq_true', Bool.or_eq_true, beq_iff_eq,
    List.all_eq_true] at hwf
  obtain ⟨⟨⟨⟨⟨⟨⟨h1, h2⟩, h3⟩, _⟩, h5⟩, h6⟩, h7⟩, h8⟩ := hwf
  refine ⟨?_, lineSafe_elim _ h2, ?_, lineSafe_elim _ h5, ?_, h7, h8⟩
  · intro e; rw [e] at h1; simp at h1
  · rw [List.any_eq_false] at h3
    intro b hb; simpa using h3 b hb
  · rw [List.any_eq_false] at h6
    intro b hb; simpa using h6 b hb

theorem readHead_render (h : Head) (ows : List (Bytes × Bytes)) (rest : Bytes) (fin : EndState)
    (hwf : Spec.wfHead h = true)
    (hows : ∀ o ∈ ows, Spec.isOwsList o.1 = true ∧ Spec.isOwsList o.2 = true) :
    readHead (Spec.renderHead h ows ++ rest) fin = .ok (h, rest) := by
  obtain ⟨hm0, hm1, hm2, hu1, hu2, hv, hhs⟩ := wfHead_elim h hwf
  have hbytes : Spec.renderHead h ows ++ rest =
      (h.method.token ++ 32 :: (h.url ++ 32 :: Spec.versionToken h.version)) ++ 13 :: 10 ::
        (Spec.renderHeaders h.headers ows ++ 13 :: 10 :: rest) := by
    simp [Spec.renderHead, crlf]
  have hline : ∀ b ∈ h.method.token ++ 32 :: (h.url ++ 32 :: Spec.versionToken h.version), b ≠ 10 ∧ b < 128 := by
    intro b hb
    simp only [List.mem_append, List.mem_cons] at hb
    rcases hb with hb | rfl | hb | rfl | hb
    · exact hm1 b hb
    · decide
    · exact hu1 b hb
    · decide
    · exact versionToken_safe _ hv b hb
  rw [hbytes, readHead, readLine_line _ _ fin hline]
  simp only [parseRequestLine_render _ _ _ hm0 hm2 hu2 hv]
  rw [readHeaders_render h.version rest fin h.headers ows _ ?_ hhs hows]
  · have hlen := length_le_renderHeaders h.headers ows
    simp only [List.length_append]
    omega

/-! ### rejected lines -/

theorem parseRequestLine_short (line : Bytes)
    (h : (splitOn 32 (trim line)).length < 3) : parseRequestLine line = none := by
  unfold parseRequestLine
  split
  · rename_i heq; rw [heq] at h; simp only [List.length_cons] at h; omega
  · rfl

theorem parseRequestLine_unknown_version (m p v : Bytes) (rest : List Bytes) (line : Bytes)
    (hs : splitOn 32 (trim line) = m :: p :: v :: rest)
    (hv : ∀ e ∈ Extracted.versionTable, e.1 ≠ v) : parseRequestLine line = none := by
  unfold parseRequestLine
  rw [hs]
  simp only [parseVersion, lookupVersion_none v _ hv]

theorem parseHeaderLine_no_colon (line : Bytes) (h : line.contains 58 = false) :
    parseHeaderLine line = none := by
  have hl : ∀ b ∈ trimEnd line, b ≠ 58 := by
    intro b hb e
    subst e
    have := mem_of_mem_trimEnd line 58 hb
    rw [List.contains_eq_mem] at h
    simp [this] at h
  unfold parseHeaderLine
  rw [splitFirst_none' 58 _ hl]

theorem parseHeaderLine_ws_in_name (line : Bytes)
    (h : ((splitFirst 58 (trimEnd line)).1.any isWs) = true) : parseHeaderLine line = none := by
  unfold parseHeaderLine
  generalize splitFirst 58 (trimEnd line) = p at h
  obtain ⟨n, o⟩ := p
  cases o with
  | none => rfl
  | some v => simp only at h; simp [h]

theorem isWs_ne_colon (w : Nat) (hw : isWs w = true) : w ≠ 58 := by
  intro e; subst e; revert hw; decide

theorem parseHeaderLine_ws_before_colon (name value : Bytes) (w : Nat) (hw : isWs w = true)
    (hn : name.contains 58 = false) :
    parseHeaderLine (name ++ [w] ++ [58] ++ value) = none := by
  apply parseHeaderLine_ws_in_name
  obtain ⟨t, ht⟩ := trimEnd_cons_nonws 58 value (by decide)
  have h1 : trimEnd (name ++ [w] ++ [58] ++ value) = (name ++ [w]) ++ 58 :: t := by
    have : name ++ [w] ++ [58] ++ value = (name ++ [w]) ++ 58 :: value := by simp
    rw [this, trimEnd_append_of_ne_nil _ _ (by rw [ht]; simp), ht]
  have h2 : ∀ b ∈ name ++ [w], b ≠ 58 := by
    intro b hb
    simp only [List.mem_append, List.mem_singleton] at hb
    rcases hb with hb | rfl
    · intro e; subst e
      rw [List.contains_eq_mem] at hn
      simp [hb] at hn
    · exact isWs_ne_colon _ hw
  rw [h1, splitFirst_append' 58 _ t h2]
  simp [hw]

theorem parseHeaderLine_leading_ws (w : Nat) (l : Bytes) (hw : isWs w = true) :
    parseHeaderLine (w :: l) = none := by
  rcases trimEnd_cons_cases w l with h | ⟨t, ht⟩
  · unfold parseHeaderLine; rw [h]; rfl
  · apply parseHeaderLine_ws_in_name
    rw [ht, splitFirst, if_neg (isWs_ne_colon w hw)]
    simp [hw]

/-- a head whose k-th header line is rejected fails with `wrongHeader`. -/
theorem readHeaders_rejected_line (ver : Version) (bad rest : Bytes) (fin : EndState)
    (hbad : bad ≠ [] ∧ (∀ b ∈ bad, b ≠ 10 ∧ b < 128) ∧ parseHeaderLine bad = none) :
    ∀ (good : List Bytes) (fuel : Nat),
      (∀ l ∈ good, l ≠ [] ∧ (∀ b ∈ l, b ≠ 10 ∧ b < 128) ∧ (parseHeaderLine l).isSome = true) →
      good.length < fuel →
      readHeaders fuel ver ((good.map (· ++ crlf)).flatten ++ bad ++ crlf ++ rest) fin
        = .error (.wrongHeader ver) := by
  intro good
  induction good with
  | nil =>
    intro fuel _ hf
    cases fuel with
    | zero => omega
    | succ fuel =>
      have : ([].map (· ++ crlf)).flatten ++ bad ++ crlf ++ rest = bad ++ 13 :: 10 :: rest := by
        simp [crlf]
      rw [this, readHeaders, readLine_line bad rest fin hbad.2.1]
      have hne : bad.isEmpty = false := by
        cases hb : bad with
        | nil => exact absurd hb hbad.1
        | cons _ _ => rfl
      simp [hne, hbad.2.2]
  | cons g good ih =>
    intro fuel hg hf
    cases fuel with
    | zero => omega
    | succ fuel =>
      obtain ⟨hg1, hg2, hg3⟩ := hg g (by simp)
      have : ((g :: good).map (· ++ crlf)).flatten ++ bad ++ crlf ++ rest
          = g ++ 13 :: 10 :: ((good.map (· ++ crlf)).flatten ++ bad ++ crlf ++ rest) := by
        simp [crlf]
      rw [this, readHeaders, readLine_line g _ fin hg2]
      have hne : g.isEmpty = false := by
        cases hb : g with
        | nil => exact absurd hb hg1
        | cons _ _ => rfl
      obtain ⟨hd, hhd⟩ := Option.isSome_iff_exists.1 hg3
      simp only [hne, hhd]
      rw [ih fuel (fun l hl => hg l (List.mem_cons_of_mem _ hl))
        (by simp only [List.length_cons] at hf; omega)]
      simp

/-! ### method table -/

theorem methodTable_eq : Extracted.methodTable = Spec.standardMethods := by decide

theorem lookupMethod_eq_find (tok : Bytes) : ∀ tbl : List (Bytes × Bytes),
    lookupMethod tok tbl =
      (match tbl.find? (·.1 == tok) with
       | some (_, k) => k
       | none => b!"NonStandard") := by
  intro tbl
  induction tbl with
  | nil => rfl
  | cons e tbl ih =>
    obtain ⟨lit, ctor⟩ := e
    rw [lookupMethod, List.find?_cons]
    by_cases h : lit = tok
    · simp [h]
    · have : ((lit, ctor).1 == tok) = false := by simpa using h
      rw [if_neg h, this, ih]

theorem method_kind_eq (tok : Bytes) : (Method.mk tok).kind = Spec.methodKind tok := by
  unfold Method.kind Spec.methodKind
  rw [methodTable_eq, lookupMethod_eq_find]
  rfl

/-! ### Content-Length -/

theorem ofDecAux_digits : ∀ (l : Bytes) (acc n : Nat), ofDecAux l acc = some n →
    ∀ b ∈ l, 48 ≤ b ∧ b ≤ 57 := by
  intro l
  induction l with
  | nil => intro _ _ _ b hb; simp at hb
  | cons x l ih =>
    intro acc n h b hb
    rw [ofDecAux] at h
    unfold decVal at h
    split at h
    · rename_i d hd
      split at hd
      · rename_i hx
        rcases List.mem_cons.1 hb with rfl | hb'
        · exact hx
        · exact ih _ _ h b hb'
      · cases hd
    · cases h

theorem ofDec_digits (v : Bytes) (n : Nat) (h : ofDec v = some n) :
    v ≠ [] ∧ ∀ b ∈ v, 48 ≤ b ∧ b ≤ 57 := by
  cases v with
  | nil => simp [ofDec] at h
  | cons x l =>
    refine ⟨by simp, ?_⟩
    exact ofDecAux_digits (x :: l) 0 n (by simpa [ofDec] using h)

theorem strictContentLength_iff (v : Bytes) (n : Nat) :
    strictContentLength v = some n ↔
      (v ≠ [] ∧ (∀ b ∈ v, 48 ≤ b ∧ b ≤ 57) ∧ ofDec v = some n ∧ n ≤ usizeMax) := by
  unfold strictContentLength
  constructor
  · intro h
    split at h
    · rename_i m hm
      split at h
      · rename_i hle
        have hmn : m = n := by simpa using h
        subst hmn
        obtain ⟨h1, h2⟩ := ofDec_digits v m hm
        exact ⟨h1, h2, hm, hle⟩
      · cases h
    · cases h
  · rintro ⟨_, _, hd, hle⟩
    rw [hd]
    simp [hle]

theorem strictContentLength_non_digit (v : Bytes) (b : Nat) (hb : b ∈ v) (hd : b < 48 ∨ 57 < b) :
    strictContentLength v = none := by
  cases h : strictContentLength v with
  | none => rfl
  | some n =>
    have := ((strictContentLength_iff v n).1 h).2.1 b hb
    omega

theorem framingOf_bad_content_length (hs : List Header) (h : Header)
    (hm : h ∈ hs) (hn : h.is b!"Content-Length" = true)
    (hv : strictContentLength h.value = none) :
    framingOf hs = .error .badContentLength := by
  unfold framingOf
  simp only []
  rw [if_pos]
  rw [List.any_eq_true]
  exact ⟨h, List.mem_filter.2 ⟨hm, hn⟩, by rw [hv]; rfl⟩

theorem framingOf_expectation_failed (hs : List Header) (e : Header)
    (hcl : ∀ h ∈ hs, h.is b!"Content-Length" = true → (strictContentLength h.value).isSome = true)
    (he : findHeader hs b!"Expect" = some e)
    (hv : eqIgnoreCase e.value b!"100-continue" = false) :
    framingOf hs = .error .expectationFailed := by
  unfold framingOf
  simp only []
  rw [if_neg]
  · simp [he, hv]
  · rw [List.any_eq_true]
    rintro ⟨h, hmem, hnone⟩
    obtain ⟨hm, hn⟩ := List.mem_filter.1 hmem
    have := hcl h hm hn
    rw [Option.isNone_iff_eq_none] at hnone
    rw [hnone] at this
    cases this

end TH
