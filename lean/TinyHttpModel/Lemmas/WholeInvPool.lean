/- helper lemmas: the whole-server composition (Lts.Whole) — where the task of a connection is in
   the pool, and the progress argument (a connection's next request can always be queued by the
   pool's own steps and pushes) -/
import TinyHttpModel.Lemmas.WholeInvBase
import TinyHttpModel.Lemmas.PoolInvWait

namespace TH.Lts.Pool

/-- task `k` is somewhere in the pool: queued, carried by a fresh thread, or running -/
def Placed (p : State) (k : Nat) : Prop :=
  k ∈ p.pending ∨ (∃ w, phaseOf p w = .starting (some k)) ∨ (∃ w, phaseOf p w = .running k)

theorem phaseOf_of_set_self {p p' : State} {w : Nat} {q : WPhase}
    (hw : p'.workers = p.workers.set w q) (hwl : w < p.workers.length) : phaseOf p' w = q := by
  simp [phaseOf, hw, List.getD, hwl]

theorem phaseOf_of_set_ne {p p' : State} {w u : Nat} {q : WPhase}
    (hw : p'.workers = p.workers.set w q) (h : u ≠ w) : phaseOf p' u = phaseOf p u := by
  simp [phaseOf, hw, List.getD, List.getElem?_set_ne (Ne.symm h)]

theorem phaseOf_of_workers_eq {p p' : State} (hw : p'.workers = p.workers) (u : Nat) :
    phaseOf p' u = phaseOf p u := by
  simp [phaseOf, hw]

/-- one worker changes phase -/
theorem placed_set {p p' : State} {k w : Nat} {q : WPhase} (h : Placed p k)
    (hw : p'.workers = p.workers.set w q) (hwl : w < p.workers.length)
    (hpend : k ∈ p.pending → k ∈ p'.pending ∨ q = .running k)
    (hold : phaseOf p w = .starting (some k) ∨ phaseOf p w = .running k → q = .running k) :
    Placed p' k := by
  rcases h with hp | ⟨u, hu⟩ | ⟨u, hu⟩
  · rcases hpend hp with h | h
    · exact .inl h
    · exact .inr (.inr ⟨w, by rw [phaseOf_of_set_self hw hwl, h]⟩)
  · by_cases huw : u = w
    · subst huw
      exact .inr (.inr ⟨u, by rw [phaseOf_of_set_self hw hwl, hold (.inl hu)]⟩)
    · exact .inr (.inl ⟨u, by rw [phaseOf_of_set_ne hw huw, hu]⟩)
  · by_cases huw : u = w
    · subst huw
      exact .inr (.inr ⟨u, by rw [phaseOf_of_set_self hw hwl, hold (.inr hu)]⟩)
    · exact .inr (.inr ⟨u, by rw [phaseOf_of_set_ne hw huw, hu]⟩)

/-- no worker changes phase -/
theorem placed_same {p p' : State} {k : Nat} (h : Placed p k)
    (hw : p'.workers = p.workers) (hpend : k ∈ p.pending → k ∈ p'.pending) : Placed p' k := by
  rcases h with hp | ⟨u, hu⟩ | ⟨u, hu⟩
  · exact .inl (hpend hp)
  · exact .inr (.inl ⟨u, by rw [phaseOf_of_workers_eq hw, hu]⟩)
  · exact .inr (.inr ⟨u, by rw [phaseOf_of_workers_eq hw, hu]⟩)

theorem phaseOf_append {p p' : State} {x : WPhase} (hw : p'.workers = p.workers ++ [x]) {u : Nat}
    (hu : phaseOf p u ≠ .exited) : phaseOf p' u = phaseOf p u := by
  have hl := lt_of_phaseOf_ne hu
  simp [phaseOf, hw, List.getD, List.getElem?_append_left hl]

theorem phaseOf_dropMap {p p' : State}
    (hw : p'.workers = p.workers.map (fun x => if isWaiting x then WPhase.woken false else x))
    (u : Nat) (x : WPhase) (hx : isWaiting x = false) (hu : phaseOf p u = x) (hne : x ≠ .exited) :
    phaseOf p' u = x := by
  have hl := lt_of_phaseOf_ne (by rw [hu]; exact hne)
  rw [phaseOf_eq_getElem hl] at hu
  have hl' : u < p'.workers.length := by rw [hw]; simpa using hl
  rw [phaseOf_eq_getElem hl']
  simp [hw, hu, hx]

/-- every step of the pool but the end of task `k` keeps task `k` in the pool -/
theorem placed_step {p p' : State} {l : Label} {k : Nat} (h : Placed p k)
    (hs : step p l = some p') :
    Placed p' k ∨ ∃ w, l = .finish w ∧ phaseOf p w = .running k := by
  cases step_sound hs with
  | dispNew k' hd hc =>
    left
    rcases h with hp | ⟨u, hu⟩ | ⟨u, hu⟩
    · exact .inl hp
    · exact .inr (.inl ⟨u, by rw [phaseOf_append rfl (by rw [hu]; simp), hu]⟩)
    · exact .inr (.inr ⟨u, by rw [phaseOf_append rfl (by rw [hu]; simp), hu]⟩)
  | dispQNone k' hd hc hn =>
    exact .inl (placed_same h rfl (fun hp => List.mem_append_left _ hp))
  | dispQSome k' w dl hd hc hph =>
    exact .inl (placed_set h rfl (lt_of_phaseOf_ne (by rw [hph]; simp))
      (fun hp => .inl (List.mem_append_left _ hp)) (by rw [hph]; simp))
  | beginSome w k' hph =>
    refine .inl (placed_set h rfl (lt_of_phaseOf_ne (by rw [hph]; simp)) (fun hp => .inl hp) ?_)
    rw [hph]; simp
  | beginNone w hph =>
    exact .inl (placed_set h rfl (lt_of_phaseOf_ne (by rw [hph]; simp)) (fun hp => .inl hp)
      (by rw [hph]; simp))
  | finish w k' hph =>
    by_cases hk : k' = k
    · subst hk; exact .inr ⟨w, rfl, hph⟩
    · refine .inl (placed_set h rfl (lt_of_phaseOf_ne (by rw [hph]; simp)) (fun hp => .inl hp) ?_)
      rw [hph]; simp [hk]
  | seekTake w k' rest hph hp =>
    refine .inl (placed_set h rfl (lt_of_phaseOf_ne (by rw [hph]; simp)) ?_ (by rw [hph]; simp))
    intro hm
    rw [hp] at hm
    rcases List.mem_cons.mp hm with hm | hm
    · subst hm; exact .inr rfl
    · exact .inl hm
  | seekWaitU w hph hp ha =>
    exact .inl (placed_set h rfl (lt_of_phaseOf_ne (by rw [hph]; simp)) (fun hp => .inl hp)
      (by rw [hph]; simp))
  | seekWaitT w hph hp ha =>
    exact .inl (placed_set h rfl (lt_of_phaseOf_ne (by rw [hph]; simp)) (fun hp => .inl hp)
      (by rw [hph]; simp))
  | wokenExit w hph hp =>
    exact .inl (placed_set h rfl (lt_of_phaseOf_ne (by rw [hph]; simp)) (fun hp => .inl hp)
      (by rw [hph]; simp))
  | wokenTake w k' b rest hph hp =>
    refine .inl (placed_set h rfl (lt_of_phaseOf_ne (by rw [hph]; simp)) ?_ (by rw [hph]; simp))
    intro hm
    rw [hp] at hm
    rcases List.mem_cons.mp hm with hm | hm
    · subst hm; exact .inr rfl
    · exact .inl hm
  | wokenWaitU w hph hp ha =>
    exact .inl (placed_set h rfl (lt_of_phaseOf_ne (by rw [hph]; simp)) (fun hp => .inl hp)
      (by rw [hph]; simp))
  | wokenWaitT w hph hp ha =>
    exact .inl (placed_set h rfl (lt_of_phaseOf_ne (by rw [hph]; simp)) (fun hp => .inl hp)
      (by rw [hph]; simp))
  | wakeTimeout w d hph hd =>
    exact .inl (placed_set h rfl (lt_of_phaseOf_ne (by rw [hph]; simp)) (fun hp => .inl hp)
      (by rw [hph]; simp))
  | wakeSpurious w dl hph =>
    exact .inl (placed_set h rfl (lt_of_phaseOf_ne (by rw [hph]; simp)) (fun hp => .inl hp)
      (by rw [hph]; simp))
  | tick d => exact .inl (placed_same h rfl (fun hp => hp))
  | dropPool =>
    left
    rcases h with hp | ⟨u, hu⟩ | ⟨u, hu⟩
    · exact .inl hp
    · exact .inr (.inl ⟨u, phaseOf_dropMap rfl u _ rfl hu (by simp)⟩)
    · exact .inr (.inr ⟨u, phaseOf_dropMap rfl u _ rfl hu (by simp)⟩)

/-- a dispatched task is in the pool -/
theorem placed_dispatch {p p' : State} {k : Nat} {b : Branch}
    (hs : step p (.dispatch k b) = some p') : Placed p' k := by
  cases step_sound hs with
  | dispNew _ hd hc =>
    refine .inr (.inl ⟨p.workers.length, ?_⟩)
    simp [phaseOf, List.getD]
  | dispQNone _ hd hc hn => exact .inl (List.mem_append_right _ (List.mem_singleton.mpr rfl))
  | dispQSome _ w dl hd hc hph => exact .inl (List.mem_append_right _ (List.mem_singleton.mpr rfl))

/-- a queued task has a woken worker that can take the front of the queue -/
theorem exists_woken_of_pending {p : State} (h : Reachable p) {k : Nat} {rest : List Nat}
    (hp : p.pending = k :: rest) : ∃ w b, phaseOf p w = .woken b := by
  have hj := (inv1_reachable h).j
  have hpos : 0 < (p.workers.filter isWoken).length := by
    simp [hp, count] at hj; omega
  obtain ⟨x, hxm⟩ := List.exists_mem_of_length_pos hpos
  obtain ⟨hxw, hxk⟩ := List.mem_filter.mp hxm
  obtain ⟨w, hw, rfl⟩ := List.getElem_of_mem hxw
  have hph := phaseOf_eq_getElem hw
  cases hq : p.workers[w] with
  | woken b => rw [hq] at hph; exact ⟨w, b, hph⟩
  | _ => simp [hq, isWoken] at hxk

end TH.Lts.Pool

namespace TH.Lts.Queue

/-- `push` is never blocked: `notify_one` wakes a waiter if there is one -/
theorem push_enabled (s : State) (v : Nat) : ∃ woke s', step s (.push v woke) = some s' := by
  cases hany : s.phases.any isWaiting with
  | false =>
    cases hst : step s (.push v none) with
    | some s' => exact ⟨none, s', hst⟩
    | none => simp [step, notifyOk, hany] at hst
  | true =>
    rw [List.any_eq_true] at hany
    obtain ⟨x, hx, hxw⟩ := hany
    obtain ⟨t, ht, rfl⟩ := List.getElem_of_mem hx
    have : phaseOf s t = s.phases[t] := by simp [phaseOf, List.getD, ht]
    cases hst : step s (.push v (some t)) with
    | some s' => exact ⟨some t, s', hst⟩
    | none => simp [step, notifyOk, this, hxw] at hst

end TH.Lts.Queue

namespace TH.Lts.Whole

/-! ### where connection `k`'s task is -/

/-- connection `k`'s task is in the pool, or the connection is over -/
def Loc (s : State) : Prop :=
  ∀ k c, s.conns[k]? = some c →
    Pool.Placed s.pool k ∨ (c.closed = true ∧ c.pushed = c.sent.length)

theorem poolOnly_ne_finish {l : Pool.Label} (h : poolOnly l = true) : ∀ w, l ≠ .finish w := by
  intro w he
  subst he
  simp [poolOnly] at h

theorem loc_step {s s' : State} {l : Label} (hi : Loc s) (hs : step s l = some s') : Loc s' := by
  cases step_sound hs with
  | accept b p hp =>
    intro k c hk
    by_cases hlt : k < s.conns.length
    · have hk' : s.conns[k]? = some c := by
        simpa [List.getElem?_append_left hlt] using hk
      rcases hi k c hk' with h | h
      · rcases Pool.placed_step h hp with h' | ⟨w, hw, _⟩
        · exact .inl h'
        · cases hw
      · exact .inr h
    · have hlen : k < (s.conns ++ [({} : Conn)]).length := by
        have := (List.getElem?_eq_some_iff.mp hk).1
        exact this
      have hke : k = s.conns.length := by
        simp only [List.length_append, List.length_singleton] at hlen; omega
      subst hke
      exact .inl (Pool.placed_dispatch hp)
  | arrive k0 v c0 hc hcl =>
    intro k c hk
    by_cases hkk : k0 = k
    · subst hkk
      rcases hi k0 c0 hc with h | h
      · exact .inl h
      · rw [hcl] at h; cases h.1
    · have hk' : s.conns[k]? = some c := by
        simpa [List.getElem?_set_ne hkk] using hk
      exact hi k c hk'
  | close k0 c0 hc =>
    intro k c hk
    by_cases hkk : k0 = k
    · subst hkk
      have hlt := (List.getElem?_eq_some_iff.mp hc).1
      have hce : c = { c0 with closed := true } := by
        simpa [List.getElem?_set_self hlt] using hk.symm
      subst hce
      rcases hi k0 c0 hc with h | h
      · exact .inl h
      · exact .inr ⟨rfl, h.2⟩
    · have hk' : s.conns[k]? = some c := by
        simpa [List.getElem?_set_ne hkk] using hk
      exact hi k c hk'
  | push w woke k0 c0 v q hw hc hv hq =>
    intro k c hk
    by_cases hkk : k0 = k
    · subst hkk
      exact .inl (.inr (.inr ⟨w, hw⟩))
    · have hk' : s.conns[k]? = some c := by
        simpa [List.getElem?_set_ne hkk] using hk
      exact hi k c hk'
  | done w k0 c0 p hw hc hcl hpu hp =>
    intro k c hk
    rcases hi k c hk with h | h
    · rcases Pool.placed_step h hp with h' | ⟨w', hw', hr⟩
      · exact .inl h'
      · cases hw'
        rw [hw] at hr
        cases hr
        rw [hc] at hk
        cases hk
        exact .inr ⟨hcl, hpu⟩
    · exact .inr h
  | pool l p hl hp =>
    intro k c hk
    rcases hi k c hk with h | h
    · rcases Pool.placed_step h hp with h' | ⟨w', hw', _⟩
      · exact .inl h'
      · exact absurd hw' (poolOnly_ne_finish hl w')
    · exact .inr h
  | queue l q hl hq => exact hi

theorem loc_reachable {s : State} (h : Reachable s) : Loc s := by
  refine reachable_inv (Inv := Loc) ?_ (fun _ _ _ hi hs => loc_step hi hs) s h
  intro k c hk
  simp at hk

/-! ### progress -/

/-- the labels used by the progress argument -/
def IsProg (l : Label) : Prop :=
  (∃ w, l = .pool (.begin w)) ∨ (∃ w, l = .pool (.look w)) ∨ (∃ w woke, l = .push w woke)

theorem step_pool {s : State} {l : Pool.Label} {p : Pool.State} (hl : poolOnly l = true)
    (hp : Pool.step s.pool l = some p) : step s (.pool l) = some { s with pool := p } := by
  simp only [step, hl, if_true, hp, Option.map_some]

/-- the worker running connection `k`'s task can queue the connection's next request -/
theorem push_of_running {s : State} {w k : Nat} {c : Conn}
    (hw : Pool.phaseOf s.pool w = .running k) (hk : s.conns[k]? = some c)
    (hp : c.pushed < c.sent.length) :
    ∃ woke s', step s (.push w woke) = some s' ∧
      s'.conns[k]? = some { c with pushed := c.pushed + 1 } := by
  obtain ⟨woke, q, hq⟩ := Queue.push_enabled s.queue (c.sent[c.pushed]'hp)
  have hlt := (List.getElem?_eq_some_iff.mp hk).1
  refine ⟨woke, { s with queue := q, conns := s.conns.set k { c with pushed := c.pushed + 1 } },
    ?_, ?_⟩
  · simp only [step, taskOf_running hw, hk, List.getElem?_eq_getElem hp, hq, Option.map_some]
  · simp [List.getElem?_set_self hlt]

/-- a fresh thread carrying task `k` begins -/
theorem begin_of_starting {s : State} {w k : Nat}
    (hw : Pool.phaseOf s.pool w = .starting (some k)) :
    ∃ s', step s (.pool (.begin w)) = some s' ∧ s'.conns = s.conns ∧
      Pool.phaseOf s'.pool w = .running k := by
  have hwl := Pool.lt_of_phaseOf_ne (s := s.pool) (w := w) (by rw [hw]; simp)
  have hst := Pool.step_complete (.beginSome w k hw)
  have hws := step_pool (s := s) rfl hst
  exact ⟨_, hws, rfl, Pool.phaseOf_of_set_self rfl hwl⟩

/-- a queued task gets started by the woken workers taking the front of the queue, one by one -/
theorem start_of_pending (k : Nat) : ∀ (j : Nat) (s : State), Reachable s →
    s.pool.pending[j]? = some k →
    ∃ ls s', (∀ l ∈ ls, IsProg l) ∧ run s ls = some s' ∧ s'.conns = s.conns ∧
      ∃ w, Pool.phaseOf s'.pool w = .running k := by
  intro j
  induction j with
  | zero =>
    intro s hr hj
    cases hpe : s.pool.pending with
    | nil => simp [hpe] at hj
    | cons k0 rest =>
      rw [hpe] at hj
      simp only [List.getElem?_cons_zero, Option.some.injEq] at hj
      subst hj
      obtain ⟨w, b, hph⟩ := Pool.exists_woken_of_pending (pool_reachable hr) hpe
      have hwl := Pool.lt_of_phaseOf_ne (s := s.pool) (w := w) (by rw [hph]; simp)
      have hst := Pool.step_complete (.wokenTake w k0 b rest hph hpe)
      have hws := step_pool (s := s) rfl hst
      refine ⟨[.pool (.look w)], _, ?_, run_cons hws rfl, rfl, w, Pool.phaseOf_of_set_self rfl hwl⟩
      intro l hl
      simp only [List.mem_singleton] at hl
      subst hl
      exact .inr (.inl ⟨w, rfl⟩)
  | succ j ih =>
    intro s hr hj
    cases hpe : s.pool.pending with
    | nil => simp [hpe] at hj
    | cons k0 rest =>
      rw [hpe] at hj
      simp only [List.getElem?_cons_succ] at hj
      obtain ⟨w, b, hph⟩ := Pool.exists_woken_of_pending (pool_reachable hr) hpe
      have hst := Pool.step_complete (.wokenTake w k0 b rest hph hpe)
      have hws := step_pool (s := s) rfl hst
      obtain ⟨ls, s', hls, hrun, hconns, hw'⟩ := ih _ (reachable_step hr hws) hj
      refine ⟨.pool (.look w) :: ls, s', ?_, run_cons hws hrun, hconns, hw'⟩
      intro l hl
      rcases List.mem_cons.mp hl with hl | hl
      · subst hl; exact .inr (.inl ⟨w, rfl⟩)
      · exact hls l hl

/-- whenever connection `k` has a complete request that is not queued yet, the pool's own steps
    and one push put it into the queue -/
theorem next_request_can_be_queued {s : State} (h : Reachable s) {k : Nat} {c : Conn}
    (hk : s.conns[k]? = some c) (hp : c.pushed < c.sent.length) :
    ∃ ls s', (∀ l ∈ ls, IsProg l) ∧ run s ls = some s' ∧
      s'.conns[k]? = some { c with pushed := c.pushed + 1 } := by
  rcases loc_reachable h k c hk with (hpend | ⟨w, hw⟩ | ⟨w, hw⟩) | ⟨_, hfin⟩
  · obtain ⟨j, hj⟩ := List.getElem?_of_mem hpend
    obtain ⟨ls, s1, hls, hrun, hconns, w, hw⟩ := start_of_pending k j s h hj
    obtain ⟨woke, s2, hst, hc2⟩ := push_of_running hw (by rw [hconns]; exact hk) hp
    refine ⟨ls ++ [.push w woke], s2, ?_, run_snoc ls s s1 s2 _ hrun hst, hc2⟩
    intro l hl
    rcases List.mem_append.mp hl with hl | hl
    · exact hls l hl
    · simp only [List.mem_singleton] at hl; subst hl; exact .inr (.inr ⟨w, woke, rfl⟩)
  · obtain ⟨s1, hst1, hconns, hw1⟩ := begin_of_starting (s := s) hw
    obtain ⟨woke, s2, hst2, hc2⟩ := push_of_running hw1 (by rw [hconns]; exact hk) hp
    refine ⟨[.pool (.begin w), .push w woke], s2, ?_, run_cons hst1 (run_cons hst2 rfl), hc2⟩
    intro l hl
    simp only [List.mem_cons, List.not_mem_nil, or_false] at hl
    rcases hl with hl | hl
    · subst hl; exact .inl ⟨w, rfl⟩
    · subst hl; exact .inr (.inr ⟨w, woke, rfl⟩)
  · obtain ⟨woke, s2, hst2, hc2⟩ := push_of_running hw hk hp
    refine ⟨[.push w woke], s2, ?_, run_cons hst2 rfl, hc2⟩
    intro l hl
    simp only [List.mem_singleton] at hl
    subst hl; exact .inr (.inr ⟨w, woke, rfl⟩)
  · omega

end TH.Lts.Whole
