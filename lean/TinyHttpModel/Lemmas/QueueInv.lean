/- helper lemmas: invariants of the queue LTS -/
import TinyHttpModel.Lts.Queue
namespace TH.Lts.Queue

/-! ### lifting step invariants to runs -/

theorem run_inv {Inv : State → Prop}
    (hstep : ∀ s l s', Inv s → step s l = some s' → Inv s') :
    ∀ ls s s', Inv s → run s ls = some s' → Inv s' := by
  intro ls
  induction ls with
  | nil =>
    intro s s' hi h
    simp only [run, Option.some.injEq] at h
    subst h; exact hi
  | cons l ls ih =>
    intro s s' hi h
    simp only [run] at h
    split at h
    · next s1 h1 => exact ih _ _ (hstep _ _ _ hi h1) h
    · cases h

theorem reachable_inv {Inv : State → Prop} (h0 : Inv {})
    (hstep : ∀ s l s', Inv s → step s l = some s' → Inv s') :
    ∀ s, Reachable s → Inv s := by
  intro s ⟨ls, h⟩
  exact run_inv hstep ls _ _ h0 h

theorem runZL_inv {Inv : State → Prop}
    (hstep : ∀ s l s', Inv s → stepZL s l = some s' → Inv s') :
    ∀ ls s s', Inv s → runZL s ls = some s' → Inv s' := by
  intro ls
  induction ls with
  | nil =>
    intro s s' hi h
    simp only [runZL, Option.some.injEq] at h
    subst h; exact hi
  | cons l ls ih =>
    intro s s' hi h
    simp only [runZL] at h
    split at h
    · next s1 h1 => exact ih _ _ (hstep _ _ _ hi h1) h
    · cases h

/-! ### `setPhase` at the level of the phase list -/

def setP (ph : List Phase) (t : Nat) (p : Phase) : List Phase :=
  (ph ++ List.replicate (t + 1 - ph.length) Phase.idle).set t p

@[simp] theorem setPhase_phases (s : State) (t : Nat) (p : Phase) :
    (setPhase s t p).phases = setP s.phases t p := rfl
@[simp] theorem setPhase_queue (s : State) (t : Nat) (p : Phase) :
    (setPhase s t p).queue = s.queue := rfl
@[simp] theorem setPhase_now (s : State) (t : Nat) (p : Phase) :
    (setPhase s t p).now = s.now := rfl
@[simp] theorem setPhase_pushed (s : State) (t : Nat) (p : Phase) :
    (setPhase s t p).pushed = s.pushed := rfl
@[simp] theorem setPhase_taken (s : State) (t : Nat) (p : Phase) :
    (setPhase s t p).taken = s.taken := rfl
@[simp] theorem setPhase_tokensPushed (s : State) (t : Nat) (p : Phase) :
    (setPhase s t p).tokensPushed = s.tokensPushed := rfl
@[simp] theorem setPhase_tokensTaken (s : State) (t : Nat) (p : Phase) :
    (setPhase s t p).tokensTaken = s.tokensTaken := rfl
@[simp] theorem setPhase_log (s : State) (t : Nat) (p : Phase) :
    (setPhase s t p).log = s.log := rfl

theorem getD_setP_self (ph : List Phase) (t : Nat) (p : Phase) :
    (setP ph t p).getD t Phase.idle = p := by
  have hlen : t < (ph ++ List.replicate (t + 1 - ph.length) Phase.idle).length := by
    simp only [List.length_append, List.length_replicate]; omega
  simp [setP, List.getD_eq_getElem?_getD, List.getElem?_set_self hlen]

theorem getD_setP_ne (ph : List Phase) (t u : Nat) (p : Phase) (h : u ≠ t) :
    (setP ph t p).getD u Phase.idle = ph.getD u Phase.idle := by
  have h' : t ≠ u := fun e => h e.symm
  simp only [setP, List.getD_eq_getElem?_getD, List.getElem?_set_ne h']
  by_cases hu : u < ph.length
  · rw [List.getElem?_append_left hu]
  · have hu' : ph.length ≤ u := Nat.le_of_not_lt hu
    rw [List.getElem?_append_right hu', List.getElem?_eq_none_iff.mpr hu']
    simp only [List.getElem?_replicate, Option.getD_none]
    split <;> rfl

theorem mem_of_getD {ph : List Phase} {t : Nat} {p : Phase}
    (h : ph.getD t Phase.idle = p) (hp : p ≠ Phase.idle) : p ∈ ph := by
  by_cases ht : t < ph.length
  · rw [List.getD_eq_getElem?_getD, List.getElem?_eq_getElem ht] at h
    simp only [Option.getD_some] at h
    subst h; exact List.getElem_mem ht
  · rw [List.getD_eq_getElem?_getD, List.getElem?_eq_none_iff.mpr (Nat.le_of_not_lt ht)] at h
    simp only [Option.getD_none] at h
    exact absurd h.symm hp

/-- counting the phases that satisfy `f` after a `setPhase` (additive form, no subtraction). -/
theorem filter_setP_length (f : Phase → Bool) (hf : f Phase.idle = false) (p : Phase) :
    ∀ (ph : List Phase) (t : Nat),
      ((setP ph t p).filter f).length + (if f (ph.getD t Phase.idle) then 1 else 0)
        = (ph.filter f).length + (if f p then 1 else 0) := by
  intro ph
  induction ph with
  | nil =>
    intro t
    induction t with
    | zero =>
      simp only [setP, List.filter_cons, List.length_nil, Nat.sub_zero, List.replicate_succ,
        List.replicate_zero, List.nil_append, List.set_cons_zero, List.getD_nil, hf, List.filter_nil]
      split <;> simp
    | succ n ih =>
      have e : setP [] (n + 1) p = Phase.idle :: setP [] n p := by
        simp [setP, List.replicate_succ]
      rw [e, List.filter_cons]
      simp only [hf, Bool.false_eq_true, if_false]
      simpa [hf] using ih
  | cons a l ih =>
    intro t
    cases t with
    | zero =>
      simp only [setP, List.length_cons, Nat.zero_add, Nat.sub_eq_zero_of_le (Nat.succ_le_succ (Nat.zero_le _)),
        List.replicate_zero, List.append_nil, List.set_cons_zero, List.getD_cons_zero, List.filter_cons]
      split <;> split <;> simp <;> omega
    | succ n =>
      have e : setP (a :: l) (n + 1) p = a :: setP l n p := by
        simp [setP, Nat.add_sub_add_right]
      rw [e]
      simp only [List.filter_cons, List.getD_cons_succ]
      have := ih n
      split <;> (try simp only [List.length_cons]) <;> omega

theorem any_false_filter_length {f : Phase → Bool} {ph : List Phase} (h : ph.any f = false) :
    (ph.filter f).length = 0 := by
  rw [List.length_eq_zero_iff, List.filter_eq_nil_iff]
  intro a ha hfa
  rw [List.any_eq_false] at h
  exact h a ha hfa

/-! ### effect of a step on the history / queue fields -/

@[simp] theorem applyNotify_queue (s : State) (w : Option Nat) :
    (applyNotify s w).queue = s.queue := by
  cases w with
  | none => rfl
  | some t => simp only [applyNotify]; split <;> rfl
@[simp] theorem applyNotify_now (s : State) (w : Option Nat) :
    (applyNotify s w).now = s.now := by
  cases w with
  | none => rfl
  | some t => simp only [applyNotify]; split <;> rfl
@[simp] theorem applyNotify_pushed (s : State) (w : Option Nat) :
    (applyNotify s w).pushed = s.pushed := by
  cases w with
  | none => rfl
  | some t => simp only [applyNotify]; split <;> rfl
@[simp] theorem applyNotify_taken (s : State) (w : Option Nat) :
    (applyNotify s w).taken = s.taken := by
  cases w with
  | none => rfl
  | some t => simp only [applyNotify]; split <;> rfl
@[simp] theorem applyNotify_tokensPushed (s : State) (w : Option Nat) :
    (applyNotify s w).tokensPushed = s.tokensPushed := by
  cases w with
  | none => rfl
  | some t => simp only [applyNotify]; split <;> rfl
@[simp] theorem applyNotify_tokensTaken (s : State) (w : Option Nat) :
    (applyNotify s w).tokensTaken = s.tokensTaken := by
  cases w with
  | none => rfl
  | some t => simp only [applyNotify]; split <;> rfl
@[simp] theorem applyNotify_log (s : State) (w : Option Nat) :
    (applyNotify s w).log = s.log := by
  cases w with
  | none => rfl
  | some t => simp only [applyNotify]; split <;> rfl

/-- what one step can do to the queue and to the history fields (phases and time ignored). -/
inductive DataStep (s s' : State) : Prop where
  | same : s'.queue = s.queue → s'.pushed = s.pushed → s'.taken = s.taken →
      s'.tokensPushed = s.tokensPushed → s'.tokensTaken = s.tokensTaken → s'.log = s.log →
      DataStep s s'
  | push (v : Nat) : s'.queue = s.queue ++ [Item.elem v] → s'.pushed = s.pushed ++ [v] →
      s'.taken = s.taken → s'.tokensPushed = s.tokensPushed → s'.tokensTaken = s.tokensTaken →
      s'.log = s.log → DataStep s s'
  | unblock : s'.queue = s.queue ++ [Item.token] → s'.pushed = s.pushed →
      s'.taken = s.taken → s'.tokensPushed = s.tokensPushed + 1 → s'.tokensTaken = s.tokensTaken →
      s'.log = s.log → DataStep s s'
  | takeElem (v : Nat) (rest : List Item) (t : Nat) (c : Call) (cs : Nat) :
      s.queue = Item.elem v :: rest → s'.queue = rest → s'.pushed = s.pushed →
      s'.taken = s.taken ++ [v] → s'.tokensPushed = s.tokensPushed →
      s'.tokensTaken = s.tokensTaken → s'.log = s.log ++ [⟨t, c, cs, s.now, .value v⟩] →
      DataStep s s'
  | takeToken (rest : List Item) (t : Nat) (c : Call) (cs : Nat) :
      s.queue = Item.token :: rest → s'.queue = rest → s'.pushed = s.pushed →
      s'.taken = s.taken → s'.tokensPushed = s.tokensPushed →
      s'.tokensTaken = s.tokensTaken + 1 → s'.log = s.log ++ [⟨t, c, cs, s.now, .byToken⟩] →
      DataStep s s'
  | retEmpty (t : Nat) (c : Call) (cs : Nat) : c ≠ Call.pop →
      s.queue = [] → s'.queue = [] → s'.pushed = s.pushed →
      s'.taken = s.taken → s'.tokensPushed = s.tokensPushed →
      s'.tokensTaken = s.tokensTaken → s'.log = s.log ++ [⟨t, c, cs, s.now, .empty⟩] →
      DataStep s s'

theorem lookReady_data (s : State) (t : Nat) (c : Call) (cs dur : Nat) (e : Bool) :
    DataStep s (lookReady s t c cs dur e) := by
  unfold lookReady
  split
  · next v rest hq => exact .takeElem v rest t c cs hq rfl rfl rfl rfl rfl rfl
  · next rest hq => exact .takeToken rest t c cs hq rfl rfl rfl rfl rfl rfl
  · next hq =>
    split
    · exact .retEmpty t _ cs (by simp) hq hq rfl rfl rfl rfl rfl
    · exact .same rfl rfl rfl rfl rfl rfl
    · split
      · exact .retEmpty t _ cs (by simp) hq hq rfl rfl rfl rfl rfl
      · exact .same rfl rfl rfl rfl rfl rfl

theorem step_data {s s' : State} {l : Label} (h : step s l = some s') : DataStep s s' := by
  cases l with
  | call t c =>
    simp only [step] at h
    split at h
    · simp only [Option.some.injEq] at h; subst h; exact .same rfl rfl rfl rfl rfl rfl
    · cases h
  | look t =>
    simp only [step] at h
    split at h
    · simp only [Option.some.injEq] at h; subst h; exact lookReady_data ..
    · simp only [Option.some.injEq] at h; subst h; exact lookReady_data ..
    · cases h
  | push v woke =>
    simp only [step] at h
    split at h
    · simp only [Option.some.injEq] at h; subst h
      exact .push v (by simp) (by simp) (by simp) (by simp) (by simp) (by simp)
    · cases h
  | unblock woke =>
    simp only [step] at h
    split at h
    · simp only [Option.some.injEq] at h; subst h
      exact .unblock (by simp) (by simp) (by simp) (by simp) (by simp) (by simp)
    · cases h
  | wake t r =>
    simp only [step] at h
    split at h
    · split at h
      · simp only [Option.some.injEq] at h; subst h; exact .same rfl rfl rfl rfl rfl rfl
      · split at h
        · split at h
          · simp only [Option.some.injEq] at h; subst h; exact .same rfl rfl rfl rfl rfl rfl
          · cases h
        · cases h
    · cases h
  | tick d =>
    simp only [step, Option.some.injEq] at h; subst h; exact .same rfl rfl rfl rfl rfl rfl

theorem elems_append_elem (q : List Item) (v : Nat) : elems (q ++ [Item.elem v]) = elems q ++ [v] := by
  induction q with
  | nil => rfl
  | cons a q ih => cases a <;> simp [elems, ih]

theorem elems_append_token (q : List Item) : elems (q ++ [Item.token]) = elems q := by
  induction q with
  | nil => rfl
  | cons a q ih => cases a <;> simp [elems, ih]

theorem tokens_append_elem (q : List Item) (v : Nat) : tokens (q ++ [Item.elem v]) = tokens q := by
  induction q with
  | nil => rfl
  | cons a q ih => cases a <;> simp [tokens, ih]

theorem tokens_append_token (q : List Item) : tokens (q ++ [Item.token]) = tokens q + 1 := by
  induction q with
  | nil => rfl
  | cons a q ih => cases a <;> simp [tokens, ih]

/-- C07 / C17: exactly once, in order. -/
theorem exactly_once_inv (s : State) (h : Reachable s) : s.taken ++ elems s.queue = s.pushed := by
  refine reachable_inv (Inv := fun s => s.taken ++ elems s.queue = s.pushed) rfl ?_ s h
  intro s l s' hi hs
  cases step_data hs with
  | same hq hp ht _ _ _ => rw [hq, hp, ht]; exact hi
  | push v hq hp ht _ _ _ => rw [hq, hp, ht, elems_append_elem, ← List.append_assoc, hi]
  | unblock hq hp ht _ _ _ => rw [hq, hp, ht, elems_append_token]; exact hi
  | takeElem v rest t c cs hq0 hq hp ht _ _ _ =>
    rw [hq, hp, ht, ← hi, hq0]; simp [elems]
  | takeToken rest t c cs hq0 hq hp ht _ _ _ =>
    rw [hq, hp, ht, ← hi, hq0]; simp [elems]
  | retEmpty t c cs _ hq0 hq hp ht _ _ _ => rw [hq, hp, ht, ← hi, hq0]

theorem log_values_inv (s : State) (h : Reachable s) :
    (s.log.filterMap (fun r => match r.res with | .value v => some v | _ => none)) = s.taken := by
  refine reachable_inv
    (Inv := fun s => (s.log.filterMap (fun r => match r.res with | .value v => some v | _ => none)) = s.taken)
    rfl ?_ s h
  intro s l s' hi hs
  cases step_data hs with
  | same _ _ ht _ _ hl => rw [hl, ht]; exact hi
  | push v _ _ ht _ _ hl => rw [hl, ht]; exact hi
  | unblock _ _ ht _ _ hl => rw [hl, ht]; exact hi
  | takeElem v rest t c cs _ _ _ ht _ _ hl => rw [hl, ht, List.filterMap_append, hi]; rfl
  | takeToken rest t c cs _ _ _ ht _ _ hl => rw [hl, ht, List.filterMap_append, hi]; simp
  | retEmpty t c cs _ _ _ _ ht _ _ hl => rw [hl, ht, List.filterMap_append, hi]; simp

theorem token_conservation_inv (s : State) (h : Reachable s) :
    s.tokensPushed = s.tokensTaken + tokens s.queue ∧
    (s.log.filter (fun r => r.res == .byToken)).length = s.tokensTaken := by
  refine reachable_inv
    (Inv := fun s => s.tokensPushed = s.tokensTaken + tokens s.queue ∧
      (s.log.filter (fun r => r.res == .byToken)).length = s.tokensTaken)
    ⟨rfl, rfl⟩ ?_ s h
  intro s l s' ⟨h1, h2⟩ hs
  cases step_data hs with
  | same hq _ _ hp ht hl => rw [hq, hp, ht, hl]; exact ⟨h1, h2⟩
  | push v hq _ _ hp ht hl => rw [hq, hp, ht, hl, tokens_append_elem]; exact ⟨h1, h2⟩
  | unblock hq _ _ hp ht hl => rw [hq, hp, ht, hl, tokens_append_token]; exact ⟨by omega, h2⟩
  | takeElem v rest t c cs hq0 hq _ _ hp ht hl =>
    rw [hq0] at h1
    rw [hq, hp, ht, hl, List.filter_append, List.length_append, h2]
    simp only [tokens] at h1
    exact ⟨h1, by simp⟩
  | takeToken rest t c cs hq0 hq _ _ hp ht hl =>
    rw [hq0] at h1
    rw [hq, hp, ht, hl, List.filter_append, List.length_append, h2]
    simp only [tokens] at h1
    exact ⟨by omega, by simp⟩
  | retEmpty t c cs _ hq0 hq _ _ hp ht hl =>
    rw [hq0] at h1
    rw [hq, hp, ht, hl, List.filter_append, List.length_append, h2]
    exact ⟨h1, by simp⟩

theorem recv_empty_inv (s : State) (h : Reachable s) :
    ∀ r ∈ s.log, r.call = .pop → r.res ≠ .empty := by
  refine reachable_inv (Inv := fun s => ∀ r ∈ s.log, r.call = .pop → r.res ≠ .empty)
    (by intro r hr; cases hr) ?_ s h
  intro s l s' hi hs
  cases step_data hs with
  | same _ _ _ _ _ hl => rw [hl]; exact hi
  | push v _ _ _ _ _ hl => rw [hl]; exact hi
  | unblock _ _ _ _ _ hl => rw [hl]; exact hi
  | takeElem v rest t c cs _ _ _ _ _ _ hl =>
    rw [hl]; intro r hr
    rcases List.mem_append.mp hr with hr | hr
    · exact hi r hr
    · simp only [List.mem_singleton] at hr; subst hr; intro _ h; cases h
  | takeToken rest t c cs _ _ _ _ _ _ hl =>
    rw [hl]; intro r hr
    rcases List.mem_append.mp hr with hr | hr
    · exact hi r hr
    · simp only [List.mem_singleton] at hr; subst hr; intro _ h; cases h
  | retEmpty t c cs hc _ _ _ _ _ _ hl =>
    rw [hl]; intro r hr
    rcases List.mem_append.mp hr with hr | hr
    · exact hi r hr
    · simp only [List.mem_singleton] at hr; subst hr; intro h; exact absurd h hc

/-! ### no lost wake-up -/

theorem countP_setPhase (f : Phase → Bool) (hf : f Phase.idle = false) (s : State) (t : Nat)
    (p : Phase) :
    countP (setPhase s t p) f + (if f (phaseOf s t) then 1 else 0)
      = countP s f + (if f p then 1 else 0) :=
  filter_setP_length f hf p s.phases t

theorem countP_congr {s s' : State} (h : s'.phases = s.phases) (f : Phase → Bool) :
    countP s' f = countP s f := by
  simp only [countP, h]

theorem phaseOf_congr {s s' : State} (h : s'.phases = s.phases) (t : Nat) :
    phaseOf s' t = phaseOf s t := by
  simp only [phaseOf, h]

theorem lookReady_shape (s : State) (t : Nat) (c : Call) (cs dur : Nat) (e : Bool) :
    (s.queue ≠ [] ∧ (lookReady s t c cs dur e).queue.length + 1 = s.queue.length ∧
      (lookReady s t c cs dur e).phases = (setPhase s t .idle).phases) ∨
    (s.queue = [] ∧ (lookReady s t c cs dur e).queue = [] ∧
      ∃ p, (lookReady s t c cs dur e).phases = (setPhase s t p).phases ∧ isRunnable p = false) := by
  unfold lookReady
  split
  · next v rest hq => left; simp [hq]
  · next rest hq => left; simp [hq]
  · next hq =>
    right
    refine ⟨hq, ?_⟩
    split
    · exact ⟨hq, _, rfl, rfl⟩
    · exact ⟨hq, _, rfl, rfl⟩
    · split
      · exact ⟨hq, _, rfl, rfl⟩
      · exact ⟨hq, _, rfl, rfl⟩

def NoLost (s : State) : Prop :=
  0 < countP s isWaiting → s.queue.length ≤ countP s isRunnable

theorem noLost_look {s : State} {t : Nat} {c : Call} {cs dur : Nat} {e : Bool}
    (hi : NoLost s) (hr : isRunnable (phaseOf s t) = true) :
    NoLost (lookReady s t c cs dur e) := by
  have hw : isWaiting (phaseOf s t) = false := by
    cases hp : phaseOf s t <;> simp_all [isRunnable, isWaiting]
  unfold NoLost at *
  rcases lookReady_shape s t c cs dur e with ⟨_, hq, hph⟩ | ⟨_, hq, p, hph, hp⟩
  · have hW := countP_setPhase isWaiting rfl s t .idle
    have hR := countP_setPhase isRunnable rfl s t .idle
    rw [countP_congr hph, countP_congr hph]
    rw [hw] at hW; rw [hr] at hR
    simp only [isWaiting, isRunnable, if_true, Bool.false_eq_true, if_false] at hW hR
    omega
  · intro _; rw [hq]; exact Nat.zero_le _

theorem noLost_to_runnable {s : State} {t : Nat} (p : Phase) (hi : NoLost s)
    (hrp : isRunnable p = true) (hold : isRunnable (phaseOf s t) = false) :
    NoLost (setPhase s t p) := by
  have hwp : isWaiting p = false := by cases p <;> simp_all [isRunnable, isWaiting]
  unfold NoLost at *
  have hW := countP_setPhase isWaiting rfl s t p
  have hR := countP_setPhase isRunnable rfl s t p
  rw [hwp] at hW; rw [hrp, hold] at hR
  simp only [if_true, Bool.false_eq_true, if_false] at hW hR
  simp only [setPhase_queue]
  split at hW <;> omega

theorem noLost_notify {s : State} {w : Option Nat} {q : List Item} {pu : List Nat} {tp : Nat}
    (hi : NoLost s) (hn : notifyOk s w = true) (hq : q.length = s.queue.length + 1) :
    NoLost (applyNotify { s with queue := q, pushed := pu, tokensPushed := tp } w) := by
  unfold NoLost at *
  cases w with
  | none =>
    simp only [notifyOk, Bool.not_eq_true'] at hn
    have h0 : countP s isWaiting = 0 := any_false_filter_length hn
    intro hpos
    simp only [applyNotify] at hpos
    have : countP { s with queue := q, pushed := pu, tokensPushed := tp } isWaiting
        = countP s isWaiting := rfl
    omega
  | some t =>
    simp only [notifyOk] at hn
    simp only [applyNotify]
    split
    · next c cs dur start dl heq =>
      have heq' : phaseOf s t = .waiting c cs dur start dl := heq
      have hW := countP_setPhase isWaiting rfl s t (.woken c cs dur start false)
      have hR := countP_setPhase isRunnable rfl s t (.woken c cs dur start false)
      rw [heq'] at hW hR
      simp only [isWaiting, isRunnable, if_true, Bool.false_eq_true, if_false] at hW hR
      have e1 : countP (setPhase { s with queue := q, pushed := pu, tokensPushed := tp } t
          (.woken c cs dur start false)) isWaiting
          = countP (setPhase s t (.woken c cs dur start false)) isWaiting := rfl
      have e2 : countP (setPhase { s with queue := q, pushed := pu, tokensPushed := tp } t
          (.woken c cs dur start false)) isRunnable
          = countP (setPhase s t (.woken c cs dur start false)) isRunnable := rfl
      rw [e1, e2]
      simp only [setPhase_queue]
      omega
    · next hne =>
      exfalso
      cases hp : phaseOf s t with
      | waiting c cs dur start dl => exact hne c cs dur start dl hp
      | idle => simp [hp, isWaiting] at hn
      | ready => simp [hp, isWaiting] at hn
      | woken => simp [hp, isWaiting] at hn

theorem noLost_step (s : State) (l : Label) (s' : State) (hi : NoLost s)
    (h : step s l = some s') : NoLost s' := by
  cases l with
  | call t c =>
    simp only [step] at h
    split at h
    · next hp =>
      simp only [Option.some.injEq] at h; subst h
      exact noLost_to_runnable _ hi rfl (by rw [hp]; rfl)
    · cases h
  | look t =>
    simp only [step] at h
    split at h
    · next hp =>
      simp only [Option.some.injEq] at h; subst h
      exact noLost_look hi (by rw [hp]; rfl)
    · next hp =>
      simp only [Option.some.injEq] at h; subst h
      exact noLost_look hi (by rw [hp]; rfl)
    · cases h
  | push v woke =>
    simp only [step] at h
    split at h
    · next hn =>
      simp only [Option.some.injEq] at h; subst h
      exact noLost_notify (tp := s.tokensPushed) hi hn (by simp)
    · cases h
  | unblock woke =>
    simp only [step] at h
    split at h
    · next hn =>
      simp only [Option.some.injEq] at h; subst h
      exact noLost_notify (pu := s.pushed) hi hn (by simp)
    · cases h
  | wake t r =>
    have key : ∀ c cs dur start dl b, phaseOf s t = .waiting c cs dur start dl →
        NoLost (setPhase s t (.woken c cs dur start b)) := by
      intro c cs dur start dl b hp
      exact noLost_to_runnable _ hi rfl (by rw [hp]; rfl)
    simp only [step] at h
    split at h
    · next hp =>
      split at h
      · simp only [Option.some.injEq] at h; subst h; exact key _ _ _ _ _ _ hp
      · split at h
        · split at h
          · simp only [Option.some.injEq] at h; subst h; exact key _ _ _ _ _ _ hp
          · cases h
        · cases h
    · cases h
  | tick d =>
    simp only [step, Option.some.injEq] at h; subst h; exact hi

theorem no_lost_wakeup_inv (s : State) (h : Reachable s) : NoLost s := by
  refine reachable_inv (Inv := NoLost) ?_ noLost_step s h
  intro h; simp [countP] at h

/-! ### `recv_timeout` bounds in zero-latency runs -/

theorem stepZL_step {s s' : State} {l : Label} (h : stepZL s l = some s') :
    step s l = some s' ∧ ∀ d, l = .tick d → tickOk s d = true := by
  cases l with
  | tick d =>
    simp only [stepZL] at h
    split at h
    · next hk => exact ⟨h, fun d' hd => by cases hd; exact hk⟩
    · cases h
  | wake t r => cases r <;> exact ⟨h, fun d hd => by cases hd⟩
  | call t c => exact ⟨h, fun d hd => by cases hd⟩
  | look t => exact ⟨h, fun d hd => by cases hd⟩
  | push v w => exact ⟨h, fun d hd => by cases hd⟩
  | unblock w => exact ⟨h, fun d hd => by cases hd⟩

theorem tickOk_spec {s : State} {d : Nat} (h : tickOk s d = true) (u : Nat) :
    isRunnable (phaseOf s u) = false ∧
      ∀ dl, deadlineOf (phaseOf s u) = some dl → s.now + d ≤ dl := by
  by_cases hid : phaseOf s u = Phase.idle
  · rw [hid]; exact ⟨rfl, fun dl hdl => by cases hdl⟩
  · have hmem : phaseOf s u ∈ s.phases := mem_of_getD (t := u) rfl hid
    simp only [tickOk, Bool.and_eq_true, Bool.not_eq_true', List.any_eq_false,
      List.all_eq_true] at h
    refine ⟨?_, ?_⟩
    · cases hr : isRunnable (phaseOf s u) with
      | false => rfl
      | true => exact absurd hr (h.1 _ hmem)
    · intro dl hdl
      have := h.2 _ hmem
      rw [hdl] at this
      simpa using this

/-- the bound claimed for a completed call -/
def RecOk (r : Record) : Prop :=
  ∀ T, r.call = .popTimeout T → r.res = .empty → slackNs ≤ T →
    T - slackNs < r.retTime - r.callStart ∧ r.retTime - r.callStart < 2 * T

/-- per-thread facts about timed calls in zero-latency runs -/
def PhOk (now : Nat) : Phase → Prop
  | .ready (.popTimeout T) cs dur e => e = false ∧ dur = T ∧ cs = now
  | .waiting (.popTimeout T) cs dur start dl =>
      dl = some (start + T) ∧ cs ≤ start ∧ start ≤ now ∧ now ≤ start + T ∧
        dur + (start - cs) = T ∧ (slackNs ≤ T → slackNs ≤ dur)
  | .woken (.popTimeout T) cs dur start to =>
      cs ≤ start ∧ start ≤ now ∧ now ≤ start + T ∧
        dur + (start - cs) = T ∧ (slackNs ≤ T → slackNs ≤ dur) ∧ (to = true → now = start + T)
  | _ => True

structure ZInv (s : State) : Prop where
  ph : ∀ u, PhOk s.now (phaseOf s u)
  log : ∀ r ∈ s.log, RecOk r

/-- what `lookReady` needs to know about its arguments -/
def LookPre (now : Nat) : Call → Nat → Nat → Bool → Prop
  | .popTimeout T, cs, dur, e =>
      cs ≤ now ∧ (e = false → dur + (now - cs) = T ∧ (slackNs ≤ T → slackNs ≤ dur)) ∧
        (e = true → slackNs ≤ T → T - slackNs < now - cs ∧ now - cs < 2 * T)
  | _, _, _, _ => True

theorem zinv_update {s s' : State} {t : Nat} {p : Phase} (hi : ZInv s)
    (hph : s'.phases = (setPhase s t p).phases) (hnow : s'.now = s.now)
    (hp : PhOk s.now p) (hlog : ∀ r ∈ s'.log, RecOk r) : ZInv s' := by
  refine ⟨?_, hlog⟩
  intro u
  rw [hnow, phaseOf_congr hph u]
  by_cases hu : u = t
  · subst hu
    have : phaseOf (setPhase s u p) u = p := getD_setP_self s.phases u p
    rw [this]; exact hp
  · have : phaseOf (setPhase s t p) u = phaseOf s u := getD_setP_ne s.phases t u p hu
    rw [this]; exact hi.ph u

theorem log_snoc {l : List Record} {r : Record} (hl : ∀ x ∈ l, RecOk x) (hr : RecOk r) :
    ∀ x ∈ l ++ [r], RecOk x := by
  intro x hx
  rcases List.mem_append.mp hx with hx | hx
  · exact hl x hx
  · simp only [List.mem_singleton] at hx; subst hx; exact hr

theorem zinv_lookReady {s : State} {t : Nat} {c : Call} {cs dur : Nat} {e : Bool}
    (hi : ZInv s) (hpre : LookPre s.now c cs dur e) : ZInv (lookReady s t c cs dur e) := by
  unfold lookReady
  split
  · refine zinv_update (p := .idle) hi rfl rfl trivial (log_snoc hi.log ?_)
    intro T _ hres; cases hres
  · refine zinv_update (p := .idle) hi rfl rfl trivial (log_snoc hi.log ?_)
    intro T _ hres; cases hres
  · split
    · refine zinv_update (p := .idle) hi rfl rfl trivial (log_snoc hi.log ?_)
      intro T hc; cases hc
    · exact zinv_update hi rfl rfl trivial hi.log
    · next T =>
      simp only [LookPre] at hpre
      split
      · next he =>
        refine zinv_update (p := .idle) hi rfl rfl trivial (log_snoc hi.log ?_)
        intro T' hc _ hT
        simp only [Call.popTimeout.injEq] at hc
        subst hc
        exact hpre.2.2 he hT
      · next he =>
        have he' : e = false := by cases e <;> simp_all
        have := hpre.2.1 he'
        refine zinv_update hi rfl rfl ?_ hi.log
        exact ⟨rfl, hpre.1, Nat.le_refl _, by omega, this.1, this.2⟩

theorem zinv_to_woken {s : State} {t : Nat} {c : Call} {cs dur start : Nat} {dl : Option Nat}
    (hi : ZInv s) (hp : phaseOf s t = .waiting c cs dur start dl) :
    PhOk s.now (.woken c cs dur start false) := by
  have := hi.ph t
  rw [hp] at this
  cases c with
  | popTimeout T =>
    simp only [PhOk] at this ⊢
    exact ⟨this.2.1, this.2.2.1, this.2.2.2.1, this.2.2.2.2.1, this.2.2.2.2.2, fun h => by cases h⟩
  | pop => trivial
  | tryPop => trivial

theorem zinv_notify {s : State} {w : Option Nat} {q : List Item} {pu : List Nat} {tp : Nat}
    (hi : ZInv s) :
    ZInv (applyNotify { s with queue := q, pushed := pu, tokensPushed := tp } w) := by
  have hi0 : ZInv { s with queue := q, pushed := pu, tokensPushed := tp } := ⟨hi.ph, hi.log⟩
  cases w with
  | none => exact hi0
  | some t =>
    simp only [applyNotify]
    split
    · next c cs dur start dl heq =>
      have heq' : phaseOf s t = .waiting c cs dur start dl := heq
      exact zinv_update hi rfl rfl (zinv_to_woken hi heq') hi.log
    · exact hi0

theorem zinv_step (s : State) (l : Label) (s' : State) (hi : ZInv s)
    (h : stepZL s l = some s') : ZInv s' := by
  obtain ⟨h, htick⟩ := stepZL_step h
  cases l with
  | call t c =>
    simp only [step] at h
    split at h
    · simp only [Option.some.injEq] at h; subst h
      refine zinv_update hi rfl rfl ?_ hi.log
      cases c with
      | popTimeout T => exact ⟨rfl, rfl, rfl⟩
      | pop => trivial
      | tryPop => trivial
    · cases h
  | look t =>
    simp only [step] at h
    split at h
    · next c cs dur e hp =>
      simp only [Option.some.injEq] at h; subst h
      apply zinv_lookReady hi
      have := hi.ph t
      rw [hp] at this
      cases c with
      | popTimeout T =>
        simp only [PhOk] at this
        obtain ⟨h1, h2, h3⟩ := this
        subst h1 h2 h3
        simp only [LookPre]
        refine ⟨Nat.le_refl _, fun _ => ⟨by omega, fun h => h⟩, fun h => by cases h⟩
      | pop => trivial
      | tryPop => trivial
    · next c cs dur start to hp =>
      simp only [Option.some.injEq] at h; subst h
      apply zinv_lookReady hi
      have := hi.ph t
      rw [hp] at this
      cases c with
      | popTimeout T =>
        simp only [PhOk] at this
        obtain ⟨h1, h2, h3, h4, h5, h6⟩ := this
        simp only [LookPre, Bool.or_eq_false_iff, Bool.or_eq_true, decide_eq_false_iff_not,
          decide_eq_true_eq]
        have hs : 0 < slackNs := by decide
        refine ⟨by omega, ?_, ?_⟩
        · intro ⟨_, hd⟩
          refine ⟨by omega, fun _ => by omega⟩
        · intro he hT
          have h5' := h5 hT
          rcases he with he | he
          · have := h6 he
            omega
          · omega
      | pop => trivial
      | tryPop => trivial
    · cases h
  | push v woke =>
    simp only [step] at h
    split at h
    · simp only [Option.some.injEq] at h; subst h
      exact zinv_notify (tp := s.tokensPushed) hi
    · cases h
  | unblock woke =>
    simp only [step] at h
    split at h
    · simp only [Option.some.injEq] at h; subst h
      exact zinv_notify (pu := s.pushed) hi
    · cases h
  | wake t r =>
    simp only [step] at h
    split at h
    · next c cs dur start dl hp =>
      split at h
      · simp only [Option.some.injEq] at h; subst h
        exact zinv_update hi rfl rfl (zinv_to_woken hi hp) hi.log
      · split at h
        · next d =>
          split at h
          · next hd =>
            simp only [Option.some.injEq] at h; subst h
            refine zinv_update hi rfl rfl ?_ hi.log
            have := hi.ph t
            rw [hp] at this
            cases c with
            | popTimeout T =>
              simp only [PhOk, Option.some.injEq] at this ⊢
              obtain ⟨h1, h2, h3, h4, h5, h6⟩ := this
              exact ⟨h2, h3, h4, h5, h6, fun _ => by omega⟩
            | pop => trivial
            | tryPop => trivial
          · cases h
        · cases h
    · cases h
  | tick d =>
    have hk := htick d rfl
    simp only [step, Option.some.injEq] at h; subst h
    refine ⟨?_, hi.log⟩
    intro u
    have hu := hi.ph u
    obtain ⟨hr, hdl⟩ := tickOk_spec hk u
    change PhOk (s.now + d) (phaseOf s u)
    cases hp : phaseOf s u with
    | idle => trivial
    | ready => rw [hp] at hr; cases hr
    | woken => rw [hp] at hr; cases hr
    | waiting c cs dur start dl =>
      rw [hp] at hu hdl
      cases c with
      | popTimeout T =>
        simp only [PhOk] at hu ⊢
        obtain ⟨h1, h2, h3, h4, h5, h6⟩ := hu
        have := hdl _ (by simp only [deadlineOf]; exact h1)
        exact ⟨h1, h2, by omega, this, h5, h6⟩
      | pop => trivial
      | tryPop => trivial

theorem zinv_init : ZInv {} := by
  refine ⟨?_, ?_⟩
  · intro u
    have : phaseOf {} u = Phase.idle := by simp [phaseOf]
    rw [this]; trivial
  · intro r hr; cases hr

theorem recv_timeout_bounds_inv (ls : List Label) (s : State) (h : runZL {} ls = some s) :
    ∀ r ∈ s.log, RecOk r :=
  (runZL_inv zinv_step ls _ _ zinv_init h).log

/-! ### runs: appending a step; zero-latency executions are executions -/

theorem run_snoc (ks : List Label) (a m b : State) (l : Label)
    (hk : run a ks = some m) (hl : step m l = some b) : run a (ks ++ [l]) = some b := by
  induction ks generalizing a with
  | nil =>
    simp only [run, Option.some.injEq] at hk
    subst hk
    simp only [List.nil_append, run, hl]
  | cons k ks ih =>
    simp only [run] at hk
    cases h1 : step a k with
    | none => rw [h1] at hk; cases hk
    | some a1 =>
      rw [h1] at hk
      simp only [List.cons_append, run, h1]
      exact ih a1 hk

/-- a zero-latency execution is an execution. -/
theorem runZL_reachable (ls : List Label) (s : State) (h : runZL {} ls = some s) : Reachable s := by
  have key : ∀ ls (a b : State), Reachable a → runZL a ls = some b → Reachable b :=
    runZL_inv (Inv := Reachable) (by
      intro a l b ⟨ks, hk⟩ hst
      exact ⟨ks ++ [l], run_snoc ks {} a b l hk (stepZL_step hst).1⟩)
  exact key ls {} s ⟨[], rfl⟩ h


end TH.Lts.Queue
