/- helper lemmas: invariants of the queue LTS -/
import TinyHttpModel.Lts.Queue
namespace TH.Lts.Queue
end TH.Lts.Queue
