/- helper lemmas for Props/C11 (end to end): the read-ahead of the connection thread over a
   pipeline of rendered requests -/
import TinyHttpModel.Req
import TinyHttpModel.WireSpec
import TinyHttpModel.Lemmas.Ahead
import TinyHttpModel.Lemmas.PipelineChunked

namespace TH
open TH.Req

/-! ### which Content-Length bodies are streamed -/

/-- the `.limited n` kind of a request that does not expect 100-continue is only produced for
    `n > smallBodyLimit` (converse of `framingOf_buffered`). -/
theorem framingOf_limited_large (hs : List Header) (fr : Framing) (n : Nat) (hf : framingOf hs = .ok fr)
    (hk : fr.kind = .limited n) (hex : fr.expectContinue = false) : Extracted.smallBodyLimit < n := by
  unfold framingOf at hf
  simp only [] at hf
  split at hf
  · cases hf
  · split at hf
    · cases hf
    · rename_i ex _
      simp only [Except.ok.injEq] at hf
      subst hf
      simp only [] at hk hex
      subst hex
      repeat' split at hk
      all_goals first
        | (cases hk; done)
        | (rename_i hc; cases hk; simp at hc; omega)

/-! ### the end of the stream -/

/-- where the read-ahead stops when the client's bytes are used up -/
def aheadEndOf : EndState → AheadEnd
  | .open => .waitingForClient
  | _ => .closed

theorem aheadLoop_nil (fuel : Nat) (fin : EndState) :
    aheadLoop (fuel + 1) [] fin = ([], aheadEndOf fin) := by
  cases fin <;> rfl

/-! ### one iteration of the read-ahead -/

/-- a request without a body (no framing header, or `Content-Length: 0`) on a connection that
    stays open: it becomes available and the read-ahead goes on right after its head. -/
theorem aheadLoop_empty_step (fuel : Nat) (h : Head) (ows : List (Bytes × Bytes)) (len : Option Nat)
    (ex : Bool) (rest : Bytes) (fin : EndState)
    (hwf : Spec.wfHead h = true)
    (hows : ∀ o ∈ ows, Spec.isOwsList o.1 = true ∧ Spec.isOwsList o.2 = true)
    (hfr : framingOf h.headers = .ok ⟨.empty, len, ex⟩)
    (hlast : isLastRequest h.version h.headers = false)
    (hver : (⟨Extracted.maxVersion.1, Extracted.maxVersion.2⟩ : Version).lt h.version = false) :
    aheadLoop (fuel + 1) (Spec.renderHead h ows ++ rest) fin =
      (h :: (aheadLoop fuel rest fin).1, (aheadLoop fuel rest fin).2) := by
  have hh := readHead_render h ows rest fin hwf hows
  have hf' : framingFor h.version h.headers = .ok ⟨.empty, len, ex⟩ := by
    rw [framingFor_of_not_high _ _ hver]; exact hfr
  rw [aheadLoop]
  simp only [hh, hf', hver, hlast, Bool.false_eq_true, if_false]

/-- a request with a body of at most 1024 bytes that is entirely on the wire, on a connection
    that stays open: the body is buffered at parse time, the request becomes available and the
    read-ahead goes on right after the body. -/
theorem aheadLoop_buffered_step (fuel : Nat) (h : Head) (ows : List (Bytes × Bytes)) (len : Option Nat)
    (ex : Bool) (B rest : Bytes) (fin : EndState)
    (hwf : Spec.wfHead h = true)
    (hows : ∀ o ∈ ows, Spec.isOwsList o.1 = true ∧ Spec.isOwsList o.2 = true)
    (hfr : framingOf h.headers = .ok ⟨.buffered B.length, len, ex⟩)
    (hlast : isLastRequest h.version h.headers = false)
    (hver : (⟨Extracted.maxVersion.1, Extracted.maxVersion.2⟩ : Version).lt h.version = false) :
    aheadLoop (fuel + 1) (Spec.renderHead h ows ++ (B ++ rest)) fin =
      (h :: (aheadLoop fuel rest fin).1, (aheadLoop fuel rest fin).2) := by
  have hh := readHead_render h ows (B ++ rest) fin hwf hows
  have hf' : framingFor h.version h.headers = .ok ⟨.buffered B.length, len, ex⟩ := by
    rw [framingFor_of_not_high _ _ hver]; exact hfr
  have hlt : ¬ (B ++ rest).length < B.length := by simp
  rw [aheadLoop]
  simp only [hh, hf', hver, hlast, hlt, Bool.false_eq_true, if_false, List.drop_left]

/-- a request whose body reader keeps the stream (Content-Length above 1024, chunked, upgrade, or
    any expecting request): it becomes available as soon as its head has been read and the
    read-ahead stops there, whatever follows the head — the body, part of it, other requests. -/
theorem aheadLoop_streamed_step (fuel : Nat) (h : Head) (ows : List (Bytes × Bytes)) (fr : Framing)
    (tail : Bytes) (fin : EndState)
    (hwf : Spec.wfHead h = true)
    (hows : ∀ o ∈ ows, Spec.isOwsList o.1 = true ∧ Spec.isOwsList o.2 = true)
    (hfr : framingOf h.headers = .ok fr)
    (hk : fr.kind ≠ .empty ∧ ∀ n, fr.kind ≠ .buffered n)
    (hver : (⟨Extracted.maxVersion.1, Extracted.maxVersion.2⟩ : Version).lt h.version = false) :
    aheadLoop (fuel + 1) (Spec.renderHead h ows ++ tail) fin = ([h], .blockedOnBody) := by
  have hh := readHead_render h ows tail fin hwf hows
  have hf' : framingFor h.version h.headers = .ok fr := by
    rw [framingFor_of_not_high _ _ hver]; exact hfr
  rw [aheadLoop]
  simp only [hh, hf', hver, Bool.false_eq_true, if_false]
  cases hkind : fr.kind with
  | empty => exact absurd hkind hk.1
  | buffered n => exact absurd hkind (hk.2 n)
  | upgrade => rfl
  | limited n => rfl
  | chunked => rfl

/-! ### the whole pipeline, for any kind of message that steps -/

/-- The induction over the pipeline, abstracted from the kind of message (as
    `runLoop_generic_pipeline`): if one iteration of the read-ahead on each message, followed by
    any bytes, makes its head available and goes on right after its wire bytes, then the
    read-ahead with enough fuel makes all the heads available, in order, and goes on with the
    bytes after the pipeline. -/
theorem aheadLoop_generic_pipeline {α : Type} (head : α → Head) (ows : α → List (Bytes × Bytes))
    (wire : α → Bytes) (fin : EndState) (items : List α) :
    (∀ x ∈ items, ∀ (fuel : Nat) (rest : Bytes),
      aheadLoop (fuel + 1) (Spec.renderHead (head x) (ows x) ++ (wire x ++ rest)) fin =
        (head x :: (aheadLoop fuel rest fin).1, (aheadLoop fuel rest fin).2)) →
    ∀ (fuel : Nat) (rest : Bytes), items.length ≤ fuel →
      aheadLoop fuel ((items.map (fun x => Spec.renderHead (head x) (ows x) ++ wire x)).flatten ++ rest) fin =
        (items.map head ++ (aheadLoop (fuel - items.length) rest fin).1,
          (aheadLoop (fuel - items.length) rest fin).2) := by
  induction items with
  | nil =>
    intro _ fuel rest _
    simp
  | cons x xs ih =>
    intro hstep fuel rest hfuel
    obtain ⟨f, rfl⟩ : ∃ f, fuel = f + 1 := ⟨fuel - 1, by simp at hfuel; omega⟩
    have h1 := hstep x (by simp) f
      ((xs.map (fun x => Spec.renderHead (head x) (ows x) ++ wire x)).flatten ++ rest)
    have h2 := ih (fun y hy => hstep y (by simp [hy])) f rest (by simp at hfuel; omega)
    have hsub : f + 1 - (x :: xs).length = f - xs.length := by simp
    simp only [List.map_cons, List.flatten_cons, List.append_assoc]
    rw [h1, h2, hsub]
    rfl

end TH
