/- helper lemmas for Props/C18 pipeline_statuses (and Props/C06 pipeline_one_final_response_each):
   one iteration of the loop and a whole pipeline, tracking the status codes the server writes —
   the interim `100` of requests that expect it and whose handler asks for the body, and the
   final status of every finish -/
import TinyHttpModel.WireSpec
import TinyHttpModel.Lemmas.PipelineClosing

namespace TH

/-! ### the statuses one handled request adds -/

/-- the interim response of one request: `[100]` exactly under the condition under which `handle`
    emits it (`a.asReaderCalls > 0 && fr.expectContinue`), nothing otherwise -/
def interimStatus (a : Action) (ex : Bool) : List Nat :=
  if a.asReaderCalls > 0 && ex then [100] else []

/-- the status codes written for one request: the interim response, then the finish's own -/
def requestStatuses (a : Action) (ex : Bool) : List Nat :=
  interimStatus a ex ++ Spec.finishStatus a.fin

theorem handleS1_statuses_interim (s : St) (h : Head) (fr : Framing) (a : Action) :
    (handleS1 s h fr a).statuses = s.statuses ++ interimStatus a fr.expectContinue := by
  unfold handleS1 interimStatus
  split
  · rfl
  · exact (List.append_nil _).symm

/-- the statuses `handle` generates when it does not block, with the condition for the interim
    response written as in `handle` -/
theorem handle_statuses_request (s : St) (h : Head) (fr : Framing) (last : Bool) (a : Action) (body : Body)
    (bs : Bytes) (fin : EndState)
    (hnb : (handle s h fr last a body bs fin).2.2 = false) :
    (handle s h fr last a body bs fin).1.statuses = s.statuses ++ requestStatuses a fr.expectContinue := by
  rw [handle_eq] at hnb ⊢
  simp only at hnb ⊢
  by_cases hp : readEndOf (handleRead a body bs fin).2.1 = .pending
  · simp [hp] at hnb
  · simp only [hp, if_false]
    unfold requestStatuses
    split <;> simp only [handleS3_statuses, handleS1_statuses_interim, List.append_assoc]

/-! ### one iteration of the loop -/

/-- `FramedMsg` with the framing's expectation made visible: `ex` says whether the request
    carried `Expect: 100-continue` -/
def FramedMsgE (h : Head) (ows : List (Bytes × Bytes)) (wire payload : Bytes) (declared : Option Nat)
    (ex : Bool) (fin : EndState) : Prop :=
  Spec.wfHead h = true ∧ (∀ o ∈ ows, Spec.isOwsList o.1 = true ∧ Spec.isOwsList o.2 = true) ∧
  (⟨Extracted.maxVersion.1, Extracted.maxVersion.2⟩ : Version).lt h.version = false ∧
  ∃ fr, framingOf h.headers = .ok fr ∧ fr.bodyLength = declared ∧ fr.expectContinue = ex ∧
    BodyFramed h fr wire payload fin

theorem FramedMsgE.framed {h : Head} {ows : List (Bytes × Bytes)} {wire payload : Bytes} {declared : Option Nat}
    {ex : Bool} {fin : EndState} (hm : FramedMsgE h ows wire payload declared ex fin) :
    FramedMsg h ows wire payload declared fin := by
  obtain ⟨h1, h2, h3, fr, h4, h5, _, h6⟩ := hm
  exact ⟨h1, h2, h3, fr, h4, h5, h6⟩

/-- `framed_step`, with the statuses: the ONE state `s'` the loop goes on from has, after the
    statuses of `s`, exactly the statuses of this request — `[100]` if it expects and the handler
    asks for the body, then the finish's own. -/
theorem framed_step_statuses (h : Head) (ows : List (Bytes × Bytes)) (wire payload : Bytes) (declared : Option Nat)
    (ex : Bool) (fin : EndState) (hm : FramedMsgE h ows wire payload declared ex fin) (idx : Nat) (s : St)
    (script : Script) :
    ∃ (s' : St) (d : Delivered),
      s'.delivered = s.delivered ++ [d] ∧
      (d.method, d.url, d.version, d.headers, d.bodyLength) =
        (h.method, h.url, h.version, h.headers, declared) ∧
      d.last = isLastRequest h.version h.headers ∧
      d.bodyRead <+: payload ∧
      s'.statuses = s.statuses ++ requestStatuses (script idx) ex ∧
      ∀ (fuel : Nat) (rest : Bytes),
        runLoop (fuel + 1) idx s (Spec.renderHead h ows ++ (wire ++ rest)) fin script =
          if isLastRequest h.version h.headers = true then s'.finish .closed
          else runLoop fuel (idx + 1) s' rest fin script := by
  obtain ⟨hwf, hows, hver, fr, hfr, hlen, hex, hshort, hb⟩ := hm
  obtain ⟨_, hnb, _, got, re, hdel, hpre⟩ :=
    hb s (isLastRequest h.version h.headers) (script idx) []
  refine ⟨_, _, hdel, by rw [← hlen], rfl, hpre, ?_, ?_⟩
  · rw [handle_statuses_request _ _ _ _ _ _ _ _ hnb, hex]
  · intro fuel rest
    obtain ⟨h1, h2, h3, _⟩ := hb s (isLastRequest h.version h.headers) (script idx) rest
    have hh := readHead_render h ows (wire ++ rest) fin hwf hows
    rw [runLoop_step fuel idx s _ fin script h (wire ++ rest) fr hh hfr
      (by intro n hn; have := hshort n hn; simp only [List.length_append]; omega) hver]
    rw [h1, h2, h3 []]
    simp only [Bool.false_eq_true, if_false]

/-! ### the whole pipeline -/

/-- the status codes written for a pipeline `items` answered by `script` from entry `idx` on:
    request by request, the interim response (if expected and asked for) then the final status -/
def pipeStatuses {α : Type} (ex : α → Bool) (script : Script) : Nat → List α → List Nat
  | _, [] => []
  | idx, x :: xs => requestStatuses (script idx) (ex x) ++ pipeStatuses ex script (idx + 1) xs

/-- `framed_pipeline`, with the statuses: the ONE state `s'` in which the loop arrives at the bytes
    after the pipeline has, after the statuses of `s`, exactly `pipeStatuses`. -/
theorem framed_pipeline_statuses {α : Type} (head : α → Head) (ows : α → List (Bytes × Bytes))
    (wire payload : α → Bytes) (declared : α → Option Nat) (ex : α → Bool) (fin : EndState) (items : List α) :
    (∀ x ∈ items, FramedMsgE (head x) (ows x) (wire x) (payload x) (declared x) (ex x) fin ∧
      isLastRequest (head x).version (head x).headers = false) →
    ∀ (idx : Nat) (s : St) (script : Script),
    ∃ (s' : St) (ds : List Delivered),
      s'.delivered = s.delivered ++ ds ∧
      ds.map (fun d => (d.method, d.url, d.version, d.headers, d.bodyLength)) =
        items.map (fun x => ((head x).method, (head x).url, (head x).version, (head x).headers, declared x)) ∧
      (∀ d ∈ ds, d.last = false) ∧
      (∀ (i : Nat) (d : Delivered) (x : α),
        ds[i]? = some d → items[i]? = some x → d.bodyRead <+: payload x) ∧
      s'.statuses = s.statuses ++ pipeStatuses ex script idx items ∧
      ∀ (fuel : Nat) (rest : Bytes), items.length ≤ fuel →
        runLoop fuel idx s
            ((items.map (fun x => Spec.renderHead (head x) (ows x) ++ wire x)).flatten ++ rest) fin script =
          runLoop (fuel - items.length) (idx + items.length) s' rest fin script := by
  induction items with
  | nil =>
    intro _ idx s script
    exact ⟨s, [], by simp, by simp, by simp, by simp, by simp [pipeStatuses], by simp⟩
  | cons x xs ih =>
    intro hgood idx s script
    obtain ⟨hx, hxl⟩ := hgood x (by simp)
    obtain ⟨s1, d, hdel1, hd, hdl, hpre, hst1, hrun1⟩ :=
      framed_step_statuses (head x) (ows x) (wire x) (payload x) (declared x) (ex x) fin hx idx s script
    obtain ⟨s2, ds, hdel2, hmap, hlast, hpres, hst2, hrun2⟩ :=
      ih (fun y hy => hgood y (by simp [hy])) (idx + 1) s1 script
    refine ⟨s2, d :: ds, ?_, ?_, ?_, ?_, ?_, ?_⟩
    · rw [hdel2, hdel1]
      simp
    · simp only [List.map_cons, hmap, hd]
    · intro d' hd'
      simp only [List.mem_cons] at hd'
      rcases hd' with rfl | hd'
      · rw [hdl, hxl]
      · exact hlast d' hd'
    · intro i d' x' h1 h2
      cases i with
      | zero =>
        simp only [List.getElem?_cons_zero, Option.some.injEq] at h1 h2
        subst h1 h2
        exact hpre
      | succ j =>
        simp only [List.getElem?_cons_succ] at h1 h2
        exact hpres j d' x' h1 h2
    · rw [hst2, hst1, pipeStatuses, List.append_assoc]
    · intro fuel rest hfuel
      obtain ⟨f, rfl⟩ : ∃ f, fuel = f + 1 := ⟨fuel - 1, by simp at hfuel; omega⟩
      simp only [List.map_cons, List.flatten_cons, List.append_assoc, List.length_cons]
      rw [hrun1 f, hxl, hrun2 f rest (by simp at hfuel; omega)]
      simp only [Bool.false_eq_true, if_false]
      congr 1 <;> omega

/-! ### counting in `pipeStatuses` -/

/-- the final statuses alone: one per request, none for a raw writer -/
def finalStatuses (script : Script) : Nat → Nat → List Nat
  | _, 0 => []
  | idx, n + 1 => Spec.finishStatus (script idx).fin ++ finalStatuses script (idx + 1) n

/-- the number of requests of the pipeline that expect `100 Continue` and whose handler asks for
    the body -/
def interimCount {α : Type} (ex : α → Bool) (script : Script) : Nat → List α → Nat
  | _, [] => 0
  | idx, x :: xs =>
    (if (script idx).asReaderCalls > 0 && ex x then 1 else 0) + interimCount ex script (idx + 1) xs

theorem interimStatus_filter_eq (a : Action) (ex : Bool) :
    ((interimStatus a ex).filter (· == 100)).length = if a.asReaderCalls > 0 && ex then 1 else 0 := by
  unfold interimStatus
  split <;> rfl

theorem interimStatus_filter_ne (a : Action) (ex : Bool) :
    (interimStatus a ex).filter (· != 100) = [] := by
  unfold interimStatus
  split <;> rfl

/-- no expectation anywhere: only the final statuses -/
theorem pipeStatuses_no_expectation {α : Type} (ex : α → Bool) (script : Script) (items : List α)
    (hno : ∀ x ∈ items, ex x = false) :
    ∀ idx, pipeStatuses ex script idx items = finalStatuses script idx items.length := by
  induction items with
  | nil => intro idx; rfl
  | cons x xs ih =>
    intro idx
    have hx : ex x = false := hno x (by simp)
    rw [pipeStatuses, List.length_cons, finalStatuses, ih (fun y hy => hno y (by simp [hy])),
      requestStatuses, interimStatus, hx, Bool.and_false]
    rfl

/-- the interim responses among the statuses: those asked for and expected, plus whatever `100`
    the handlers themselves chose as a final status -/
theorem pipeStatuses_count_100 {α : Type} (ex : α → Bool) (script : Script) (items : List α) :
    ∀ idx, ((pipeStatuses ex script idx items).filter (· == 100)).length =
      interimCount ex script idx items +
        ((finalStatuses script idx items.length).filter (· == 100)).length := by
  induction items with
  | nil => intro idx; rfl
  | cons x xs ih =>
    intro idx
    rw [pipeStatuses, List.length_cons, finalStatuses, interimCount, requestStatuses]
    simp only [List.filter_append, List.length_append]
    rw [ih (idx + 1), interimStatus_filter_eq]
    omega

/-- the statuses other than `100` are those among the final ones -/
theorem pipeStatuses_filter_ne_100 {α : Type} (ex : α → Bool) (script : Script) (items : List α) :
    ∀ idx, (pipeStatuses ex script idx items).filter (· != 100) =
      (finalStatuses script idx items.length).filter (· != 100) := by
  induction items with
  | nil => intro idx; rfl
  | cons x xs ih =>
    intro idx
    rw [pipeStatuses, List.length_cons, finalStatuses, requestStatuses]
    simp only [List.filter_append]
    rw [ih (idx + 1), interimStatus_filter_ne, List.nil_append]

/-- handlers that never choose `100` as a final status -/
theorem finalStatuses_no_100 (script : Script) (hfin : ∀ i, 100 ∉ Spec.finishStatus (script i).fin) :
    ∀ n idx, 100 ∉ finalStatuses script idx n := by
  intro n
  induction n with
  | zero => intro idx; simp [finalStatuses]
  | succ n ih =>
    intro idx
    rw [finalStatuses, List.mem_append]
    intro h
    rcases h with h | h
    · exact hfin idx h
    · exact ih (idx + 1) h

theorem filter_eq_100_of_not_mem (l : List Nat) (h : 100 ∉ l) : l.filter (· == 100) = [] := by
  rw [List.filter_eq_nil_iff]
  intro a ha hb
  have : a = 100 := by simpa using hb
  exact h (this ▸ ha)

theorem filter_ne_100_of_not_mem (l : List Nat) (h : 100 ∉ l) : l.filter (· != 100) = l := by
  rw [List.filter_eq_self]
  intro a ha
  simp only [bne_iff_ne, ne_eq]
  intro hb
  exact h (hb ▸ ha)

/-- every finish except the raw writer writes exactly one final status -/
theorem finalStatuses_length (script : Script) (hnw : ∀ i ops, (script i).fin ≠ .writer ops) :
    ∀ n idx, (finalStatuses script idx n).length = n := by
  intro n
  induction n with
  | zero => intro idx; rfl
  | succ n ih =>
    intro idx
    have h0 : (Spec.finishStatus (script idx).fin).length = 1 := by
      cases hf : (script idx).fin with
      | writer ops => exact absurd hf (hnw idx ops)
      | _ => rfl
    rw [finalStatuses, List.length_append, h0, ih (idx + 1)]
    omega

end TH
