/- helper lemmas for Lts.Par (4): the invariant relating a concurrent state to the sequential run -/
import TinyHttpModel.Lemmas.ParInvParse
import TinyHttpModel.Lemmas.SeqInv

namespace TH
namespace Lts.Par

/-! ### summing over the requests and their writers -/

def sumZip {α : Type} (f : PReq → Seq.W → List α) : List PReq → List Seq.W → List α
  | r :: rs, w :: ws => f r w ++ sumZip f rs ws
  | _, _ => []

theorem sumZip_append {α : Type} (f : PReq → Seq.W → List α) : ∀ (rs : List PReq) (ws : List Seq.W),
    rs.length = ws.length → ∀ r w, sumZip f (rs ++ [r]) (ws ++ [w]) = sumZip f rs ws ++ f r w := by
  intro rs
  induction rs with
  | nil =>
    intro ws h r w
    cases ws with
    | nil => simp [sumZip]
    | cons _ _ => simp at h
  | cons a rs ih =>
    intro ws h r w
    cases ws with
    | nil => simp at h
    | cons b ws =>
      simp only [List.length_cons, Nat.add_right_cancel_iff] at h
      simp only [List.cons_append, sumZip, ih ws h r w, List.append_assoc]

theorem sumZip_congr {α : Type} (f g : PReq → Seq.W → List α) : ∀ (rs rs' : List PReq) (ws ws' : List Seq.W),
    rs.length = rs'.length → ws.length = ws'.length → rs.length = ws.length →
    (∀ (i : Nat) r r' w w', rs[i]? = some r → rs'[i]? = some r' → ws[i]? = some w → ws'[i]? = some w' → f r w = g r' w') →
    sumZip f rs ws = sumZip g rs' ws' := by
  intro rs
  induction rs with
  | nil =>
    intro rs' ws ws' h1 h2 h3 _
    cases rs' with
    | nil => simp [sumZip]
    | cons _ _ => simp at h1
  | cons a rs ih =>
    intro rs' ws ws' h1 h2 h3 hp
    cases rs' with
    | nil => simp at h1
    | cons a' rs' =>
      cases ws with
      | nil => simp at h3
      | cons b ws =>
        cases ws' with
        | nil => simp at h2
        | cons b' ws' =>
          simp only [List.length_cons, Nat.add_right_cancel_iff] at h1 h2 h3
          simp only [sumZip]
          rw [hp 0 a a' b b' rfl rfl rfl rfl]
          rw [ih rs' ws ws' h1 h2 h3 (fun i r r' w w' e1 e2 e3 e4 => hp (i + 1) r r' w w' e1 e2 e3 e4)]

theorem set_self_of_getElem? {α : Type} : ∀ (l : List α) (i : Nat) (a : α), l[i]? = some a → l.set i a = l := by
  intro l
  induction l with
  | nil => intro i a h; simp at h
  | cons x xs ih =>
    intro i a h
    cases i with
    | zero => simp only [List.getElem?_cons_zero, Option.some.injEq] at h; subst h; rfl
    | succ i => simp only [List.getElem?_cons_succ] at h; simp only [List.set_cons_succ, ih i a h]

/-! ### the invariant -/

def fOut (fin : EndState) (rest : Bytes) (r : PReq) (w : Seq.W) : Bytes := w.submitted ++ futEmit fin rest r
def fDel (fin : EndState) (rest : Bytes) (r : PReq) (_ : Seq.W) : List Delivered := futDel fin rest r

/-- the stream once the last request is dropped -/
def lastAfter (s : State) : Option Bytes :=
  match s.reqs[s.reqs.length - 1]? with
  | none => some s.rest
  | some r => futAfter s.fin s.rest r

def ReqOk (r : PReq) : Prop :=
  ((r.stage = .fresh ∨ r.stage = .cont) → r.owner = .app) ∧
  (r.stage = .stuck → r.body.holdsStream = true) ∧
  (r.stage = .gone → r.body.holdsStream = false)

structure Inv (T : Bytes) (D : List Delivered) (s : State) : Prop where
  len : s.reqs.length = s.seq.writers.length
  ok : ∀ (i : Nat) r, s.reqs[i]? = some r → ReqOk r
  hold : ∀ (i : Nat) r, s.reqs[i]? = some r → i + 1 < s.reqs.length → r.body.holdsStream = false
  dropG : ∀ (i : Nat) r w, s.reqs[i]? = some r → s.seq.writers[i]? = some w → (w.dropped = true ↔ r.stage = .gone)
  sim : ∃ fuel, (s.parserEnd = none → ∀ rest', lastAfter s = some rest' → rest'.length < fuel) ∧
    sumZip (fOut s.fin s.rest) s.reqs s.seq.writers ++
      tailOut s.fin s.script s.parserEnd s.nextIdx (lastAfter s) fuel = T ∧
    sumZip (fDel s.fin s.rest) s.reqs s.seq.writers ++
      tailDel s.fin s.script s.parserEnd s.nextIdx (lastAfter s) fuel = D

theorem inv_init (bs : Bytes) (fin : EndState) (script : Script) :
    Inv (Conn.run bs fin script).out (Conn.run bs fin script).delivered (init bs fin script) := by
  refine ⟨rfl, ?_, ?_, ?_, ⟨bs.length + 1, ?_, ?_, ?_⟩⟩
  · intro i r h; simp [init] at h
  · intro i r h; simp [init] at h
  · intro i r w h; simp [init] at h
  · intro _ rest' h
    simp only [lastAfter, init, List.length_nil, List.getElem?_nil, Option.some.injEq] at h
    subst h; simp
  · simp [init, sumZip, lastAfter, tailOut, Conn.run]
  · simp [init, sumZip, lastAfter, tailDel, Conn.run]

/-- a state that only differs in the BufWriter -/
theorem inv_congr {T : Bytes} {D : List Delivered} {s s' : State} (hinv : Inv T D s)
    (h1 : s'.reqs = s.reqs) (h2 : s'.rest = s.rest) (h3 : s'.fin = s.fin) (h4 : s'.script = s.script)
    (h5 : s'.nextIdx = s.nextIdx) (h6 : s'.parserEnd = s.parserEnd) (h7 : s'.seq.writers = s.seq.writers) :
    Inv T D s' := by
  have hl : lastAfter s' = lastAfter s := by simp only [lastAfter, h1, h2, h3]
  obtain ⟨a, b, c, d, e⟩ := hinv
  refine ⟨?_, ?_, ?_, ?_, ?_⟩
  · rw [h1, h7]; exact a
  · rw [h1]; exact b
  · rw [h1]; exact c
  · rw [h1, h7]; exact d
  · rw [h1, h2, h3, h4, h5, h6, h7, hl]; exact e

/-! ### a step that changes one request (and possibly its writer and the stream) -/

theorem last_of_holds {T : Bytes} {D : List Delivered} {s : State} (hinv : Inv T D s) {i : Nat} {r : PReq}
    (hr : s.reqs[i]? = some r) (hh : r.body.holdsStream = true) : i = s.reqs.length - 1 := by
  have hi : i < s.reqs.length := by
    rcases Nat.lt_or_ge i s.reqs.length with h | h
    · exact h
    · rw [List.getElem?_eq_none h] at hr; cases hr
  by_cases hlt : i + 1 < s.reqs.length
  · rw [hinv.hold i r hr hlt] at hh; cases hh
  · omega

theorem inv_set {T : Bytes} {D : List Delivered} {s s' : State} (hinv : Inv T D s)
    (i : Nat) (r r' : PReq) (w w' : Seq.W)
    (hr : s.reqs[i]? = some r) (hw : s.seq.writers[i]? = some w)
    (e1 : s'.reqs = s.reqs.set i r') (e2 : s'.seq.writers = s.seq.writers.set i w')
    (e3 : s'.fin = s.fin) (e4 : s'.script = s.script) (e5 : s'.nextIdx = s.nextIdx)
    (e6 : s'.parserEnd = s.parserEnd)
    (c1 : ReqOk r')
    (c2 : r'.body.holdsStream = true → r.body.holdsStream = true)
    (c3 : w'.dropped = true ↔ r'.stage = .gone)
    (c4 : s'.rest = s.rest ∨ r.body.holdsStream = true)
    (c5 : fOut s.fin s'.rest r' w' = fOut s.fin s.rest r w)
    (c5' : futDel s.fin s'.rest r' = futDel s.fin s.rest r)
    (c6 : futAfter s.fin s'.rest r' = futAfter s.fin s.rest r) :
    Inv T D s' := by
  have hi : i < s.reqs.length := by
    rcases Nat.lt_or_ge i s.reqs.length with h | h
    · exact h
    · rw [List.getElem?_eq_none h] at hr; cases hr
  have hlen' : s'.reqs.length = s.reqs.length := by rw [e1, List.length_set]
  -- requests other than `i` do not see the change of the stream
  have hother : ∀ j q, j ≠ i → s.reqs[j]? = some q → s'.rest = s.rest ∨ q.body.holdsStream = false := by
    intro j q hj hq
    rcases c4 with h | h
    · exact Or.inl h
    · right
      have hil := last_of_holds hinv hr h
      have hjl : j < s.reqs.length := by
        rcases Nat.lt_or_ge j s.reqs.length with h | h
        · exact h
        · rw [List.getElem?_eq_none h] at hq; cases hq
      exact hinv.hold j q hq (by omega)
  have hla : lastAfter s' = lastAfter s := by
    unfold lastAfter
    rw [hlen', e1, e3, List.getElem?_set]
    by_cases hil : i = s.reqs.length - 1
    · subst hil
      simp only [if_true, hi, hr]
      exact c6
    · simp only [hil, if_false]
      cases hq : s.reqs[s.reqs.length - 1]? with
      | none => rw [List.getElem?_eq_none_iff] at hq; omega
      | some q =>
        simp only
        rcases hother (s.reqs.length - 1) q (fun h => hil h.symm) hq with h | h
        · rw [h]
        · have hqs : q.stage ≠ .stuck := by
            intro hst
            have := (hinv.ok _ q hq).2.1 hst
            rw [h] at this; cases this
          rw [futAfter_nohold _ _ _ h hqs, futAfter_nohold _ _ _ h hqs]
          rcases c4 with h4 | h4
          · rw [h4]
          · exact absurd (last_of_holds hinv hr h4) hil
  refine ⟨?_, ?_, ?_, ?_, ?_⟩
  · rw [e1, e2, List.length_set, List.length_set]; exact hinv.len
  · intro j q hq
    rw [e1, List.getElem?_set] at hq
    by_cases hj : i = j
    · subst hj; simp only [if_true, hi, Option.some.injEq] at hq; subst hq; exact c1
    · simp only [hj, if_false] at hq; exact hinv.ok j q hq
  · intro j q hq hjl
    rw [hlen'] at hjl
    rw [e1, List.getElem?_set] at hq
    by_cases hj : i = j
    · subst hj; simp only [if_true, hi, Option.some.injEq] at hq; subst hq
      have := hinv.hold i r hr hjl
      cases hb : r'.body.holdsStream with
      | false => rfl
      | true => rw [c2 hb] at this; cases this
    · simp only [hj, if_false] at hq; exact hinv.hold j q hq hjl
  · intro j q v hq hv
    rw [e1, List.getElem?_set] at hq
    rw [e2, List.getElem?_set] at hv
    by_cases hj : i = j
    · subst hj
      have hiw : i < s.seq.writers.length := by rw [← hinv.len]; exact hi
      simp only [if_true, hi, hiw, Option.some.injEq] at hq hv; subst hq hv; exact c3
    · simp only [hj, if_false] at hq hv; exact hinv.dropG j q v hq hv
  · obtain ⟨fuel, hb, ho, hd⟩ := hinv.sim
    refine ⟨fuel, ?_, ?_, ?_⟩
    · rw [e6, hla]; exact hb
    · rw [← ho, e3, e4, e5, e6, hla]
      congr 1
      refine sumZip_congr _ _ _ _ _ _ hlen' (by rw [e2, List.length_set]) (by rw [hlen', e2, List.length_set]; exact hinv.len) ?_
      intro j q q0 v v0 hq hq0 hv hv0
      rw [e1, List.getElem?_set] at hq
      rw [e2, List.getElem?_set] at hv
      by_cases hj : i = j
      · subst hj
        have hiw : i < s.seq.writers.length := by rw [← hinv.len]; exact hi
        simp only [if_true, hi, hiw, Option.some.injEq] at hq hv; subst hq hv
        rw [hr] at hq0; rw [hw] at hv0
        simp only [Option.some.injEq] at hq0 hv0; subst hq0 hv0
        exact c5
      · simp only [hj, if_false] at hq hv
        rw [hq] at hq0; rw [hv] at hv0
        simp only [Option.some.injEq] at hq0 hv0; subst hq0 hv0
        rcases hother j q (fun h => hj h.symm) hq with h | h
        · rw [h]
        · unfold fOut; rw [futEmit_nohold _ _ _ _ h]
    · rw [← hd, e3, e4, e5, e6, hla]
      congr 1
      refine sumZip_congr _ _ _ _ _ _ hlen' (by rw [e2, List.length_set]) (by rw [hlen', e2, List.length_set]; exact hinv.len) ?_
      intro j q q0 v v0 hq hq0 hv hv0
      rw [e1, List.getElem?_set] at hq
      by_cases hj : i = j
      · subst hj
        simp only [if_true, hi, Option.some.injEq] at hq; subst hq
        rw [hr] at hq0
        simp only [Option.some.injEq] at hq0; subst hq0
        exact c5'
      · simp only [hj, if_false] at hq
        rw [hq] at hq0
        simp only [Option.some.injEq] at hq0; subst hq0
        rcases hother j q (fun h => hj h.symm) hq with h | h
        · unfold fDel; rw [h]
        · unfold fDel; rw [futDel_nohold _ _ _ _ h]

end Lts.Par
end TH
