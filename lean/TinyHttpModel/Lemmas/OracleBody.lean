/- helper lemmas (OracleBody): streamed bodies over the oracle socket -/
import TinyHttpModel.Lemmas.OracleBase
namespace TH

abbrev ResO := Bytes × Option ReadOut × Body × OSrc

def prependO (d : Bytes) (r : ResO) : ResO := (d ++ r.1, r.2.1, r.2.2.1, r.2.2.2)

/-! ### unfolding `readUpToO` -/

theorem readUpToO_zero (fuel : Nat) (b : Body) (buf : Nat) (s : OSrc) :
    Body.readUpToO fuel b buf 0 s = ([], none, b, s) := by
  cases fuel <;> simp [Body.readUpToO]

theorem readUpToO_data (fuel : Nat) (b : Body) (buf total : Nat) (s : OSrc) (d : Bytes) (b' : Body) (s' : OSrc)
    (ht : total ≠ 0) (h : b.readO (min buf total) s = (.data d, b', s')) (hd : d ≠ []) :
    Body.readUpToO (fuel + 1) b buf total s = prependO d (Body.readUpToO fuel b' buf (total - d.length) s') := by
  have he : d.isEmpty = false := by simpa using hd
  rw [Body.readUpToO]
  simp only [ht, if_false, h, he, Bool.false_eq_true, prependO]

theorem readUpToO_stop (fuel : Nat) (b : Body) (buf total : Nat) (s : OSrc) (o : ReadOut) (b' : Body) (s' : OSrc)
    (ht : total ≠ 0) (h : b.readO (min buf total) s = (o, b', s')) (ho : ∀ d, o ≠ .data d) :
    Body.readUpToO (fuel + 1) b buf total s = ([], some o, b', s') := by
  rw [Body.readUpToO]
  cases o with
  | data d => exact absurd rfl (ho d)
  | eof => simp only [ht, if_false, h]
  | err => simp only [ht, if_false, h]
  | pending => simp only [ht, if_false, h]

/-- the fuel is irrelevant once it exceeds the number of bytes asked for. -/
theorem readUpToO_fuel : ∀ (f1 f2 : Nat) (b : Body) (buf total : Nat) (s : OSrc),
    total < f1 → total < f2 →
    Body.readUpToO f1 b buf total s = Body.readUpToO f2 b buf total s := by
  intro f1
  induction f1 with
  | zero => intro f2 b buf total s h; omega
  | succ f1 ih =>
    intro f2 b buf total s h1 h2
    cases f2 with
    | zero => omega
    | succ f2 =>
      by_cases ht : total = 0
      · subst ht; rw [readUpToO_zero, readUpToO_zero]
      · rcases hr : b.readO (min buf total) s with ⟨o, b', s'⟩
        cases o with
        | data d =>
          by_cases hd : d = []
          · subst hd
            rw [Body.readUpToO, Body.readUpToO]
            simp only [ht, if_false, hr, List.isEmpty_nil, if_true]
          · have : 1 ≤ d.length := by
              cases d with
              | nil => contradiction
              | cons _ _ => simp
            rw [readUpToO_data f1 b buf total s d b' s' ht hr hd, readUpToO_data f2 b buf total s d b' s' ht hr hd,
              ih f2 b' buf (total - d.length) s' (by omega) (by omega)]
        | eof => rw [readUpToO_stop f1 _ _ _ _ _ _ _ ht hr (by intro d h; cases h),
            readUpToO_stop f2 _ _ _ _ _ _ _ ht hr (by intro d h; cases h)]
        | err => rw [readUpToO_stop f1 _ _ _ _ _ _ _ ht hr (by intro d h; cases h),
            readUpToO_stop f2 _ _ _ _ _ _ _ ht hr (by intro d h; cases h)]
        | pending => rw [readUpToO_stop f1 _ _ _ _ _ _ _ ht hr (by intro d h; cases h),
            readUpToO_stop f2 _ _ _ _ _ _ _ ht hr (by intro d h; cases h)]

/-! ### one `readO` for each reader kind -/

theorem readO_raw (want : Nat) (s : OSrc) :
    Body.readO .raw want s = ((s.read want).1, .raw, (s.read want).2) := rfl

theorem readO_limited_zero (want : Nat) (s : OSrc) :
    Body.readO (.limited 0) want s = (.eof, .done, s) := rfl

/-- what the reader is left with when the stream is exhausted inside a limited body. -/
def limStop (fin : EndState) (rem : Nat) : Body :=
  match fin.stop with
  | .eof => .done
  | _ => .limited rem

theorem readO_limited_nil (want rem : Nat) (hr : rem ≠ 0) (fin : EndState) (orc : List Nat) :
    Body.readO (.limited rem) want ⟨[], fin, orc⟩ = (stopOut fin.stop, limStop fin rem, ⟨[], fin, orc.tail⟩) := by
  unfold Body.readO
  simp only [hr, if_false, OSrc.read_nil]
  cases fin <;> rfl

theorem readO_limited_data (want rem : Nat) (hr : rem ≠ 0) (bs : Bytes) (fin : EndState) (orc : List Nat)
    (k : Nat) (h : OSrc.read ⟨bs, fin, orc⟩ (min want rem) = (.data (bs.take k), ⟨bs.drop k, fin, orc.tail⟩)) :
    Body.readO (.limited rem) want ⟨bs, fin, orc⟩ =
      (.data (bs.take k), .limited (rem - (bs.take k).length), ⟨bs.drop k, fin, orc.tail⟩) := by
  unfold Body.readO
  simp only [hr, if_false, h]

/-- what the reader is left with when the stream is exhausted inside a chunk. -/
def chunkStop (fin : EndState) (c : Nat) : Body :=
  match fin.stop with
  | .eof => .done
  | .reset => .failed
  | .pending => .chunked (some c)

theorem readO_chunk_nil (want c : Nat) (fin : EndState) (orc : List Nat) :
    Body.readO (.chunked (some c)) want ⟨[], fin, orc⟩ = (stopOut fin.stop, chunkStop fin c, ⟨[], fin, orc.tail⟩) := by
  unfold Body.readO
  simp only [OSrc.read_nil]
  cases fin <;> rfl

/-- the part of `readO` after a data read that completed the chunk. -/
def crlfO (d : Bytes) (s2 : OSrc) : ReadOut × Body × OSrc :=
  match expectCRLF s2.bytes s2.fin with
  | some (.ok r'') => (.data d, .chunked none, advance s2 r'')
  | some (.error _) => (.pending, .chunked (some 0), s2)
  | none => (.err, .failed, s2)

theorem readO_chunk_data (want c : Nat) (hw : 1 ≤ want) (hc : 1 ≤ c) (bs : Bytes) (hb : bs ≠ []) (fin : EndState)
    (orc : List Nat) :
    ∃ k, 1 ≤ k ∧ k ≤ want ∧ k ≤ c ∧ k ≤ bs.length ∧ (orc = [] → k = min (min want c) bs.length) ∧
      (k < c → Body.readO (.chunked (some c)) want ⟨bs, fin, orc⟩ =
        (.data (bs.take k), .chunked (some (c - k)), ⟨bs.drop k, fin, orc.tail⟩)) ∧
      (k = c → Body.readO (.chunked (some c)) want ⟨bs, fin, orc⟩ =
        crlfO (bs.take c) ⟨bs.drop c, fin, orc.tail⟩) := by
  obtain ⟨k, h1, h2, h3, h4, h⟩ := OSrc.read_data bs fin orc (if want < c then want else c)
    (by split <;> omega) hb
  have hl : (bs.take k).length = k := by rw [List.length_take]; omega
  refine ⟨k, h1, by split at h2 <;> omega, by split at h2 <;> omega, h3,
    fun e => by rw [h4 e]; split <;> omega, ?_, ?_⟩
  · intro hk
    unfold Body.readO
    simp only [h, hl]
    by_cases hwc : want < c
    · simp only [hwc, if_true]
    · have : k ≠ c := by omega
      simp only [hwc, if_false, this]
  · intro hk
    subst hk
    have hwc : ¬ want < k := by split at h2 <;> omega
    simp only [hwc, if_false] at h
    unfold Body.readO
    simp only [h, hl, hwc, if_false, if_true, crlfO]
    cases expectCRLF (List.drop k bs) fin with
    | none => rfl
    | some x => cases x <;> rfl

theorem readO_none_ok (want : Nat) (s : OSrc) (c : Nat) (r : Bytes)
    (h : readChunkSize s.bytes s.fin = .ok (c + 1) r) :
    Body.readO (.chunked none) want s = Body.readO (.chunked (some (c + 1))) want (advance s r) := by
  unfold Body.readO
  simp only [h]

theorem readO_none_stop (want : Nat) (s : OSrc) (st : Stop) (h : readChunkSize s.bytes s.fin = .stop st) :
    Body.readO (.chunked none) want s = (.pending, .chunked none, s) := by
  unfold Body.readO
  simp only [h]

theorem readO_none_bad (want : Nat) (s : OSrc) (r : Bytes) (h : readChunkSize s.bytes s.fin = .bad r) :
    Body.readO (.chunked none) want s = (.err, .failed, advance s r) := by
  unfold Body.readO
  simp only [h]

theorem readO_none_zero (want : Nat) (s : OSrc) (r : Bytes) (h : readChunkSize s.bytes s.fin = .ok 0 r) :
    Body.readO (.chunked none) want s =
      match expectCRLF r s.fin with
      | some (.ok r') => (.eof, .done, advance s r')
      | some (.error _) => (.pending, .chunked none, s)
      | none => (.err, .failed, advance s r) := by
  unfold Body.readO
  simp only [h]
  cases expectCRLF r s.fin with
  | none => rfl
  | some x => cases x <;> rfl

/-! ### list helpers -/

theorem take_append_take_drop (bs : Bytes) (k n : Nat) (h : k ≤ n) :
    bs.take k ++ (bs.drop k).take (n - k) = bs.take n := by
  have : n = k + (n - k) := by omega
  rw [this, List.take_add]; simp

theorem drop_drop_sub (bs : Bytes) (k n : Nat) (h : k ≤ n) : (bs.drop k).drop (n - k) = bs.drop n := by
  rw [List.drop_drop]
  have : k + (n - k) = n := by omega
  rw [this]

theorem take_ne_nil (bs : Bytes) (k : Nat) (hb : bs ≠ []) (hk : 1 ≤ k) : bs.take k ≠ [] := by
  cases bs with
  | nil => contradiction
  | cons x xs => cases k with
    | zero => omega
    | succ k => simp

theorem length_take_le' (bs : Bytes) (k : Nat) (hk : k ≤ bs.length) : (bs.take k).length = k := by
  rw [List.length_take]; omega

theorem stopOut_ne_data (st : Stop) : ∀ d, stopOut st ≠ .data d := by
  intro d h; cases st <;> cases h

/-! ### readers that do not touch the socket -/

def Body.isLocal : Body → Bool
  | .done | .failed | .cursor _ => true
  | _ => false

theorem readO_local (b : Body) (h : b.isLocal = true) (want : Nat) :
    ∃ o b', b'.isLocal = true ∧ ∀ s, b.readO want s = (o, b', s) := by
  cases b with
  | done => exact ⟨_, _, rfl, fun s => rfl⟩
  | failed => exact ⟨_, _, rfl, fun s => rfl⟩
  | cursor d =>
    by_cases hd : d.isEmpty = true
    · exact ⟨.eof, .cursor [], rfl, fun s => by simp [Body.readO, hd]⟩
    · exact ⟨.data (d.take want), .cursor (d.drop want), rfl, fun s => by simp [Body.readO, hd]⟩
  | limited _ => cases h
  | chunked _ => cases h
  | raw => cases h

theorem readUpToO_local : ∀ (fuel : Nat) (b : Body) (buf total : Nat), b.isLocal = true →
    ∃ g e b', b'.isLocal = true ∧ ∀ s, Body.readUpToO fuel b buf total s = (g, e, b', s) := by
  intro fuel
  induction fuel with
  | zero => intro b buf total h; exact ⟨[], none, b, h, fun s => rfl⟩
  | succ fuel ih =>
    intro b buf total h
    by_cases ht : total = 0
    · subst ht; exact ⟨[], none, b, h, fun s => readUpToO_zero _ _ _ _⟩
    · obtain ⟨o, b', hb', hr⟩ := readO_local b h (min buf total)
      cases o with
      | data d =>
        by_cases hd : d = []
        · subst hd
          refine ⟨[], none, b', hb', fun s => ?_⟩
          rw [Body.readUpToO]
          simp only [ht, if_false, hr s, List.isEmpty_nil, if_true]
        · obtain ⟨g, e, b'', hb'', hrec⟩ := ih b' buf (total - d.length) hb'
          refine ⟨d ++ g, e, b'', hb'', fun s => ?_⟩
          rw [readUpToO_data fuel b buf total s d b' s ht (hr s) hd, hrec s]; rfl
      | eof => exact ⟨[], some .eof, b', hb', fun s => readUpToO_stop _ _ _ _ _ _ _ _ ht (hr s) (by intro d h; cases h)⟩
      | err => exact ⟨[], some .err, b', hb', fun s => readUpToO_stop _ _ _ _ _ _ _ _ ht (hr s) (by intro d h; cases h)⟩
      | pending => exact ⟨[], some .pending, b', hb', fun s => readUpToO_stop _ _ _ _ _ _ _ _ ht (hr s) (by intro d h; cases h)⟩

/-! ### closed forms: raw, limited -/

theorem rawO_spec (buf : Nat) (hb : 1 ≤ buf) : ∀ (fuel total : Nat) (bs : Bytes) (fin : EndState) (orc : List Nat),
    total < fuel →
    (total ≤ bs.length → ∃ orc', Body.readUpToO fuel .raw buf total ⟨bs, fin, orc⟩ =
      (bs.take total, none, .raw, ⟨bs.drop total, fin, orc'⟩)) ∧
    (bs.length < total → ∃ orc', Body.readUpToO fuel .raw buf total ⟨bs, fin, orc⟩ =
      (bs, some (stopOut fin.stop), .raw, ⟨[], fin, orc'⟩)) := by
  intro fuel
  induction fuel with
  | zero => intro total bs fin orc h; omega
  | succ fuel ih =>
    intro total bs fin orc hf
    by_cases ht : total = 0
    · subst ht
      rw [readUpToO_zero]
      exact ⟨fun _ => ⟨orc, by simp⟩, fun h => by omega⟩
    · by_cases hbs : bs = []
      · subst hbs
        have hr : Body.readO .raw (min buf total) ⟨[], fin, orc⟩ = (stopOut fin.stop, .raw, ⟨[], fin, orc.tail⟩) := by
          rw [readO_raw, OSrc.read_nil]
        rw [readUpToO_stop _ _ _ _ _ _ _ _ ht hr (stopOut_ne_data _)]
        exact ⟨fun h => by simp at h; omega, fun _ => ⟨_, rfl⟩⟩
      · obtain ⟨k, k1, k2, k3, _, hk⟩ := OSrc.read_data bs fin orc (min buf total) (by omega) hbs
        have hr : Body.readO .raw (min buf total) ⟨bs, fin, orc⟩ =
            (.data (bs.take k), .raw, ⟨bs.drop k, fin, orc.tail⟩) := by
          rw [readO_raw, hk]
        rw [readUpToO_data _ _ _ _ _ _ _ _ ht hr (take_ne_nil bs k hbs k1), length_take_le' bs k k3]
        have hdl : (bs.drop k).length = bs.length - k := by simp
        have := ih (total - k) (bs.drop k) fin orc.tail (by omega)
        rw [hdl] at this
        constructor
        · intro hle
          obtain ⟨orc', h⟩ := this.1 (by omega)
          exact ⟨orc', by rw [h, prependO]; simp only [take_append_take_drop bs k total (by omega),
            drop_drop_sub bs k total (by omega)]⟩
        · intro hlt
          obtain ⟨orc', h⟩ := this.2 (by omega)
          exact ⟨orc', by rw [h, prependO]; simp only [List.take_append_drop]⟩

theorem limitedO_spec (buf : Nat) (hb : 1 ≤ buf) : ∀ (fuel rem total : Nat) (bs : Bytes) (fin : EndState) (orc : List Nat),
    total < fuel →
    (total ≤ rem → total ≤ bs.length → ∃ orc', Body.readUpToO fuel (.limited rem) buf total ⟨bs, fin, orc⟩ =
      (bs.take total, none, .limited (rem - total), ⟨bs.drop total, fin, orc'⟩)) ∧
    (rem < total → rem ≤ bs.length → ∃ orc', Body.readUpToO fuel (.limited rem) buf total ⟨bs, fin, orc⟩ =
      (bs.take rem, some .eof, .done, ⟨bs.drop rem, fin, orc'⟩)) ∧
    (bs.length < rem → bs.length < total → ∃ orc', Body.readUpToO fuel (.limited rem) buf total ⟨bs, fin, orc⟩ =
      (bs, some (stopOut fin.stop), limStop fin (rem - bs.length), ⟨[], fin, orc'⟩)) := by
  intro fuel
  induction fuel with
  | zero => intro rem total bs fin orc h; omega
  | succ fuel ih =>
    intro rem total bs fin orc hf
    by_cases ht : total = 0
    · subst ht
      rw [readUpToO_zero]
      exact ⟨fun _ _ => ⟨orc, by simp⟩, fun h => by omega, fun _ h => by omega⟩
    · by_cases hrem : rem = 0
      · subst hrem
        rw [readUpToO_stop _ _ _ _ _ _ _ _ ht (readO_limited_zero _ _) (by intro d h; cases h)]
        exact ⟨fun h => by omega, fun _ _ => ⟨orc, by simp⟩, fun h => by omega⟩
      · by_cases hbs : bs = []
        · subst hbs
          rw [readUpToO_stop _ _ _ _ _ _ _ _ ht (readO_limited_nil _ _ hrem _ _) (stopOut_ne_data _)]
          exact ⟨fun _ h => by simp at h; omega, fun _ h => by simp at h; omega, fun _ _ => ⟨_, rfl⟩⟩
        · obtain ⟨k, k1, k2, k3, _, hk⟩ := OSrc.read_data bs fin orc (min (min buf total) rem) (by omega) hbs
          have hr := readO_limited_data (min buf total) rem hrem bs fin orc k hk
          rw [length_take_le' bs k k3] at hr
          rw [readUpToO_data _ _ _ _ _ _ _ _ ht hr (take_ne_nil bs k hbs k1), length_take_le' bs k k3]
          have hdl : (bs.drop k).length = bs.length - k := by simp
          have := ih (rem - k) (total - k) (bs.drop k) fin orc.tail (by omega)
          rw [hdl] at this
          refine ⟨?_, ?_, ?_⟩
          · intro h1 h2
            obtain ⟨orc', h⟩ := this.1 (by omega) (by omega)
            have e : rem - k - (total - k) = rem - total := by omega
            exact ⟨orc', by rw [h, prependO]; simp only [take_append_take_drop bs k total (by omega),
              drop_drop_sub bs k total (by omega), e]⟩
          · intro h1 h2
            obtain ⟨orc', h⟩ := this.2.1 (by omega) (by omega)
            exact ⟨orc', by rw [h, prependO]; simp only [take_append_take_drop bs k rem (by omega),
              drop_drop_sub bs k rem (by omega)]⟩
          · intro h1 h2
            obtain ⟨orc', h⟩ := this.2.2 (by omega) (by omega)
            have e : rem - k - (bs.length - k) = rem - bs.length := by omega
            exact ⟨orc', by rw [h, prependO]; simp only [List.take_append_drop, e]⟩

/-! ### closed form inside a chunk -/

theorem prependO_prependO (a b : Bytes) (r : ResO) : prependO a (prependO b r) = prependO (a ++ b) r := by
  simp [prependO]

theorem inChunkO_spec (buf : Nat) (hb : 1 ≤ buf) :
    ∀ (fuel c total : Nat) (bs : Bytes) (fin : EndState) (orc : List Nat), 1 ≤ c → total < fuel →
    (bs.length < c → bs.length < total → ∃ orc', Body.readUpToO fuel (.chunked (some c)) buf total ⟨bs, fin, orc⟩ =
      (bs, some (stopOut fin.stop), chunkStop fin (c - bs.length), ⟨[], fin, orc'⟩)) ∧
    (total < c → total ≤ bs.length → ∃ orc', Body.readUpToO fuel (.chunked (some c)) buf total ⟨bs, fin, orc⟩ =
      (bs.take total, none, .chunked (some (c - total)), ⟨bs.drop total, fin, orc'⟩)) ∧
    (c ≤ total → c ≤ bs.length →
      (∀ r'', expectCRLF (bs.drop c) fin = some (.ok r'') →
        ∃ orc', Body.readUpToO fuel (.chunked (some c)) buf total ⟨bs, fin, orc⟩ =
          prependO (bs.take c) (Body.readUpToO (total - c + 1) (.chunked none) buf (total - c) ⟨r'', fin, orc'⟩)) ∧
      (∀ e, expectCRLF (bs.drop c) fin = some (.error e) →
        ∃ g orc', Body.readUpToO fuel (.chunked (some c)) buf total ⟨bs, fin, orc⟩ =
          (g, some .pending, .chunked (some 0), ⟨bs.drop c, fin, orc'⟩)) ∧
      (expectCRLF (bs.drop c) fin = none →
        ∃ g orc', Body.readUpToO fuel (.chunked (some c)) buf total ⟨bs, fin, orc⟩ =
          (g, some .err, .failed, ⟨bs.drop c, fin, orc'⟩))) := by
  intro fuel
  induction fuel with
  | zero => intro c total bs fin orc _ h; omega
  | succ fuel ih =>
    intro c total bs fin orc hc hf
    by_cases ht : total = 0
    · subst ht
      rw [readUpToO_zero]
      exact ⟨fun _ h => by omega, fun _ _ => ⟨orc, by simp⟩, fun h => by omega⟩
    · by_cases hbs : bs = []
      · subst hbs
        rw [readUpToO_stop _ _ _ _ _ _ _ _ ht (readO_chunk_nil _ _ _ _) (stopOut_ne_data _)]
        exact ⟨fun _ _ => ⟨_, rfl⟩, fun _ h => by simp at h; omega, fun _ h => by simp at h; omega⟩
      · obtain ⟨k, k1, k2, k3, k4, _, hlt, heq⟩ :=
          readO_chunk_data (min buf total) c (by omega) hc bs hbs fin orc
        by_cases hkc : k < c
        · have hr := hlt hkc
          rw [readUpToO_data _ _ _ _ _ _ _ _ ht hr (take_ne_nil bs k hbs k1), length_take_le' bs k k4]
          have hdl : (bs.drop k).length = bs.length - k := by simp
          have := ih (c - k) (total - k) (bs.drop k) fin orc.tail (by omega) (by omega)
          rw [hdl] at this
          refine ⟨?_, ?_, ?_⟩
          · intro h1 h2
            obtain ⟨orc', h⟩ := this.1 (by omega) (by omega)
            have e : c - k - (bs.length - k) = c - bs.length := by omega
            exact ⟨orc', by rw [h, prependO]; simp only [List.take_append_drop, e]⟩
          · intro h1 h2
            obtain ⟨orc', h⟩ := this.2.1 (by omega) (by omega)
            have e : c - k - (total - k) = c - total := by omega
            exact ⟨orc', by rw [h, prependO]; simp only [take_append_take_drop bs k total (by omega),
              drop_drop_sub bs k total (by omega), e]⟩
          · intro h1 h2
            have hC := this.2.2 (by omega) (by omega)
            rw [drop_drop_sub bs k c (by omega)] at hC
            have e : total - k - (c - k) = total - c := by omega
            rw [e] at hC
            refine ⟨?_, ?_, ?_⟩
            · intro r'' hx
              obtain ⟨orc', h⟩ := hC.1 r'' hx
              exact ⟨orc', by rw [h, prependO_prependO, take_append_take_drop bs k c (by omega)]⟩
            · intro e' hx
              obtain ⟨g, orc', h⟩ := hC.2.1 e' hx
              exact ⟨bs.take k ++ g, orc', by rw [h]; rfl⟩
            · intro hx
              obtain ⟨g, orc', h⟩ := hC.2.2 hx
              exact ⟨bs.take k ++ g, orc', by rw [h]; rfl⟩
        · have hkc' : k = c := by omega
          have hr := heq hkc'
          refine ⟨fun h => by omega, fun h => by omega, fun h1 h2 => ⟨?_, ?_, ?_⟩⟩
          · intro r'' hx
            obtain ⟨orc', _, ha⟩ := advance_spec (bs.drop c) fin orc.tail r'' (expectCRLF_suffix _ _ _ hx)
            have hr' : Body.readO (.chunked (some c)) (min buf total) ⟨bs, fin, orc⟩ =
                (.data (bs.take c), .chunked none, ⟨r'', fin, orc'⟩) := by
              rw [hr, crlfO]; simp only [hx, ha]
            rw [readUpToO_data _ _ _ _ _ _ _ _ ht hr' (take_ne_nil bs c hbs hc), length_take_le' bs c h2,
              readUpToO_fuel fuel (total - c + 1) _ _ _ _ (by omega) (by omega)]
            exact ⟨orc', rfl⟩
          · intro e' hx
            have hr' : Body.readO (.chunked (some c)) (min buf total) ⟨bs, fin, orc⟩ =
                (.pending, .chunked (some 0), ⟨bs.drop c, fin, orc.tail⟩) := by
              rw [hr, crlfO]; simp only [hx]
            rw [readUpToO_stop _ _ _ _ _ _ _ _ ht hr' (by intro d h; cases h)]
            exact ⟨[], _, rfl⟩
          · intro hx
            have hr' : Body.readO (.chunked (some c)) (min buf total) ⟨bs, fin, orc⟩ =
                (.err, .failed, ⟨bs.drop c, fin, orc.tail⟩) := by
              rw [hr, crlfO]; simp only [hx]
            rw [readUpToO_stop _ _ _ _ _ _ _ _ ht hr' (by intro d h; cases h)]
            exact ⟨[], _, rfl⟩

/-! ### independence of the oracle -/

/-- two runs of the reading loop agree: same ending, same reader state, same stream position; the
    bytes obtained are the same too, unless (`lossy`) the reader is the chunk decoder and the run
    ended with an error or blocked (the decoder discards the data of the read in which a chunk's
    CRLF is found missing, and how much that is depends on the segmentation). -/
def Good (fin : EndState) (lossy : Prop) (r1 r2 : ResO) : Prop :=
  r1.2.1 = r2.2.1 ∧ r1.2.2.1 = r2.2.2.1 ∧ r1.2.2.2.bytes = r2.2.2.2.bytes ∧
  r1.2.2.2.fin = fin ∧ r2.2.2.2.fin = fin ∧
  ((¬ lossy ∨ (r1.2.1 ≠ some .err ∧ r1.2.1 ≠ some .pending)) → r1.1 = r2.1) ∧
  (r1.2.1 ≠ some .pending → r1.2.2.1 ≠ .chunked (some 0))

theorem good_exact (fin : EndState) (lossy : Prop) (r1 r2 : ResO) (g : Bytes) (e : Option ReadOut) (b' : Body)
    (r : Bytes) (o1 o2 : List Nat) (h1 : r1 = (g, e, b', ⟨r, fin, o1⟩)) (h2 : r2 = (g, e, b', ⟨r, fin, o2⟩))
    (hb : e ≠ some .pending → b' ≠ .chunked (some 0)) : Good fin lossy r1 r2 := by
  subst h1 h2
  exact ⟨rfl, rfl, rfl, rfl, rfl, fun _ => rfl, hb⟩

theorem good_lossy (fin : EndState) (r1 r2 : ResO) (g1 g2 : Bytes) (e : Option ReadOut) (b' : Body)
    (r : Bytes) (o1 o2 : List Nat) (h1 : r1 = (g1, e, b', ⟨r, fin, o1⟩)) (h2 : r2 = (g2, e, b', ⟨r, fin, o2⟩))
    (he : e = some .err ∨ e = some .pending)
    (hb : e ≠ some .pending → b' ≠ .chunked (some 0)) : Good fin True r1 r2 := by
  subst h1 h2
  refine ⟨rfl, rfl, rfl, rfl, rfl, fun h => ?_, hb⟩
  rcases h with h | h
  · exact absurd trivial h
  · rcases he with he | he
    · exact absurd he h.1
    · exact absurd he h.2

theorem good_prepend (fin : EndState) (lossy : Prop) (d : Bytes) (r1 r2 : ResO) (h : Good fin lossy r1 r2) :
    Good fin lossy (prependO d r1) (prependO d r2) := by
  obtain ⟨h1, h2, h3, h4, h5, h6, h7⟩ := h
  refine ⟨h1, h2, h3, h4, h5, fun h => ?_, h7⟩
  show d ++ r1.1 = d ++ r2.1
  rw [h6 h]

theorem good_weaken (fin : EndState) (lossy : Prop) (r1 r2 : ResO) (h : Good fin lossy r1 r2) : Good fin True r1 r2 := by
  obtain ⟨h1, h2, h3, h4, h5, h6, h7⟩ := h
  refine ⟨h1, h2, h3, h4, h5, fun h => ?_, h7⟩
  rcases h with h | h
  · exact absurd trivial h
  · exact h6 (Or.inr h)

theorem readUpToO_congr (fuel : Nat) (b b2 : Body) (buf total : Nat) (s s2 : OSrc)
    (h : b.readO (min buf total) s = b2.readO (min buf total) s2) (ht : total ≠ 0) :
    Body.readUpToO (fuel + 1) b buf total s = Body.readUpToO (fuel + 1) b2 buf total s2 := by
  rw [Body.readUpToO, Body.readUpToO, h]
  simp only [ht, if_false]

/-- the loop started inside a chunk, given independence for every smaller `total`. -/
theorem chunk_some_indep (buf : Nat) (hb : 1 ≤ buf) (total : Nat)
    (ih : ∀ t, t < total → ∀ (bs : Bytes) (fin : EndState) (fuel : Nat) (o1 o2 : List Nat), t < fuel →
      Good fin True (Body.readUpToO fuel (.chunked none) buf t ⟨bs, fin, o1⟩)
        (Body.readUpToO fuel (.chunked none) buf t ⟨bs, fin, o2⟩))
    (c : Nat) (hc : 1 ≤ c) (bs : Bytes) (fin : EndState) (fuel : Nat) (o1 o2 : List Nat) (hf : total < fuel) :
    Good fin True (Body.readUpToO fuel (.chunked (some c)) buf total ⟨bs, fin, o1⟩)
      (Body.readUpToO fuel (.chunked (some c)) buf total ⟨bs, fin, o2⟩) := by
  obtain ⟨a1, b1, c1⟩ := inChunkO_spec buf hb fuel c total bs fin o1 hc hf
  obtain ⟨a2, b2, c2⟩ := inChunkO_spec buf hb fuel c total bs fin o2 hc hf
  by_cases hA : bs.length < c ∧ bs.length < total
  · obtain ⟨_, h1⟩ := a1 hA.1 hA.2
    obtain ⟨_, h2⟩ := a2 hA.1 hA.2
    refine good_exact fin True _ _ _ _ _ _ _ _ h1 h2 ?_
    intro _; unfold chunkStop
    cases fin <;> simp [EndState.stop]
    omega
  · by_cases hB : total < c
    · obtain ⟨_, h1⟩ := b1 hB (by omega)
      obtain ⟨_, h2⟩ := b2 hB (by omega)
      refine good_exact fin True _ _ _ _ _ _ _ _ h1 h2 ?_
      intro _ h; injection h with h; injection h with h; omega
    · obtain ⟨ok1, pe1, er1⟩ := c1 (by omega) (by omega)
      obtain ⟨ok2, pe2, er2⟩ := c2 (by omega) (by omega)
      cases hx : expectCRLF (bs.drop c) fin with
      | none =>
        obtain ⟨_, _, h1⟩ := er1 hx
        obtain ⟨_, _, h2⟩ := er2 hx
        exact good_lossy fin _ _ _ _ _ _ _ _ _ h1 h2 (Or.inl rfl) (by intro _ h; cases h)
      | some x =>
        cases x with
        | error e =>
          obtain ⟨_, _, h1⟩ := pe1 e hx
          obtain ⟨_, _, h2⟩ := pe2 e hx
          exact good_lossy fin _ _ _ _ _ _ _ _ _ h1 h2 (Or.inr rfl) (by intro h; exact absurd rfl h)
        | ok r'' =>
          obtain ⟨_, h1⟩ := ok1 r'' hx
          obtain ⟨_, h2⟩ := ok2 r'' hx
          rw [h1, h2]
          exact good_prepend fin True _ _ _ (ih (total - c) (by omega) r'' fin _ _ _ (by omega))

theorem readUpToO_indep (buf : Nat) (hb : 1 ≤ buf) : ∀ (n total : Nat), total ≤ n →
    ∀ (b : Body) (bs : Bytes) (fin : EndState) (fuel : Nat) (o1 o2 : List Nat),
    b ≠ .chunked (some 0) → total < fuel →
    Good fin (∃ ic, b = .chunked ic) (Body.readUpToO fuel b buf total ⟨bs, fin, o1⟩)
      (Body.readUpToO fuel b buf total ⟨bs, fin, o2⟩) := by
  intro n
  induction n with
  | zero =>
    intro total ht b bs fin fuel o1 o2 hb0 hf
    have : total = 0 := by omega
    subst this
    exact good_exact fin _ _ _ _ _ _ _ _ _ (readUpToO_zero _ _ _ _) (readUpToO_zero _ _ _ _) (fun _ => hb0)
  | succ n ihn =>
    intro total ht b bs fin fuel o1 o2 hb0 hf
    have ihc : ∀ t, t < total → ∀ (bs : Bytes) (fin : EndState) (fuel : Nat) (o1 o2 : List Nat), t < fuel →
        Good fin True (Body.readUpToO fuel (.chunked none) buf t ⟨bs, fin, o1⟩)
          (Body.readUpToO fuel (.chunked none) buf t ⟨bs, fin, o2⟩) := by
      intro t htt bs fin fuel o1 o2 hf
      exact good_weaken _ _ _ _ (ihn t (by omega) (.chunked none) bs fin fuel o1 o2 (by intro h; cases h) hf)
    have hloc : ∀ b : Body, b.isLocal = true → Good fin (∃ ic, b = .chunked ic)
        (Body.readUpToO fuel b buf total ⟨bs, fin, o1⟩) (Body.readUpToO fuel b buf total ⟨bs, fin, o2⟩) := by
      intro b hl
      obtain ⟨g, e, b', hb', hr⟩ := readUpToO_local fuel b buf total hl
      refine good_exact fin _ _ _ _ _ _ _ _ _ (hr _) (hr _) ?_
      intro _ h; subst h; cases hb'
    cases b with
    | done => exact hloc _ rfl
    | failed => exact hloc _ rfl
    | cursor d => exact hloc _ rfl
    | raw =>
      obtain ⟨a1, b1⟩ := rawO_spec buf hb fuel total bs fin o1 hf
      obtain ⟨a2, b2⟩ := rawO_spec buf hb fuel total bs fin o2 hf
      by_cases h : total ≤ bs.length
      · obtain ⟨_, h1⟩ := a1 h
        obtain ⟨_, h2⟩ := a2 h
        exact good_exact fin _ _ _ _ _ _ _ _ _ h1 h2 (by intro _ h; cases h)
      · obtain ⟨_, h1⟩ := b1 (by omega)
        obtain ⟨_, h2⟩ := b2 (by omega)
        exact good_exact fin _ _ _ _ _ _ _ _ _ h1 h2 (by intro _ h; cases h)
    | limited rem =>
      obtain ⟨a1, b1, c1⟩ := limitedO_spec buf hb fuel rem total bs fin o1 hf
      obtain ⟨a2, b2, c2⟩ := limitedO_spec buf hb fuel rem total bs fin o2 hf
      by_cases hA : total ≤ rem ∧ total ≤ bs.length
      · obtain ⟨_, h1⟩ := a1 hA.1 hA.2
        obtain ⟨_, h2⟩ := a2 hA.1 hA.2
        exact good_exact fin _ _ _ _ _ _ _ _ _ h1 h2 (by intro _ h; cases h)
      · by_cases hB : rem < total ∧ rem ≤ bs.length
        · obtain ⟨_, h1⟩ := b1 hB.1 hB.2
          obtain ⟨_, h2⟩ := b2 hB.1 hB.2
          exact good_exact fin _ _ _ _ _ _ _ _ _ h1 h2 (by intro _ h; cases h)
        · obtain ⟨_, h1⟩ := c1 (by omega) (by omega)
          obtain ⟨_, h2⟩ := c2 (by omega) (by omega)
          refine good_exact fin _ _ _ _ _ _ _ _ _ h1 h2 ?_
          intro _; unfold limStop; cases fin <;> simp [EndState.stop]
    | chunked ic =>
      have hT : (∃ ic', Body.chunked ic = Body.chunked ic') = True := eq_true ⟨ic, rfl⟩
      rw [hT]
      cases ic with
      | some c =>
        have hc : 1 ≤ c := by
          cases c with
          | zero => exact absurd rfl hb0
          | succ c => omega
        exact chunk_some_indep buf hb total ihc c hc bs fin fuel o1 o2 hf
      | none =>
        by_cases ht0 : total = 0
        · subst ht0
          exact good_exact fin _ _ _ _ _ _ _ _ _ (readUpToO_zero _ _ _ _) (readUpToO_zero _ _ _ _) (fun _ => hb0)
        · cases fuel with
          | zero => omega
          | succ fuel =>
            have hsuf := readChunkSize_suffix bs fin
            cases hp : readChunkSize bs fin with
            | stop st =>
              have h1 := readUpToO_stop fuel _ buf total _ _ _ _ ht0
                (readO_none_stop (min buf total) ⟨bs, fin, o1⟩ st hp) (by intro d h; cases h)
              have h2 := readUpToO_stop fuel _ buf total _ _ _ _ ht0
                (readO_none_stop (min buf total) ⟨bs, fin, o2⟩ st hp) (by intro d h; cases h)
              exact good_exact fin _ _ _ _ _ _ _ _ _ h1 h2 (by intro h; exact absurd rfl h)
            | bad r =>
              obtain ⟨o1', _, ha1⟩ := advance_spec bs fin o1 r (hsuf.2 r hp)
              obtain ⟨o2', _, ha2⟩ := advance_spec bs fin o2 r (hsuf.2 r hp)
              have h1 := readUpToO_stop fuel _ buf total _ _ _ _ ht0
                (readO_none_bad (min buf total) ⟨bs, fin, o1⟩ r hp) (by intro d h; cases h)
              have h2 := readUpToO_stop fuel _ buf total _ _ _ _ ht0
                (readO_none_bad (min buf total) ⟨bs, fin, o2⟩ r hp) (by intro d h; cases h)
              rw [ha1] at h1; rw [ha2] at h2
              exact good_exact fin _ _ _ _ _ _ _ _ _ h1 h2 (by intro _ h; cases h)
            | ok c r =>
              cases c with
              | zero =>
                have e1 := readO_none_zero (min buf total) ⟨bs, fin, o1⟩ r hp
                have e2 := readO_none_zero (min buf total) ⟨bs, fin, o2⟩ r hp
                simp only at e1 e2
                cases hx : expectCRLF r fin with
                | none =>
                  obtain ⟨o1', _, ha1⟩ := advance_spec bs fin o1 r (hsuf.1 0 r hp)
                  obtain ⟨o2', _, ha2⟩ := advance_spec bs fin o2 r (hsuf.1 0 r hp)
                  rw [hx] at e1 e2
                  simp only [ha1] at e1; simp only [ha2] at e2
                  have h1 := readUpToO_stop fuel _ buf total _ _ _ _ ht0 e1 (by intro d h; cases h)
                  have h2 := readUpToO_stop fuel _ buf total _ _ _ _ ht0 e2 (by intro d h; cases h)
                  exact good_exact fin _ _ _ _ _ _ _ _ _ h1 h2 (by intro _ h; cases h)
                | some x =>
                  cases x with
                  | error e =>
                    rw [hx] at e1 e2
                    have h1 := readUpToO_stop fuel _ buf total _ _ _ _ ht0 e1 (by intro d h; cases h)
                    have h2 := readUpToO_stop fuel _ buf total _ _ _ _ ht0 e2 (by intro d h; cases h)
                    exact good_exact fin _ _ _ _ _ _ _ _ _ h1 h2 (by intro h; exact absurd rfl h)
                  | ok r' =>
                    have hs' : r' <:+ bs := (expectCRLF_suffix _ _ _ hx).trans (hsuf.1 0 r hp)
                    obtain ⟨o1', _, ha1⟩ := advance_spec bs fin o1 r' hs'
                    obtain ⟨o2', _, ha2⟩ := advance_spec bs fin o2 r' hs'
                    rw [hx] at e1 e2
                    simp only [ha1] at e1; simp only [ha2] at e2
                    have h1 := readUpToO_stop fuel _ buf total _ _ _ _ ht0 e1 (by intro d h; cases h)
                    have h2 := readUpToO_stop fuel _ buf total _ _ _ _ ht0 e2 (by intro d h; cases h)
                    exact good_exact fin _ _ _ _ _ _ _ _ _ h1 h2 (by intro _ h; cases h)
              | succ c =>
                obtain ⟨o1', _, ha1⟩ := advance_spec bs fin o1 r (hsuf.1 _ r hp)
                obtain ⟨o2', _, ha2⟩ := advance_spec bs fin o2 r (hsuf.1 _ r hp)
                rw [readUpToO_congr fuel _ _ buf total _ _ (readO_none_ok (min buf total) ⟨bs, fin, o1⟩ c r hp) ht0,
                  readUpToO_congr fuel _ _ buf total _ _ (readO_none_ok (min buf total) ⟨bs, fin, o2⟩ c r hp) ht0,
                  ha1, ha2]
                exact chunk_some_indep buf hb total ihc (c + 1) (by omega) r fin (fuel + 1) o1' o2' hf

/-! ### the flat semantics is the oracle semantics with the empty oracle (maximal reads) -/

theorem take_min_length (bs : Bytes) (n : Nat) : bs.take (min n bs.length) = bs.take n := by
  by_cases h : n ≤ bs.length
  · rw [Nat.min_eq_left h]
  · rw [Nat.min_eq_right (by omega), List.take_of_length_le (Nat.le_refl _), List.take_of_length_le (by omega)]

theorem drop_min_length (bs : Bytes) (n : Nat) : bs.drop (min n bs.length) = bs.drop n := by
  by_cases h : n ≤ bs.length
  · rw [Nat.min_eq_left h]
  · rw [Nat.min_eq_right (by omega), List.drop_of_length_le (Nat.le_refl _), List.drop_of_length_le (by omega)]

theorem read_none_stop (want : Nat) (bs : Bytes) (fin : EndState) (st : Stop) (h : readChunkSize bs fin = .stop st) :
    Body.read (.chunked none) want bs fin = (.pending, .chunked none, bs) := by
  unfold Body.read; simp only [h]

theorem read_none_bad (want : Nat) (bs : Bytes) (fin : EndState) (r : Bytes) (h : readChunkSize bs fin = .bad r) :
    Body.read (.chunked none) want bs fin = (.err, .failed, r) := by
  unfold Body.read; simp only [h]

theorem read_none_zero (want : Nat) (bs : Bytes) (fin : EndState) (r : Bytes) (h : readChunkSize bs fin = .ok 0 r) :
    Body.read (.chunked none) want bs fin =
      match expectCRLF r fin with
      | some (.ok r') => (.eof, .done, r')
      | some (.error _) => (.pending, .chunked none, bs)
      | none => (.err, .failed, r) := by
  unfold Body.read; simp only [h]
  cases expectCRLF r fin with
  | none => rfl
  | some x => cases x <;> rfl

theorem read_none_ok (want : Nat) (bs : Bytes) (fin : EndState) (c : Nat) (r : Bytes)
    (h : readChunkSize bs fin = .ok (c + 1) r) :
    Body.read (.chunked none) want bs fin = Body.read (.chunked (some (c + 1))) want r fin := by
  unfold Body.read; simp only [h]

theorem read_chunk_nil (want c : Nat) (fin : EndState) :
    Body.read (.chunked (some c)) want [] fin = (stopOut fin.stop, chunkStop fin c, []) := by
  cases fin <;> rfl

theorem read_chunk_data (want c : Nat) (bs : Bytes) (hbs : bs ≠ []) (fin : EndState) :
    (min (min want c) bs.length < c → Body.read (.chunked (some c)) want bs fin =
      (.data (bs.take (min (min want c) bs.length)), .chunked (some (c - min (min want c) bs.length)),
        bs.drop (min (min want c) bs.length))) ∧
    (min (min want c) bs.length = c → Body.read (.chunked (some c)) want bs fin =
      match expectCRLF (bs.drop c) fin with
      | some (.ok r'') => (.data (bs.take c), .chunked none, r'')
      | some (.error _) => (.pending, .chunked (some 0), bs.drop c)
      | none => (.err, .failed, bs.drop c)) := by
  cases bs with
  | nil => contradiction
  | cons x xs =>
    generalize hB : x :: xs = B
    have hBne : B ≠ [] := by rw [← hB]; simp
    have hred : Body.read (.chunked (some c)) want B fin =
        if want < c then
          (.data (B.take (min want B.length)), .chunked (some (c - min want B.length)), B.drop (min want B.length))
        else if min c B.length = c then
          (match expectCRLF (B.drop (min c B.length)) fin with
            | some (.ok r'') => (.data (B.take (min c B.length)), .chunked none, r'')
            | some (.error _) => (.pending, .chunked (some 0), B.drop (min c B.length))
            | none => (.err, .failed, B.drop (min c B.length)))
        else (.data (B.take (min c B.length)), .chunked (some (c - min c B.length)), B.drop (min c B.length)) := by
      rw [← hB]; rfl
    rw [hred]
    constructor
    · intro h
      by_cases hw : want < c
      · have : min (min want c) B.length = min want B.length := by omega
        simp only [hw, if_true, this]
      · have e : min (min want c) B.length = min c B.length := by omega
        have : ¬ min c B.length = c := by omega
        simp only [hw, if_false, this, e]
    · intro h
      have hw : ¬ want < c := by omega
      have e : min c B.length = c := by omega
      simp only [hw, if_false, e, if_true]

theorem read_eq_O_some (c : Nat) (hc : 1 ≤ c) (want : Nat) (hw : 1 ≤ want) (bs : Bytes) (fin : EndState) :
    ∃ o b' r, Body.readO (.chunked (some c)) want ⟨bs, fin, []⟩ = (o, b', ⟨r, fin, []⟩) ∧
      Body.read (.chunked (some c)) want bs fin = (o, b', r) ∧
      (∀ d, o = .data d → ∃ ic', b' = .chunked ic' ∧ ic' ≠ some 0) := by
  by_cases hbs : bs = []
  · subst hbs
    exact ⟨_, _, _, readO_chunk_nil _ _ _ _, read_chunk_nil _ _ _, fun d h => absurd h (stopOut_ne_data _ d)⟩
  · obtain ⟨k, k1, k2, k3, k4, kmax, hlt, heq⟩ := readO_chunk_data want c hw hc bs hbs fin []
    have hk := kmax rfl
    obtain ⟨flt, feq⟩ := read_chunk_data want c bs hbs fin
    rw [← hk] at flt feq
    by_cases hkc : k < c
    · refine ⟨_, _, _, hlt hkc, flt hkc, ?_⟩
      intro d _; refine ⟨_, rfl, ?_⟩
      intro h; injection h with h; omega
    · have hkc' : k = c := by omega
      rw [heq hkc', feq hkc', crlfO]
      simp only
      cases hx : expectCRLF (bs.drop c) fin with
      | none => exact ⟨_, _, _, rfl, rfl, fun d h => by cases h⟩
      | some x =>
        cases x with
        | error e => exact ⟨_, _, _, rfl, rfl, fun d h => by cases h⟩
        | ok r'' =>
          obtain ⟨o', ho', ha⟩ := advance_spec (bs.drop c) fin [] r'' (expectCRLF_suffix _ _ _ hx)
          have := ho' rfl
          subst this
          simp only [List.tail_nil, ha]
          exact ⟨_, _, _, rfl, rfl, fun d _ => ⟨none, rfl, by intro h; cases h⟩⟩

theorem read_eq_O_chunked (ic : Option Nat) (hic : ic ≠ some 0) (want : Nat) (hw : 1 ≤ want) (bs : Bytes)
    (fin : EndState) :
    ∃ o b' r, Body.readO (.chunked ic) want ⟨bs, fin, []⟩ = (o, b', ⟨r, fin, []⟩) ∧
      Body.read (.chunked ic) want bs fin = (o, b', r) ∧
      (∀ d, o = .data d → ∃ ic', b' = .chunked ic' ∧ ic' ≠ some 0) := by
    cases ic with
    | some c =>
      have hc : 1 ≤ c := by
        cases c with
        | zero => exact absurd rfl hic
        | succ c => omega
      exact read_eq_O_some c hc want hw bs fin
    | none =>
      have hsuf := readChunkSize_suffix bs fin
      cases hp : readChunkSize bs fin with
      | stop st =>
        exact ⟨_, _, _, readO_none_stop want ⟨bs, fin, []⟩ st hp, read_none_stop want bs fin st hp, fun d h => by cases h⟩
      | bad r =>
        obtain ⟨o', ho', ha⟩ := advance_spec bs fin [] r (hsuf.2 r hp)
        have := ho' rfl
        subst this
        exact ⟨_, _, _, by rw [readO_none_bad want ⟨bs, fin, []⟩ r hp, ha], read_none_bad want bs fin r hp,
          fun d h => by cases h⟩
      | ok c r =>
        cases c with
        | zero =>
          rw [readO_none_zero want ⟨bs, fin, []⟩ r hp, read_none_zero want bs fin r hp]
          simp only
          cases hx : expectCRLF r fin with
          | none =>
            obtain ⟨o', ho', ha⟩ := advance_spec bs fin [] r (hsuf.1 0 r hp)
            have := ho' rfl
            subst this
            simp only [ha]
            exact ⟨_, _, _, rfl, rfl, fun d h => by cases h⟩
          | some x =>
            cases x with
            | error e => exact ⟨_, _, _, rfl, rfl, fun d h => by cases h⟩
            | ok r' =>
              obtain ⟨o', ho', ha⟩ := advance_spec bs fin [] r' ((expectCRLF_suffix _ _ _ hx).trans (hsuf.1 0 r hp))
              have := ho' rfl
              subst this
              simp only [ha]
              exact ⟨_, _, _, rfl, rfl, fun d h => by cases h⟩
        | succ c =>
          obtain ⟨o', ho', ha⟩ := advance_spec bs fin [] r (hsuf.1 _ r hp)
          have := ho' rfl
          subst this
          rw [readO_none_ok want ⟨bs, fin, []⟩ c r hp, read_none_ok want bs fin c r hp, ha]
          exact read_eq_O_some (c + 1) (by omega) want hw r fin

theorem read_eq_O (b : Body) (want : Nat) (bs : Bytes) (fin : EndState) (hb0 : b ≠ .chunked (some 0)) (hw : 1 ≤ want) :
    ∃ o b' r, Body.readO b want ⟨bs, fin, []⟩ = (o, b', ⟨r, fin, []⟩) ∧ Body.read b want bs fin = (o, b', r) ∧
      (∀ d, o = .data d → b' ≠ .chunked (some 0)) := by
  cases b with
  | done => exact ⟨_, _, _, rfl, rfl, fun d h => by cases h⟩
  | failed => exact ⟨_, _, _, rfl, rfl, fun d h => by cases h⟩
  | cursor d =>
    by_cases hd : d.isEmpty = true
    · exact ⟨.eof, .cursor [], bs, by simp [Body.readO, hd], by simp [Body.read, hd], fun d h => by cases h⟩
    · exact ⟨.data (d.take want), .cursor (d.drop want), bs, by simp [Body.readO, hd], by simp [Body.read, hd],
        fun _ _ h => by cases h⟩
  | raw =>
    cases bs with
    | nil =>
      refine ⟨stopOut fin.stop, .raw, [], ?_, ?_, fun d h => absurd h (stopOut_ne_data _ d)⟩
      · rw [readO_raw, OSrc.read_nil]; rfl
      · cases fin <;> rfl
    | cons x xs =>
      obtain ⟨k, k1, k2, k3, kmax, hk⟩ := OSrc.read_cons x xs fin [] want hw
      have := kmax rfl
      subst this
      refine ⟨_, _, _, by rw [readO_raw, hk]; rfl, ?_, fun _ _ h => by cases h⟩
      rw [take_min_length, drop_min_length]; rfl
  | limited rem =>
    by_cases hrem : rem = 0
    · subst hrem; exact ⟨_, _, _, rfl, rfl, fun d h => by cases h⟩
    · cases bs with
      | nil =>
        refine ⟨_, _, _, readO_limited_nil want rem hrem fin [], ?_, fun d h => absurd h (stopOut_ne_data _ d)⟩
        unfold Body.read limStop; simp only [hrem, if_false]
        cases fin <;> rfl
      | cons x xs =>
        obtain ⟨k, k1, k2, k3, kmax, hk⟩ := OSrc.read_cons x xs fin [] (min want rem) (by omega)
        have := kmax rfl
        subst this
        have h1 := readO_limited_data want rem hrem (x :: xs) fin [] _ hk
        rw [length_take_le' _ _ k3] at h1
        refine ⟨_, _, _, h1, ?_, fun _ _ h => by cases h⟩
        unfold Body.read; simp only [hrem, if_false]
  | chunked ic =>
    obtain ⟨o, b', r, h1, h2, h3⟩ := read_eq_O_chunked ic (by intro h; exact hb0 (by rw [h])) want hw bs fin
    refine ⟨o, b', r, h1, h2, ?_⟩
    intro d hd
    obtain ⟨ic', e, hne⟩ := h3 d hd
    rw [e]; intro h; injection h with h; exact hne h

theorem readUpTo_eq_O (buf : Nat) (hb : 1 ≤ buf) : ∀ (fuel : Nat) (b : Body) (total : Nat) (bs : Bytes) (fin : EndState),
    b ≠ .chunked (some 0) →
    ∃ g e b' r, Body.readUpToO fuel b buf total ⟨bs, fin, []⟩ = (g, e, b', ⟨r, fin, []⟩) ∧
      Body.readUpTo fuel b buf total bs fin = (g, e, b', r) := by
  intro fuel
  induction fuel with
  | zero => intro b total bs fin _; exact ⟨_, _, _, _, rfl, rfl⟩
  | succ fuel ih =>
    intro b total bs fin hb0
    by_cases ht : total = 0
    · subst ht; exact ⟨_, _, _, _, readUpToO_zero _ _ _ _, by simp [Body.readUpTo]⟩
    · obtain ⟨o, b', r, hO, hF, hne⟩ := read_eq_O b (min buf total) bs fin hb0 (by omega)
      rw [Body.readUpTo, Body.readUpToO]
      simp only [ht, if_false, hO, hF]
      cases o with
      | data d =>
        by_cases hd : d.isEmpty = true
        · simp only [hd, if_true]; exact ⟨_, _, _, _, rfl, rfl⟩
        · simp only [hd]
          obtain ⟨g, e, b'', r', h1, h2⟩ := ih b' (total - d.length) r fin (hne d rfl)
          rw [h1, h2]
          exact ⟨_, _, _, _, rfl, rfl⟩
      | eof => exact ⟨_, _, _, _, rfl, rfl⟩
      | err => exact ⟨_, _, _, _, rfl, rfl⟩
      | pending => exact ⟨_, _, _, _, rfl, rfl⟩

/-- the body-reading loop over any oracle against the flat loop. -/
theorem readUpToO_vs_flat (fuel : Nat) (b : Body) (buf total : Nat) (bs : Bytes) (fin : EndState) (orc : List Nat)
    (hb : 1 ≤ buf) (hf : total < fuel) (hb0 : b ≠ .chunked (some 0)) :
    let r := Body.readUpToO fuel b buf total ⟨bs, fin, orc⟩
    let f := Body.readUpTo fuel b buf total bs fin
    r.2.1 = f.2.1 ∧ r.2.2.1 = f.2.2.1 ∧ r.2.2.2.bytes = f.2.2.2 ∧ r.2.2.2.fin = fin ∧
    ((¬ (∃ ic, b = .chunked ic) ∨ (f.2.1 ≠ some .err ∧ f.2.1 ≠ some .pending)) → r.1 = f.1) ∧
    (f.2.1 ≠ some .pending → f.2.2.1 ≠ .chunked (some 0)) := by
  obtain ⟨g, e, b', r', h1, h2⟩ := readUpTo_eq_O buf hb fuel b total bs fin hb0
  have hG := readUpToO_indep buf hb total total (Nat.le_refl _) b bs fin fuel orc [] hb0 hf
  rw [h1] at hG
  obtain ⟨g1, g2, g3, g4, _, g6, g7⟩ := hG
  simp only [h2]
  simp only at g1 g2 g3 g6 g7
  refine ⟨g1, g2, g3, g4, ?_, ?_⟩
  · intro h; apply g6; rw [g1]; exact h
  · intro h; rw [← g2]; apply g7; rw [g1]; exact h

end TH
