/- helper lemmas for the pool LTS: lists of phases, `step` as an inductive relation -/
import TinyHttpModel.Lts.Pool
namespace TH.Lts.Pool

/-! ### basic facts about `phaseOf` / `setPhase` / `count` -/

theorem lt_of_phaseOf_ne {s : State} {w : Nat} (h : phaseOf s w ≠ .exited) :
    w < s.workers.length := by
  unfold phaseOf at h
  by_cases hw : w < s.workers.length
  · exact hw
  · exfalso; apply h
    simp [List.getD, List.getElem?_eq_none (Nat.le_of_not_gt hw)]

theorem phaseOf_eq_getElem {s : State} {w : Nat} (h : w < s.workers.length) :
    phaseOf s w = s.workers[w] := by
  simp [phaseOf, List.getD, List.getElem?_eq_getElem h]

theorem phaseOf_setPhase_self {s : State} {w : Nat} (p : WPhase) (h : w < s.workers.length) :
    phaseOf (setPhase s w p) w = p := by
  simp [phaseOf, setPhase, List.getD, h]

theorem phaseOf_setPhase_ne {s : State} {w u : Nat} (p : WPhase) (h : u ≠ w) :
    phaseOf (setPhase s w p) u = phaseOf s u := by
  simp [phaseOf, setPhase, List.getD, List.getElem?_set_ne (Ne.symm h)]

theorem filter_set_length (f : WPhase → Bool) :
    ∀ (l : List WPhase) (w : Nat) (p : WPhase) (h : w < l.length),
      ((l.set w p).filter f).length + (if f l[w] then 1 else 0)
        = (l.filter f).length + (if f p then 1 else 0)
  | [], w, p, h => by simp at h
  | a :: l, 0, p, h => by
    simp only [List.set_cons_zero, List.filter_cons, List.getElem_cons_zero]
    split <;> split <;> simp <;> omega
  | a :: l, w+1, p, h => by
    have ih := filter_set_length f l w p (by simpa using h)
    simp only [List.set_cons_succ, List.filter_cons, List.getElem_cons_succ]
    split <;> (try simp only [List.length_cons]) <;> omega

/-- counting under a phase change of a worker whose old phase is known -/
theorem filter_set_length' (f : WPhase → Bool) (s : State) (w : Nat) (p q : WPhase)
    (hq : phaseOf s w = q) (hne : q ≠ .exited) :
    ((s.workers.set w p).filter f).length + (if f q then 1 else 0)
      = (s.workers.filter f).length + (if f p then 1 else 0) := by
  have hw : w < s.workers.length := lt_of_phaseOf_ne (by rw [hq]; exact hne)
  have := filter_set_length f s.workers w p hw
  rw [phaseOf_eq_getElem hw] at hq
  rw [hq] at this
  exact this

theorem filter_dropMap_waiting (l : List WPhase) :
    ((l.map (fun p => if isWaiting p then WPhase.woken false else p)).filter isWaiting).length = 0 := by
  induction l with
  | nil => rfl
  | cons a l ih =>
    cases a <;> simp_all [isWaiting]

theorem filter_dropMap_woken (l : List WPhase) :
    ((l.map (fun p => if isWaiting p then WPhase.woken false else p)).filter isWoken).length
      = (l.filter isWaiting).length + (l.filter isWoken).length := by
  induction l with
  | nil => rfl
  | cons a l ih =>
    cases a <;> simp_all [isWaiting, isWoken, List.filter_cons] <;> omega

theorem filter_isWaiting_of_any_false (l : List WPhase) (h : l.any isWaiting = false) :
    (l.filter isWaiting).length = 0 := by
  induction l with
  | nil => rfl
  | cons a l ih =>
    simp only [List.any_cons, Bool.or_eq_false_iff] at h
    simp [h.1, ih h.2]

theorem exists_waiting_of_any (s : State) (h : s.workers.any isWaiting = true) :
    ∃ w, isWaiting (phaseOf s w) = true := by
  rw [List.any_eq_true] at h
  obtain ⟨p, hp, hpw⟩ := h
  obtain ⟨w, hw, rfl⟩ := List.getElem_of_mem hp
  exact ⟨w, by rw [phaseOf_eq_getElem hw]; exact hpw⟩

/-! ### `step` as a relation -/

/-- `step` as a relation, one constructor per atomic case, all record updates flattened. -/
inductive Step (s : State) : Label → State → Prop where
  | dispNew (k : Nat) (hd : s.dropped = false) (hc : s.waitingCnt ≤ s.pending.length) :
      Step s (.dispatch k .newThread)
        { s with workers := s.workers ++ [.starting (some k)], dispatched := s.dispatched ++ [k] }
  | dispQNone (k : Nat) (hd : s.dropped = false) (hc : s.pending.length < s.waitingCnt)
      (hn : s.workers.any isWaiting = false) :
      Step s (.dispatch k (.queued none))
        { s with pending := s.pending ++ [k], dispatched := s.dispatched ++ [k] }
  | dispQSome (k w : Nat) (dl : Option Nat) (hd : s.dropped = false)
      (hc : s.pending.length < s.waitingCnt) (hph : phaseOf s w = .waiting dl) :
      Step s (.dispatch k (.queued (some w)))
        { s with pending := s.pending ++ [k], dispatched := s.dispatched ++ [k],
                 workers := s.workers.set w (.woken false) }
  | beginSome (w k : Nat) (hph : phaseOf s w = .starting (some k)) :
      Step s (.begin w)
        { s with workers := s.workers.set w (.running k), active := s.active + 1,
                 started := s.started ++ [(k, w)] }
  | beginNone (w : Nat) (hph : phaseOf s w = .starting none) :
      Step s (.begin w) { s with workers := s.workers.set w .seeking, active := s.active + 1 }
  | finish (w k : Nat) (hph : phaseOf s w = .running k) :
      Step s (.finish w) { s with workers := s.workers.set w .seeking }
  | seekTake (w k : Nat) (rest : List Nat) (hph : phaseOf s w = .seeking) (hp : s.pending = k :: rest) :
      Step s (.look w)
        { s with workers := s.workers.set w (.running k), pending := rest,
                 started := s.started ++ [(k, w)] }
  | seekWaitU (w : Nat) (hph : phaseOf s w = .seeking) (hp : s.pending = [])
      (ha : s.active ≤ minThreads) :
      Step s (.look w)
        { s with workers := s.workers.set w (.waiting none), waitingCnt := s.waitingCnt + 1 }
  | seekWaitT (w : Nat) (hph : phaseOf s w = .seeking) (hp : s.pending = [])
      (ha : minThreads < s.active) :
      Step s (.look w)
        { s with workers := s.workers.set w (.waiting (some (s.now + idleNs))),
                 waitingCnt := s.waitingCnt + 1 }
  | wokenExit (w : Nat) (hph : phaseOf s w = .woken true) (hp : s.pending = []) :
      Step s (.look w)
        { s with workers := s.workers.set w .exited, waitingCnt := s.waitingCnt - 1,
                 active := s.active - 1 }
  | wokenTake (w k : Nat) (b : Bool) (rest : List Nat) (hph : phaseOf s w = .woken b)
      (hp : s.pending = k :: rest) :
      Step s (.look w)
        { s with workers := s.workers.set w (.running k), pending := rest,
                 waitingCnt := s.waitingCnt - 1, started := s.started ++ [(k, w)] }
  | wokenWaitU (w : Nat) (hph : phaseOf s w = .woken false) (hp : s.pending = [])
      (ha : s.active ≤ minThreads) :
      Step s (.look w)
        { s with workers := s.workers.set w (.waiting none), waitingCnt := s.waitingCnt - 1 + 1 }
  | wokenWaitT (w : Nat) (hph : phaseOf s w = .woken false) (hp : s.pending = [])
      (ha : minThreads < s.active) :
      Step s (.look w)
        { s with workers := s.workers.set w (.waiting (some (s.now + idleNs))),
                 waitingCnt := s.waitingCnt - 1 + 1 }
  | wakeTimeout (w d : Nat) (hph : phaseOf s w = .waiting (some d)) (hd : d ≤ s.now) :
      Step s (.wake w true) { s with workers := s.workers.set w (.woken true) }
  | wakeSpurious (w : Nat) (dl : Option Nat) (hph : phaseOf s w = .waiting dl) :
      Step s (.wake w false) { s with workers := s.workers.set w (.woken false) }
  | tick (d : Nat) : Step s (.tick d) { s with now := s.now + d }
  | dropPool :
      Step s .dropPool
        { s with dropped := true, active := droppedActive,
                 workers := s.workers.map (fun p => if isWaiting p then .woken false else p) }

theorem step_sound {s s' : State} {l : Label} (h : step s l = some s') : Step s l s' := by
  cases l with
  | dispatch k b =>
    cases b with
    | newThread =>
      simp [step] at h
      obtain ⟨hd, hc, rfl⟩ := h
      exact .dispNew k hd hc
    | queued woke =>
      cases woke with
      | none =>
        simp [step, notifyOk, applyNotify] at h
        obtain ⟨hd, ⟨hc, hn⟩, rfl⟩ := h
        exact .dispQNone k hd hc (by simpa using hn)
      | some w =>
        simp [step, notifyOk, applyNotify, setPhase] at h
        obtain ⟨hd, ⟨hc, hn⟩, rfl⟩ := h
        cases hph : phaseOf s w <;> simp [hph, isWaiting] at hn
        exact .dispQSome k w _ hd hc hph
  | begin w =>
    simp only [step] at h
    split at h
    · next k hph => simp [setPhase] at h; subst h; exact .beginSome w k hph
    · next hph => simp [setPhase] at h; subst h; exact .beginNone w hph
    · simp at h
  | finish w =>
    simp only [step] at h
    split at h
    · next k hph => simp [setPhase] at h; subst h; exact .finish w k hph
    · simp at h
  | look w =>
    simp only [step] at h
    split at h
    · next hph =>
      simp only [lookTop, Option.some.injEq] at h
      split at h
      · next k rest hp => simp [setPhase] at h; subst h; exact .seekTake w k rest hph hp
      · next hp =>
        split at h
        · next ha => simp [setPhase] at h; subst h; exact .seekWaitU w hph hp ha
        · next ha => simp [setPhase] at h; subst h; exact .seekWaitT w hph hp (by omega)
    · next b hph =>
      split at h
      · next hc =>
        simp at hc
        obtain ⟨rfl, hp⟩ := hc
        simp [setPhase] at h; subst h; exact .wokenExit w hph hp
      · next hc =>
        simp only [lookTop, Option.some.injEq] at h
        split at h
        · next k rest hp =>
          simp [setPhase] at h; subst h; exact .wokenTake w k b rest hph hp
        · next hp =>
          have hb : b = false := by simpa [hp] using hc
          subst hb
          split at h
          · next ha => simp [setPhase] at h; subst h; exact .wokenWaitU w hph hp ha
          · next ha => simp [setPhase] at h; subst h; exact .wokenWaitT w hph hp (by omega)
    · simp at h
  | wake w timeout =>
    simp only [step] at h
    split at h
    · next dl hph =>
      split at h
      · next ht =>
        subst ht
        split at h
        · next d =>
          split at h
          · next hd => simp [setPhase] at h; subst h; exact .wakeTimeout w d hph hd
          · simp at h
        · simp at h
      · next ht =>
        have : timeout = false := by simpa using ht
        subst this
        simp [setPhase] at h; subst h; exact .wakeSpurious w dl hph
    · simp at h
  | tick d => simp [step] at h; subst h; exact .tick d
  | dropPool => simp [step] at h; subst h; exact .dropPool

theorem step_complete {s s' : State} {l : Label} (h : Step s l s') : step s l = some s' := by
  cases h <;> simp_all [step, lookTop, setPhase, notifyOk, applyNotify, isWaiting] <;> omega

/-! ### lifting invariants to reachable states -/

theorem run_invariant (P : State → Prop) (hstep : ∀ s s' l, P s → step s l = some s' → P s') :
    ∀ (ls : List Label) (s s' : State), P s → run s ls = some s' → P s' := by
  intro ls
  induction ls with
  | nil => intro s s' hs h; simp [run] at h; subst h; exact hs
  | cons l ls ih =>
    intro s s' hs h
    simp only [run] at h
    split at h
    · next s1 h1 => exact ih s1 s' (hstep s s1 l hs h1) h
    · simp at h

theorem reachable_invariant (P : State → Prop) (h0 : P init)
    (hstep : ∀ s s' l, P s → step s l = some s' → P s') : ∀ s, Reachable s → P s := by
  intro s ⟨ls, h⟩
  exact run_invariant P hstep ls init s h0 h

end TH.Lts.Pool
