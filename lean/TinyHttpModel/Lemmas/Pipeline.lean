/- helper lemmas for the pipeline theorems of Props/C10 -/
import TinyHttpModel.WireSpec
import TinyHttpModel.Lemmas.LoopA
import TinyHttpModel.Lemmas.HeadParse
import TinyHttpModel.Lemmas.BodyRead

namespace TH

/-- every rendered head has at least one byte (in fact at least the two separators and two CRLFs). -/
theorem renderHead_length_pos (h : Head) (ows : List (Bytes × Bytes)) : 0 < (Spec.renderHead h ows).length := by
  simp [Spec.renderHead]
  omega

/-- a pipeline of `k` rendered heads is at least `k` bytes long. -/
theorem pipeline_length_ge (items : List (Head × List (Bytes × Bytes))) :
    items.length ≤ ((items.map (fun x => Spec.renderHead x.1 x.2)).flatten).length := by
  induction items with
  | nil => simp
  | cons x xs ih =>
    have := renderHead_length_pos x.1 x.2
    simp only [List.map_cons, List.flatten_cons, List.length_append, List.length_cons]
    omega

/-- the statuses `handle` generates when it does not block (as in C18). -/
theorem handle_statuses_not_blocked (s : St) (h : Head) (fr : Framing) (last : Bool) (a : Action) (body : Body)
    (bs : Bytes) (fin : EndState)
    (hnb : (handle s h fr last a body bs fin).2.2 = false) :
    (handle s h fr last a body bs fin).1.statuses =
      s.statuses ++ (if fr.expectContinue ∧ 0 < a.asReaderCalls then [100] else []) ++ Spec.finishStatus a.fin := by
  rw [handle_eq] at hnb ⊢
  simp only at hnb ⊢
  by_cases hp : readEndOf (handleRead a body bs fin).2.1 = .pending
  · simp [hp] at hnb
  · simp only [hp, if_false]
    split <;> simp [handleS3_statuses, handleS1_statuses]

/-- one iteration of the loop on a well-formed body-less request of a supported version on a
    connection that stays open: the request is delivered with the head as sent, the application's
    finish produces its statuses, the output is only appended to, and the loop continues at the
    first byte after the head with the next script entry. -/
theorem runLoop_plain_step (fuel idx : Nat) (s : St) (h : Head) (ows : List (Bytes × Bytes)) (rest : Bytes)
    (fin : EndState) (script : Script)
    (hwf : Spec.wfHead h = true)
    (hows : ∀ o ∈ ows, Spec.isOwsList o.1 = true ∧ Spec.isOwsList o.2 = true)
    (hfr : framingOf h.headers = .ok ⟨.empty, none, false⟩)
    (hlast : isLastRequest h.version h.headers = false)
    (hver : (⟨Extracted.maxVersion.1, Extracted.maxVersion.2⟩ : Version).lt h.version = false) :
    ∃ s' : St, runLoop (fuel + 1) idx s (Spec.renderHead h ows ++ rest) fin script =
        runLoop fuel (idx + 1) s' rest fin script ∧
      (∃ d : Delivered, s'.delivered = s.delivered ++ [d] ∧
        (d.method, d.url, d.version, d.headers) = (h.method, h.url, h.version, h.headers)) ∧
      s'.statuses = s.statuses ++ Spec.finishStatus (script idx).fin ∧
      (∃ o, s'.out = s.out ++ o) := by
  have hh := readHead_render h ows rest fin hwf hows
  have hstep := runLoop_step fuel idx s _ fin script h rest _ hh hfr (by intro n hn; cases hn) hver
  have hib : initialBody (Framing.mk .empty none false).kind rest = (.done, rest) := rfl
  rw [hib, hlast] at hstep
  obtain ⟨hd1, hd2⟩ := handle_done s h ⟨.empty, none, false⟩ false (script idx) rest fin
  simp only [hd2, hd1, Bool.false_eq_true, if_false] at hstep
  refine ⟨_, hstep, ?_, ?_, ?_⟩
  · obtain ⟨o, d, _, hdel, e1, e2, e3, e4, _⟩ :=
      handle_spec s h ⟨.empty, none, false⟩ false (script idx) .done rest fin
    exact ⟨d, hdel, by rw [e1, e2, e3, e4]⟩
  · have := handle_statuses_not_blocked s h ⟨.empty, none, false⟩ false (script idx) .done rest fin hd2
    simpa using this
  · exact handle_out_prefix s h ⟨.empty, none, false⟩ false (script idx) .done rest fin

/-- the whole pipeline, by induction on the list of requests: the loop, started in any state with
    any script index and enough fuel, arrives at the bytes after the pipeline having delivered
    exactly the heads of the pipeline, in order. -/
theorem runLoop_pipeline (items : List (Head × List (Bytes × Bytes))) :
    ∀ (fuel idx : Nat) (s : St) (rest : Bytes) (fin : EndState) (script : Script),
    items.length ≤ fuel →
    (∀ x ∈ items, Spec.wfHead x.1 = true ∧ (∀ o ∈ x.2, Spec.isOwsList o.1 = true ∧ Spec.isOwsList o.2 = true) ∧
      framingOf x.1.headers = .ok ⟨.empty, none, false⟩ ∧
      isLastRequest x.1.version x.1.headers = false ∧
      (⟨Extracted.maxVersion.1, Extracted.maxVersion.2⟩ : Version).lt x.1.version = false) →
    ∃ s' : St,
      runLoop fuel idx s ((items.map (fun x => Spec.renderHead x.1 x.2)).flatten ++ rest) fin script =
        runLoop (fuel - items.length) (idx + items.length) s' rest fin script ∧
      s'.delivered.map (fun d => (d.method, d.url, d.version, d.headers)) =
        s.delivered.map (fun d => (d.method, d.url, d.version, d.headers)) ++
          items.map (fun x => (x.1.method, x.1.url, x.1.version, x.1.headers)) ∧
      (∃ o, s'.out = s.out ++ o) ∧
      ((∀ i, idx ≤ i → i < idx + items.length → ∀ ops, (script i).fin ≠ .writer ops) →
        s'.statuses.length = s.statuses.length + items.length) := by
  induction items with
  | nil =>
    intro fuel idx s rest fin script _ _
    exact ⟨s, by simp, by simp, ⟨[], by simp⟩, by simp⟩
  | cons x xs ih =>
    intro fuel idx s rest fin script hfuel hgood
    obtain ⟨hwf, hows, hfr, hlast, hver⟩ := hgood x (by simp)
    obtain ⟨f, rfl⟩ : ∃ f, fuel = f + 1 := ⟨fuel - 1, by simp at hfuel; omega⟩
    obtain ⟨s1, hrun1, ⟨d, hdel1, hd⟩, hst1, ⟨o1, hout1⟩⟩ :=
      runLoop_plain_step f idx s x.1 x.2 ((xs.map (fun x => Spec.renderHead x.1 x.2)).flatten ++ rest)
        fin script hwf hows hfr hlast hver
    obtain ⟨s2, hrun2, hdel2, ⟨o2, hout2⟩, hst2⟩ :=
      ih f (idx + 1) s1 rest fin script (by simp at hfuel; omega) (fun y hy => hgood y (by simp [hy]))
    refine ⟨s2, ?_, ?_, ⟨o1 ++ o2, by rw [hout2, hout1, List.append_assoc]⟩, ?_⟩
    · simp only [List.map_cons, List.flatten_cons, List.append_assoc, List.length_cons]
      rw [hrun1, hrun2]
      congr 1 <;> omega
    · rw [hdel2, hdel1]
      simp [hd]
    · intro hnw
      have h2 := hst2 (fun i h1 h2 => hnw i (by omega) (by simp; omega))
      have h0 : (Spec.finishStatus (script idx).fin).length = 1 := by
        have := hnw idx (Nat.le_refl _) (by simp)
        cases hf : (script idx).fin with
        | writer ops => exact absurd hf (this ops)
        | _ => rfl
      rw [h2, hst1, List.length_append, h0]
      simp only [List.length_cons]
      omega

end TH
