/- helper lemmas for Lts.Par (3): the `parse` step against one iteration of the sequential loop -/
import TinyHttpModel.Lemmas.ParInvSeq

namespace TH
namespace Lts.Par

/-- the request the connection thread creates for a well-framed head -/
def appReq (s : State) (h : Head) (fr : Framing) (rest : Bytes) : PReq :=
  { owner := .app, head := h, fr := fr, last := isLastRequest h.version h.headers, act := s.script s.nextIdx,
    body := (initialBody fr.kind rest).1 }

def conn505Req (h : Head) (fr : Framing) (rest : Bytes) : PReq :=
  { owner := .conn, head := h, fr := fr, last := false, act := default, body := (initialBody fr.kind rest).1,
    stage := .readDone, fixed := print505 }

theorem parseStep_app (s : State) (h : Head) (rest : Bytes) (fr : Framing)
    (hh : readHead s.rest s.fin = .ok (h, rest)) (hf : framingFor h.version h.headers = .ok fr)
    (hshort : ∀ n, fr.kind = .buffered n → n ≤ rest.length)
    (hver : (⟨Extracted.maxVersion.1, Extracted.maxVersion.2⟩ : Version).lt h.version = false) :
    parseStep s = { addReq s (appReq s h fr rest) (initialBody fr.kind rest).2 with
      nextIdx := s.nextIdx + 1,
      parserEnd := if isLastRequest h.version h.headers then some .closed else none } := by
  unfold parseStep appReq
  simp only [hh, hf, hver]
  cases hk : fr.kind with
  | buffered n =>
    have := hshort n hk
    have hd : decide (rest.length < n) = false := by simp; omega
    simp only [hd, Bool.false_eq_true, if_false]
  | _ => simp only [Bool.false_eq_true, if_false]

theorem parseStep_505 (s : State) (h : Head) (rest : Bytes) (fr : Framing)
    (hh : readHead s.rest s.fin = .ok (h, rest)) (hf : framingFor h.version h.headers = .ok fr)
    (hshort : ∀ n, fr.kind = .buffered n → n ≤ rest.length)
    (hver : (⟨Extracted.maxVersion.1, Extracted.maxVersion.2⟩ : Version).lt h.version = true) :
    parseStep s = addReq s (conn505Req h fr rest) (initialBody fr.kind rest).2 := by
  unfold parseStep conn505Req
  simp only [hh, hf, hver]
  cases hk : fr.kind with
  | buffered n =>
    have := hshort n hk
    have hd : decide (rest.length < n) = false := by simp; omega
    simp only [hd, Bool.false_eq_true, if_false, if_true]
  | _ => simp only [Bool.false_eq_true, if_false, if_true]

theorem parseStep_short (s : State) (h : Head) (rest : Bytes) (fr : Framing) (n : Nat)
    (hh : readHead s.rest s.fin = .ok (h, rest)) (hf : framingFor h.version h.headers = .ok fr)
    (hk : fr.kind = .buffered n) (hs : rest.length < n) :
    parseStep s = { s with parserEnd := some (if s.fin == .open then .waiting else .closed) } := by
  have hd : decide (rest.length < n) = true := by simpa using hs
  unfold parseStep
  simp only [hh, hf, hk, hd, if_true]

/-- a request as `parse` creates it -/
def NewReq (r : PReq) : Prop := (r.stage = .fresh ∧ r.owner = .app) ∨ r.stage = .readDone

theorem futEmit_errReq (fin : EndState) (rest bytes : Bytes) : futEmit fin rest (errReq bytes) = bytes := rfl
theorem futDel_errReq (fin : EndState) (rest bytes : Bytes) : futDel fin rest (errReq bytes) = [] := rfl

/-- `parse`, against one iteration of `runLoop`: either the connection thread just stops, or it
    creates one request whose future is exactly what the iteration does. -/
theorem par_parse_cases (s : State) (hpe : s.parserEnd = none) :
    (∃ e, parseStep s = { s with parserEnd := some e } ∧
      ∀ fuel idx st, (runLoop (fuel + 1) idx st s.rest s.fin s.script).out = st.out ∧
        (runLoop (fuel + 1) idx st s.rest s.fin s.script).delivered = st.delivered) ∨
    (∃ r rest1 idx' pe, parseStep s = { addReq s r rest1 with nextIdx := idx', parserEnd := pe } ∧
      NewReq r ∧ rest1.length ≤ s.rest.length ∧ (pe = none → rest1.length < s.rest.length) ∧
      ∀ fuel st,
        (runLoop (fuel + 1) s.nextIdx st s.rest s.fin s.script).out =
          st.out ++ (futEmit s.fin rest1 r ++ tailOut s.fin s.script pe idx' (futAfter s.fin rest1 r) fuel) ∧
        (runLoop (fuel + 1) s.nextIdx st s.rest s.fin s.script).delivered =
          st.delivered ++ (futDel s.fin rest1 r ++ tailDel s.fin s.script pe idx' (futAfter s.fin rest1 r) fuel)) := by
  cases hh : readHead s.rest s.fin with
  | error e =>
    have hrl := fun fuel idx st => par_runLoop_head_error fuel idx st s.rest s.fin s.script e hh
    cases e with
    | wrongRequestLine =>
      right
      refine ⟨errReq (printError 400 ⟨1, 1⟩ false), s.rest, s.nextIdx, some .closed, ?_, Or.inr rfl,
        Nat.le_refl _, by simp, ?_⟩
      · unfold parseStep; simp only [hh]; rfl
      · intro fuel st
        obtain ⟨a1, a2⟩ := hrl fuel s.nextIdx st
        rw [a1, a2, futEmit_errReq, futDel_errReq]
        simp [tailOut, tailDel, headErrBytes]
    | wrongHeader v =>
      right
      refine ⟨errReq (printError 400 v false), s.rest, s.nextIdx, some .closed, ?_, Or.inr rfl,
        Nat.le_refl _, by simp, ?_⟩
      · unfold parseStep; simp only [hh]; rfl
      · intro fuel st
        obtain ⟨a1, a2⟩ := hrl fuel s.nextIdx st
        rw [a1, a2, futEmit_errReq, futDel_errReq]
        simp [tailOut, tailDel, headErrBytes]
    | notAscii =>
      left
      refine ⟨.closed, by unfold parseStep; simp only [hh], ?_⟩
      intro fuel idx st
      obtain ⟨a1, a2⟩ := hrl fuel idx st
      rw [a1, a2]; simp [headErrBytes]
    | stop st0 =>
      left
      have hrl' : ∀ fuel idx st, (runLoop (fuel + 1) idx st s.rest s.fin s.script).out = st.out ∧
          (runLoop (fuel + 1) idx st s.rest s.fin s.script).delivered = st.delivered := by
        intro fuel idx st
        obtain ⟨a1, a2⟩ := hrl fuel idx st
        rw [a1, a2]; simp [headErrBytes]
      cases st0 with
      | pending => exact ⟨.waiting, by unfold parseStep; simp only [hh], hrl'⟩
      | eof => exact ⟨.closed, by unfold parseStep; simp only [hh], hrl'⟩
      | reset => exact ⟨.closed, by unfold parseStep; simp only [hh], hrl'⟩
  | ok p =>
    obtain ⟨h, rest⟩ := p
    have hlen := par_readHead_len s.rest s.fin h rest hh
    cases hf : framingFor h.version h.headers with
    | error e =>
      right
      have hrl := fun fuel idx st => par_runLoop_framing_error fuel idx st s.rest s.fin s.script h rest e hh hf
      refine ⟨errReq (framingErrBytes h.version e), s.rest, s.nextIdx, some .closed, ?_, Or.inr rfl,
        Nat.le_refl _, by simp, ?_⟩
      · unfold parseStep; simp only [hh, hf]
        cases e <;> rfl
      · intro fuel st
        obtain ⟨a1, a2⟩ := hrl fuel s.nextIdx st
        rw [a1, a2, futEmit_errReq, futDel_errReq]
        simp [tailOut, tailDel]
    | ok fr =>
      by_cases hshort : isShort fr.kind rest
      · obtain ⟨n, hk, hs⟩ := hshort
        left
        exact ⟨_, parseStep_short s h rest fr n hh hf hk hs,
          fun fuel idx st => par_runLoop_short fuel idx st s.rest s.fin s.script h rest fr n hh hf hk hs⟩
      · have hshort := not_isShort hshort
        have hlen1 := par_initialBody_len fr.kind rest
        right
        cases hver : (⟨Extracted.maxVersion.1, Extracted.maxVersion.2⟩ : Version).lt h.version with
        | true =>
          refine ⟨conn505Req h fr rest, (initialBody fr.kind rest).2, s.nextIdx, none, ?_, Or.inr rfl,
            by omega, fun _ => by omega, ?_⟩
          · rw [parseStep_505 s h rest fr hh hf hshort hver]
            simp only [addReq, hpe]
          · intro fuel st
            rw [par_runLoop_505 fuel s.nextIdx st s.rest s.fin s.script h rest fr hh hf hshort hver]
            have e1 : futEmit s.fin (initialBody fr.kind rest).2 (conn505Req h fr rest) = print505 := rfl
            have e2 : futDel s.fin (initialBody fr.kind rest).2 (conn505Req h fr rest) = [] := rfl
            have e3 : futAfter s.fin (initialBody fr.kind rest).2 (conn505Req h fr rest) =
              Body.drain ((initialBody fr.kind rest).2.length + 2) (initialBody fr.kind rest).1
                (initialBody fr.kind rest).2 s.fin := rfl
            rw [e1, e2, e3]
            cases Body.drain ((initialBody fr.kind rest).2.length + 2) (initialBody fr.kind rest).1
                (initialBody fr.kind rest).2 s.fin with
            | none => simp [tailOut, tailDel]
            | some rest2 =>
              simp only [tailOut, tailDel, Option.isSome_none, Bool.false_eq_true, if_false]
              obtain ⟨a1, a2⟩ := par_runLoop_acc fuel s.nextIdx (st.emit 505 (some print505) true) rest2 s.fin s.script
              rw [a1, a2]; simp
        | false =>
          refine ⟨appReq s h fr rest, (initialBody fr.kind rest).2, s.nextIdx + 1,
            (if isLastRequest h.version h.headers then some .closed else none), ?_, Or.inl ⟨rfl, rfl⟩,
            by omega, fun _ => by omega, ?_⟩
          · exact parseStep_app s h rest fr hh hf hshort hver
          · intro fuel st
            have hf' : framingOf h.headers = .ok fr := by
              rw [← framingFor_of_not_high _ _ hver]; exact hf
            rw [runLoop_step fuel s.nextIdx st s.rest s.fin s.script h rest fr hh hf' hshort hver]
            have hs := par_handle_spec st h fr (isLastRequest h.version h.headers) (s.script s.nextIdx)
              (initialBody fr.kind rest).1 (initialBody fr.kind rest).2 s.fin
            have e1 : futEmit s.fin (initialBody fr.kind rest).2 (appReq s h fr rest) =
              contBytes h fr (s.script s.nextIdx) ++
                (if (handlerReads (s.script s.nextIdx) (initialBody fr.kind rest).1 (initialBody fr.kind rest).2 s.fin).2.1
                    = .pending then [] else finishBytes h (s.script s.nextIdx)) := rfl
            have e2 : futDel s.fin (initialBody fr.kind rest).2 (appReq s h fr rest) =
              [⟨h.method, h.url, h.version, h.headers, fr.bodyLength,
                (handlerReads (s.script s.nextIdx) (initialBody fr.kind rest).1 (initialBody fr.kind rest).2 s.fin).1,
                (handlerReads (s.script s.nextIdx) (initialBody fr.kind rest).1 (initialBody fr.kind rest).2 s.fin).2.1,
                isLastRequest h.version h.headers⟩] := rfl
            have e3 : futAfter s.fin (initialBody fr.kind rest).2 (appReq s h fr rest) =
              if (handlerReads (s.script s.nextIdx) (initialBody fr.kind rest).1 (initialBody fr.kind rest).2 s.fin).2.1
                  = .pending then none
              else Body.drain
                ((handlerReads (s.script s.nextIdx) (initialBody fr.kind rest).1 (initialBody fr.kind rest).2 s.fin).2.2.2.length + 2)
                (handlerReads (s.script s.nextIdx) (initialBody fr.kind rest).1 (initialBody fr.kind rest).2 s.fin).2.2.1
                (handlerReads (s.script s.nextIdx) (initialBody fr.kind rest).1 (initialBody fr.kind rest).2 s.fin).2.2.2
                s.fin := rfl
            rw [e1, e2, e3]
            generalize handle st h fr (isLastRequest h.version h.headers) (s.script s.nextIdx)
                (initialBody fr.kind rest).1 (initialBody fr.kind rest).2 s.fin = R at hs
            obtain ⟨s1, r1, b1⟩ := R
            obtain ⟨so, sd, hnb, hb⟩ := hs
            simp only at so sd hnb hb ⊢
            cases b1 with
            | true =>
              simp only [if_true, St.finish_out, St.finish_delivered, so, sd]
              by_cases hl : isLastRequest h.version h.headers = true
              · simp [tailOut, tailDel, hl]
              · rcases hb rfl with hp | hd
                · simp [tailOut, tailDel, hl, hp]
                · by_cases hp : (handlerReads (s.script s.nextIdx) (initialBody fr.kind rest).1
                    (initialBody fr.kind rest).2 s.fin).2.1 = .pending
                  · simp [tailOut, tailDel, hl, hp]
                  · simp [tailOut, tailDel, hl, hp, hd]
            | false =>
              obtain ⟨hp, hd⟩ := hnb rfl
              simp only [Bool.false_eq_true, if_false]
              by_cases hl : isLastRequest h.version h.headers = true
              · simp [tailOut, tailDel, hl, so, sd, hp]
              · obtain ⟨a1, a2⟩ := par_runLoop_acc fuel (s.nextIdx + 1) s1 r1 s.fin s.script
                simp only [hl, if_false, a1, a2, so, sd, tailOut, tailDel, hp, hd, Option.isSome_none,
                  Bool.false_eq_true]
                simp

end Lts.Par
end TH
