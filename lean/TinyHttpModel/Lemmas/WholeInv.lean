/- helper lemmas: the whole-server composition (Lts.Whole) -/
import TinyHttpModel.Lts.Whole
import TinyHttpModel.Lemmas.QueueInv
import TinyHttpModel.Lemmas.PoolInvWait
import TinyHttpModel.Lemmas.PoolInvTasks
import TinyHttpModel.Lemmas.WholeInvBase   -- runs, `Step`, projections onto Lts.Pool / Lts.Queue
import TinyHttpModel.Lemmas.WholeInvData   -- `DataInv`: queued = taken from the connections
import TinyHttpModel.Lemmas.WholeInvPool   -- `Loc`: where a connection's task is; progress

namespace TH.Lts.Whole

end TH.Lts.Whole
