/- helper lemmas (OracleLoop): the connection loop over the oracle socket -/
import TinyHttpModel.Lemmas.OracleDrain
import TinyHttpModel.Lemmas.Loop
namespace TH

/-! ### what the comparison of the two semantics leaves out

The chunk decoder discards the data of the read in which it finds a chunk's CRLF missing (or not
yet there): how much the application had obtained from that chunk before depends on how the socket
cut it.  So for a request with a chunked body whose reading ended with an error or blocked, the
bytes obtained are not a function of the stream alone. -/

/-- the request has a chunked body (as decided by `framingOf`). -/
def isChunkedReq (hs : List Header) : Bool :=
  match framingOf hs with
  | .ok fr => decide (fr.kind = .chunked)
  | .error _ => false

/-- a delivered request whose `bodyRead` may depend on the segmentation. -/
def Delivered.lossy (d : Delivered) : Bool :=
  (decide (d.readEnd = .err) || decide (d.readEnd = .pending)) && isChunkedReq d.headers

def Delivered.maskPartial (d : Delivered) : Delivered :=
  if d.lossy then { d with bodyRead := [] } else d

/-- forget `bodyRead` of the delivered requests with a chunked body whose reading ended with an
    error or blocked. -/
def Trace.maskPartial (t : Trace) : Trace :=
  { t with delivered := t.delivered.map Delivered.maskPartial }

def St.maskPartial (s : St) : St :=
  { s with delivered := s.delivered.map Delivered.maskPartial }

theorem Delivered.lossy_mask (d : Delivered) : d.maskPartial.lossy = d.lossy := by
  unfold Delivered.maskPartial
  split
  · rfl
  · rfl

theorem Delivered.mask_of_not_lossy (d : Delivered) (h : d.lossy = false) : d.maskPartial = d := by
  unfold Delivered.maskPartial; simp [h]

theorem Delivered.eq_of_mask_eq (d1 d2 : Delivered) (h : d1.maskPartial = d2.maskPartial) (h2 : d2.lossy = false) :
    d1 = d2 := by
  rw [Delivered.mask_of_not_lossy d2 h2] at h
  have : d1.lossy = false := by rw [← Delivered.lossy_mask, h, h2]
  rw [Delivered.mask_of_not_lossy d1 this] at h
  exact h

theorem list_eq_of_mask_eq : ∀ (l1 l2 : List Delivered),
    l1.map Delivered.maskPartial = l2.map Delivered.maskPartial → (∀ d ∈ l2, d.lossy = false) → l1 = l2 := by
  intro l1
  induction l1 with
  | nil => intro l2 h _; cases l2 with
    | nil => rfl
    | cons _ _ => simp at h
  | cons d1 l1 ih =>
    intro l2 h h2
    cases l2 with
    | nil => simp at h
    | cons d2 l2 =>
      simp only [List.map_cons, List.cons.injEq] at h
      rw [Delivered.eq_of_mask_eq d1 d2 h.1 (h2 d2 (by simp)), ih l2 h.2 (fun d hd => h2 d (by simp [hd]))]

theorem Trace.eq_of_mask_eq (t1 t2 : Trace) (h : t1.maskPartial = t2.maskPartial)
    (h2 : ∀ d ∈ t2.delivered, d.lossy = false) : t1 = t2 := by
  cases t1; cases t2
  simp only [Trace.maskPartial, Trace.mk.injEq] at h
  simp only [Trace.mk.injEq]
  exact ⟨list_eq_of_mask_eq _ _ h.1 h2, h.2⟩

/-! ### mask algebra on the loop state -/

theorem St.mask_emit (s : St) (status : Nat) (bs : Option Bytes) (fl : Bool) :
    (s.emit status bs fl).maskPartial = s.maskPartial.emit status bs fl := rfl

theorem St.mask_finish (s : St) (e : ConnEnd) : (s.finish e).maskPartial = s.maskPartial.finish e := rfl

theorem St.mask_deliver (s : St) (d : Delivered) :
    ({ s with delivered := s.delivered ++ [d] } : St).maskPartial =
      { s.maskPartial with delivered := s.maskPartial.delivered ++ [d.maskPartial] } := by
  simp [St.maskPartial]

theorem St.mask_handleS1 (s : St) (h : Head) (fr : Framing) (a : Action) :
    (handleS1 s h fr a).maskPartial = handleS1 s.maskPartial h fr a := by
  unfold handleS1; split <;> rfl

theorem St.mask_handleS3 (s : St) (h : Head) (f : Finish) :
    (handleS3 s h f).maskPartial = handleS3 s.maskPartial h f := by
  cases f with
  | respondFail r n =>
    simp only [handleS3]
    split <;> rfl
  | _ => rfl

/-! ### `handleO`, decomposed like `handle` -/

/-- the empty-buffer read of `handleO`. -/
def zeroReadEffectO (body : Body) (s : OSrc) : Option (Body × OSrc) :=
  match body with
  | .limited _ | .chunked _ =>
    (match Body.drainO (s.bytes.length + 2) body s with
     | some s' => some (.done, s')
     | none => none)
  | _ => some (body, s)

def handleZRO (a : Action) (body : Body) (s : OSrc) : Option (Body × OSrc) :=
  if a.asReaderCalls > 0 && a.zeroRead then zeroReadEffectO body s else some (body, s)

/-- the reads proper of `handleO`. -/
def handleReadO0 (a : Action) (body : Body) (s : OSrc) : Bytes × Option ReadOut × Body × OSrc :=
  if a.asReaderCalls > 0 && a.readTotal > 0 then
    Body.readUpToO (a.readTotal + 1) body (max a.bufSize 1) a.readTotal s
  else ([], none, body, s)

def handleReadO (a : Action) (body : Body) (s : OSrc) : Bytes × Option ReadOut × Body × OSrc :=
  match handleZRO a body s with
  | some (b', s') => handleReadO0 a b' s'
  | none => ([], some .pending, body, s)

/-- `handleO` after its empty-buffer read, whose outcome is `zr`. -/
def handleO1 (st : St) (h : Head) (fr : Framing) (last : Bool) (a : Action) (zr : Option (Body × OSrc))
    (body : Body) (s : OSrc) : St × OSrc × Bool :=
  let st1 := if a.asReaderCalls > 0 && fr.expectContinue then
      st.emit 100 (printResp (Resp.empty 100) [] h.version h.headers true none) true
    else st
  let (body, s, zrBlocked) := match zr with
    | some (b', s') => (b', s', false)
    | none => (body, s, true)
  let (got, rend, body1, s1) :=
    if zrBlocked then ([], some ReadOut.pending, body, s)
    else if a.asReaderCalls > 0 && a.readTotal > 0 then
      Body.readUpToO (a.readTotal + 1) body (max a.bufSize 1) a.readTotal s
    else ([], none, body, s)
  let readEnd : ReadEnd := match rend with
    | none => .none
    | some .eof => .eof
    | some .err => .err
    | some .pending => .pending
    | some (.data _) => .none
  let d : Delivered := ⟨h.method, h.url, h.version, h.headers, fr.bodyLength, got, readEnd, last⟩
  let st2 := { st1 with delivered := st1.delivered ++ [d] }
  if readEnd == .pending then (st2, s1, true)
  else
    let isHead := h.method.isHead
    let st3 := match a.fin with
      | .respond r => st2.emit r.status (printResp r.toResp r.pieces h.version h.headers isHead none) true
      | .drop => st2.emit 500 (printResp (Resp.empty 500) [] h.version h.headers isHead none) true
      | .writer ops =>
        let b := wopsBytes ops
        let base := st2.out.length
        { st2 with out := st2.out ++ b, flushed := wopsFlushed ops base st2.flushed }
      | .upgrade proto r ops =>
        let s' := st2.emit r.status (printResp r.toResp r.pieces h.version h.headers false (some proto)) true
        let b := wopsBytes ops
        let base := s'.out.length
        { s' with out := s'.out ++ b, flushed := wopsFlushed ops base s'.flushed }
      | .respondFail r failAfter =>
        (match printRespFailing r h.version h.headers isHead failAfter with
         | some (bytes, ok) => st2.emit r.status (some bytes) ok
         | none => st2.emit r.status none false)
    match Body.drainO (s1.bytes.length + 2) body1 s1 with
    | some s2 => (st3, s2, false)
    | none => (st3, { s1 with bytes := [] }, true)

theorem handleO_eq0 (st : St) (h : Head) (fr : Framing) (last : Bool) (a : Action) (body : Body) (s : OSrc) :
    handleO st h fr last a body s = handleO1 st h fr last a (handleZRO a body s) body s := rfl

theorem handleO_eq (st : St) (h : Head) (fr : Framing) (last : Bool) (a : Action) (body : Body) (s : OSrc) :
    handleO st h fr last a body s =
      let rd := handleReadO a body s
      let s1 := handleS1 st h fr a
      let d : Delivered := ⟨h.method, h.url, h.version, h.headers, fr.bodyLength, rd.1, readEndOf rd.2.1, last⟩
      let s2 : St := { s1 with delivered := s1.delivered ++ [d] }
      if readEndOf rd.2.1 = .pending then (s2, rd.2.2.2, true)
      else
        match Body.drainO (rd.2.2.2.bytes.length + 2) rd.2.2.1 rd.2.2.2 with
        | some s' => (handleS3 s2 h a.fin, s', false)
        | none => (handleS3 s2 h a.fin, { rd.2.2.2 with bytes := [] }, true) := by
  rw [handleO_eq0]
  unfold handleO1 handleReadO
  generalize handleZRO a body s = zr
  rcases zr with _ | ⟨b', s'⟩
  · rfl
  · unfold handleReadO0
    simp only [Bool.false_eq_true, if_false]
    generalize (if (decide (a.asReaderCalls > 0) && decide (a.readTotal > 0)) = true then
          Body.readUpToO (a.readTotal + 1) b' (max a.bufSize 1) a.readTotal s'
        else ([], none, b', s')) = rd
    obtain ⟨got, rend, body1, s1⟩ := rd
    rcases rend with _ | (_ | _ | _ | _)
    all_goals first | rfl | (cases a.fin <;> rfl)

theorem readEndOf_pending (e : Option ReadOut) : readEndOf e = .pending ↔ e = some .pending := by
  rcases e with _ | (_ | _ | _ | _) <;> simp [readEndOf]

theorem readEndOf_err (e : Option ReadOut) : readEndOf e = .err ↔ e = some .err := by
  rcases e with _ | (_ | _ | _ | _) <;> simp [readEndOf]

/-- the reads proper of `handleO` against those of `handle`. -/
theorem handleReadO0_vs_flat (a : Action) (body : Body) (bs : Bytes) (fin : EndState) (orc : List Nat)
    (hb0 : body ≠ .chunked (some 0)) :
    let r := handleReadO0 a body ⟨bs, fin, orc⟩
    let f := handleRead0 a body bs fin
    r.2.1 = f.2.1 ∧ r.2.2.1 = f.2.2.1 ∧ r.2.2.2.bytes = f.2.2.2 ∧ r.2.2.2.fin = fin ∧
    ((¬ (∃ ic, body = .chunked ic) ∨ (f.2.1 ≠ some .err ∧ f.2.1 ≠ some .pending)) → r.1 = f.1) ∧
    (f.2.1 ≠ some .pending → f.2.2.1 ≠ .chunked (some 0)) := by
  unfold handleReadO0 handleRead0
  by_cases hc : (decide (a.asReaderCalls > 0) && decide (a.readTotal > 0)) = true
  · simp only [hc, if_true]
    exact readUpToO_vs_flat (a.readTotal + 1) body (max a.bufSize 1) a.readTotal bs fin orc (by omega) (by omega) hb0
  · simp only [hc]
    exact ⟨rfl, rfl, rfl, rfl, fun _ => rfl, fun _ => hb0⟩

/-- the empty-buffer read of `handleO` against that of `handle`: both block, or both continue
    with the same reader state at the same stream position. -/
theorem zeroReadEffectO_vs_flat (body : Body) (bs : Bytes) (fin : EndState) (orc : List Nat)
    (hb0 : body ≠ .chunked (some 0)) :
    (zeroReadEffect body bs fin = none ∧ zeroReadEffectO body ⟨bs, fin, orc⟩ = none) ∨
    (∃ b' r orc', zeroReadEffect body bs fin = some (b', r) ∧
      zeroReadEffectO body ⟨bs, fin, orc⟩ = some (b', ⟨r, fin, orc'⟩) ∧ b' ≠ .chunked (some 0) ∧
      ((∃ ic, b' = .chunked ic) → ∃ ic, body = .chunked ic)) := by
  have key : ∀ b : Body, b ≠ .chunked (some 0) →
      ((match Body.drain (bs.length + 2) b bs fin with
          | some bs' => some (Body.done, bs')
          | none => none) = none ∧
        (match Body.drainO (bs.length + 2) b ⟨bs, fin, orc⟩ with
          | some s' => some (Body.done, s')
          | none => none) = none) ∨
      (∃ b' r orc', (match Body.drain (bs.length + 2) b bs fin with
          | some bs' => some (Body.done, bs')
          | none => none) = some (b', r) ∧
        (match Body.drainO (bs.length + 2) b ⟨bs, fin, orc⟩ with
          | some s' => some (Body.done, s')
          | none => none) = some (b', ⟨r, fin, orc'⟩) ∧ b' ≠ .chunked (some 0) ∧
        ((∃ ic, b' = .chunked ic) → ∃ ic, body = .chunked ic)) := by
    intro b hb
    rcases drainO_vs_flat (bs.length + 2) b bs fin orc hb (by omega) with ⟨f1, f2⟩ | ⟨r, o', f1, f2⟩
    · rw [f1, f2]; exact Or.inl ⟨rfl, rfl⟩
    · rw [f1, f2]
      exact Or.inr ⟨.done, r, o', rfl, rfl, (by intro h; cases h), fun ⟨_, h⟩ => by cases h⟩
  cases body with
  | limited n => exact key _ hb0
  | chunked ic => exact key _ hb0
  | done => exact Or.inr ⟨_, _, orc, rfl, rfl, hb0, fun h => h⟩
  | failed => exact Or.inr ⟨_, _, orc, rfl, rfl, hb0, fun h => h⟩
  | cursor d => exact Or.inr ⟨_, _, orc, rfl, rfl, hb0, fun h => h⟩
  | raw => exact Or.inr ⟨_, _, orc, rfl, rfl, hb0, fun h => h⟩

theorem handleZRO_vs_flat (a : Action) (body : Body) (bs : Bytes) (fin : EndState) (orc : List Nat)
    (hb0 : body ≠ .chunked (some 0)) :
    (handleZR a body bs fin = none ∧ handleZRO a body ⟨bs, fin, orc⟩ = none) ∨
    (∃ b' r orc', handleZR a body bs fin = some (b', r) ∧
      handleZRO a body ⟨bs, fin, orc⟩ = some (b', ⟨r, fin, orc'⟩) ∧ b' ≠ .chunked (some 0) ∧
      ((∃ ic, b' = .chunked ic) → ∃ ic, body = .chunked ic)) := by
  unfold handleZR handleZRO
  split
  · exact zeroReadEffectO_vs_flat body bs fin orc hb0
  · exact Or.inr ⟨_, _, orc, rfl, rfl, hb0, fun h => h⟩

/-- the read phase of `handleO` against that of `handle`. -/
theorem handleReadO_vs_flat (a : Action) (body : Body) (bs : Bytes) (fin : EndState) (orc : List Nat)
    (hb0 : body ≠ .chunked (some 0)) :
    let r := handleReadO a body ⟨bs, fin, orc⟩
    let f := handleRead a body bs fin
    r.2.1 = f.2.1 ∧ r.2.2.1 = f.2.2.1 ∧ r.2.2.2.bytes = f.2.2.2 ∧ r.2.2.2.fin = fin ∧
    ((¬ (∃ ic, body = .chunked ic) ∨ (f.2.1 ≠ some .err ∧ f.2.1 ≠ some .pending)) → r.1 = f.1) ∧
    (f.2.1 ≠ some .pending → f.2.2.1 ≠ .chunked (some 0)) := by
  rcases handleZRO_vs_flat a body bs fin orc hb0 with ⟨z1, z2⟩ | ⟨b', r, orc', z1, z2, hb0', hck⟩
  · simp [handleReadO, handleRead, z1, z2]
  · simp only [handleReadO, handleRead, z1, z2]
    obtain ⟨e1, e2, e3, e4, e5, e6⟩ := handleReadO0_vs_flat a b' r fin orc' hb0'
    refine ⟨e1, e2, e3, e4, fun h => e5 ?_, e6⟩
    rcases h with h | h
    · exact Or.inl (fun hc => h (hck hc))
    · exact Or.inr h

/-- `handleO` against `handle`, from states that agree up to the mask. -/
theorem handleO_vs_flat (st1 st2 : St) (h : Head) (fr : Framing) (last : Bool) (a : Action) (body : Body)
    (bs : Bytes) (fin : EndState) (orc : List Nat)
    (hst : st1.maskPartial = st2.maskPartial) (hb0 : body ≠ .chunked (some 0))
    (hck : (∃ ic, body = .chunked ic) → isChunkedReq h.headers = true) :
    let rO := handleO st1 h fr last a body ⟨bs, fin, orc⟩
    let rF := handle st2 h fr last a body bs fin
    rO.1.maskPartial = rF.1.maskPartial ∧ rO.2.2 = rF.2.2 ∧
    (rF.2.2 = false → ∃ orc', rO.2.1 = ⟨rF.2.1, fin, orc'⟩) := by
  rw [handleO_eq, handle_eq]
  obtain ⟨e1, e2, e3, e4, e5, e6⟩ := handleReadO_vs_flat a body bs fin orc hb0
  generalize handleReadO a body ⟨bs, fin, orc⟩ = rd at e1 e2 e3 e4 e5 e6
  generalize handleRead a body bs fin = rf at e1 e2 e3 e4 e5 e6
  obtain ⟨gO, eO, bO, sO⟩ := rd
  obtain ⟨gF, eF, bF, rF⟩ := rf
  obtain ⟨sb, sf, so⟩ := sO
  simp only at e1 e2 e3 e4 e5 e6
  subst e1 e2 e3 e4
  simp only
  -- the delivered records agree up to the mask
  have hd : (⟨h.method, h.url, h.version, h.headers, fr.bodyLength, gO, readEndOf eO, last⟩ : Delivered).maskPartial =
      (⟨h.method, h.url, h.version, h.headers, fr.bodyLength, gF, readEndOf eO, last⟩ : Delivered).maskPartial := by
    by_cases hl : ((decide (readEndOf eO = .err) || decide (readEndOf eO = .pending)) && isChunkedReq h.headers) = true
    · unfold Delivered.maskPartial Delivered.lossy
      simp only [hl, if_true]
    · have : gO = gF := by
        apply e5
        by_cases hk : ∃ ic, body = .chunked ic
        · right
          have hk' := hck hk
          simp only [hk', Bool.and_true, Bool.or_eq_true, decide_eq_true_eq, not_or] at hl
          exact ⟨fun h => hl.1 ((readEndOf_err _).2 h), fun h => hl.2 ((readEndOf_pending _).2 h)⟩
        · left; exact hk
      rw [this]
  have hs2 : ({ handleS1 st1 h fr a with delivered := (handleS1 st1 h fr a).delivered ++
        [⟨h.method, h.url, h.version, h.headers, fr.bodyLength, gO, readEndOf eO, last⟩] } : St).maskPartial =
      ({ handleS1 st2 h fr a with delivered := (handleS1 st2 h fr a).delivered ++
        [⟨h.method, h.url, h.version, h.headers, fr.bodyLength, gF, readEndOf eO, last⟩] } : St).maskPartial := by
    rw [St.mask_deliver, St.mask_deliver, St.mask_handleS1, St.mask_handleS1, hst, hd]
  by_cases hp : readEndOf eO = .pending
  · rw [if_pos hp, if_pos hp]
    exact ⟨hs2, rfl, fun h => by cases h⟩
  · rw [if_neg hp, if_neg hp]
    have hb1 : bO ≠ .chunked (some 0) := e6 (fun h => hp ((readEndOf_pending _).2 h))
    have hs3 := congrArg (fun s => handleS3 s h a.fin) hs2
    simp only [← St.mask_handleS3] at hs3
    rcases drainO_vs_flat (sb.length + 2) bO sb sf so hb1 (by omega) with ⟨f1, f2⟩ | ⟨r, o', f1, f2⟩
    · rw [f1, f2]
      exact ⟨hs3, rfl, fun h => by cases h⟩
    · rw [f1, f2]
      exact ⟨hs3, rfl, fun _ => ⟨o', rfl⟩⟩

/-! ### the first body reader -/

/-- the small body is not completely there. -/
def isShort (k : BodyKind) (rest : Bytes) : Bool :=
  match k with
  | .buffered n => decide (rest.length < n)
  | _ => false

theorem initialBodyO_spec (k : BodyKind) (bs : Bytes) (fin : EndState) (orc : List Nat) :
    (isShort k bs = true → initialBodyO k ⟨bs, fin, orc⟩ = none) ∧
    (isShort k bs = false →
      ∃ orc', initialBodyO k ⟨bs, fin, orc⟩ = some ((initialBody k bs).1, ⟨(initialBody k bs).2, fin, orc'⟩)) := by
  cases k with
  | upgrade => exact ⟨fun h => (by cases h), fun _ => ⟨orc, rfl⟩⟩
  | empty => exact ⟨fun h => (by cases h), fun _ => ⟨orc, rfl⟩⟩
  | limited n => exact ⟨fun h => (by cases h), fun _ => ⟨orc, rfl⟩⟩
  | chunked => exact ⟨fun h => (by cases h), fun _ => ⟨orc, rfl⟩⟩
  | buffered n =>
    obtain ⟨h1, h2⟩ := readExactO_spec (n + 1) bs fin orc n [] (by omega)
    simp only [isShort, decide_eq_true_eq, decide_eq_false_iff_not]
    constructor
    · intro h
      obtain ⟨s', h'⟩ := h2 h
      unfold initialBodyO; simp only [h']
    · intro h
      obtain ⟨orc', h'⟩ := h1 (by omega)
      refine ⟨orc', ?_⟩
      unfold initialBodyO initialBody; simp only [h', List.nil_append]

theorem initialBody_ne (k : BodyKind) (bs : Bytes) : (initialBody k bs).1 ≠ .chunked (some 0) := by
  cases k <;> (intro h; cases h)

theorem initialBody_chunked (k : BodyKind) (bs : Bytes) (h : ∃ ic, (initialBody k bs).1 = .chunked ic) :
    k = .chunked := by
  obtain ⟨ic, h⟩ := h
  cases k <;> first | rfl | cases h

/-! ### the loop -/

theorem mask_finish_congr {st1 st2 : St} (h : st1.maskPartial = st2.maskPartial) (e : ConnEnd) :
    (st1.finish e).maskPartial = (st2.finish e).maskPartial := by
  rw [St.mask_finish, St.mask_finish, h]

theorem mask_emit_congr {st1 st2 : St} (h : st1.maskPartial = st2.maskPartial) (status : Nat) (bs : Option Bytes)
    (fl : Bool) : (st1.emit status bs fl).maskPartial = (st2.emit status bs fl).maskPartial := by
  rw [St.mask_emit, St.mask_emit, h]

theorem runLoop_ok (fuel idx : Nat) (s : St) (bs : Bytes) (fin : EndState) (script : Script)
    (h : Head) (rest : Bytes) (fr : Framing)
    (hh : readHead bs fin = .ok (h, rest)) (hf : framingFor h.version h.headers = .ok fr) :
    runLoop (fuel + 1) idx s bs fin script =
      if isShort fr.kind rest = true then (if fin == .open then s.finish .waiting else s.finish .closed)
      else if (⟨Extracted.maxVersion.1, Extracted.maxVersion.2⟩ : Version).lt h.version = true then
        (match Body.drain ((initialBody fr.kind rest).2.length + 2) (initialBody fr.kind rest).1
            (initialBody fr.kind rest).2 fin with
          | some rest2 => runLoop fuel idx (s.emit 505 (some print505) true) rest2 fin script
          | none => (s.emit 505 (some print505) true).finish .waiting)
      else if (handle s h fr (isLastRequest h.version h.headers) (script idx) (initialBody fr.kind rest).1
            (initialBody fr.kind rest).2 fin).2.2 = true then
        (handle s h fr (isLastRequest h.version h.headers) (script idx) (initialBody fr.kind rest).1
            (initialBody fr.kind rest).2 fin).1.finish .waiting
      else if isLastRequest h.version h.headers = true then
        (handle s h fr (isLastRequest h.version h.headers) (script idx) (initialBody fr.kind rest).1
            (initialBody fr.kind rest).2 fin).1.finish .closed
      else
        runLoop fuel (idx + 1)
          (handle s h fr (isLastRequest h.version h.headers) (script idx) (initialBody fr.kind rest).1
            (initialBody fr.kind rest).2 fin).1
          (handle s h fr (isLastRequest h.version h.headers) (script idx) (initialBody fr.kind rest).1
            (initialBody fr.kind rest).2 fin).2.1 fin script := by
  simp only [runLoop, hh, hf]
  cases hk : fr.kind <;> rfl

theorem runLoopO_ok (fuel idx : Nat) (st : St) (s s0 : OSrc) (script : Script)
    (h : Head) (fr : Framing)
    (hh : readHeadO s = (.ok h, s0)) (hf : framingFor h.version h.headers = .ok fr) :
    runLoopO (fuel + 1) idx st s script =
      match initialBodyO fr.kind s0 with
      | none => if s.fin == .open then st.finish .waiting else st.finish .closed
      | some (body, s1) =>
        if (⟨Extracted.maxVersion.1, Extracted.maxVersion.2⟩ : Version).lt h.version = true then
          (match Body.drainO (s1.bytes.length + 2) body s1 with
            | some s2 => runLoopO fuel idx (st.emit 505 (some print505) true) s2 script
            | none => (st.emit 505 (some print505) true).finish .waiting)
        else if (handleO st h fr (isLastRequest h.version h.headers) (script idx) body s1).2.2 = true then
          (handleO st h fr (isLastRequest h.version h.headers) (script idx) body s1).1.finish .waiting
        else if isLastRequest h.version h.headers = true then
          (handleO st h fr (isLastRequest h.version h.headers) (script idx) body s1).1.finish .closed
        else
          runLoopO fuel (idx + 1) (handleO st h fr (isLastRequest h.version h.headers) (script idx) body s1).1
            (handleO st h fr (isLastRequest h.version h.headers) (script idx) body s1).2.1 script := by
  simp only [runLoopO, hh, hf]
  cases initialBodyO fr.kind s0 with
  | none => rfl
  | some p => rfl

theorem runLoopO_vs_flat : ∀ (fuel idx : Nat) (st1 st2 : St) (bs : Bytes) (fin : EndState) (orc : List Nat)
    (script : Script), st1.maskPartial = st2.maskPartial →
    (runLoopO fuel idx st1 ⟨bs, fin, orc⟩ script).maskPartial = (runLoop fuel idx st2 bs fin script).maskPartial := by
  intro fuel
  induction fuel with
  | zero =>
    intro idx st1 st2 bs fin orc script hst
    rw [runLoopO, runLoop]
    exact mask_finish_congr hst _
  | succ fuel ih =>
    intro idx st1 st2 bs fin orc script hst
    have hh := readHeadO_spec bs fin orc
    cases hr : readHead bs fin with
    | error e =>
      rw [hr] at hh
      obtain ⟨s', hh⟩ := hh
      rw [runLoopO, runLoop, hh, hr]
      cases e with
      | wrongRequestLine => exact mask_finish_congr (mask_emit_congr hst _ _ _) _
      | wrongHeader v => exact mask_finish_congr (mask_emit_congr hst _ _ _) _
      | notAscii => exact mask_finish_congr hst _
      | stop st => cases st <;> exact mask_finish_congr hst _
    | ok p =>
      obtain ⟨h, rest⟩ := p
      rw [hr] at hh
      obtain ⟨orc1, hh⟩ := hh
      cases hfr : framingFor h.version h.headers with
      | error e =>
        rw [runLoopO, runLoop, hh, hr]
        simp only [hfr]
        cases e <;> exact mask_finish_congr (mask_emit_congr hst _ _ _) _
      | ok fr =>
        rw [runLoop_ok fuel idx st2 bs fin script h rest fr hr hfr,
          runLoopO_ok fuel idx st1 ⟨bs, fin, orc⟩ ⟨rest, fin, orc1⟩ script h fr hh hfr]
        obtain ⟨hI1, hI2⟩ := initialBodyO_spec fr.kind rest fin orc1
        by_cases hshort : isShort fr.kind rest = true
        · rw [hI1 hshort, if_pos hshort]
          simp only
          by_cases hfo : (fin == EndState.open) = true
          · rw [if_pos hfo, if_pos hfo]; exact mask_finish_congr hst _
          · rw [if_neg hfo, if_neg hfo]; exact mask_finish_congr hst _
        · have hs : isShort fr.kind rest = false := by simpa using hshort
          obtain ⟨orc2, hI⟩ := hI2 hs
          rw [hI, if_neg hshort]
          simp only
          have hne := initialBody_ne fr.kind rest
          have hck := initialBody_chunked fr.kind rest
          generalize initialBody fr.kind rest = ib at hne hck
          obtain ⟨body, rest1⟩ := ib
          simp only at hne hck ⊢
          by_cases hv : (⟨Extracted.maxVersion.1, Extracted.maxVersion.2⟩ : Version).lt h.version = true
          · rw [if_pos hv, if_pos hv]
            rcases drainO_vs_flat (rest1.length + 2) body rest1 fin orc2 hne (by omega) with ⟨f1, f2⟩ | ⟨r, o', f1, f2⟩
            · rw [f1, f2]
              exact mask_finish_congr (mask_emit_congr hst _ _ _) _
            · rw [f1, f2]
              exact ih idx _ _ r fin o' script (mask_emit_congr hst _ _ _)
          · rw [if_neg hv, if_neg hv]
            have hfr : framingOf h.headers = .ok fr := by
              rw [← framingFor_of_not_high h.version h.headers (by simpa using hv)]; exact hfr
            have hck' : (∃ ic, body = .chunked ic) → isChunkedReq h.headers = true := by
              intro hc
              have := hck hc
              unfold isChunkedReq; rw [hfr]; simp [this]
            obtain ⟨g1, g2, g3⟩ := handleO_vs_flat st1 st2 h fr (isLastRequest h.version h.headers) (script idx)
              body rest1 fin orc2 hst hne hck'
            generalize handleO st1 h fr (isLastRequest h.version h.headers) (script idx) body ⟨rest1, fin, orc2⟩ = rO
              at g1 g2 g3
            generalize handle st2 h fr (isLastRequest h.version h.headers) (script idx) body rest1 fin = rF
              at g1 g2 g3
            obtain ⟨stO, sO, blO⟩ := rO
            obtain ⟨stF, rF, blF⟩ := rF
            simp only at g1 g2 g3 ⊢
            subst g2
            by_cases hbl : blO = true
            · rw [if_pos hbl, if_pos hbl]; exact mask_finish_congr g1 _
            · rw [if_neg hbl, if_neg hbl]
              have hbl' : blO = false := by simpa using hbl
              obtain ⟨o', e⟩ := g3 hbl'
              subst e
              by_cases hlast : isLastRequest h.version h.headers = true
              · rw [if_pos hlast, if_pos hlast]; exact mask_finish_congr g1 _
              · rw [if_neg hlast, if_neg hlast]
                exact ih (idx + 1) _ _ rF fin o' script g1

/-- the whole connection: the oracle is irrelevant up to the mask. -/
theorem runO_masked (bs : Bytes) (fin : EndState) (script : Script) (orc : List Nat) :
    (Conn.runO bs fin orc script).maskPartial = (Conn.run bs fin script).maskPartial :=
  runLoopO_vs_flat (bs.length + 1) 0 {} {} bs fin orc script rfl

end TH
