/- helper lemmas for C19 -/
import TinyHttpModel.RespSpec
namespace TH
end TH
