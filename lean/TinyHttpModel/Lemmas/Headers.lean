/- helper lemmas for C19 -/
import TinyHttpModel.RespSpec
namespace TH
open Spec

/-! ### the model's protected-name test is the specification's -/

theorem isProtected_eq (h : Header) : isProtected h = Spec.isProtectedName h := by
  simp [isProtected, Spec.isProtectedName, Extracted.protectedHeaders, Bool.or_assoc]

/-- what survives the first stage of the policy. -/
def kept (h : Header) : Bool := !Spec.isProtectedName h && !h.is b!"Content-Length"

/-- second stage of the policy: collapse the Content-Type headers of an already filtered list. -/
def polCT (K : List Header) : List Header :=
  match lastContentType K with
  | some v => keepFirstCT v K
  | none => K

theorem policy_eq (hs : List Header) : Spec.policy hs = polCT (hs.filter kept) := rfl

/-! ### `lastContentType` -/

theorem lastCT_none_iff (K : List Header) :
    lastContentType K = none ↔ K.any (·.is b!"Content-Type") = false := by
  induction K with
  | nil => simp [lastContentType]
  | cons k K ih =>
    simp only [lastContentType, List.any_cons, Bool.or_eq_false_iff]
    cases hl : lastContentType K with
    | some v =>
      have : ¬ (K.any (·.is b!"Content-Type") = false) := fun h => by
        rw [← ih] at h; simp [hl] at h
      simp [this]
    | none =>
      have := ih.mp hl
      cases hk : k.is b!"Content-Type" <;> simp [this]

theorem lastCT_snoc (K : List Header) (h : Header) :
    lastContentType (K ++ [h]) =
      if h.is b!"Content-Type" then some h.value else lastContentType K := by
  induction K with
  | nil => simp [lastContentType]
  | cons k K ih =>
    simp only [List.cons_append, lastContentType, ih]
    cases hh : h.is b!"Content-Type" <;> simp

/-! ### `keepFirstCT` and `replaceContentType` -/

theorem keepFirstCT_snoc_other (v : Bytes) (K : List Header) (h : Header)
    (hh : h.is b!"Content-Type" = false) :
    keepFirstCT v (K ++ [h]) = keepFirstCT v K ++ [h] := by
  induction K with
  | nil => simp [keepFirstCT, hh]
  | cons k K ih =>
    simp only [List.cons_append, keepFirstCT, ih]
    cases hk : k.is b!"Content-Type" <;> simp [List.filter_append, hh]

theorem keepFirstCT_snoc_ct_some (v : Bytes) (K : List Header) (h : Header)
    (hh : h.is b!"Content-Type" = true) (hK : K.any (·.is b!"Content-Type") = true) :
    keepFirstCT v (K ++ [h]) = keepFirstCT v K := by
  induction K with
  | nil => simp at hK
  | cons k K ih =>
    simp only [List.cons_append, keepFirstCT]
    cases hk : k.is b!"Content-Type" with
    | true => simp [List.filter_append, hh]
    | false =>
      have : K.any (·.is b!"Content-Type") = true := by simpa [hk] using hK
      simp [ih this]

theorem keepFirstCT_snoc_ct_none (K : List Header) (h : Header)
    (hh : h.is b!"Content-Type" = true) (hK : K.any (·.is b!"Content-Type") = false) :
    keepFirstCT h.value (K ++ [h]) = K ++ [h] := by
  induction K with
  | nil => simp [keepFirstCT, hh]
  | cons k K ih =>
    have hk : k.is b!"Content-Type" = false := by
      cases hk : k.is b!"Content-Type" <;> simp_all
    have hK' : K.any (·.is b!"Content-Type") = false := by
      simpa [hk] using hK
    simp [keepFirstCT, hk, ih hK']

theorem replaceCT_none (v : Bytes) (K : List Header)
    (hK : K.any (·.is b!"Content-Type") = false) : replaceContentType v K = none := by
  induction K with
  | nil => rfl
  | cons k K ih =>
    have hk : k.is b!"Content-Type" = false := by
      cases hk : k.is b!"Content-Type" <;> simp_all
    have hK' : K.any (·.is b!"Content-Type") = false := by
      simpa [hk] using hK
    simp [replaceContentType, hk, ih hK']

theorem replaceCT_keepFirstCT (v w : Bytes) (K : List Header)
    (hK : K.any (·.is b!"Content-Type") = true) :
    replaceContentType v (keepFirstCT w K) = some (keepFirstCT v K) := by
  induction K with
  | nil => simp at hK
  | cons k K ih =>
    cases hk : k.is b!"Content-Type" with
    | true =>
      have : Header.is { name := k.name, value := w } b!"Content-Type" = true := hk
      simp [keepFirstCT, hk, replaceContentType, this]
    | false =>
      have hK' : K.any (·.is b!"Content-Type") = true := by simpa [hk] using hK
      simp [keepFirstCT, hk, replaceContentType, ih hK']

/-! ### one more supplied header -/

theorem polCT_snoc_other (K : List Header) (h : Header)
    (hh : h.is b!"Content-Type" = false) : polCT (K ++ [h]) = polCT K ++ [h] := by
  unfold polCT
  rw [lastCT_snoc, hh]
  cases hl : lastContentType K with
  | none => simp
  | some v => simp [keepFirstCT_snoc_other v K h hh]

theorem polCT_snoc_ct (K : List Header) (h : Header) (hh : h.is b!"Content-Type" = true) :
    polCT (K ++ [h]) =
      match replaceContentType h.value (polCT K) with
      | some l => l
      | none => polCT K ++ [h] := by
  unfold polCT
  rw [lastCT_snoc, hh]
  cases hl : lastContentType K with
  | none =>
    have hK := (lastCT_none_iff K).mp hl
    simp [replaceCT_none h.value K hK, keepFirstCT_snoc_ct_none K h hh hK]
  | some v =>
    have hK : K.any (·.is b!"Content-Type") = true := by
      cases hK : K.any (·.is b!"Content-Type") with
      | true => rfl
      | false => rw [← lastCT_none_iff, hl] at hK; cases hK
    simp [replaceCT_keepFirstCT h.value v K hK, keepFirstCT_snoc_ct_some h.value K h hh hK]

/-- `add_header` on a response whose list is the policy of `hs` gives the policy of `hs ++ [h]`. -/
theorem addHeader_headers (r : Resp) (hs : List Header) (h : Header)
    (hr : r.headers = Spec.policy hs) :
    (addHeader r h).headers = Spec.policy (hs ++ [h]) := by
  rw [policy_eq, List.filter_append]
  unfold addHeader
  rw [isProtected_eq]
  cases hp : Spec.isProtectedName h with
  | true => simp [kept, hp, hr, policy_eq]
  | false =>
    cases hc : h.is b!"Content-Length" with
    | true =>
      simp only [Bool.false_eq_true, if_false, if_true]
      cases hu : usizeFromStr h.value <;> simp [kept, hp, hc, hr, policy_eq]
    | false =>
      have hk : [h].filter kept = [h] := by simp [kept, hp, hc]
      rw [hk]
      cases ht : h.is b!"Content-Type" with
      | false => simp [polCT_snoc_other _ h ht, hr, policy_eq]
      | true =>
        rw [polCT_snoc_ct _ h ht]
        simp only [Bool.false_eq_true, if_false, if_true, hr, policy_eq]
        cases replaceContentType h.value (polCT (List.filter kept hs)) <;> simp

theorem foldl_addHeader_headers (more hs : List Header) (r : Resp)
    (hr : r.headers = Spec.policy hs) :
    (more.foldl addHeader r).headers = Spec.policy (hs ++ more) := by
  induction more generalizing hs r with
  | nil => simpa using hr
  | cons h more ih =>
    have := ih (hs ++ [h]) (addHeader r h) (addHeader_headers r hs h hr)
    simpa using this

/-! ### membership, counting -/

/-- every stored header carries the name of a kept supplied header. -/
theorem keepFirstCT_names (P : Bytes → Prop) (v : Bytes) (K : List Header)
    (hK : ∀ k ∈ K, P k.name) : ∀ h ∈ keepFirstCT v K, P h.name := by
  induction K with
  | nil => simp [keepFirstCT]
  | cons k K ih =>
    intro h hm
    simp only [keepFirstCT] at hm
    split at hm
    · rcases List.mem_cons.mp hm with rfl | hm
      · exact hK k (List.mem_cons_self ..)
      · exact hK h (List.mem_cons_of_mem _ (List.mem_filter.mp hm).1)
    · rcases List.mem_cons.mp hm with rfl | hm
      · exact hK h (List.mem_cons_self ..)
      · exact ih (fun k hk => hK k (List.mem_cons_of_mem _ hk)) h hm

theorem polCT_names (P : Bytes → Prop) (K : List Header)
    (hK : ∀ k ∈ K, P k.name) : ∀ h ∈ polCT K, P h.name := by
  unfold polCT
  split
  · exact keepFirstCT_names P _ K hK
  · exact hK

theorem policy_kept (hs : List Header) : ∀ h ∈ Spec.policy hs, kept h = true := by
  rw [policy_eq]
  have := polCT_names (fun n => kept ⟨n, []⟩ = true) (hs.filter kept)
    (fun k hk => (List.mem_filter.mp hk).2)
  exact this

theorem kept_iff (h : Header) :
    kept h = true ↔ Spec.isProtectedName h = false ∧ h.is b!"Content-Length" = false := by
  simp [kept]

theorem policy_not_framing (hs : List Header) :
    ∀ h ∈ Spec.policy hs, Spec.isAutoFraming h = false := by
  intro h hm
  have := (kept_iff h).mp (policy_kept hs h hm)
  simp only [Spec.isProtectedName, Bool.or_eq_false_iff] at this
  simp [Spec.isAutoFraming, this.1.1.2, this.2]

theorem countName_append (a b : List Header) (n : Bytes) :
    Spec.countName (a ++ b) n = Spec.countName a n + Spec.countName b n := by
  simp [Spec.countName, List.filter_append]

theorem countName_cons (a : Header) (b : List Header) (n : Bytes) :
    Spec.countName (a :: b) n = (if a.is n then 1 else 0) + Spec.countName b n := by
  simp only [Spec.countName, List.filter_cons]
  split <;> simp <;> omega

theorem countName_nil (n : Bytes) : Spec.countName [] n = 0 := rfl

theorem countName_zero_of_any (hs : List Header) (n : Bytes)
    (h : hs.any (·.is n) = false) : Spec.countName hs n = 0 := by
  simp only [Spec.countName, List.length_eq_zero_iff, List.filter_eq_nil_iff]
  intro a ha
  have := List.any_eq_false.mp h a ha
  simpa using this

theorem countName_keepFirstCT (v : Bytes) (K : List Header) :
    Spec.countName (keepFirstCT v K) b!"Content-Type" ≤ 1 := by
  induction K with
  | nil => simp [keepFirstCT, Spec.countName]
  | cons k K ih =>
    simp only [keepFirstCT]
    cases hk : k.is b!"Content-Type" with
    | true =>
      have h1 : Header.is { name := k.name, value := v } b!"Content-Type" = true := hk
      have h2 : Spec.countName (K.filter (fun x => !x.is b!"Content-Type")) b!"Content-Type" = 0 := by
        apply countName_zero_of_any
        simp [List.any_filter]
      simp [countName_cons, h1, h2]
    | false => simpa [countName_cons, hk] using ih

theorem countName_policy_ct (hs : List Header) :
    Spec.countName (Spec.policy hs) b!"Content-Type" ≤ 1 := by
  rw [policy_eq]
  unfold polCT
  split
  · exact countName_keepFirstCT _ _
  · next hl =>
    rw [countName_zero_of_any _ _ ((lastCT_none_iff _).mp hl)]
    omega

/-! ### declared length -/

theorem foldl_addHeader_dataLength (hs : List Header) (r : Resp) :
    (hs.foldl addHeader r).dataLength = Spec.declaredLen r.dataLength hs := by
  induction hs generalizing r with
  | nil => rfl
  | cons h hs ih =>
    rw [List.foldl_cons, ih, Spec.declaredLen]
    unfold addHeader
    rw [isProtected_eq]
    cases hp : Spec.isProtectedName h with
    | true => simp
    | false =>
      cases hc : h.is b!"Content-Length" with
      | true => cases hu : usizeFromStr h.value <;> simp
      | false =>
        cases ht : h.is b!"Content-Type" with
        | false => simp
        | true => cases replaceContentType h.value r.headers <;> simp

/-! ### the automatic headers -/

theorem is_mk (n v m : Bytes) : Header.is ⟨n, v⟩ m = eqIgnoreCase n m := rfl

theorem date_is_date (v : Bytes) : Header.is ⟨b!"Date", v⟩ b!"Date" = true := by
  simp only [is_mk]; decide
theorem date_is_server (v : Bytes) : Header.is ⟨b!"Date", v⟩ b!"Server" = false := by
  simp only [is_mk]; decide
theorem server_is_server (v : Bytes) : Header.is ⟨b!"Server", v⟩ b!"Server" = true := by
  simp only [is_mk]; decide
theorem server_is_date (v : Bytes) : Header.is ⟨b!"Server", v⟩ b!"Date" = false := by
  simp only [is_mk]; decide
theorem conn_is_conn (v : Bytes) : Header.is ⟨b!"Connection", v⟩ b!"Connection" = true := by
  simp only [is_mk]; decide
theorem conn_is_date (v : Bytes) : Header.is ⟨b!"Connection", v⟩ b!"Date" = false := by
  simp only [is_mk]; decide
theorem conn_is_server (v : Bytes) : Header.is ⟨b!"Connection", v⟩ b!"Server" = false := by
  simp only [is_mk]; decide
theorem upg_is_upg (v : Bytes) : Header.is ⟨b!"Upgrade", v⟩ b!"Upgrade" = true := by
  simp only [is_mk]; decide
theorem upg_is_date (v : Bytes) : Header.is ⟨b!"Upgrade", v⟩ b!"Date" = false := by
  simp only [is_mk]; decide
theorem upg_is_server (v : Bytes) : Header.is ⟨b!"Upgrade", v⟩ b!"Server" = false := by
  simp only [is_mk]; decide
theorem te_is_date (v : Bytes) : Header.is ⟨b!"Transfer-Encoding", v⟩ b!"Date" = false := by
  simp only [is_mk]; decide
theorem te_is_server (v : Bytes) : Header.is ⟨b!"Transfer-Encoding", v⟩ b!"Server" = false := by
  simp only [is_mk]; decide
theorem cl_is_date (v : Bytes) : Header.is ⟨b!"Content-Length", v⟩ b!"Date" = false := by
  simp only [is_mk]; decide
theorem cl_is_server (v : Bytes) : Header.is ⟨b!"Content-Length", v⟩ b!"Server" = false := by
  simp only [is_mk]; decide
theorem te_framing (v : Bytes) : Spec.isAutoFraming ⟨b!"Transfer-Encoding", v⟩ = true := by
  simp only [Spec.isAutoFraming, is_mk]; decide
theorem cl_framing (v : Bytes) : Spec.isAutoFraming ⟨b!"Content-Length", v⟩ = true := by
  simp only [Spec.isAutoFraming, is_mk]; decide

/-- the headers `raw_print` puts in front of the stored ones. -/
def autoLead (hs : List Header) (date : Bytes) (up : Option Bytes) : List Header :=
  (match up with
    | some p => [⟨b!"Connection", b!"upgrade"⟩, ⟨b!"Upgrade", p⟩]
    | none => [])
  ++ (if hs.any (·.is b!"Server") then [] else [⟨b!"Server", Extracted.serverName⟩])
  ++ (if hs.any (·.is b!"Date") then [] else [⟨b!"Date", date⟩])

theorem insertAuto_eq (hs : List Header) (date : Bytes) (up : Option Bytes) :
    insertAuto hs date up = autoLead hs date up ++ hs := by
  cases up <;> cases hD : hs.any (·.is b!"Date") <;> cases hS : hs.any (·.is b!"Server") <;>
    simp [insertAuto, autoLead, hD, hS, date_is_server]

theorem autoLead_names (hs : List Header) (date : Bytes) (up : Option Bytes) :
    ∀ h ∈ autoLead hs date up,
      h.is b!"Date" ∨ h.is b!"Server" ∨ h.is b!"Connection" ∨ h.is b!"Upgrade" := by
  intro h hm
  simp only [autoLead, List.mem_append] at hm
  rcases hm with (hm | hm) | hm
  · cases up with
    | none => simp at hm
    | some p =>
      simp only [List.mem_cons, List.not_mem_nil, or_false] at hm
      rcases hm with rfl | rfl
      · simp [conn_is_conn]
      · simp [upg_is_upg]
  · split at hm
    · simp at hm
    · rw [List.mem_singleton] at hm; subst hm; simp [server_is_server]
  · split at hm
    · simp at hm
    · rw [List.mem_singleton] at hm; subst hm; simp [date_is_date]

/-! ### the framing header and the oracle's stripping of it -/

theorem framingHeader_cases (te : Option Coding) (l : Option Nat) :
    framingHeader te l = [] ∨ ∃ f, framingHeader te l = [f] ∧ Spec.isAutoFraming f = true ∧
      f.is b!"Date" = false ∧ f.is b!"Server" = false := by
  unfold framingHeader
  split
  · exact .inr ⟨_, rfl, te_framing _, te_is_date _, te_is_server _⟩
  · exact .inr ⟨_, rfl, cl_framing _, cl_is_date _, cl_is_server _⟩
  · exact .inl rfl

theorem strip_none (pol : List Header) (hnf : ∀ h ∈ pol, Spec.isAutoFraming h = false) :
    (match pol.reverse with
      | f :: rr => if Spec.isAutoFraming f = true then rr.reverse else pol
      | [] => pol) = pol := by
  split
  · next f rr he =>
    have : f ∈ pol := by
      have : f ∈ pol.reverse := by rw [he]; exact List.mem_cons_self ..
      simpa using this
    simp [hnf f this]
  · rfl

end TH
