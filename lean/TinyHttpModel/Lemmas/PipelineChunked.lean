/- helper lemmas for Props/C09 pipeline_with_any_bodies: pipelines whose requests carry a
   Content-Length body, a chunked body, or no body at all -/
import TinyHttpModel.WireSpec
import TinyHttpModel.Lemmas.PipelineBodies

namespace TH

/-! ### what the read phase obtains from a chunked body is a prefix of its payload -/

theorem readPhase_chunked_prefix (a : Action) (cs : List Spec.SentChunk) (zero after : Bytes) (fin : EndState)
    (hcs : ∀ c ∈ cs, Spec.wfChunk c = true) (hz : ZeroOk zero) :
    (readPhase a (.chunked none) (Spec.renderChunked cs zero ++ after) fin).1 <+: Spec.chunkPayload cs := by
  rcases readPhase_cases a (.chunked none) (Spec.renderChunked cs zero ++ after) fin with e | e
  · rw [e]; exact List.nil_prefix
  · rw [e, (chunked_readUpTo zero after hz (max a.bufSize 1) fin (by omega) (a.readTotal + 1) none _ _
      a.readTotal (ChunkPos.line cs hcs) (by omega)).1]
    exact List.take_prefix _ _

/-- chunked body: the handler obtains a prefix of the payload (chunk data only: no size line, no
    extension, no CRLF, nothing after the terminal chunk) — the empty prefix if it first reads with
    an empty buffer (the body is discarded on the spot). -/
theorem handleRead_chunked_prefix (a : Action) (cs : List Spec.SentChunk) (zero after : Bytes) (fin : EndState)
    (hcs : ∀ c ∈ cs, Spec.wfChunk c = true) (hz : ZeroOk zero) :
    (handleRead a (.chunked none) (Spec.renderChunked cs zero ++ after) fin).1 <+: Spec.chunkPayload cs := by
  unfold handleRead
  rcases handleZR_cases a (.chunked none) (Spec.renderChunked cs zero ++ after) fin with e | e
  · rw [e]
    exact readPhase_chunked_prefix a cs zero after fin hcs hz
  · rw [e, zeroReadEffect_chunked cs zero after fin hcs hz]
    show (readPhase a .done after fin).1 <+: Spec.chunkPayload cs
    rw [readPhase_done_fst]
    exact List.nil_prefix

/-- no body: the handler obtains nothing. -/
theorem handleRead_done_fst (a : Action) (bs : Bytes) (fin : EndState) :
    (handleRead a .done bs fin).1 = [] := by
  unfold handleRead
  rw [handleZR_id a .done bs fin rfl]
  exact readPhase_done_fst a bs fin

/-! ### one iteration on a request with a chunked body / without a body -/

/-- one iteration of the loop on a well-formed request of a supported version on a connection that
    stays open, whose body is sent with the chunked transfer coding (well-formed chunks `cs`,
    terminal chunk `zero`) and is entirely on the wire: the request is delivered with the head as
    sent and no body length, the handler obtains a prefix of the chunks' payload, and the loop
    continues at the first byte after the terminal chunk with the next script entry. -/
theorem runLoop_chunked_step (fuel idx : Nat) (s : St) (h : Head) (ows : List (Bytes × Bytes))
    (cs : List Spec.SentChunk) (zero rest : Bytes) (fin : EndState) (script : Script)
    (hwf : Spec.wfHead h = true)
    (hows : ∀ o ∈ ows, Spec.isOwsList o.1 = true ∧ Spec.isOwsList o.2 = true)
    (hfr : framingOf h.headers = .ok ⟨.chunked, none, false⟩)
    (hcs : ∀ c ∈ cs, Spec.wfChunk c = true) (hz : ZeroOk zero)
    (hlast : isLastRequest h.version h.headers = false)
    (hver : (⟨Extracted.maxVersion.1, Extracted.maxVersion.2⟩ : Version).lt h.version = false) :
    ∃ (s' : St) (d : Delivered),
      runLoop (fuel + 1) idx s (Spec.renderHead h ows ++ (Spec.renderChunked cs zero ++ rest)) fin script =
        runLoop fuel (idx + 1) s' rest fin script ∧
      s'.delivered = s.delivered ++ [d] ∧
      (d.method, d.url, d.version, d.headers, d.bodyLength) =
        (h.method, h.url, h.version, h.headers, none) ∧
      d.bodyRead <+: Spec.chunkPayload cs := by
  have hh := readHead_render h ows (Spec.renderChunked cs zero ++ rest) fin hwf hows
  have hstep := runLoop_step fuel idx s _ fin script h (Spec.renderChunked cs zero ++ rest) _ hh hfr
    (by intro n hn; cases hn) hver
  have hib : initialBody (Framing.mk .chunked none false).kind (Spec.renderChunked cs zero ++ rest) =
      (.chunked none, Spec.renderChunked cs zero ++ rest) := rfl
  rw [hib, hlast] at hstep
  obtain ⟨hd1, hd2⟩ := handle_chunked s h ⟨.chunked, none, false⟩ false (script idx) cs zero rest fin hcs hz
  simp only [hd2, hd1, Bool.false_eq_true, if_false] at hstep
  exact ⟨_, _, hstep, handle_delivered .., rfl, handleRead_chunked_prefix _ cs zero rest fin hcs hz⟩

/-- one iteration of the loop on a well-formed request of a supported version on a connection that
    stays open and that has no body (no framing header: `len = none`; `Content-Length: 0`:
    `len = some 0`): delivered with the head as sent, the handler obtains nothing, and the loop
    continues at the first byte after the head. -/
theorem runLoop_empty_step (fuel idx : Nat) (s : St) (h : Head) (ows : List (Bytes × Bytes))
    (len : Option Nat) (rest : Bytes) (fin : EndState) (script : Script)
    (hwf : Spec.wfHead h = true)
    (hows : ∀ o ∈ ows, Spec.isOwsList o.1 = true ∧ Spec.isOwsList o.2 = true)
    (hfr : framingOf h.headers = .ok ⟨.empty, len, false⟩)
    (hlast : isLastRequest h.version h.headers = false)
    (hver : (⟨Extracted.maxVersion.1, Extracted.maxVersion.2⟩ : Version).lt h.version = false) :
    ∃ (s' : St) (d : Delivered),
      runLoop (fuel + 1) idx s (Spec.renderHead h ows ++ rest) fin script =
        runLoop fuel (idx + 1) s' rest fin script ∧
      s'.delivered = s.delivered ++ [d] ∧
      (d.method, d.url, d.version, d.headers, d.bodyLength) =
        (h.method, h.url, h.version, h.headers, len) ∧
      d.bodyRead = [] := by
  have hh := readHead_render h ows rest fin hwf hows
  have hstep := runLoop_step fuel idx s _ fin script h rest _ hh hfr (by intro n hn; cases hn) hver
  have hib : initialBody (Framing.mk .empty len false).kind rest = (.done, rest) := rfl
  rw [hib, hlast] at hstep
  obtain ⟨hd1, hd2⟩ := handle_done s h ⟨.empty, len, false⟩ false (script idx) rest fin
  simp only [hd2, hd1, Bool.false_eq_true, if_false] at hstep
  exact ⟨_, _, hstep, handle_delivered .., rfl, handleRead_done_fst ..⟩

/-! ### the whole pipeline, for any kind of message that steps -/

/-- a pipeline of `k` messages that each start with a rendered head is at least `k` bytes long. -/
theorem generic_pipeline_length_ge {α : Type} (head : α → Head) (ows : α → List (Bytes × Bytes))
    (wire : α → Bytes) (items : List α) :
    items.length ≤ ((items.map (fun x => Spec.renderHead (head x) (ows x) ++ wire x)).flatten).length := by
  induction items with
  | nil => simp
  | cons x xs ih =>
    have := renderHead_length_pos (head x) (ows x)
    simp only [List.map_cons, List.flatten_cons, List.length_append, List.length_cons]
    omega

/-- The induction of `runLoop_bodied_pipeline`, abstracted from the kind of message: `items` are
    messages with a head (`head`, `ows`), bytes on the wire after the head (`wire`), a content
    (`payload`) and a reported length (`declared`).  If one iteration of the loop on each of them —
    in any state, with any script, followed by any bytes — delivers its head with that length, hands
    the handler a prefix of its payload, and continues right after its wire bytes (`hstep`), then
    the loop started in any state with any script index and enough fuel arrives at the bytes after
    the pipeline having delivered exactly the heads of the pipeline, in order, each handler having
    obtained a prefix of its own message's payload. -/
theorem runLoop_generic_pipeline {α : Type} (head : α → Head) (ows : α → List (Bytes × Bytes))
    (wire payload : α → Bytes) (declared : α → Option Nat) (items : List α) :
    (∀ x ∈ items, ∀ (fuel idx : Nat) (s : St) (rest : Bytes) (fin : EndState) (script : Script),
      ∃ (s' : St) (d : Delivered),
        runLoop (fuel + 1) idx s (Spec.renderHead (head x) (ows x) ++ (wire x ++ rest)) fin script =
          runLoop fuel (idx + 1) s' rest fin script ∧
        s'.delivered = s.delivered ++ [d] ∧
        (d.method, d.url, d.version, d.headers, d.bodyLength) =
          ((head x).method, (head x).url, (head x).version, (head x).headers, declared x) ∧
        d.bodyRead <+: payload x) →
    ∀ (fuel idx : Nat) (s : St) (rest : Bytes) (fin : EndState) (script : Script),
    items.length ≤ fuel →
    ∃ (s' : St) (ds : List Delivered),
      runLoop fuel idx s
          ((items.map (fun x => Spec.renderHead (head x) (ows x) ++ wire x)).flatten ++ rest) fin script =
        runLoop (fuel - items.length) (idx + items.length) s' rest fin script ∧
      s'.delivered = s.delivered ++ ds ∧
      ds.map (fun d => (d.method, d.url, d.version, d.headers, d.bodyLength)) =
        items.map (fun x => ((head x).method, (head x).url, (head x).version, (head x).headers, declared x)) ∧
      (∀ (i : Nat) (d : Delivered) (x : α),
        ds[i]? = some d → items[i]? = some x → d.bodyRead <+: payload x) := by
  induction items with
  | nil =>
    intro _ fuel idx s rest fin script _
    exact ⟨s, [], by simp, by simp, by simp, by simp⟩
  | cons x xs ih =>
    intro hstep fuel idx s rest fin script hfuel
    obtain ⟨f, rfl⟩ : ∃ f, fuel = f + 1 := ⟨fuel - 1, by simp at hfuel; omega⟩
    obtain ⟨s1, d, hrun1, hdel1, hd, hpre⟩ :=
      hstep x (by simp) f idx s
        ((xs.map (fun x => Spec.renderHead (head x) (ows x) ++ wire x)).flatten ++ rest) fin script
    obtain ⟨s2, ds, hrun2, hdel2, hmap, hpres⟩ :=
      ih (fun y hy => hstep y (by simp [hy])) f (idx + 1) s1 rest fin script (by simp at hfuel; omega)
    refine ⟨s2, d :: ds, ?_, ?_, ?_, ?_⟩
    · simp only [List.map_cons, List.flatten_cons, List.append_assoc, List.length_cons]
      rw [hrun1, hrun2]
      congr 1 <;> omega
    · rw [hdel2, hdel1]
      simp
    · simp only [List.map_cons, hmap, hd]
    · intro i d' x' h1 h2
      cases i with
      | zero =>
        simp only [List.getElem?_cons_zero, Option.some.injEq] at h1 h2
        subst h1 h2
        exact hpre
      | succ j =>
        simp only [List.getElem?_cons_succ] at h1 h2
        exact hpres j d' x' h1 h2

end TH
