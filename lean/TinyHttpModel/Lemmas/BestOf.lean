/- helper lemmas for C05: what `Spec.bestOf` and `Spec.admissible` compute, stated without recursion -/
import TinyHttpModel.RespSpec
import TinyHttpModel.Lemmas.Choose
namespace TH
open Spec

theorem bestOf_eq_none {l : List (Coding × Q)} : bestOf l = none ↔ l = [] := by
  cases l with
  | nil => simp [bestOf]
  | cons x xs =>
    simp only [bestOf]
    cases bestOf xs with
    | none => simp
    | some y => by_cases h : y.2.gt x.2 = true <;> simp [h]

theorem bestOf_split {l : List (Coding × Q)} {y : Coding × Q} (h : bestOf l = some y) :
    ∃ pre post, l = pre ++ y :: post ∧ (∀ x ∈ pre, y.2.gt x.2 = true) ∧
      (∀ x ∈ post, x.2.gt y.2 = false) := by
  induction l generalizing y with
  | nil => simp [bestOf] at h
  | cons x xs ih =>
    simp only [bestOf] at h
    cases hb : bestOf xs with
    | none =>
      rw [hb] at h
      have hx : xs = [] := bestOf_eq_none.1 hb
      subst hx
      simp only [Option.some.injEq] at h
      subst h
      exact ⟨[], [], rfl, by simp, by simp⟩
    | some z =>
      rw [hb] at h
      dsimp only at h
      obtain ⟨pre, post, hl, hpre, hpost⟩ := ih hb
      by_cases hg : z.2.gt x.2 = true
      · rw [if_pos hg] at h
        simp only [Option.some.injEq] at h
        subst h
        refine ⟨x :: pre, post, by rw [hl]; rfl, ?_, hpost⟩
        intro a ha
        rcases List.mem_cons.1 ha with rfl | ha
        · exact hg
        · exact hpre a ha
      · rw [if_neg hg] at h
        simp only [Option.some.injEq] at h
        subst h
        have hg' : z.2.gt x.2 = false := by simpa using hg
        refine ⟨[], xs, rfl, by simp, ?_⟩
        intro a ha
        rw [hl] at ha
        rcases List.mem_append.1 ha with ha | ha
        · exact Q.gt_negtrans (Q.gt_asymm (hpre a ha)) hg'
        · rcases List.mem_cons.1 ha with rfl | ha
          · exact hg'
          · exact Q.gt_negtrans (hpost a ha) hg'

theorem admissible_eq_filterMap (te : List (Bytes × Q)) :
    Spec.admissible te = te.filterMap adm1 := by
  induction te with
  | nil => rfl
  | cons x xs ih =>
    rw [admissible_cons, List.filterMap_cons, ih]
    cases adm1 x <;> rfl
end TH
