/- pool invariant: `waiting_tasks` is exact and every queued task has a woken worker -/
import TinyHttpModel.Lemmas.PoolInvBase
namespace TH.Lts.Pool

structure Inv1 (s : State) : Prop where
  wc : s.waitingCnt = count s isWaiting + count s isWoken
  j : s.pending.length ≤ count s isWoken

theorem inv1_init : Inv1 init := by
  constructor <;> simp [init, count, minThreads, Extracted.minThreads, isWaiting, isWoken]

/-- common finish for the cases where one worker changes phase -/
local macro "setc " hph:ident p:term : tactic => `(tactic| (
  have e1 := filter_set_length' isWaiting _ _ $p _ $hph (by simp)
  have e2 := filter_set_length' isWoken _ _ $p _ $hph (by simp)
  simp only [isWaiting, isWoken] at e1 e2
  constructor <;> simp_all [count] <;> omega))

theorem inv1_step {s s' : State} {l : Label} (hi : Inv1 s) (h : step s l = some s') : Inv1 s' := by
  obtain ⟨wc, j⟩ := hi
  simp only [count] at wc j
  cases step_sound h with
  | dispNew k hd hc =>
    constructor <;> simp_all [count, List.filter_append, isWaiting, isWoken]
  | dispQNone k hd hc hn =>
    have := filter_isWaiting_of_any_false _ hn
    constructor <;> simp_all [count] <;> omega
  | dispQSome k w dl hd hc hph => setc hph (.woken false)
  | beginSome w k hph => setc hph (.running k)
  | beginNone w hph => setc hph .seeking
  | finish w k hph => setc hph .seeking
  | seekTake w k rest hph hp => setc hph (.running k)
  | seekWaitU w hph hp ha => setc hph (.waiting none)
  | seekWaitT w hph hp ha => setc hph (.waiting (some (s.now + idleNs)))
  | wokenExit w hph hp => setc hph .exited
  | wokenTake w k b rest hph hp => setc hph (.running k)
  | wokenWaitU w hph hp ha => setc hph (.waiting none)
  | wokenWaitT w hph hp ha => setc hph (.waiting (some (s.now + idleNs)))
  | wakeTimeout w d hph hd => setc hph (.woken true)
  | wakeSpurious w dl hph => setc hph (.woken false)
  | tick d => constructor <;> simp_all [count]
  | dropPool =>
    constructor <;> simp_all [count, filter_dropMap_waiting, filter_dropMap_woken] <;> omega

theorem inv1_reachable {s : State} (h : Reachable s) : Inv1 s :=
  reachable_invariant Inv1 inv1_init (fun _ _ _ hi h => inv1_step hi h) s h

end TH.Lts.Pool
