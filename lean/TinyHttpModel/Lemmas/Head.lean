/- helper lemmas for C04 (Head) -/
import TinyHttpModel.RespSpec
namespace TH
end TH
