/- helper lemmas for C04 (Head): the client parser run on a printed status line / header block -/
import TinyHttpModel.RespSpec
import TinyHttpModel.Lemmas.Digits
namespace TH
open Client

/-! ### line splitting -/

theorem splitLF_append_h (l r : Bytes) (h : 10 ∉ l) :
    splitLF (l ++ 10 :: r) = some (l, r) := by
  induction l with
  | nil => simp [splitLF]
  | cons b bs ih =>
    have hb : b ≠ 10 := by intro e; apply h; simp [e]
    have hbs : 10 ∉ bs := by intro e; apply h; simp [e]
    simp [splitLF, hb, ih hbs]

theorem stripCR_append_cr (l : Bytes) : stripCR (l ++ [13]) = l := by
  induction l with
  | nil => simp [stripCR]
  | cons b bs ih =>
    cases hbs : bs ++ [13] with
    | nil => simp at hbs
    | cons x xs =>
      rw [hbs] at ih
      simp [hbs, stripCR, ih]

/-- a CRLF-terminated line without LF is split off exactly. -/
theorem splitLine_crlf_h (l r : Bytes) (h : 10 ∉ l) :
    splitLine (l ++ 13 :: 10 :: r) = some (l, r) := by
  have h' : 10 ∉ l ++ [13] := by simp [h]
  have e : l ++ 13 :: 10 :: r = (l ++ [13]) ++ 10 :: r := by simp
  rw [e]
  simp only [splitLine, splitLF_append_h _ _ h', stripCR_append_cr]

theorem splitFirst_append (c : Nat) (l r : Bytes) (h : c ∉ l) :
    splitFirst c (l ++ c :: r) = (l, some r) := by
  induction l with
  | nil => simp [splitFirst]
  | cons b bs ih =>
    have hb : b ≠ c := by intro e; apply h; simp [e]
    have hbs : c ∉ bs := by intro e; apply h; simp [e]
    simp [splitFirst, hb, ih hbs]

theorem splitFirst_fst_append (c : Nat) (l r : Bytes) (h : c ∉ l) :
    (splitFirst c (l ++ c :: r)).1 = l := by
  rw [splitFirst_append c l r h]

/-! ### optional whitespace -/

theorem trimOwsStart_id_h (l : Bytes) (h : ∀ b ∈ l, isOws b = false) : trimOwsStart l = l := by
  cases l with
  | nil => rfl
  | cons b bs => simp [trimOwsStart, h b (by simp)]

theorem trimOwsEnd_id_h (l : Bytes) (h : ∀ b ∈ l, isOws b = false) : trimOwsEnd l = l := by
  induction l with
  | nil => rfl
  | cons b bs ih =>
    have hb := h b (by simp)
    have ih' := ih (fun x hx => h x (by simp [hx]))
    simp only [trimOwsEnd, ih']
    cases bs with
    | nil => simp [hb]
    | cons x xs => simp

theorem trimOws_id (l : Bytes) (h : ∀ b ∈ l, isOws b = false) : trimOws l = l := by
  simp [trimOws, trimOwsStart_id_h l h, trimOwsEnd_id_h l h]

theorem trimOws_sp (l : Bytes) (h : ∀ b ∈ l, isOws b = false) : trimOws (32 :: l) = l := by
  have : trimOwsStart (32 :: l) = trimOwsStart l := by simp [trimOwsStart, isOws]
  simp [trimOws, this, trimOwsStart_id_h l h, trimOwsEnd_id_h l h]

/-! ### digits -/

theorem not_mem_toDec (n c : Nat) (hc : c < 48 ∨ 57 < c) : c ∉ toDec n := by
  intro h
  have := toDec_digits n c h
  omega

theorem toDec_not_ows (n : Nat) : ∀ b ∈ toDec n, isOws b = false := by
  intro b hb
  have := toDec_digits n b hb
  simp [isOws]
  omega

/-! ### status line -/

theorem reasonTable_noLF :
    (Extracted.reasonTable.all (fun e => !e.2.contains 10)) = true := by decide

theorem lookupReason_noLF (s : Nat) (tbl : List (Nat × Bytes))
    (h : (tbl.all (fun e => !e.2.contains 10)) = true) : 10 ∉ lookupReason s tbl := by
  induction tbl with
  | nil => simp [lookupReason, Extracted.reasonDefault]
  | cons e es ih =>
    obtain ⟨c, t⟩ := e
    simp only [List.all_cons, Bool.and_eq_true] at h
    simp only [lookupReason]
    split
    · simpa using h.1
    · exact ih h.2

theorem reasonPhrase_noLF (s : Nat) : 10 ∉ reasonPhrase s :=
  lookupReason_noLF s _ reasonTable_noLF

/-- the version token of the status line. -/
def verTok (ver : Version) : Bytes := b!"HTTP/" ++ toDec ver.major ++ b!"." ++ toDec ver.minor

/-- the status line without its CRLF. -/
def statusLine (ver : Version) (status : Nat) : Bytes :=
  verTok ver ++ 32 :: (toDec status ++ 32 :: reasonPhrase status)

theorem not_mem_verTok (ver : Version) (c : Nat) (hc : c < 46 ∨ 84 < c) : c ∉ verTok ver := by
  have h1 := not_mem_toDec ver.major c (by omega)
  have h2 := not_mem_toDec ver.minor c (by omega)
  simp only [verTok, List.mem_append, not_or]
  refine ⟨⟨⟨?_, h1⟩, ?_⟩, h2⟩
  · simp; omega
  · simp; omega

theorem statusLine_noLF (ver : Version) (status : Nat) : 10 ∉ statusLine ver status := by
  have h1 := not_mem_verTok ver 10 (by omega)
  have h2 := not_mem_toDec status 10 (by omega)
  have h3 := reasonPhrase_noLF status
  simp [statusLine, h1, h2, h3]

theorem parseStatusLine_statusLine (ver : Version) (status : Nat) :
    parseStatusLine (statusLine ver status) = some (verTok ver, status) := by
  have h1 := not_mem_verTok ver 32 (by omega)
  have h2 := not_mem_toDec status 32 (by omega)
  have hsw : startsWith (verTok ver) b!"HTTP/" = true := by
    simp [verTok, startsWith]
  simp only [parseStatusLine, statusLine, splitFirst_append _ _ _ h1, splitFirst_append _ _ _ h2,
    hsw, ofDec_toDec]
  rfl

theorem messageHeader_eq (ver : Version) (status : Nat) (hs : List Header) (tail : Bytes) :
    messageHeader ver status hs ++ tail =
      statusLine ver status ++ 13 :: 10 :: ((hs.map headerLine).flatten ++ 13 :: 10 :: tail) := by
  simp [messageHeader, statusLine, verTok, crlf]

/-! ### header block -/

/-- what a header must satisfy for its printed line to parse back. -/
def lineOk (h : Header) : Prop :=
  h.name ≠ [] ∧ 58 ∉ h.name ∧ 10 ∉ h.name ∧ 10 ∉ h.value

/-- the header as the client sees it: same name, OWS-trimmed value. -/
def clientView (h : Header) : Header := ⟨h.name, trimOws (32 :: h.value)⟩

theorem headerLine_eq (h : Header) (tail : Bytes) :
    headerLine h ++ tail = (h.name ++ 58 :: 32 :: h.value) ++ 13 :: 10 :: tail := by
  simp [headerLine, crlf]

theorem parseHeaderLine_print (h : Header) (hok : lineOk h) :
    parseHeaderLine (h.name ++ 58 :: 32 :: h.value) = some (clientView h) := by
  obtain ⟨hne, h58, _, _⟩ := hok
  simp only [parseHeaderLine, splitFirst_append _ _ _ h58]
  cases hn : h.name with
  | nil => exact absurd hn hne
  | cons x xs => simp [clientView, hn]

theorem parseHeaders_print (hs : List Header) (hok : ∀ h ∈ hs, lineOk h) :
    ∀ (fuel : Nat) (tail : Bytes), hs.length < fuel →
      parseHeaders fuel ((hs.map headerLine).flatten ++ 13 :: 10 :: tail)
        = some (hs.map clientView, tail) := by
  induction hs with
  | nil =>
    intro fuel tail hf
    cases fuel with
    | zero => omega
    | succ f =>
      have := splitLine_crlf_h [] tail (by simp)
      simp only [List.nil_append] at this
      simp [parseHeaders, this]
  | cons h hs ih =>
    intro fuel tail hf
    cases fuel with
    | zero => omega
    | succ f =>
      have hokh : lineOk h := hok h (by simp)
      have ih' := ih (fun x hx => hok x (by simp [hx])) f tail (by simpa using hf)
      have hnoLF : 10 ∉ h.name ++ 58 :: 32 :: h.value := by
        obtain ⟨_, _, h10, hv⟩ := hokh
        simp [h10, hv]
      have hne : (h.name ++ 58 :: 32 :: h.value).isEmpty = false := by simp
      have e : ((h :: hs).map headerLine).flatten ++ 13 :: 10 :: tail =
          (h.name ++ 58 :: 32 :: h.value) ++
            13 :: 10 :: ((hs.map headerLine).flatten ++ 13 :: 10 :: tail) := by
        simp [headerLine, crlf]
      rw [e]
      simp only [parseHeaders, splitLine_crlf_h _ _ hnoLF, hne, parseHeaderLine_print h hokh, ih']
      simp

theorem clientView_is (h : Header) (n : Bytes) : (clientView h).is n = h.is n := rfl

theorem findHeader_clientView (hs : List Header) (n : Bytes) :
    findHeader (hs.map clientView) n = (findHeader hs n).map clientView := by
  induction hs with
  | nil => rfl
  | cons h hs ih =>
    simp only [findHeader, List.map_cons, List.find?_cons, clientView_is] at ih ⊢
    split <;> simp [ih]

theorem findHeader_append_of_none (a b : List Header) (n : Bytes)
    (h : ∀ x ∈ a, x.is n = false) : findHeader (a ++ b) n = findHeader b n := by
  induction a with
  | nil => rfl
  | cons x xs ih =>
    have hx := h x (by simp)
    have := ih (fun y hy => h y (by simp [hy]))
    simp only [findHeader, List.cons_append, List.find?_cons, hx] at this ⊢
    exact this

/-! ### the whole head -/

/-- what `Client.decode` does once status line and header block are parsed. -/
def decodeBody (isHead : Bool) (v : Bytes) (status : Nat) (hs : List Header) (r1 : Bytes) :
    Option (Msg × Bytes) :=
  if noBodyFor isHead status then some (⟨v, status, hs, [], .none⟩, r1)
  else if hasChunked hs then
    (dechunk (r1.length + 1) r1).map (fun (p, r) => (⟨v, status, hs, p, .chunked⟩, r))
  else match findHeader hs b!"Content-Length" with
    | some h =>
      match ofDec (trimOws h.value) with
      | some n =>
        if r1.length < n then none
        else some (⟨v, status, hs, r1.take n, .byLength⟩, r1.drop n)
      | none => none
    | none => some (⟨v, status, hs, r1, .untilClose⟩, [])

theorem length_le_flatten_headerLines (hs : List Header) :
    hs.length ≤ (hs.map headerLine).flatten.length := by
  induction hs with
  | nil => simp
  | cons h hs ih =>
    simp only [List.map_cons, List.flatten_cons, List.length_append, List.length_cons]
    have : 1 ≤ (headerLine h).length := by simp [headerLine, crlf]; omega
    omega

theorem decode_messageHeader (isHead : Bool) (ver : Version) (status : Nat) (hs : List Header)
    (tail : Bytes) (hok : ∀ h ∈ hs, lineOk h) :
    decode isHead (messageHeader ver status hs ++ tail)
      = decodeBody isHead (verTok ver) status (hs.map clientView) tail := by
  have hf : hs.length < ((hs.map headerLine).flatten ++ 13 :: 10 :: tail).length + 1 := by
    have := length_le_flatten_headerLines hs
    simp only [List.length_append]
    omega
  rw [messageHeader_eq]
  simp only [decode, splitLine_crlf_h _ _ (statusLine_noLF ver status), parseStatusLine_statusLine,
    parseHeaders_print hs hok _ _ hf]
  rfl

theorem noBodyStatus_iff (s : Nat) :
    Extracted.noBodyStatus s = true ↔ (100 ≤ s ∧ s ≤ 199) ∨ s = 204 ∨ s = 304 := by
  simp only [Extracted.noBodyStatus, Bool.or_eq_true, Bool.and_eq_true, decide_eq_true_eq]
  constructor <;> intro h <;> omega

theorem noBodyFor_iff (b : Bool) (s : Nat) :
    noBodyFor b s = true ↔ b = true ∨ (100 ≤ s ∧ s ≤ 199) ∨ s = 204 ∨ s = 304 := by
  simp only [noBodyFor, Bool.or_eq_true, Bool.and_eq_true, decide_eq_true_eq, beq_iff_eq]
  cases b <;> simp <;> omega

theorem noBodyFor_eq (b : Bool) (s : Nat) :
    noBodyFor b s = (b || Extracted.noBodyStatus s) := by
  rw [Bool.eq_iff_iff, noBodyFor_iff, Bool.or_eq_true, noBodyStatus_iff]

def teHeader : Header := ⟨b!"Transfer-Encoding", b!"chunked"⟩
def clHeader (l : Nat) : Header := ⟨b!"Content-Length", toDec l⟩

theorem framingHeader_chunked (len : Option Nat) : framingHeader (some .chunked) len = [teHeader] := rfl
theorem framingHeader_identity (l : Nat) : framingHeader (some .identity) (some l) = [clHeader l] := rfl

theorem clHeader_is_te (l : Nat) : (clHeader l).is b!"Transfer-Encoding" = false := by
  simp only [clHeader, Header.is]; decide
theorem clHeader_is_cl (l : Nat) : (clHeader l).is b!"Content-Length" = true := by
  simp only [clHeader, Header.is]; decide

/-- the framing header is `Transfer-Encoding: chunked`. -/
theorem decodeBody_chunked (isHead : Bool) (v : Bytes) (status : Nat) (a : List Header)
    (tail : Bytes) (ha : ∀ x ∈ a, x.is b!"Transfer-Encoding" = false) :
    decodeBody isHead v status ((a ++ [teHeader]).map clientView) tail
      = if noBodyFor isHead status then
          some (⟨v, status, (a ++ [teHeader]).map clientView, [], .none⟩, tail)
        else
          (dechunk (tail.length + 1) tail).map (fun (p, r) =>
            (⟨v, status, (a ++ [teHeader]).map clientView, p, .chunked⟩, r)) := by
  have hc : hasChunked ((a ++ [teHeader]).map clientView) = true := by
    simp only [hasChunked, findHeader_clientView, findHeader_append_of_none _ _ _ ha]
    decide
  simp only [decodeBody, hc, if_true]

/-- the framing header is `Content-Length: l`. -/
theorem decodeBody_identity (isHead : Bool) (v : Bytes) (status : Nat) (a : List Header)
    (l : Nat) (tail : Bytes)
    (hte : ∀ x ∈ a, x.is b!"Transfer-Encoding" = false)
    (hcl : ∀ x ∈ a, x.is b!"Content-Length" = false) :
    decodeBody isHead v status ((a ++ [clHeader l]).map clientView) tail
      = if noBodyFor isHead status then
          some (⟨v, status, (a ++ [clHeader l]).map clientView, [], .none⟩, tail)
        else if tail.length < l then none
        else
          some (⟨v, status, (a ++ [clHeader l]).map clientView, tail.take l, .byLength⟩,
            tail.drop l) := by
  have hc : hasChunked ((a ++ [clHeader l]).map clientView) = false := by
    simp only [hasChunked, findHeader_clientView, findHeader_append_of_none _ _ _ hte]
    simp [findHeader, clHeader_is_te]
  have hf : findHeader ((a ++ [clHeader l]).map clientView) b!"Content-Length"
      = some (clientView (clHeader l)) := by
    simp only [findHeader_clientView, findHeader_append_of_none _ _ _ hcl]
    simp [findHeader, clHeader_is_cl]
  have hv : ofDec (trimOws (clientView (clHeader l)).value) = some l := by
    simp only [clientView, clHeader, trimOws_sp _ (toDec_not_ows l),
      trimOws_id _ (toDec_not_ows l), ofDec_toDec]
  simp only [decodeBody, hc, hf, hv]
  simp

/-! ### the headers `rawPrint` emits -/

theorem lineOk_of_wf (h : Header) (hw : Spec.wfHeader h = true) : lineOk h := by
  simp only [Spec.wfHeader, Bool.and_eq_true, Bool.not_eq_true', List.contains_eq_mem,
    decide_eq_false_iff_not, List.isEmpty_eq_false_iff] at hw
  exact ⟨hw.1.1.1.1.1, hw.1.1.1.1.2, hw.1.1.1.2, hw.1.2⟩

theorem lineOk_date (date : Bytes) (hd : date.contains 10 = false) : lineOk ⟨b!"Date", date⟩ := by
  simp only [List.contains_eq_mem, decide_eq_false_iff_not] at hd
  exact ⟨by simp, by simp, by simp, hd⟩

theorem lineOk_server : lineOk ⟨b!"Server", Extracted.serverName⟩ :=
  ⟨by simp, by decide, by decide, by decide⟩

theorem lineOk_teHeader : lineOk teHeader := ⟨by simp [teHeader], by decide, by decide, by decide⟩

theorem lineOk_clHeader (l : Nat) : lineOk (clHeader l) :=
  ⟨by simp [clHeader], by simp [clHeader], by simp [clHeader], not_mem_toDec l 10 (by omega)⟩

theorem insertAuto_none_mem (hs : List Header) (date : Bytes) (x : Header)
    (hx : x ∈ insertAuto hs date none) :
    x = ⟨b!"Date", date⟩ ∨ x = ⟨b!"Server", Extracted.serverName⟩ ∨ x ∈ hs := by
  simp only [insertAuto] at hx
  split at hx <;> split at hx <;> (try simp only [List.mem_cons] at hx) <;> grind

theorem insertAuto_lineOk (hs : List Header) (date : Bytes) (hd : date.contains 10 = false)
    (hok : ∀ h ∈ hs, lineOk h) : ∀ h ∈ insertAuto hs date none, lineOk h := by
  intro h hh
  rcases insertAuto_none_mem hs date h hh with rfl | rfl | hm
  · exact lineOk_date date hd
  · exact lineOk_server
  · exact hok h hm

theorem insertAuto_not (hs : List Header) (date : Bytes) (n : Bytes)
    (hd : eqIgnoreCase b!"Date" n = false) (hsv : eqIgnoreCase b!"Server" n = false)
    (hno : ∀ h ∈ hs, h.is n = false) : ∀ h ∈ insertAuto hs date none, h.is n = false := by
  intro h hh
  rcases insertAuto_none_mem hs date h hh with rfl | rfl | hm
  · exact hd
  · exact hsv
  · exact hno h hm

/-- without upgrade the framing is either chunked or identity with the declared (else the
    actual) length. -/
theorem framing_cases (r : Resp) (c : ReqCtx) (n : Nat) (te : Option Coding) (len : Option Nat)
    (hup : c.upgrade = none) (h : framing r c n = some (te, len)) :
    te = some .chunked ∨ (te = some .identity ∧ len = some (r.dataLength.getD n)) := by
  simp only [framing, hup] at h
  split at h
  · simp at h
  · rename_i t _
    simp only [Option.isSome_none, Bool.false_eq_true, if_false, Option.some.injEq,
      Prod.mk.injEq] at h
    obtain ⟨rfl, rfl⟩ := h
    cases t <;> cases r.dataLength <;> simp

/-- the consequences of `wfResp` used below. -/
theorem wfResp_elim (r : Resp) (n : Nat) (h : Spec.wfResp r n = true) :
    (∀ x ∈ r.headers, lineOk x) ∧
    (∀ x ∈ r.headers, x.is b!"Content-Length" = false) ∧
    (∀ x ∈ r.headers, x.is b!"Transfer-Encoding" = false) ∧
    r.dataLength.getD n = n := by
  simp only [Spec.wfResp, Bool.and_eq_true, List.all_eq_true, Spec.isAutoFraming,
    Bool.not_eq_true', Bool.or_eq_false_iff] at h
  obtain ⟨⟨h1, h2⟩, h3⟩ := h
  refine ⟨fun x hx => lineOk_of_wf x (h1 x hx), fun x hx => (h2 x hx).1, fun x hx => (h2 x hx).2, ?_⟩
  cases hd : r.dataLength with
  | none => rfl
  | some l => simpa [hd] using h3

end TH
