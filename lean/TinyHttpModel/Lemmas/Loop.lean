/- helper lemmas (Loop) -/
import TinyHttpModel.WireSpec
namespace TH
end TH
