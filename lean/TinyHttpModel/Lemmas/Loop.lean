/- helper lemmas (Loop) -/
import TinyHttpModel.WireSpec
namespace TH

/-! ### `wopsFlushed` never moves the flush mark backwards -/

theorem wopsFlushed_ge (ops : List WOp) : ∀ (pos mark : Nat), mark ≤ pos → mark ≤ wopsFlushed ops pos mark := by
  induction ops with
  | nil => intro pos mark _; simp [wopsFlushed]
  | cons op r ih =>
    intro pos mark h
    cases op with
    | write b => simp only [wopsFlushed]; exact ih _ _ (by omega)
    | flush => simp only [wopsFlushed]; exact Nat.le_trans h (ih pos pos (Nat.le_refl _))

/-! ### the state only grows -/

/-- `s'` extends `s`: delivered requests, output bytes and statuses are only appended to. -/
def St.Ext (s s' : St) : Prop :=
  (∃ ds, s'.delivered = s.delivered ++ ds) ∧ (∃ o, s'.out = s.out ++ o) ∧ (∃ st, s'.statuses = s.statuses ++ st)

theorem St.Ext.refl (s : St) : St.Ext s s :=
  ⟨⟨[], by simp⟩, ⟨[], by simp⟩, ⟨[], by simp⟩⟩

theorem St.Ext.trans {a b c : St} (h1 : St.Ext a b) (h2 : St.Ext b c) : St.Ext a c := by
  obtain ⟨⟨d1, hd1⟩, ⟨o1, ho1⟩, ⟨t1, ht1⟩⟩ := h1
  obtain ⟨⟨d2, hd2⟩, ⟨o2, ho2⟩, ⟨t2, ht2⟩⟩ := h2
  exact ⟨⟨d1 ++ d2, by rw [hd2, hd1, List.append_assoc]⟩, ⟨o1 ++ o2, by rw [ho2, ho1, List.append_assoc]⟩,
    ⟨t1 ++ t2, by rw [ht2, ht1, List.append_assoc]⟩⟩

theorem St.Ext.emit (s : St) (status : Nat) (bs : Option Bytes) (fl : Bool) : St.Ext s (s.emit status bs fl) :=
  ⟨⟨[], by simp [St.emit]⟩, ⟨bs.getD [], by simp [St.emit]⟩, ⟨[status], by simp [St.emit]⟩⟩

theorem St.Ext.deliver (s : St) (d : Delivered) : St.Ext s { s with delivered := s.delivered ++ [d] } :=
  ⟨⟨[d], rfl⟩, ⟨[], by simp⟩, ⟨[], by simp⟩⟩

theorem St.Ext.write (s : St) (b : Bytes) (f : Nat) : St.Ext s { s with out := s.out ++ b, flushed := f } :=
  ⟨⟨[], by simp⟩, ⟨b, rfl⟩, ⟨[], by simp⟩⟩

/-- the state after the optional `100 Continue`. -/
def handleS1 (s : St) (h : Head) (fr : Framing) (a : Action) : St :=
  if a.asReaderCalls > 0 && fr.expectContinue then
    s.emit 100 (printResp (Resp.empty 100) [] h.version h.headers true none) true
  else s

/-- the state after the application's finish, from the state `s2` in which the request was delivered. -/
def handleS3 (s2 : St) (h : Head) (f : Finish) : St :=
  match f with
  | .respond r => s2.emit r.status (printResp r.toResp r.pieces h.version h.headers h.method.isHead none) true
  | .drop => s2.emit 500 (printResp (Resp.empty 500) [] h.version h.headers h.method.isHead none) true
  | .writer ops =>
    { s2 with out := s2.out ++ wopsBytes ops, flushed := wopsFlushed ops s2.out.length s2.flushed }
  | .upgrade proto r ops =>
    let s' := s2.emit r.status (printResp r.toResp r.pieces h.version h.headers false (some proto)) true
    { s' with out := s'.out ++ wopsBytes ops, flushed := wopsFlushed ops s'.out.length s'.flushed }
  | .respondFail r failAfter =>
    match printRespFailing r h.version h.headers h.method.isHead failAfter with
    | some (bytes, ok) => s2.emit r.status (some bytes) ok
    | none => s2.emit r.status none false

theorem handleS1_ext (s : St) (h : Head) (fr : Framing) (a : Action) : St.Ext s (handleS1 s h fr a) := by
  unfold handleS1; split
  · exact St.Ext.emit ..
  · exact St.Ext.refl _

theorem handleS3_ext (s2 : St) (h : Head) (f : Finish) : St.Ext s2 (handleS3 s2 h f) := by
  unfold handleS3; cases f with
  | respond r => exact St.Ext.emit ..
  | drop => exact St.Ext.emit ..
  | writer ops => exact St.Ext.write ..
  | upgrade proto r ops => exact St.Ext.trans (St.Ext.emit ..) (St.Ext.write ..)
  | respondFail r n =>
    show St.Ext s2 (match printRespFailing r h.version h.headers h.method.isHead n with
      | some (bytes, ok) => s2.emit r.status (some bytes) ok
      | none => s2.emit r.status none false)
    split <;> exact St.Ext.emit ..

/-- the optional empty-buffer read at the start of `handle`: the reader state and stream the rest
    of the handling sees, `none` if discarding the body blocked. -/
def handleZR (a : Action) (body : Body) (bs : Bytes) (fin : EndState) : Option (Body × Bytes) :=
  if a.asReaderCalls > 0 && a.zeroRead then zeroReadEffect body bs fin else some (body, bs)

/-- the reads proper (after the optional empty-buffer read). -/
def handleRead0 (a : Action) (body : Body) (bs : Bytes) (fin : EndState) : Bytes × Option ReadOut × Body × Bytes :=
  if a.asReaderCalls > 0 && a.readTotal > 0 then
    Body.readUpTo (a.readTotal + 1) body (max a.bufSize 1) a.readTotal bs fin
  else ([], none, body, bs)

/-- the delivered record and the read outcome computed by `handle` (empty-buffer read included). -/
def handleRead (a : Action) (body : Body) (bs : Bytes) (fin : EndState) : Bytes × Option ReadOut × Body × Bytes :=
  match handleZR a body bs fin with
  | some (b', bs') => handleRead0 a b' bs' fin
  | none => ([], some .pending, body, bs)

def readEndOf : Option ReadOut → ReadEnd
  | none => .none
  | some .eof => .eof
  | some .err => .err
  | some .pending => .pending
  | some (.data _) => .none

/-- `handle`, decomposed. -/
theorem handle_eq (s : St) (h : Head) (fr : Framing) (last : Bool) (a : Action) (body : Body) (bs : Bytes)
    (fin : EndState) :
    handle s h fr last a body bs fin =
      let rd := handleRead a body bs fin
      let s1 := handleS1 s h fr a
      let d : Delivered := ⟨h.method, h.url, h.version, h.headers, fr.bodyLength, rd.1, readEndOf rd.2.1, last⟩
      let s2 : St := { s1 with delivered := s1.delivered ++ [d] }
      if readEndOf rd.2.1 = .pending then (s2, rd.2.2.2, true)
      else
        match Body.drain (rd.2.2.2.length + 2) rd.2.2.1 rd.2.2.2 fin with
        | some bs2 => (handleS3 s2 h a.fin, bs2, false)
        | none => (handleS3 s2 h a.fin, [], true) := by
  unfold handle handleRead handleZR
  generalize (if (decide (a.asReaderCalls > 0) && a.zeroRead) = true then zeroReadEffect body bs fin
      else some (body, bs)) = zr
  rcases zr with _ | ⟨b', bs'⟩
  · rfl
  · unfold handleRead0
    simp only [Bool.false_eq_true, if_false]
    generalize (if (decide (a.asReaderCalls > 0) && decide (a.readTotal > 0)) = true then
          Body.readUpTo (a.readTotal + 1) b' (max a.bufSize 1) a.readTotal bs' fin
        else ([], none, b', bs')) = rd
    obtain ⟨got, rend, body1, bs1⟩ := rd
    rcases rend with _ | (_ | _ | _ | _)
    all_goals first | rfl | (cases a.fin <;> rfl)

/-- the state `handle` returns extends the state it started from. -/
theorem handle_ext (s : St) (h : Head) (fr : Framing) (last : Bool) (a : Action) (body : Body) (bs : Bytes)
    (fin : EndState) : St.Ext s (handle s h fr last a body bs fin).1 := by
  rw [handle_eq]
  have h2 : ∀ d, St.Ext s { handleS1 s h fr a with delivered := (handleS1 s h fr a).delivered ++ [d] } :=
    fun d => St.Ext.trans (handleS1_ext s h fr a) (St.Ext.deliver _ d)
  simp only
  split
  · exact h2 _
  · split
    · exact St.Ext.trans (h2 _) (handleS3_ext ..)
    · exact St.Ext.trans (h2 _) (handleS3_ext ..)

theorem finish_ext (s : St) (e : ConnEnd) :
    (∃ ds, (s.finish e).delivered = s.delivered ++ ds) ∧ (∃ o, (s.finish e).out = s.out ++ o) ∧
      (∃ st, (s.finish e).statuses = s.statuses ++ st) :=
  ⟨⟨[], by simp [St.finish]⟩, ⟨[], by simp [St.finish]⟩, ⟨[], by simp [St.finish]⟩⟩

/-- a trace extends a state. -/
def St.ExtT (s : St) (t : Trace) : Prop :=
  (∃ ds, t.delivered = s.delivered ++ ds) ∧ (∃ o, t.out = s.out ++ o) ∧ (∃ st, t.statuses = s.statuses ++ st)

theorem St.ExtT.finish (s : St) (e : ConnEnd) : St.ExtT s (s.finish e) := finish_ext s e

theorem St.Ext.transT {a b : St} {t : Trace} (h1 : St.Ext a b) (h2 : St.ExtT b t) : St.ExtT a t := by
  obtain ⟨⟨d1, hd1⟩, ⟨o1, ho1⟩, ⟨t1, ht1⟩⟩ := h1
  obtain ⟨⟨d2, hd2⟩, ⟨o2, ho2⟩, ⟨t2, ht2⟩⟩ := h2
  exact ⟨⟨d1 ++ d2, by rw [hd2, hd1, List.append_assoc]⟩, ⟨o1 ++ o2, by rw [ho2, ho1, List.append_assoc]⟩,
    ⟨t1 ++ t2, by rw [ht2, ht1, List.append_assoc]⟩⟩

theorem runLoop_ext (fuel : Nat) : ∀ (idx : Nat) (s : St) (bs : Bytes) (fin : EndState) (script : Script),
    St.ExtT s (runLoop fuel idx s bs fin script) := by
  induction fuel with
  | zero => intro idx s bs fin script; exact St.ExtT.finish ..
  | succ fuel ih =>
    intro idx s bs fin script
    have hf : ∀ e, St.ExtT s (s.finish e) := fun e => St.ExtT.finish s e
    have he : ∀ c b f e, St.ExtT s ((s.emit c b f).finish e) :=
      fun c b f e => St.Ext.transT (St.Ext.emit ..) (St.ExtT.finish ..)
    unfold runLoop
    simp only
    repeat' split
    all_goals first
      | exact hf _
      | exact he _ _ _ _
      | exact St.Ext.transT (St.Ext.emit ..) (ih ..)
      | exact St.Ext.transT (handle_ext ..) (St.ExtT.finish ..)
      | exact St.Ext.transT (handle_ext ..) (ih ..)

/-- one iteration of the loop on a well-framed, fully available, supported-version request. -/
theorem runLoop_step (fuel idx : Nat) (s : St) (bs : Bytes) (fin : EndState) (script : Script)
    (h : Head) (rest : Bytes) (fr : Framing)
    (hh : readHead bs fin = .ok (h, rest))
    (hf : framingOf h.headers = .ok fr)
    (hshort : ∀ n, fr.kind = .buffered n → n ≤ rest.length)
    (hver : (⟨Extracted.maxVersion.1, Extracted.maxVersion.2⟩ : Version).lt h.version = false) :
    runLoop (fuel + 1) idx s bs fin script =
      if (handle s h fr (isLastRequest h.version h.headers) (script idx) (initialBody fr.kind rest).1
            (initialBody fr.kind rest).2 fin).2.2 = true then
        (handle s h fr (isLastRequest h.version h.headers) (script idx) (initialBody fr.kind rest).1
            (initialBody fr.kind rest).2 fin).1.finish .waiting
      else if isLastRequest h.version h.headers = true then
        (handle s h fr (isLastRequest h.version h.headers) (script idx) (initialBody fr.kind rest).1
            (initialBody fr.kind rest).2 fin).1.finish .closed
      else
        runLoop fuel (idx + 1)
          (handle s h fr (isLastRequest h.version h.headers) (script idx) (initialBody fr.kind rest).1
            (initialBody fr.kind rest).2 fin).1
          (handle s h fr (isLastRequest h.version h.headers) (script idx) (initialBody fr.kind rest).1
            (initialBody fr.kind rest).2 fin).2.1 fin script := by
  have hf' : framingFor h.version h.headers = .ok fr := by
    rw [framingFor_of_not_high _ _ hver]; exact hf
  simp only [runLoop, hh, hf', hver]
  cases hk : fr.kind with
  | buffered n =>
    have := hshort n hk
    have hd : decide (rest.length < n) = false := by simp; omega
    simp only [hd]; rfl
  | _ => rfl

/-! ### statuses and flushing inside `handle` (C18) -/

theorem handleS1_statuses (s : St) (h : Head) (fr : Framing) (a : Action) :
    (handleS1 s h fr a).statuses =
      s.statuses ++ (if fr.expectContinue ∧ 0 < a.asReaderCalls then [100] else []) := by
  unfold handleS1
  by_cases h1 : 0 < a.asReaderCalls <;> cases h2 : fr.expectContinue <;> simp [h1, St.emit]

theorem handleS3_statuses (s2 : St) (h : Head) (f : Finish) :
    (handleS3 s2 h f).statuses = s2.statuses ++ Spec.finishStatus f := by
  cases f <;> simp [handleS3, Spec.finishStatus, St.emit]
  split <;> rfl

theorem handleS3_out (s2 : St) (h : Head) (f : Finish) (hfl : s2.flushed ≤ s2.out.length) :
    ∃ rest, (handleS3 s2 h f).out = s2.out ++ rest ∧ s2.flushed ≤ (handleS3 s2 h f).flushed := by
  cases f with
  | respond r => exact ⟨_, rfl, by simp [handleS3, St.emit]; omega⟩
  | drop => exact ⟨_, rfl, by simp [handleS3, St.emit]; omega⟩
  | writer ops => exact ⟨_, rfl, wopsFlushed_ge ops _ _ hfl⟩
  | upgrade proto r ops =>
    refine ⟨(printResp r.toResp r.pieces h.version h.headers false (some proto)).getD [] ++ wopsBytes ops,
      by simp [handleS3, St.emit], ?_⟩
    simp only [handleS3]
    refine Nat.le_trans ?_ (wopsFlushed_ge ops _ _ (by simp [St.emit]))
    simp [St.emit]; omega
  | respondFail r n =>
    simp only [handleS3]
    split
    · rename_i bytes ok _
      refine ⟨bytes, rfl, ?_⟩
      cases ok <;> simp [St.emit]; omega
    · exact ⟨[], by simp [St.emit], by simp [St.emit]⟩

end TH
