/- helper lemmas: oracle independence -/
import TinyHttpModel.WireOracle
namespace TH
end TH
