/- helper lemmas: oracle independence (C13).
   OracleBase: socket, line/head readers, small bodies, `advance`;
   OracleBody: streamed bodies (`readUpToO`);  OracleDrain: discard loops;
   OracleLoop: `handleO`, `runLoopO`, and the mask `Trace.maskPartial`. -/
import TinyHttpModel.WireOracle
import TinyHttpModel.Lemmas.OracleBase
import TinyHttpModel.Lemmas.OracleBody
import TinyHttpModel.Lemmas.OracleDrain
import TinyHttpModel.Lemmas.OracleLoop
namespace TH
end TH
