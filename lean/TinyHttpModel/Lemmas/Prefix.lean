/- helper lemmas: prefix delivery (C15) -/
import TinyHttpModel.Lemmas.Cut
import TinyHttpModel.Lemmas.BodyRead
import TinyHttpModel.Lemmas.Loop
import TinyHttpModel.Lemmas.LoopA
namespace TH

/-! ### size line scanners: extension and length -/

theorem takeSizeField_ext : ∀ (bs x f r : Bytes) (e : Bool),
    takeSizeField bs = some (f, e, r) → takeSizeField (bs ++ x) = some (f, e, r ++ x) := by
  intro bs
  induction bs with
  | nil => intro x f r e h; simp [takeSizeField] at h
  | cons b rest ih =>
    intro x f r e h
    simp only [List.cons_append, takeSizeField] at h ⊢
    by_cases h13 : b = 13
    · simp only [h13, if_true] at h ⊢
      simp only [Option.some.injEq, Prod.mk.injEq] at h
      obtain ⟨rfl, rfl, rfl⟩ := h; rfl
    · simp only [h13, if_false] at h ⊢
      by_cases h59 : b = 59
      · simp only [h59, if_true] at h ⊢
        simp only [Option.some.injEq, Prod.mk.injEq] at h
        obtain ⟨rfl, rfl, rfl⟩ := h; rfl
      · simp only [h59, if_false] at h ⊢
        cases hrec : takeSizeField rest with
        | none => simp [hrec] at h
        | some p =>
          obtain ⟨f', e', r'⟩ := p
          rw [hrec] at h
          simp only [Option.some.injEq, Prod.mk.injEq] at h
          obtain ⟨rfl, rfl, rfl⟩ := h
          rw [ih x f' r' e' hrec]

theorem takeSizeField_len : ∀ (bs f r : Bytes) (e : Bool),
    takeSizeField bs = some (f, e, r) → r.length < bs.length := by
  intro bs
  induction bs with
  | nil => intro f r e h; simp [takeSizeField] at h
  | cons b rest ih =>
    intro f r e h
    simp only [takeSizeField] at h
    by_cases h13 : b = 13
    · simp only [h13, if_true, Option.some.injEq, Prod.mk.injEq] at h
      obtain ⟨_, _, rfl⟩ := h; simp
    · simp only [h13, if_false] at h
      by_cases h59 : b = 59
      · simp only [h59, if_true, Option.some.injEq, Prod.mk.injEq] at h
        obtain ⟨_, _, rfl⟩ := h; simp
      · simp only [h59, if_false] at h
        cases hrec : takeSizeField rest with
        | none => simp [hrec] at h
        | some p =>
          obtain ⟨f', e', r'⟩ := p
          rw [hrec] at h
          simp only [Option.some.injEq, Prod.mk.injEq] at h
          obtain ⟨_, _, rfl⟩ := h
          have := ih f' r' e' hrec
          simp; omega

theorem skipToCR_ext : ∀ (bs x r : Bytes), skipToCR bs = some r → skipToCR (bs ++ x) = some (r ++ x) := by
  intro bs
  induction bs with
  | nil => intro x r h; simp [skipToCR] at h
  | cons b rest ih =>
    intro x r h
    simp only [List.cons_append, skipToCR] at h ⊢
    by_cases h13 : b = 13
    · simp only [h13, if_true, Option.some.injEq] at h ⊢
      rw [h]
    · simp only [h13, if_false] at h ⊢
      exact ih x r h

theorem skipToCR_len : ∀ (bs r : Bytes), skipToCR bs = some r → r.length < bs.length := by
  intro bs
  induction bs with
  | nil => intro r h; simp [skipToCR] at h
  | cons b rest ih =>
    intro r h
    simp only [skipToCR] at h
    by_cases h13 : b = 13
    · simp only [h13, if_true, Option.some.injEq] at h
      subst h; simp
    · simp only [h13, if_false] at h
      have := ih r h
      simp; omega

/-- the size-line reader on a stream that ended, against the same stream continued by `x`:
    the same result with the continuation appended to the remainder, or the reader ran out of
    bytes (`.bad []`). -/
theorem readChunkSize_eof_cases (bs x : Bytes) :
    (∃ n r, readChunkSize bs .eof = .ok n r ∧ readChunkSize (bs ++ x) .eof = .ok n (r ++ x) ∧ r.length < bs.length) ∨
    (∃ r, readChunkSize bs .eof = .bad r ∧ readChunkSize (bs ++ x) .eof = .bad (r ++ x) ∧ r.length < bs.length) ∨
    readChunkSize bs .eof = .bad [] := by
  have hb : (EndState.eof == EndState.open) = false := rfl
  cases hts : takeSizeField bs with
  | none => right; right; simp [readChunkSize, hts]
  | some p =>
    obtain ⟨f, ext, r1⟩ := p
    have hts' := takeSizeField_ext bs x f r1 ext hts
    have hl1 := takeSizeField_len bs f r1 ext hts
    -- the position after the CR
    have key : ∀ (r2 : Bytes), r2.length < bs.length →
        (if ext then skipToCR r1 else some r1) = some r2 →
        (if ext then skipToCR (r1 ++ x) else some (r1 ++ x)) = some (r2 ++ x) →
        ((∃ n r, readChunkSize bs .eof = .ok n r ∧ readChunkSize (bs ++ x) .eof = .ok n (r ++ x) ∧ r.length < bs.length) ∨
        (∃ r, readChunkSize bs .eof = .bad r ∧ readChunkSize (bs ++ x) .eof = .bad (r ++ x) ∧ r.length < bs.length) ∨
        readChunkSize bs .eof = .bad []) := by
      intro r2 hl2 h1 h2
      cases r2 with
      | nil => right; right; simp only [readChunkSize, hts, h1, hb]; rfl
      | cons b r3 =>
        have hl3 : r3.length < bs.length := by simp at hl2; omega
        by_cases hb10 : b = 10
        · subst hb10
          cases hn : (if isUtf8Ascii f then usizeFromHex (trim f) else none) with
          | none =>
            right; left
            refine ⟨r3, ?_, ?_, hl3⟩
            · simp only [readChunkSize, hts, h1, hn]; rfl
            · simp only [readChunkSize, hts', h2, List.cons_append, hn]; rfl
          | some n =>
            left
            refine ⟨n, r3, ?_, ?_, hl3⟩
            · simp only [readChunkSize, hts, h1, hn]; rfl
            · simp only [readChunkSize, hts', h2, List.cons_append, hn]; rfl
        · right; left
          have hne : (b != 10) = true := by simp [hb10]
          refine ⟨r3, ?_, ?_, hl3⟩
          · simp only [readChunkSize, hts, h1, hne]; rfl
          · simp only [readChunkSize, hts', h2, List.cons_append, hne]; rfl
    cases ext with
    | false => exact key r1 hl1 (by simp) (by simp)
    | true =>
      cases hsk : skipToCR r1 with
      | none => right; right; simp only [readChunkSize, hts, hsk, hb]; rfl
      | some r2 =>
        have := skipToCR_len r1 r2 hsk
        exact key r2 (by omega) (by simp [hsk]) (by simp [skipToCR_ext r1 x r2 hsk])

/-! ### `expectCRLF` -/

theorem expectCRLF_eof_cases (r x : Bytes) :
    (∃ r', expectCRLF r .eof = some (.ok r') ∧ expectCRLF (r ++ x) .eof = some (.ok (r' ++ x)) ∧ r'.length < r.length) ∨
    (expectCRLF r .eof = none ∧ r.length ≤ 1) ∨
    (expectCRLF r .eof = none ∧ expectCRLF (r ++ x) .eof = none) := by
  match r with
  | [] => right; left; exact ⟨rfl, by simp⟩
  | [a] =>
    right; left
    refine ⟨?_, by simp⟩
    by_cases h : a = 13
    · subst h; rfl
    · unfold expectCRLF; split <;> simp_all
  | a :: b :: r' =>
    by_cases h : a = 13 ∧ b = 10
    · obtain ⟨rfl, rfl⟩ := h
      left; exact ⟨r', rfl, rfl, by simp; omega⟩
    · right; right
      constructor
      · unfold expectCRLF; split <;> simp_all
      · simp only [List.cons_append]
        unfold expectCRLF; split <;> simp_all

/-! ### one `read` on a chunked body, inside a chunk -/

theorem read_chunked_some_ne (c want : Nat) (r : Bytes) (fin : EndState) (hr : r ≠ []) :
    Body.read (.chunked (some c)) want r fin =
      if want < c then
        (.data (r.take (min want r.length)), .chunked (some (c - min want r.length)), r.drop (min want r.length))
      else if min c r.length = c then
        match expectCRLF (r.drop (min c r.length)) fin with
        | some (.ok r'') => (.data (r.take (min c r.length)), .chunked none, r'')
        | some (.error _) => (.pending, .chunked (some 0), r.drop (min c r.length))
        | none => (.err, .failed, r.drop (min c r.length))
      else (.data (r.take (min c r.length)), .chunked (some (c - min c r.length)), r.drop (min c r.length)) := by
  cases r with
  | nil => contradiction
  | cons a as => rfl

/-- the simulation statement for one stream-touching step returning a triple. -/
def Sim3 {α β : Type} (x : Bytes) (p1 p2 : α × β × Bytes) : Prop :=
  p2 = (p1.1, p1.2.1, p1.2.2 ++ x) ∨ p1.2.2.length ≤ 1

theorem read_chunked_some_sim (c want : Nat) (r x : Bytes) :
    Sim3 x (Body.read (.chunked (some c)) want r .eof) (Body.read (.chunked (some c)) want (r ++ x) .eof) := by
  by_cases hr : r = []
  · subst hr; right; simp [Body.read, EndState.stop]
  · have hrx : r ++ x ≠ [] := by simp [hr]
    rw [read_chunked_some_ne c want r .eof hr, read_chunked_some_ne c want (r ++ x) .eof hrx]
    by_cases hw : want < c
    · simp only [hw, if_true]
      by_cases hl : want ≤ r.length
      · left
        have h1 : min want r.length = want := by omega
        have h2 : min want (r ++ x).length = want := by simp; omega
        rw [h1, h2, List.take_append_of_le_length hl, List.drop_append_of_le_length hl]
      · right; simp; omega
    · simp only [hw, if_false]
      by_cases hl : c ≤ r.length
      · have h1 : min c r.length = c := by omega
        have h2 : min c (r ++ x).length = c := by simp; omega
        rw [h1, h2, List.take_append_of_le_length hl, List.drop_append_of_le_length hl]
        simp only [if_true]
        rcases expectCRLF_eof_cases (r.drop c) x with ⟨r', e1, e2, _⟩ | ⟨e1, hs⟩ | ⟨e1, e2⟩
        · left; rw [e1, e2]
        · right; rw [e1]; exact hs
        · left; rw [e1, e2]
      · right
        have h1 : min c r.length = r.length := by omega
        have h3 : ¬ (r.length = c) := by omega
        rw [h1]; simp only [h3, if_false]; simp

/-- a read inside a chunk never lengthens the stream, and a read that returns data shortens it. -/
theorem read_chunked_some_len (c want : Nat) (r : Bytes) :
    (Body.read (.chunked (some c)) want r .eof).2.2.length ≤ r.length ∧
    (1 ≤ want → ∀ d, (Body.read (.chunked (some c)) want r .eof).1 = .data d →
      (Body.read (.chunked (some c)) want r .eof).2.2.length < r.length) := by
  by_cases hr : r = []
  · subst hr; simp [Body.read, EndState.stop]
  · have hpos : 0 < r.length := List.length_pos_iff.mpr hr
    rw [read_chunked_some_ne c want r .eof hr]
    by_cases hw : want < c
    · simp only [hw, if_true, List.length_drop]
      exact ⟨by omega, fun h1 _ _ => by omega⟩
    · simp only [hw, if_false]
      by_cases hl : c ≤ r.length
      · have h1 : min c r.length = c := by omega
        rw [h1]; simp only [if_true]
        rcases expectCRLF_eof_cases (r.drop c) [] with ⟨r', e1, _, hlt⟩ | ⟨e1, _⟩ | ⟨e1, _⟩
        · rw [e1]; simp only [List.length_drop] at hlt ⊢
          exact ⟨by omega, fun _ _ _ => by omega⟩
        · rw [e1]; simp
        · rw [e1]; simp
      · have h1 : min c r.length = r.length := by omega
        have h3 : ¬ (r.length = c) := by omega
        rw [h1]; simp only [h3, if_false]; simp
        exact fun _ => hpos

/-! ### one `read` on a chunked body, at a size line -/

theorem read_chunked_none_bad (want : Nat) (bs r : Bytes) (fin : EndState) (h : readChunkSize bs fin = .bad r) :
    Body.read (.chunked none) want bs fin = (.err, .failed, r) := by
  unfold Body.read; simp only [h]

theorem read_chunked_none_zero (want : Nat) (bs r : Bytes) (fin : EndState) (h : readChunkSize bs fin = .ok 0 r) :
    Body.read (.chunked none) want bs fin =
      match expectCRLF r fin with
      | some (.ok r') => (.eof, .done, r')
      | some (.error _) => (.pending, .chunked none, bs)
      | none => (.err, .failed, r) := by
  unfold Body.read; simp only [h]
  cases expectCRLF r fin with
  | none => rfl
  | some q => cases q <;> rfl

theorem read_chunked_none_sim (want : Nat) (r x : Bytes) :
    Sim3 x (Body.read (.chunked none) want r .eof) (Body.read (.chunked none) want (r ++ x) .eof) := by
  rcases readChunkSize_eof_cases r x with ⟨n, r', h1, h2, _⟩ | ⟨r', h1, h2, _⟩ | h1
  · by_cases hn : n = 0
    · subst hn
      rw [read_chunked_none_zero want r r' .eof h1, read_chunked_none_zero want (r ++ x) (r' ++ x) .eof h2]
      rcases expectCRLF_eof_cases r' x with ⟨r'', e1, e2, _⟩ | ⟨e1, hs⟩ | ⟨e1, e2⟩
      · left; rw [e1, e2]
      · right; rw [e1]; exact hs
      · left; rw [e1, e2]
    · rw [read_chunked_none_ok want r r' n .eof h1 hn, read_chunked_none_ok want (r ++ x) (r' ++ x) n .eof h2 hn]
      exact read_chunked_some_sim n want r' x
  · left; rw [read_chunked_none_bad want r r' .eof h1, read_chunked_none_bad want (r ++ x) (r' ++ x) .eof h2]
  · right; rw [read_chunked_none_bad want r [] .eof h1]; simp

theorem read_chunked_none_len (want : Nat) (r : Bytes) :
    (Body.read (.chunked none) want r .eof).2.2.length ≤ r.length ∧
    (1 ≤ want → ∀ d, (Body.read (.chunked none) want r .eof).1 = .data d →
      (Body.read (.chunked none) want r .eof).2.2.length < r.length) := by
  rcases readChunkSize_eof_cases r [] with ⟨n, r', h1, _, hl⟩ | ⟨r', h1, _, hl⟩ | h1
  · by_cases hn : n = 0
    · subst hn
      rw [read_chunked_none_zero want r r' .eof h1]
      rcases expectCRLF_eof_cases r' [] with ⟨r'', e1, _, hlt⟩ | ⟨e1, _⟩ | ⟨e1, _⟩
      · rw [e1]; simp; omega
      · rw [e1]; simp; omega
      · rw [e1]; simp; omega
    · rw [read_chunked_none_ok want r r' n .eof h1 hn]
      have := read_chunked_some_len n want r'
      exact ⟨by omega, fun hw d hd => by have := this.2 hw d hd; omega⟩
  · rw [read_chunked_none_bad want r r' .eof h1]; simp; omega
  · rw [read_chunked_none_bad want r [] .eof h1]; simp

/-! ### one `read` on any body -/

theorem Body.read_sim (b : Body) (want : Nat) (r x : Bytes) :
    Sim3 x (b.read want r .eof) (b.read want (r ++ x) .eof) := by
  cases b with
  | done => left; rfl
  | failed => left; rfl
  | cursor d => left; simp only [Body.read]; split <;> rfl
  | raw =>
    by_cases hr : r = []
    · subst hr; right; simp [Body.read, EndState.stop]
    · have hrx : r ++ x ≠ [] := by simp [hr]
      have e1 : ∀ (l : Bytes), l ≠ [] → Body.read .raw want l .eof = (.data (l.take want), .raw, l.drop want) := by
        intro l hl; cases l with
        | nil => contradiction
        | cons a as => rfl
      rw [e1 r hr, e1 _ hrx]
      by_cases hl : want ≤ r.length
      · left; rw [List.take_append_of_le_length hl, List.drop_append_of_le_length hl]
      · right; simp; omega
  | limited rem =>
    by_cases h0 : rem = 0
    · left; simp [Body.read, h0]
    · by_cases hr : r = []
      · subst hr; right; simp [Body.read, h0, EndState.stop]
      · have hrx : r ++ x ≠ [] := by simp [hr]
        have e1 : ∀ (l : Bytes), l ≠ [] → Body.read (.limited rem) want l .eof =
            (.data (l.take (min (min want rem) l.length)), .limited (rem - min (min want rem) l.length),
              l.drop (min (min want rem) l.length)) := by
          intro l hl; cases l with
          | nil => contradiction
          | cons a as => simp only [Body.read, h0, if_false]
        rw [e1 r hr, e1 _ hrx]
        by_cases hl : min want rem ≤ r.length
        · left
          have h1 : min (min want rem) r.length = min want rem := by omega
          have h2 : min (min want rem) (r ++ x).length = min want rem := by simp; omega
          rw [h1, h2, List.take_append_of_le_length hl, List.drop_append_of_le_length hl]
        · right; simp; omega
  | chunked ic =>
    cases ic with
    | none => exact read_chunked_none_sim want r x
    | some c => exact read_chunked_some_sim c want r x

theorem Body.read_len (b : Body) (want : Nat) (r : Bytes) : (b.read want r .eof).2.2.length ≤ r.length := by
  cases b with
  | done => simp [Body.read]
  | failed => simp [Body.read]
  | cursor d => simp only [Body.read]; split <;> simp
  | raw => simp only [Body.read]; split <;> simp [EndState.stop]
  | limited rem =>
    simp only [Body.read]; split
    · simp
    · split <;> simp [EndState.stop]
  | chunked ic =>
    cases ic with
    | none => exact (read_chunked_none_len want r).1
    | some c => exact (read_chunked_some_len c want r).1

theorem Body.read_chunked_data_lt (ic : Option Nat) (want : Nat) (r : Bytes) (hw : 1 ≤ want) (d : Bytes)
    (h : (Body.read (.chunked ic) want r .eof).1 = .data d) :
    (Body.read (.chunked ic) want r .eof).2.2.length < r.length := by
  cases ic with
  | none => exact (read_chunked_none_len want r).2 hw d h
  | some c => exact (read_chunked_some_len c want r).2 hw d h

/-! ### `readUpTo` -/

theorem Body.readUpTo_succ (fuel : Nat) (b : Body) (buf total : Nat) (bs : Bytes) (fin : EndState) :
    Body.readUpTo (fuel + 1) b buf total bs fin =
      if total = 0 then ([], none, b, bs)
      else match (b.read (min buf total) bs fin).1 with
        | .data d =>
          if d.isEmpty then ([], none, (b.read (min buf total) bs fin).2.1, (b.read (min buf total) bs fin).2.2)
          else
            (d ++ (Body.readUpTo fuel (b.read (min buf total) bs fin).2.1 buf (total - d.length)
                (b.read (min buf total) bs fin).2.2 fin).1,
             (Body.readUpTo fuel (b.read (min buf total) bs fin).2.1 buf (total - d.length)
                (b.read (min buf total) bs fin).2.2 fin).2)
        | o => ([], some o, (b.read (min buf total) bs fin).2.1, (b.read (min buf total) bs fin).2.2) := by
  rw [Body.readUpTo]
  generalize b.read (min buf total) bs fin = R
  obtain ⟨o, b', bs'⟩ := R
  cases o <;> rfl

theorem Body.readUpTo_len : ∀ (fuel : Nat) (b : Body) (buf total : Nat) (bs : Bytes),
    (Body.readUpTo fuel b buf total bs .eof).2.2.2.length ≤ bs.length := by
  intro fuel
  induction fuel with
  | zero => intro b buf total bs; simp [Body.readUpTo]
  | succ fuel ih =>
    intro b buf total bs
    rw [Body.readUpTo_succ]
    have hl := Body.read_len b (min buf total) bs
    split
    · simp
    · split
      · split
        · exact hl
        · exact Nat.le_trans (ih ..) hl
      · exact hl

/-- the simulation statement for a step returning a 4-tuple. -/
def Sim4 {α β γ : Type} (x : Bytes) (p1 p2 : α × β × γ × Bytes) : Prop :=
  p2 = (p1.1, p1.2.1, p1.2.2.1, p1.2.2.2 ++ x) ∨ p1.2.2.2.length ≤ 1

theorem Body.readUpTo_sim : ∀ (fuel : Nat) (b : Body) (buf total : Nat) (r x : Bytes),
    Sim4 x (Body.readUpTo fuel b buf total r .eof) (Body.readUpTo fuel b buf total (r ++ x) .eof) := by
  intro fuel
  induction fuel with
  | zero => intro b buf total r x; left; rfl
  | succ fuel ih =>
    intro b buf total r x
    rw [Body.readUpTo_succ, Body.readUpTo_succ]
    by_cases ht : total = 0
    · left; simp [ht]
    · simp only [ht, if_false]
      rcases Body.read_sim b (min buf total) r x with hs | hs
      · rw [hs]
        generalize b.read (min buf total) r .eof = R
        obtain ⟨o, b', r'⟩ := R
        cases o with
        | data d =>
          simp only
          by_cases hd : d.isEmpty
          · left; simp [hd]
          · simp only [hd]
            rcases ih b' buf (total - d.length) r' x with h | h
            · left; rw [h]; rfl
            · right; exact h
        | eof => left; rfl
        | err => left; rfl
        | pending => left; rfl
      · right
        have hl := Body.readUpTo_len fuel (b.read (min buf total) r .eof).2.1 buf
        split
        · split
          · exact hs
          · exact Nat.le_trans (hl ..) hs
        · exact hs

/-! ### `drain` -/

theorem Body.drain_chunked_succ (fuel : Nat) (ic : Option Nat) (bs : Bytes) (fin : EndState) :
    Body.drain (fuel + 1) (.chunked ic) bs fin =
      match (Body.read (.chunked ic) 4096 bs fin).1 with
      | .data _ => Body.drain fuel (Body.read (.chunked ic) 4096 bs fin).2.1 (Body.read (.chunked ic) 4096 bs fin).2.2 fin
      | .pending => none
      | _ => some (Body.read (.chunked ic) 4096 bs fin).2.2 := by
  rw [Body.drain]
  generalize Body.read (.chunked ic) 4096 bs fin = R
  obtain ⟨o, b', bs'⟩ := R
  cases o <;> rfl

theorem Body.drain_len : ∀ (fuel : Nat) (b : Body) (bs r : Bytes),
    Body.drain fuel b bs .eof = some r → r.length ≤ bs.length := by
  intro fuel
  induction fuel with
  | zero => intro b bs r h; simp [Body.drain] at h; subst h; exact Nat.le_refl _
  | succ fuel ih =>
    intro b bs r h
    cases b with
    | done => simp [Body.drain] at h; subst h; exact Nat.le_refl _
    | failed => simp [Body.drain] at h; subst h; exact Nat.le_refl _
    | cursor d => simp [Body.drain] at h; subst h; exact Nat.le_refl _
    | raw => simp [Body.drain] at h; subst h; exact Nat.le_refl _
    | limited rem =>
      simp only [Body.drain] at h
      split at h
      · simp at h; subst h; simp
      · simp at h; subst h; simp
    | chunked ic =>
      rw [Body.drain_chunked_succ] at h
      have hl := Body.read_len (.chunked ic) 4096 bs
      split at h
      · exact Nat.le_trans (ih _ _ _ h) hl
      · simp at h
      · simp at h; subst h; exact hl

theorem Body.drain_sim : ∀ (f1 f2 : Nat) (b : Body) (r1 x r1' r2' : Bytes),
    r1.length < f1 → (r1 ++ x).length < f2 →
    Body.drain f1 b r1 .eof = some r1' → Body.drain f2 b (r1 ++ x) .eof = some r2' →
    r2' = r1' ++ x ∨ r1'.length ≤ 1 := by
  intro f1
  induction f1 with
  | zero => intro f2 b r1 x r1' r2' h1; omega
  | succ f1 ih =>
    intro f2 b r1 x r1' r2' h1 h2 e1 e2
    cases f2 with
    | zero => omega
    | succ f2 =>
      cases b with
      | done => simp [Body.drain] at e1 e2; subst e1 e2; left; rfl
      | failed => simp [Body.drain] at e1 e2; subst e1 e2; left; rfl
      | cursor d => simp [Body.drain] at e1 e2; subst e1 e2; left; rfl
      | raw => simp [Body.drain] at e1 e2; subst e1 e2; left; rfl
      | limited rem =>
        simp only [Body.drain] at e1 e2
        by_cases hl : rem ≤ r1.length
        · have hl2 : rem ≤ (r1 ++ x).length := by simp; omega
          simp only [hl, hl2, if_true, Option.some.injEq] at e1 e2
          subst e1 e2; left; exact List.drop_append_of_le_length hl
        · simp [hl] at e1; subst e1; right; simp
      | chunked ic =>
        rw [Body.drain_chunked_succ] at e1 e2
        have hlen := Body.read_len (.chunked ic) 4096 r1
        have hlt := Body.read_chunked_data_lt ic 4096 r1 (by omega)
        have hlt2 := Body.read_chunked_data_lt ic 4096 (r1 ++ x) (by omega)
        rcases Body.read_sim (.chunked ic) 4096 r1 x with hs | hs
        · rw [hs] at e2 hlt2
          generalize Body.read (.chunked ic) 4096 r1 .eof = R at *
          obtain ⟨o, b', r'⟩ := R
          cases o with
          | data d =>
            simp only at e1 e2 hlt hlt2
            have := hlt d rfl
            have := hlt2 d rfl
            exact ih f2 b' r' x r1' r2' (by omega) (by omega) e1 e2
          | eof => simp at e1 e2; subst e1 e2; left; rfl
          | err => simp at e1 e2; subst e1 e2; left; rfl
          | pending => simp at e1
        · right
          split at e1
          · exact Nat.le_trans (Body.drain_len _ _ _ _ e1) hs
          · simp at e1
          · simp at e1; subst e1; exact hs

/-! ### the empty-buffer read -/

theorem zeroReadEffect_len (b b' : Body) (bs r : Bytes) (h : zeroReadEffect b bs .eof = some (b', r)) :
    r.length ≤ bs.length := by
  have key : ∀ b0, (match Body.drain (bs.length + 2) b0 bs .eof with
      | some bs' => some (Body.done, bs')
      | none => none) = some (b', r) → r.length ≤ bs.length := by
    intro b0 h
    split at h
    · rename_i bs' hd
      simp at h; obtain ⟨_, rfl⟩ := h
      exact Body.drain_len _ _ _ _ hd
    · simp at h
  cases b with
  | limited n => exact key _ h
  | chunked ic => exact key _ h
  | done => simp [zeroReadEffect] at h; obtain ⟨_, rfl⟩ := h; exact Nat.le_refl _
  | failed => simp [zeroReadEffect] at h; obtain ⟨_, rfl⟩ := h; exact Nat.le_refl _
  | cursor d => simp [zeroReadEffect] at h; obtain ⟨_, rfl⟩ := h; exact Nat.le_refl _
  | raw => simp [zeroReadEffect] at h; obtain ⟨_, rfl⟩ := h; exact Nat.le_refl _

theorem zeroReadEffect_sim (b b1 b2 : Body) (r1 x r1' r2' : Bytes)
    (e1 : zeroReadEffect b r1 .eof = some (b1, r1')) (e2 : zeroReadEffect b (r1 ++ x) .eof = some (b2, r2')) :
    (b2 = b1 ∧ r2' = r1' ++ x) ∨ r1'.length ≤ 1 := by
  have key : ∀ b0, (match Body.drain (r1.length + 2) b0 r1 .eof with
      | some bs' => some (Body.done, bs')
      | none => none) = some (b1, r1') →
      (match Body.drain ((r1 ++ x).length + 2) b0 (r1 ++ x) .eof with
      | some bs' => some (Body.done, bs')
      | none => none) = some (b2, r2') → (b2 = b1 ∧ r2' = r1' ++ x) ∨ r1'.length ≤ 1 := by
    intro b0 e1 e2
    split at e1
    · rename_i q1 hd1
      split at e2
      · rename_i q2 hd2
        simp at e1 e2
        obtain ⟨rfl, rfl⟩ := e1
        obtain ⟨rfl, rfl⟩ := e2
        rcases Body.drain_sim _ _ b0 r1 x _ _ (by omega) (by omega) hd1 hd2 with h | h
        · left; exact ⟨rfl, h⟩
        · right; exact h
      · simp at e2
    · simp at e1
  cases b with
  | limited n => exact key _ e1 e2
  | chunked ic => exact key _ e1 e2
  | done => simp [zeroReadEffect] at e1 e2; obtain ⟨rfl, rfl⟩ := e1; obtain ⟨rfl, rfl⟩ := e2; left; exact ⟨rfl, rfl⟩
  | failed => simp [zeroReadEffect] at e1 e2; obtain ⟨rfl, rfl⟩ := e1; obtain ⟨rfl, rfl⟩ := e2; left; exact ⟨rfl, rfl⟩
  | cursor d => simp [zeroReadEffect] at e1 e2; obtain ⟨rfl, rfl⟩ := e1; obtain ⟨rfl, rfl⟩ := e2; left; exact ⟨rfl, rfl⟩
  | raw => simp [zeroReadEffect] at e1 e2; obtain ⟨rfl, rfl⟩ := e1; obtain ⟨rfl, rfl⟩ := e2; left; exact ⟨rfl, rfl⟩

/-! ### `handle` -/

theorem handleRead0_len (a : Action) (b : Body) (bs : Bytes) : (handleRead0 a b bs .eof).2.2.2.length ≤ bs.length := by
  unfold handleRead0
  split
  · exact Body.readUpTo_len ..
  · exact Nat.le_refl _

theorem handleRead0_sim (a : Action) (b : Body) (r x : Bytes) :
    Sim4 x (handleRead0 a b r .eof) (handleRead0 a b (r ++ x) .eof) := by
  unfold handleRead0
  split
  · exact Body.readUpTo_sim ..
  · left; rfl

theorem handleRead_sim (a : Action) (body : Body) (r x : Bytes) :
    Sim4 x (handleRead a body r .eof) (handleRead a body (r ++ x) .eof) := by
  have hn1 := handleZR_not_none a body r .eof (by decide)
  have hn2 := handleZR_not_none a body (r ++ x) .eof (by decide)
  unfold handleRead
  cases hz1 : handleZR a body r .eof with
  | none => exact absurd hz1 hn1
  | some p1 =>
    cases hz2 : handleZR a body (r ++ x) .eof with
    | none => exact absurd hz2 hn2
    | some p2 =>
      obtain ⟨b1, r1'⟩ := p1
      obtain ⟨b2, r2'⟩ := p2
      simp only
      unfold handleZR at hz1 hz2
      by_cases hc : (decide (a.asReaderCalls > 0) && a.zeroRead) = true
      · simp only [hc, if_true] at hz1 hz2
        rcases zeroReadEffect_sim body b1 b2 r x r1' r2' hz1 hz2 with ⟨rfl, rfl⟩ | hs
        · exact handleRead0_sim a b2 r1' x
        · right; exact Nat.le_trans (handleRead0_len a b1 r1') hs
      · simp only [hc] at hz1 hz2
        simp at hz1 hz2
        obtain ⟨rfl, rfl⟩ := hz1
        obtain ⟨rfl, rfl⟩ := hz2
        exact handleRead0_sim a body r x

theorem handleRead_not_pending (a : Action) (body : Body) (bs : Bytes) :
    readEndOf (handleRead a body bs .eof).2.1 ≠ .pending := by
  have hrd : (handleRead a body bs .eof).2.1 ≠ some .pending := by
    unfold handleRead
    split
    · unfold handleRead0
      split
      · exact Body.readUpTo_not_pending _ _ _ _ _ _ (by decide)
      · simp
    · rename_i hn; exact absurd hn (handleZR_not_none a body bs .eof (by decide))
  generalize (handleRead a body bs .eof).2.1 = o at hrd
  rcases o with _ | (_ | _ | _ | _) <;> simp_all [readEndOf]

/-- the stream after `handle`, on a stream that ended. -/
theorem handle_rem (s : St) (h : Head) (fr : Framing) (last : Bool) (a : Action) (body : Body) (bs : Bytes) :
    Body.drain ((handleRead a body bs .eof).2.2.2.length + 2) (handleRead a body bs .eof).2.2.1
      (handleRead a body bs .eof).2.2.2 .eof = some (handle s h fr last a body bs .eof).2.1 := by
  rw [handle_eq]
  simp only [if_neg (handleRead_not_pending a body bs)]
  have hd := Body.drain_not_none ((handleRead a body bs .eof).2.2.2.length + 2) (handleRead a body bs .eof).2.2.1
    (handleRead a body bs .eof).2.2.2 .eof (by decide)
  split
  · rename_i q hq; rw [hq]
  · rename_i hn; exact absurd hn hd

/-- `handle` on a stream that ended against `handle` on the same stream continued by `x`: the
    remainders differ by `x`, or the truncated one ran into the end (at most one byte is left). -/
theorem handle_rem_sim (s1 s2 : St) (h : Head) (fr : Framing) (last : Bool) (a : Action) (body : Body) (r x : Bytes) :
    (handle s2 h fr last a body (r ++ x) .eof).2.1 = (handle s1 h fr last a body r .eof).2.1 ++ x ∨
      (handle s1 h fr last a body r .eof).2.1.length ≤ 1 := by
  have e1 := handle_rem s1 h fr last a body r
  have e2 := handle_rem s2 h fr last a body (r ++ x)
  rcases handleRead_sim a body r x with hs | hs
  · rw [hs] at e2
    simp only at e2
    exact Body.drain_sim _ _ _ _ _ _ _ (by omega) (by omega) e1 e2
  · right
    exact Nat.le_trans (Body.drain_len _ _ _ _ e1) hs

/-- what the application learns about a delivered request's head. -/
def Delivered.headKey (d : Delivered) : Method × Bytes × Version × List Header × Option Nat :=
  (d.method, d.url, d.version, d.headers, d.bodyLength)

theorem handle_key (s1 s2 : St) (h : Head) (fr : Framing) (last : Bool) (a : Action) (b1 b2 : Body)
    (r1 r2 : Bytes) (f1 f2 : EndState)
    (hs : s1.delivered.map Delivered.headKey = s2.delivered.map Delivered.headKey) :
    (handle s1 h fr last a b1 r1 f1).1.delivered.map Delivered.headKey =
      (handle s2 h fr last a b2 r2 f2).1.delivered.map Delivered.headKey := by
  obtain ⟨_, d1, _, hd1, m1, u1, v1, hh1, l1⟩ := handle_spec s1 h fr last a b1 r1 f1
  obtain ⟨_, d2, _, hd2, m2, u2, v2, hh2, l2⟩ := handle_spec s2 h fr last a b2 r2 f2
  rw [hd1, hd2, List.map_append, List.map_append, hs]
  simp only [List.map_cons, List.map_nil, Delivered.headKey, m1, u1, v1, hh1, l1, m2, u2, v2, hh2, l2]

/-! ### the loop -/

theorem runLoop_head_error (fuel idx : Nat) (s : St) (bs : Bytes) (fin : EndState) (script : Script) (e : HeadErr)
    (h : readHead bs fin = .error e) : (runLoop fuel idx s bs fin script).delivered = s.delivered := by
  cases fuel with
  | zero => rfl
  | succ fuel =>
    simp only [runLoop, h]
    cases e with
    | wrongRequestLine => rfl
    | wrongHeader v => rfl
    | notAscii => rfl
    | stop st => cases st <;> rfl

/-- at most one byte left: no head can be read. -/
theorem runLoop_short (fuel idx : Nat) (s : St) (bs : Bytes) (fin : EndState) (script : Script)
    (h : bs.length ≤ 1) : (runLoop fuel idx s bs fin script).delivered = s.delivered := by
  cases hr : readHead bs fin with
  | error e => exact runLoop_head_error fuel idx s bs fin script e hr
  | ok p =>
    obtain ⟨hd, rest⟩ := p
    obtain ⟨pre, hpre⟩ := readHead_ok_split bs fin hd rest hr
    rw [hpre] at h; simp at h; omega

theorem runLoop_framing_error (fuel idx : Nat) (s : St) (bs : Bytes) (fin : EndState) (script : Script)
    (h : Head) (rest : Bytes) (e : CreateErr)
    (hh : readHead bs fin = .ok (h, rest)) (hf : framingFor h.version h.headers = .error e) :
    (runLoop fuel idx s bs fin script).delivered = s.delivered := by
  cases fuel with
  | zero => rfl
  | succ fuel =>
    simp only [runLoop, hh, hf]
    cases e <;> rfl

theorem runLoop_short_body (fuel idx : Nat) (s : St) (bs : Bytes) (fin : EndState) (script : Script)
    (h : Head) (rest : Bytes) (fr : Framing) (n : Nat)
    (hh : readHead bs fin = .ok (h, rest)) (hf : framingFor h.version h.headers = .ok fr)
    (hk : fr.kind = .buffered n) (hs : rest.length < n) :
    (runLoop fuel idx s bs fin script).delivered = s.delivered := by
  cases fuel with
  | zero => rfl
  | succ fuel =>
    have hd : decide (rest.length < n) = true := by simpa using hs
    simp only [runLoop, hh, hf, hk, hd]
    cases fin <;> rfl

/-- one iteration of the loop on a well-framed request of an unsupported version. -/
theorem runLoop_505 (fuel idx : Nat) (s : St) (bs : Bytes) (fin : EndState) (script : Script)
    (h : Head) (rest : Bytes) (fr : Framing)
    (hh : readHead bs fin = .ok (h, rest))
    (hf : framingFor h.version h.headers = .ok fr)
    (hshort : ∀ n, fr.kind = .buffered n → n ≤ rest.length)
    (hver : (⟨Extracted.maxVersion.1, Extracted.maxVersion.2⟩ : Version).lt h.version = true) :
    runLoop (fuel + 1) idx s bs fin script =
      match Body.drain ((initialBody fr.kind rest).2.length + 2) (initialBody fr.kind rest).1
          (initialBody fr.kind rest).2 fin with
      | some rest2 => runLoop fuel idx (s.emit 505 (some print505) true) rest2 fin script
      | none => (s.emit 505 (some print505) true).finish .waiting := by
  simp only [runLoop, hh, hf, hver]
  cases hk : fr.kind with
  | buffered n =>
    have := hshort n hk
    have hd : decide (rest.length < n) = false := by simp; omega
    simp only [hd]; rfl
  | _ => rfl

theorem initialBody_ext (k : BodyKind) (rest x : Bytes) (hshort : ∀ n, k = .buffered n → n ≤ rest.length) :
    initialBody k (rest ++ x) = ((initialBody k rest).1, (initialBody k rest).2 ++ x) := by
  cases k with
  | buffered n =>
    have hl := hshort n rfl
    simp only [initialBody, List.take_append_of_le_length hl, List.drop_append_of_le_length hl]
  | _ => rfl

theorem prefix_of_stop (f2 idx : Nat) (s1 s2 : St) (bs : Bytes) (script : Script) (l : List Delivered)
    (hl : l = s1.delivered)
    (hs : s1.delivered.map Delivered.headKey = s2.delivered.map Delivered.headKey) :
    l.map Delivered.headKey <+: (runLoop f2 idx s2 bs .eof script).delivered.map Delivered.headKey := by
  obtain ⟨⟨ds, hds⟩, _, _⟩ := runLoop_ext f2 idx s2 bs .eof script
  rw [hl, hds, List.map_append, hs]
  exact List.prefix_append _ _

/-- the simulation: the run on a stream that ended delivers a prefix (as heads) of what the run on
    the same stream continued by `x` delivers. -/
theorem runLoop_prefix (x : Bytes) (script : Script) : ∀ (f1 f2 idx : Nat) (s1 s2 : St) (r : Bytes),
    f1 ≤ f2 → s1.delivered.map Delivered.headKey = s2.delivered.map Delivered.headKey →
    (runLoop f1 idx s1 r .eof script).delivered.map Delivered.headKey <+:
      (runLoop f2 idx s2 (r ++ x) .eof script).delivered.map Delivered.headKey := by
  intro f1
  induction f1 with
  | zero => intro f2 idx s1 s2 r _ hs; exact prefix_of_stop f2 idx s1 s2 _ script _ rfl hs
  | succ f1 ih =>
    intro f2 idx s1 s2 r hf hs
    cases f2 with
    | zero => omega
    | succ f2 =>
      have hf' : f1 ≤ f2 := by omega
      cases hr : readHead r .eof with
      | error e => exact prefix_of_stop _ idx s1 s2 _ script _ (runLoop_head_error _ idx s1 r .eof script e hr) hs
      | ok p =>
        obtain ⟨h, rest⟩ := p
        have hr' := readHead_ok_ext r x h rest .eof .eof hr
        cases hfr : framingFor h.version h.headers with
        | error e =>
          exact prefix_of_stop _ idx s1 s2 _ script _ (runLoop_framing_error _ idx s1 r .eof script h rest e hr hfr) hs
        | ok fr =>
          by_cases hshort : ∃ n, fr.kind = .buffered n ∧ rest.length < n
          · obtain ⟨n, hk, hlt⟩ := hshort
            exact prefix_of_stop _ idx s1 s2 _ script _
              (runLoop_short_body _ idx s1 r .eof script h rest fr n hr hfr hk hlt) hs
          · have hns : ∀ n, fr.kind = .buffered n → n ≤ rest.length := by
              intro n hk
              by_cases hlt : rest.length < n
              · exact absurd ⟨n, hk, hlt⟩ hshort
              · omega
            have hns' : ∀ n, fr.kind = .buffered n → n ≤ (rest ++ x).length := by
              intro n hk; have := hns n hk; simp; omega
            have hib := initialBody_ext fr.kind rest x hns
            cases hver : (⟨Extracted.maxVersion.1, Extracted.maxVersion.2⟩ : Version).lt h.version with
            | true =>
              rw [runLoop_505 f1 idx s1 r .eof script h rest fr hr hfr hns hver,
                runLoop_505 f2 idx s2 (r ++ x) .eof script h (rest ++ x) fr hr' hfr hns' hver, hib]
              simp only
              have hn1 := Body.drain_not_none ((initialBody fr.kind rest).2.length + 2) (initialBody fr.kind rest).1
                (initialBody fr.kind rest).2 .eof (by decide)
              have hn2 := Body.drain_not_none (((initialBody fr.kind rest).2 ++ x).length + 2) (initialBody fr.kind rest).1
                ((initialBody fr.kind rest).2 ++ x) .eof (by decide)
              cases hd1 : Body.drain ((initialBody fr.kind rest).2.length + 2) (initialBody fr.kind rest).1
                (initialBody fr.kind rest).2 .eof with
              | none => exact absurd hd1 hn1
              | some q1 =>
                cases hd2 : Body.drain (((initialBody fr.kind rest).2 ++ x).length + 2) (initialBody fr.kind rest).1
                  ((initialBody fr.kind rest).2 ++ x) .eof with
                | none => exact absurd hd2 hn2
                | some q2 =>
                  simp only
                  have hs' : (s1.emit 505 (some print505) true).delivered.map Delivered.headKey =
                      (s2.emit 505 (some print505) true).delivered.map Delivered.headKey := by
                    simpa using hs
                  rcases Body.drain_sim _ _ _ _ _ _ _ (by omega) (by omega) hd1 hd2 with hq | hq
                  · rw [hq]; exact ih f2 idx _ _ q1 hf' hs'
                  · exact prefix_of_stop _ idx _ _ _ script _ (runLoop_short f1 idx _ q1 .eof script hq) hs'
            | false =>
              rw [framingFor_of_not_high _ _ hver] at hfr
              rw [runLoop_step f1 idx s1 r .eof script h rest fr hr hfr hns hver,
                runLoop_step f2 idx s2 (r ++ x) .eof script h (rest ++ x) fr hr' hfr hns' hver, hib]
              simp only [handle_not_blocked _ _ _ _ _ _ _ .eof (by decide), Bool.false_eq_true, if_false]
              generalize isLastRequest h.version h.headers = last
              have hk := handle_key s1 s2 h fr last (script idx)
                (initialBody fr.kind rest).1 (initialBody fr.kind rest).1 (initialBody fr.kind rest).2
                ((initialBody fr.kind rest).2 ++ x) .eof .eof hs
              cases last with
              | true =>
                simp only [if_true, St.finish_delivered]
                rw [hk]; exact List.prefix_refl _
              | false =>
                simp only [Bool.false_eq_true, if_false]
                rcases handle_rem_sim s1 s2 h fr false (script idx)
                  (initialBody fr.kind rest).1 (initialBody fr.kind rest).2 x with hq | hq
                · rw [hq]; exact ih f2 (idx + 1) _ _ _ hf' hk
                · exact prefix_of_stop _ (idx + 1) _ _ _ script _ (runLoop_short f1 (idx + 1) _ _ .eof script hq) hk

/-- Prefix delivery, in terms of `Delivered.headKey`. -/
theorem run_prefix (bs : Bytes) (k : Nat) (script : Script) :
    ((Conn.run (bs.take k) .eof script).delivered.map Delivered.headKey) <+:
      ((Conn.run bs .eof script).delivered.map Delivered.headKey) := by
  have h := runLoop_prefix (bs.drop k) script ((bs.take k).length + 1) (bs.length + 1) 0 {} {} (bs.take k)
    (by simp; omega) rfl
  rw [List.take_append_drop] at h
  exact h

end TH
