/- helper lemmas: prefix delivery (C15) -/
import TinyHttpModel.Lemmas.Cut
import TinyHttpModel.Lemmas.BodyRead
import TinyHttpModel.Lemmas.Loop
import TinyHttpModel.Lemmas.LoopA
namespace TH
end TH
