/- helper lemmas for Props/C12 pipeline_then_closing_request / open_pipeline_waits: what a handler
   obtains from a body that is entirely on the wire, and the state it leaves, do not depend on the
   bytes that follow the body; one iteration of the loop and a whole pipeline with a resulting
   state that is the same for every continuation of the stream and every amount of fuel -/
import TinyHttpModel.WireSpec
import TinyHttpModel.Lemmas.PipelineChunked

namespace TH

/-! ### the state `handle` returns is a function of what the read phase obtained -/

/-- what the handler sees of the read phase: the bytes obtained and how the reads ended -/
def rsum (r : Bytes × Option ReadOut × Body × Bytes) : Bytes × ReadEnd := (r.1, readEndOf r.2.1)

/-- the state `handle` returns, from the bytes the handler obtained and the way its reads ended -/
def handleSt (s : St) (h : Head) (fr : Framing) (last : Bool) (a : Action) (got : Bytes) (re : ReadEnd) : St :=
  let s1 := handleS1 s h fr a
  let s2 : St := { s1 with delivered := s1.delivered ++
    [⟨h.method, h.url, h.version, h.headers, fr.bodyLength, got, re, last⟩] }
  if re = .pending then s2 else handleS3 s2 h a.fin

theorem handle_fst (s : St) (h : Head) (fr : Framing) (last : Bool) (a : Action) (body : Body) (bs : Bytes)
    (fin : EndState) :
    (handle s h fr last a body bs fin).1 =
      handleSt s h fr last a (rsum (handleRead a body bs fin)).1 (rsum (handleRead a body bs fin)).2 := by
  rw [handle_eq]
  simp only [handleSt, rsum]
  by_cases hp : readEndOf (handleRead a body bs fin).2.1 = .pending
  · simp only [hp, if_true]
  · simp only [hp, if_false]
    split <;> rfl

/-! ### what the read phase hands the handler does not depend on the bytes after the body -/

theorem readPhase_done_rsum (a : Action) (x y : Bytes) (fin : EndState) :
    rsum (readPhase a .done x fin) = rsum (readPhase a .done y fin) := by
  unfold readPhase
  split
  · rename_i hc
    simp at hc
    rw [done_readUpTo x _ _ _ fin hc.2 (by omega), done_readUpTo y _ _ _ fin hc.2 (by omega)]
    rfl
  · rfl

theorem readPhase_cursor_rsum (a : Action) (B x y : Bytes) (fin : EndState) :
    rsum (readPhase a (.cursor B) x fin) = rsum (readPhase a (.cursor B) y fin) := by
  unfold readPhase
  split
  · rw [cursor_readUpTo _ B x _ _ fin (by omega) (by omega),
      cursor_readUpTo _ B y _ _ fin (by omega) (by omega)]
    split <;> rfl
  · rfl

theorem readPhase_limited_rsum (a : Action) (B x y : Bytes) (fin : EndState) :
    rsum (readPhase a (.limited B.length) (B ++ x) fin) = rsum (readPhase a (.limited B.length) (B ++ y) fin) := by
  unfold readPhase
  split
  · rw [limited_readUpTo _ B x _ _ fin (by omega) (by omega),
      limited_readUpTo _ B y _ _ fin (by omega) (by omega)]
    split <;> rfl
  · rfl

theorem readPhase_chunked_rsum (a : Action) (cs : List Spec.SentChunk) (zero x y : Bytes) (fin : EndState)
    (hcs : ∀ c ∈ cs, Spec.wfChunk c = true) (hz : ZeroOk zero) :
    rsum (readPhase a (.chunked none) (Spec.renderChunked cs zero ++ x) fin) =
      rsum (readPhase a (.chunked none) (Spec.renderChunked cs zero ++ y) fin) := by
  unfold readPhase
  split
  · obtain ⟨_, x2, x3⟩ := chunked_readUpTo zero x hz (max a.bufSize 1) fin (by omega)
      (a.readTotal + 1) none _ _ a.readTotal (ChunkPos.line cs hcs) (by omega)
    obtain ⟨_, y2, y3⟩ := chunked_readUpTo zero y hz (max a.bufSize 1) fin (by omega)
      (a.readTotal + 1) none _ _ a.readTotal (ChunkPos.line cs hcs) (by omega)
    by_cases hle : a.readTotal ≤ (Spec.chunkPayload cs).length
    · obtain ⟨_, _, ex, _⟩ := x2 hle
      obtain ⟨_, _, ey, _⟩ := y2 hle
      rw [ex, ey]
      rfl
    · rw [x3 (by omega), y3 (by omega)]
      rfl
  · rfl

/-- no body -/
theorem handleRead_done_rsum (a : Action) (x y : Bytes) (fin : EndState) :
    rsum (handleRead a .done x fin) = rsum (handleRead a .done y fin) := by
  unfold handleRead
  rw [handleZR_id a .done x fin rfl, handleZR_id a .done y fin rfl]
  exact readPhase_done_rsum a x y fin

/-- small body buffered at parse time -/
theorem handleRead_cursor_rsum (a : Action) (B x y : Bytes) (fin : EndState) :
    rsum (handleRead a (.cursor B) x fin) = rsum (handleRead a (.cursor B) y fin) := by
  unfold handleRead
  rw [handleZR_id a (.cursor B) x fin rfl, handleZR_id a (.cursor B) y fin rfl]
  exact readPhase_cursor_rsum a B x y fin

/-- streamed Content-Length body, entirely on the wire -/
theorem handleRead_limited_rsum (a : Action) (B x y : Bytes) (fin : EndState) :
    rsum (handleRead a (.limited B.length) (B ++ x) fin) =
      rsum (handleRead a (.limited B.length) (B ++ y) fin) := by
  unfold handleRead handleZR
  by_cases hc : (decide (a.asReaderCalls > 0) && a.zeroRead) = true
  · simp only [hc, if_true, zeroReadEffect_limited]
    exact readPhase_done_rsum a x y fin
  · simp only [hc]
    exact readPhase_limited_rsum a B x y fin

/-- chunked body, entirely on the wire -/
theorem handleRead_chunked_rsum (a : Action) (cs : List Spec.SentChunk) (zero x y : Bytes) (fin : EndState)
    (hcs : ∀ c ∈ cs, Spec.wfChunk c = true) (hz : ZeroOk zero) :
    rsum (handleRead a (.chunked none) (Spec.renderChunked cs zero ++ x) fin) =
      rsum (handleRead a (.chunked none) (Spec.renderChunked cs zero ++ y) fin) := by
  unfold handleRead handleZR
  by_cases hc : (decide (a.asReaderCalls > 0) && a.zeroRead) = true
  · simp only [hc, if_true, zeroReadEffect_chunked cs zero x fin hcs hz,
      zeroReadEffect_chunked cs zero y fin hcs hz]
    exact readPhase_done_rsum a x y fin
  · simp only [hc]
    exact readPhase_chunked_rsum a cs zero x y fin hcs hz

/-! ### a body that is entirely on the wire -/

/-- The framing `fr` (of head `h`) delimits exactly the bytes `wire`, whose content is `payload`:
    whatever follows `wire` in the stream (`rest`), whatever the application does and whether or not
    this is the connection's last request, handling the request leaves the stream at `rest`
    without blocking, the resulting state is the same as for any other continuation `rest'`, and
    exactly one record is delivered: the head as parsed, the framing's length, a prefix of `payload`. -/
def BodyFramed (h : Head) (fr : Framing) (wire payload : Bytes) (fin : EndState) : Prop :=
  (∀ n, fr.kind = .buffered n → n ≤ wire.length) ∧
  ∀ (s : St) (last : Bool) (a : Action) (rest : Bytes),
    (handle s h fr last a (initialBody fr.kind (wire ++ rest)).1 (initialBody fr.kind (wire ++ rest)).2 fin).2.1
        = rest ∧
    (handle s h fr last a (initialBody fr.kind (wire ++ rest)).1 (initialBody fr.kind (wire ++ rest)).2 fin).2.2
        = false ∧
    (∀ rest' : Bytes,
      (handle s h fr last a (initialBody fr.kind (wire ++ rest)).1 (initialBody fr.kind (wire ++ rest)).2 fin).1 =
      (handle s h fr last a (initialBody fr.kind (wire ++ rest')).1 (initialBody fr.kind (wire ++ rest')).2
        fin).1) ∧
    ∃ (got : Bytes) (re : ReadEnd),
      (handle s h fr last a (initialBody fr.kind (wire ++ rest)).1 (initialBody fr.kind (wire ++ rest)).2
        fin).1.delivered =
        s.delivered ++ [⟨h.method, h.url, h.version, h.headers, fr.bodyLength, got, re, last⟩] ∧
      got <+: payload

/-- `BodyFramed` from the facts about the reader `body0` the framing starts with. -/
theorem bodyFramed_of (h : Head) (fr : Framing) (wire payload : Bytes) (fin : EndState) (body0 : Body) (w2 : Bytes)
    (hshort : ∀ n, fr.kind = .buffered n → n ≤ wire.length)
    (hib : ∀ rest, initialBody fr.kind (wire ++ rest) = (body0, w2 ++ rest))
    (hoff : ∀ (s : St) (last : Bool) (a : Action) (rest : Bytes),
      (handle s h fr last a body0 (w2 ++ rest) fin).2.1 = rest ∧
      (handle s h fr last a body0 (w2 ++ rest) fin).2.2 = false)
    (hsum : ∀ (a : Action) (x y : Bytes),
      rsum (handleRead a body0 (w2 ++ x) fin) = rsum (handleRead a body0 (w2 ++ y) fin))
    (hpre : ∀ (a : Action) (rest : Bytes), (handleRead a body0 (w2 ++ rest) fin).1 <+: payload) :
    BodyFramed h fr wire payload fin := by
  refine ⟨hshort, ?_⟩
  intro s last a rest
  rw [hib rest]
  refine ⟨(hoff s last a rest).1, (hoff s last a rest).2, ?_, ?_⟩
  · intro rest'
    rw [hib rest']
    show (handle s h fr last a body0 (w2 ++ rest) fin).1 = (handle s h fr last a body0 (w2 ++ rest') fin).1
    rw [handle_fst, handle_fst, hsum a rest rest']
  · exact ⟨_, _, handle_delivered s h fr last a body0 (w2 ++ rest) fin, hpre a rest⟩

/-- no body (no framing header: `len = none`; `Content-Length: 0`: `len = some 0`) -/
theorem bodyFramed_empty (h : Head) (len : Option Nat) (ex : Bool) (fin : EndState) :
    BodyFramed h ⟨.empty, len, ex⟩ [] [] fin := by
  apply bodyFramed_of h ⟨.empty, len, ex⟩ [] [] fin .done []
  · intro n hn; cases hn
  · intro rest; rfl
  · intro s last a rest
    exact handle_done s h _ last a rest fin
  · intro a x y
    exact handleRead_done_rsum a x y fin
  · intro a rest
    show (handleRead a .done rest fin).1 <+: []
    rw [handleRead_done_fst]
    exact List.nil_prefix

/-- a Content-Length body buffered at parse time -/
theorem bodyFramed_buffered (h : Head) (B : Bytes) (len : Option Nat) (ex : Bool) (fin : EndState) :
    BodyFramed h ⟨.buffered B.length, len, ex⟩ B B fin := by
  apply bodyFramed_of h ⟨.buffered B.length, len, ex⟩ B B fin (.cursor B) []
  · intro n hn; cases hn; exact Nat.le_refl _
  · intro rest; simp [initialBody]
  · intro s last a rest
    exact handle_cursor s h _ last a B rest fin
  · intro a x y
    exact handleRead_cursor_rsum a B x y fin
  · intro a rest
    exact handleRead_cursor_prefix a B rest fin

/-- a Content-Length body streamed from the socket -/
theorem bodyFramed_limited (h : Head) (B : Bytes) (len : Option Nat) (ex : Bool) (fin : EndState) :
    BodyFramed h ⟨.limited B.length, len, ex⟩ B B fin := by
  apply bodyFramed_of h ⟨.limited B.length, len, ex⟩ B B fin (.limited B.length) B
  · intro n hn; cases hn
  · intro rest; rfl
  · intro s last a rest
    exact handle_limited s h _ last a B rest fin
  · intro a x y
    exact handleRead_limited_rsum a B x y fin
  · intro a rest
    exact handleRead_limited_prefix a B rest fin

/-- a chunked body -/
theorem bodyFramed_chunked (h : Head) (cs : List Spec.SentChunk) (zero : Bytes) (len : Option Nat) (ex : Bool)
    (fin : EndState) (hcs : ∀ c ∈ cs, Spec.wfChunk c = true) (hz : ZeroOk zero) :
    BodyFramed h ⟨.chunked, len, ex⟩ (Spec.renderChunked cs zero) (Spec.chunkPayload cs) fin := by
  apply bodyFramed_of h ⟨.chunked, len, ex⟩ _ _ fin (.chunked none) (Spec.renderChunked cs zero)
  · intro n hn; cases hn
  · intro rest; rfl
  · intro s last a rest
    exact handle_chunked s h _ last a cs zero rest fin hcs hz
  · intro a x y
    exact handleRead_chunked_rsum a cs zero x y fin hcs hz
  · intro a rest
    exact handleRead_chunked_prefix a cs zero rest fin hcs hz

/-! ### one iteration of the loop, with a resulting state that does not depend on what follows -/

/-- a well-formed request of a supported version, rendered with optional whitespace `ows`,
    whose body `wire` (content `payload`, reported length `declared`) is entirely on the wire -/
def FramedMsg (h : Head) (ows : List (Bytes × Bytes)) (wire payload : Bytes) (declared : Option Nat)
    (fin : EndState) : Prop :=
  Spec.wfHead h = true ∧ (∀ o ∈ ows, Spec.isOwsList o.1 = true ∧ Spec.isOwsList o.2 = true) ∧
  (⟨Extracted.maxVersion.1, Extracted.maxVersion.2⟩ : Version).lt h.version = false ∧
  ∃ fr, framingOf h.headers = .ok fr ∧ fr.bodyLength = declared ∧ BodyFramed h fr wire payload fin

/-- One iteration of the loop on such a request: there is ONE state `s'` — the same for every
    amount of fuel and for every continuation `rest` of the stream — such that the loop either
    closes in `s'` (the request ends the connection) or goes on from `s'` at `rest`. -/
theorem framed_step (h : Head) (ows : List (Bytes × Bytes)) (wire payload : Bytes) (declared : Option Nat)
    (fin : EndState) (hm : FramedMsg h ows wire payload declared fin) (idx : Nat) (s : St) (script : Script) :
    ∃ (s' : St) (d : Delivered),
      s'.delivered = s.delivered ++ [d] ∧
      (d.method, d.url, d.version, d.headers, d.bodyLength) =
        (h.method, h.url, h.version, h.headers, declared) ∧
      d.last = isLastRequest h.version h.headers ∧
      d.bodyRead <+: payload ∧
      ∀ (fuel : Nat) (rest : Bytes),
        runLoop (fuel + 1) idx s (Spec.renderHead h ows ++ (wire ++ rest)) fin script =
          if isLastRequest h.version h.headers = true then s'.finish .closed
          else runLoop fuel (idx + 1) s' rest fin script := by
  obtain ⟨hwf, hows, hver, fr, hfr, hlen, hshort, hb⟩ := hm
  obtain ⟨_, _, _, got, re, hdel, hpre⟩ :=
    hb s (isLastRequest h.version h.headers) (script idx) []
  refine ⟨_, _, hdel, by rw [← hlen], rfl, hpre, ?_⟩
  intro fuel rest
  obtain ⟨h1, h2, h3, _⟩ := hb s (isLastRequest h.version h.headers) (script idx) rest
  have hh := readHead_render h ows (wire ++ rest) fin hwf hows
  rw [runLoop_step fuel idx s _ fin script h (wire ++ rest) fr hh hfr
    (by intro n hn; have := hshort n hn; simp only [List.length_append]; omega) hver]
  rw [h1, h2, h3 []]
  simp only [Bool.false_eq_true, if_false]

/-! ### the whole pipeline -/

/-- A pipeline of requests with bodies on a connection that stays open: there is ONE state `s'`
    — the same for every amount of fuel and every continuation `rest` of the stream — in which
    the loop arrives at `rest`, having delivered exactly the heads of the pipeline, in order, each
    marked as not the last, each handler having obtained a prefix of its own message's payload. -/
theorem framed_pipeline {α : Type} (head : α → Head) (ows : α → List (Bytes × Bytes))
    (wire payload : α → Bytes) (declared : α → Option Nat) (fin : EndState) (items : List α) :
    (∀ x ∈ items, FramedMsg (head x) (ows x) (wire x) (payload x) (declared x) fin ∧
      isLastRequest (head x).version (head x).headers = false) →
    ∀ (idx : Nat) (s : St) (script : Script),
    ∃ (s' : St) (ds : List Delivered),
      s'.delivered = s.delivered ++ ds ∧
      ds.map (fun d => (d.method, d.url, d.version, d.headers, d.bodyLength)) =
        items.map (fun x => ((head x).method, (head x).url, (head x).version, (head x).headers, declared x)) ∧
      (∀ d ∈ ds, d.last = false) ∧
      (∀ (i : Nat) (d : Delivered) (x : α),
        ds[i]? = some d → items[i]? = some x → d.bodyRead <+: payload x) ∧
      ∀ (fuel : Nat) (rest : Bytes), items.length ≤ fuel →
        runLoop fuel idx s
            ((items.map (fun x => Spec.renderHead (head x) (ows x) ++ wire x)).flatten ++ rest) fin script =
          runLoop (fuel - items.length) (idx + items.length) s' rest fin script := by
  induction items with
  | nil =>
    intro _ idx s script
    exact ⟨s, [], by simp, by simp, by simp, by simp, by simp⟩
  | cons x xs ih =>
    intro hgood idx s script
    obtain ⟨hx, hxl⟩ := hgood x (by simp)
    obtain ⟨s1, d, hdel1, hd, hdl, hpre, hrun1⟩ :=
      framed_step (head x) (ows x) (wire x) (payload x) (declared x) fin hx idx s script
    obtain ⟨s2, ds, hdel2, hmap, hlast, hpres, hrun2⟩ :=
      ih (fun y hy => hgood y (by simp [hy])) (idx + 1) s1 script
    refine ⟨s2, d :: ds, ?_, ?_, ?_, ?_, ?_⟩
    · rw [hdel2, hdel1]
      simp
    · simp only [List.map_cons, hmap, hd]
    · intro d' hd'
      simp only [List.mem_cons] at hd'
      rcases hd' with rfl | hd'
      · rw [hdl, hxl]
      · exact hlast d' hd'
    · intro i d' x' h1 h2
      cases i with
      | zero =>
        simp only [List.getElem?_cons_zero, Option.some.injEq] at h1 h2
        subst h1 h2
        exact hpre
      | succ j =>
        simp only [List.getElem?_cons_succ] at h1 h2
        exact hpres j d' x' h1 h2
    · intro fuel rest hfuel
      obtain ⟨f, rfl⟩ : ∃ f, fuel = f + 1 := ⟨fuel - 1, by simp at hfuel; omega⟩
      simp only [List.map_cons, List.flatten_cons, List.append_assoc, List.length_cons]
      rw [hrun1 f, hxl, hrun2 f rest (by simp at hfuel; omega)]
      simp only [Bool.false_eq_true, if_false]
      congr 1 <;> omega

/-- the state at the end of a connection that closed: everything written has been flushed -/
theorem finish_closed_flushed (s : St) : (s.finish .closed).flushed = (s.finish .closed).out.length := by
  simp [St.finish]

/-- a head whose Connection header names `upgrade` is framed as an upgrade: its body is the rest
    of the stream -/
theorem framingOf_kind_upgrade (hs : List Header) (fr : Framing) (c : Header)
    (hc : findHeader hs b!"Connection" = some c)
    (hup : containsSub (lower c.value) b!"upgrade" = true) (hf : framingOf hs = .ok fr) :
    fr.kind = .upgrade := by
  unfold framingOf at hf
  simp only [hc, hup] at hf
  split at hf
  · cases hf
  · split at hf
    · cases hf
    · simp only [Except.ok.injEq] at hf
      subst hf
      simp

end TH
