/- helper lemmas for C05 -/
import TinyHttpModel.RespSpec
namespace TH

/-! ### `Q.gt` is a strict weak order -/

theorem Q.gt_asymm {a b : Q} (h : a.gt b = true) : b.gt a = false := by
  obtain ⟨an, am⟩ := a
  obtain ⟨bn, bm⟩ := b
  cases an <;> cases bn <;> simp [Q.gt] at h ⊢ <;> omega

/-- negative transitivity: `¬ z > y → ¬ y > x → ¬ z > x`. -/
theorem Q.gt_negtrans {x y z : Q} (h1 : z.gt y = false) (h2 : y.gt x = false) :
    z.gt x = false := by
  obtain ⟨xn, xm⟩ := x
  obtain ⟨yn, ym⟩ := y
  obtain ⟨zn, zm⟩ := z
  cases xn <;> cases yn <;> cases zn <;> simp [Q.gt] at h1 h2 ⊢ <;> omega

/-! ### sortedness of `sortDesc` -/

/-- no later element has a strictly greater q than an earlier one. -/
def SortedDesc (l : List (Bytes × Q)) : Prop :=
  l.Pairwise (fun a b => b.2.gt a.2 = false)

theorem mem_insertFront {x z : Bytes × Q} {l : List (Bytes × Q)} :
    z ∈ insertFront x l → z = x ∨ z ∈ l := by
  induction l with
  | nil => simp [insertFront]
  | cons y ys ih =>
    unfold insertFront
    split
    · intro h
      rcases List.mem_cons.1 h with h | h
      · exact Or.inr (h ▸ List.mem_cons_self)
      · rcases ih h with h | h
        · exact Or.inl h
        · exact Or.inr (List.mem_cons_of_mem _ h)
    · intro h
      rcases List.mem_cons.1 h with h | h
      · exact Or.inl h
      · exact Or.inr h

/-- in a sorted list whose head is not `gt x`, nothing is `gt x`. -/
theorem SortedDesc.all_not_gt {x y : Bytes × Q} {ys : List (Bytes × Q)}
    (hs : SortedDesc (y :: ys)) (hy : y.2.gt x.2 = false) :
    ∀ z ∈ y :: ys, z.2.gt x.2 = false := by
  intro z hz
  rcases List.mem_cons.1 hz with h | h
  · exact h ▸ hy
  · exact Q.gt_negtrans ((List.pairwise_cons.1 hs).1 z h) hy

theorem insertFront_sorted (x : Bytes × Q) {l : List (Bytes × Q)} (hs : SortedDesc l) :
    SortedDesc (insertFront x l) := by
  induction l with
  | nil => simp [insertFront, SortedDesc]
  | cons y ys ih =>
    have hp := List.pairwise_cons.1 hs
    unfold insertFront
    split
    · rename_i hgt
      refine List.pairwise_cons.2 ⟨?_, ih hp.2⟩
      intro z hz
      rcases mem_insertFront hz with h | h
      · exact h ▸ Q.gt_asymm hgt
      · exact hp.1 z h
    · rename_i hgt
      have hgt' : y.2.gt x.2 = false := by simpa using hgt
      exact List.pairwise_cons.2 ⟨hs.all_not_gt hgt', hs⟩

theorem sortDesc_sorted (l : List (Bytes × Q)) : SortedDesc (sortDesc l) := by
  induction l with
  | nil => simp [sortDesc, SortedDesc]
  | cons x xs ih => exact insertFront_sorted x ih

/-! ### admissible elements -/

/-- the admissible form of a single TE element. -/
def adm1 (x : Bytes × Q) : Option (Coding × Q) :=
  if x.2.pos then (codingOfName x.1).map (fun c => (c, x.2)) else none

theorem admissible_cons (x : Bytes × Q) (r : List (Bytes × Q)) :
    Spec.admissible (x :: r) =
      (match adm1 x with
       | some y => y :: Spec.admissible r
       | none => Spec.admissible r) := by
  obtain ⟨n, q⟩ := x
  simp only [Spec.admissible, adm1]
  cases q.pos <;> simp
  cases codingOfName n <;> simp

theorem adm1_snd {x : Bytes × Q} {y : Coding × Q} (h : adm1 x = some y) : y.2 = x.2 := by
  unfold adm1 at h
  split at h
  · cases hc : codingOfName x.1 with
    | none => simp [hc] at h
    | some c =>
      simp [hc] at h
      rw [← h]
  · cases h

theorem admissible_mem_snd {l : List (Bytes × Q)} {y : Coding × Q} :
    y ∈ Spec.admissible l → ∃ w ∈ l, w.2 = y.2 := by
  induction l with
  | nil => simp [Spec.admissible]
  | cons x xs ih =>
    rw [admissible_cons]
    cases hx : adm1 x with
    | none =>
      simp only
      intro h
      obtain ⟨w, hw, e⟩ := ih h
      exact ⟨w, List.mem_cons_of_mem _ hw, e⟩
    | some x' =>
      simp only
      intro h
      rcases List.mem_cons.1 h with h | h
      · exact ⟨x, List.mem_cons_self, by rw [h, adm1_snd hx]⟩
      · obtain ⟨w, hw, e⟩ := ih h
        exact ⟨w, List.mem_cons_of_mem _ hw, e⟩

/-- the first admissible element after inserting `x` into a sorted list. -/
theorem head_admissible_insertFront (x : Bytes × Q) {l : List (Bytes × Q)} (hs : SortedDesc l) :
    (Spec.admissible (insertFront x l)).head? =
      (match adm1 x with
       | none => (Spec.admissible l).head?
       | some x' =>
         match (Spec.admissible l).head? with
         | none => some x'
         | some y => if y.2.gt x'.2 then some y else some x') := by
  induction l with
  | nil =>
    simp only [insertFront]
    rw [admissible_cons]
    cases adm1 x <;> simp [Spec.admissible]
  | cons y ys ih =>
    have hp := List.pairwise_cons.1 hs
    unfold insertFront
    split
    · rename_i hgt
      rw [admissible_cons y, admissible_cons y]
      cases hy : adm1 y with
      | none => simpa using ih hp.2
      | some y' =>
        have e : y'.2 = y.2 := adm1_snd hy
        cases hx : adm1 x with
        | none => simp
        | some x' =>
          have e' : x'.2 = x.2 := adm1_snd hx
          simp [e, e', hgt]
    · rename_i hgt
      have hgt' : y.2.gt x.2 = false := by simpa using hgt
      rw [admissible_cons x]
      cases hx : adm1 x with
      | none => simp
      | some x' =>
        have e' : x'.2 = x.2 := adm1_snd hx
        simp only [List.head?_cons]
        cases hh : (Spec.admissible (y :: ys)).head? with
        | none => simp
        | some z =>
          have hz : z ∈ Spec.admissible (y :: ys) := List.mem_of_head? hh
          obtain ⟨w, hw, ew⟩ := admissible_mem_snd hz
          have : z.2.gt x'.2 = false := by
            rw [← ew, e']
            exact hs.all_not_gt hgt' w hw
          simp [this]

theorem head_admissible_sortDesc (l : List (Bytes × Q)) :
    (Spec.admissible (sortDesc l)).head? = Spec.bestOf (Spec.admissible l) := by
  induction l with
  | nil => simp [sortDesc, Spec.admissible, Spec.bestOf]
  | cons x xs ih =>
    simp only [sortDesc]
    rw [head_admissible_insertFront x (sortDesc_sorted xs), ih, admissible_cons]
    cases adm1 x with
    | none => rfl
    | some x' =>
      simp only [Spec.bestOf]
      cases Spec.bestOf (Spec.admissible xs) <;> rfl

theorem pickCoding_eq_head (l : List (Bytes × Q)) :
    pickCoding l = (Spec.admissible l).head?.map (·.1) := by
  induction l with
  | nil => simp [pickCoding, Spec.admissible]
  | cons x xs ih =>
    obtain ⟨n, q⟩ := x
    simp only [pickCoding, Spec.admissible]
    cases q.pos <;> simp [ih]
    cases codingOfName n <;> simp

/-- the selection loop over the sorted list is "the earliest element of greatest q". -/
theorem pickCoding_sortDesc (l : List (Bytes × Q)) :
    pickCoding (sortDesc l) = (Spec.bestOf (Spec.admissible l)).map (·.1) := by
  rw [pickCoding_eq_head, head_admissible_sortDesc]

/-! ### the guard of `chooseTransferEncoding` -/

theorem teRequest_of_teList {reqHeaders : List Header} {te : List (Bytes × Q)}
    (hte : Spec.teList reqHeaders = some te) :
    teRequest reqHeaders = some ((Spec.bestOf (Spec.admissible te)).map (·.1)) := by
  unfold Spec.teList at hte
  unfold teRequest
  cases hf : findHeader reqHeaders b!"TE" with
  | none =>
    rw [hf] at hte
    simp only [Option.some.injEq] at hte
    subst hte
    simp [Spec.admissible, Spec.bestOf]
  | some h =>
    rw [hf] at hte
    simp only at hte ⊢
    rw [hte]
    simp only [pickCoding_sortDesc]

/-! ### framing headers -/

theorem insertAuto_clean {hs : List Header} (date : Bytes) (up : Option Bytes)
    (hclean : ∀ h ∈ hs, Spec.isAutoFraming h = false) :
    ∀ h ∈ insertAuto hs date up, Spec.isAutoFraming h = false := by
  intro h hh
  unfold insertAuto at hh
  have hD : Spec.isAutoFraming ⟨b!"Date", date⟩ = false := by
    simp only [Spec.isAutoFraming, Header.is]; decide
  have hS : Spec.isAutoFraming ⟨b!"Server", Extracted.serverName⟩ = false := by decide
  have hC : Spec.isAutoFraming ⟨b!"Connection", b!"upgrade"⟩ = false := by decide
  have hU : ∀ p, Spec.isAutoFraming ⟨b!"Upgrade", p⟩ = false := by
    intro p; simp only [Spec.isAutoFraming, Header.is]; decide
  have h1 : ∀ h ∈ (if hs.any (·.is b!"Date") then hs else ⟨b!"Date", date⟩ :: hs),
      Spec.isAutoFraming h = false := by
    intro h hh
    split at hh
    · exact hclean h hh
    · rcases List.mem_cons.1 hh with e | e
      · exact e ▸ hD
      · exact hclean h e
  generalize (if hs.any (·.is b!"Date") then hs else ⟨b!"Date", date⟩ :: hs) = hs1 at hh h1
  have h2 : ∀ h ∈ (if hs1.any (·.is b!"Server") then hs1
      else ⟨b!"Server", Extracted.serverName⟩ :: hs1), Spec.isAutoFraming h = false := by
    intro h hh
    split at hh
    · exact h1 h hh
    · rcases List.mem_cons.1 hh with e | e
      · exact e ▸ hS
      · exact h1 h e
  simp only at hh
  generalize (if hs1.any (·.is b!"Server") then hs1
      else ⟨b!"Server", Extracted.serverName⟩ :: hs1) = hs2 at hh h2
  cases up with
  | none => exact h2 h hh
  | some p =>
    simp only at hh
    rcases List.mem_cons.1 hh with e | hh
    · exact e ▸ hC
    · rcases List.mem_cons.1 hh with e | hh
      · exact e ▸ hU p
      · exact h2 h hh

theorem filter_cl_clean {hs : List Header} (h : ∀ x ∈ hs, Spec.isAutoFraming x = false) :
    hs.filter (·.is b!"Content-Length") = [] := by
  rw [List.filter_eq_nil_iff]
  intro a ha
  have := h a ha
  simp only [Spec.isAutoFraming, Bool.or_eq_false_iff] at this
  simp [this.1]

theorem filter_te_clean {hs : List Header} (h : ∀ x ∈ hs, Spec.isAutoFraming x = false) :
    hs.filter (·.is b!"Transfer-Encoding") = [] := by
  rw [List.filter_eq_nil_iff]
  intro a ha
  have := h a ha
  simp only [Spec.isAutoFraming, Bool.or_eq_false_iff] at this
  simp [this.2]

theorem framedOf_append_clean {hs : List Header} (fh : List Header)
    (h : ∀ x ∈ hs, Spec.isAutoFraming x = false) :
    Spec.framedOf (hs ++ fh) = Spec.framedOf fh := by
  unfold Spec.framedOf
  simp only [List.filter_append, filter_cl_clean h, filter_te_clean h, List.nil_append]

theorem framedOf_none (len : Option Nat) :
    Spec.framedOf (framingHeader none len) = Spec.Framed.neither := by
  simp [framingHeader, Spec.framedOf]

theorem framedOf_chunked (len : Option Nat) :
    Spec.framedOf (framingHeader (some .chunked) len) = Spec.Framed.chunked := by
  simp only [framingHeader]
  decide

theorem framedOf_identity (l : Nat) :
    Spec.framedOf (framingHeader (some .identity) (some l)) = Spec.Framed.identity (toDec l) := by
  simp only [framingHeader]
  have h1 : (⟨b!"Content-Length", toDec l⟩ : Header).is b!"Content-Length" = true := by
    simp only [Header.is]; decide
  have h2 : (⟨b!"Content-Length", toDec l⟩ : Header).is b!"Transfer-Encoding" = false := by
    simp only [Header.is]; decide
  simp [Spec.framedOf, List.filter, h1, h2]

/-- the three possible outcomes of the framing decision. -/
theorem choose_framing_cases {r : Resp} {c : ReqCtx} {bodyLen : Nat} {te : Option Coding}
    {len : Option Nat} (hf : framing r c bodyLen = some (te, len)) :
    te = none ∨ te = some .chunked ∨
      (te = some .identity ∧ len = some (r.dataLength.getD bodyLen)) := by
  unfold framing at hf
  cases hc : chooseTransferEncoding r.status c.reqHeaders c.version r.dataLength
      r.chunkedThreshold with
  | none => rw [hc] at hf; cases hf
  | some te0 =>
    rw [hc] at hf
    simp only [Option.some.injEq, Prod.mk.injEq] at hf
    obtain ⟨h1, h2⟩ := hf
    subst h1
    subst h2
    cases c.upgrade.isSome
    · cases te0
      · cases hd : r.dataLength <;> simp
      · simp
    · simp

end TH
