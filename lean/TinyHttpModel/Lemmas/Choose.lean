/- helper lemmas for C05 -/
import TinyHttpModel.RespSpec
namespace TH
end TH
