/- helper lemmas: the concurrent connection (Lts.Par) simulates the sequential run (Conn.run) -/
import TinyHttpModel.Lts.Par
import TinyHttpModel.Lemmas.SeqInv
import TinyHttpModel.Lemmas.ParInvRun

namespace TH
namespace Lts.Par

theorem futEmit_done {fin : EndState} {rest : Bytes} {r : PReq} (h : r.stage = .gone ∨ r.stage = .stuck) :
    futEmit fin rest r = [] := by
  rcases h with h | h <;> simp [futEmit, h]

/-! ### the bytes submitted so far are a prefix of the sequential bytes -/

theorem flatten_prefix_sumZip (fin : EndState) (rest : Bytes) : ∀ (rs : List PReq) (ws : List Seq.W),
    rs.length = ws.length →
    (∀ (i j : Nat) r w, j < i → rs[j]? = some r → ws[i]? = some w → w.submitted ≠ [] → futEmit fin rest r = []) →
    ∀ tail, (ws.map (·.submitted)).flatten <+: sumZip (fOut fin rest) rs ws ++ tail := by
  intro rs
  induction rs with
  | nil =>
    intro ws hl _ tail
    cases ws with
    | nil => simp
    | cons _ _ => simp at hl
  | cons r rs ih =>
    intro ws hl hyp tail
    cases ws with
    | nil => simp at hl
    | cons w ws =>
      simp only [List.length_cons, Nat.add_right_cancel_iff] at hl
      simp only [List.map_cons, List.flatten_cons, sumZip, fOut, List.append_assoc]
      by_cases hall : ∀ (i : Nat) v, ws[i]? = some v → v.submitted = []
      · have hnil : (ws.map (·.submitted)).flatten = [] := by
          rw [List.flatten_eq_nil_iff]
          intro l hm
          obtain ⟨v, hv, rfl⟩ := List.mem_map.1 hm
          obtain ⟨i, hi⟩ := List.getElem?_of_mem hv
          exact hall i v hi
        rw [hnil, List.append_nil]
        exact List.prefix_append _ _
      · obtain ⟨i, hi⟩ := Classical.not_forall.1 hall
        obtain ⟨v, hv⟩ := Classical.not_forall.1 hi
        obtain ⟨hv1, hv2⟩ := Classical.not_imp.1 hv
        have he : futEmit fin rest r = [] := hyp (i + 1) 0 r v (by omega) rfl hv1 hv2
        rw [he, List.nil_append]
        refine (List.prefix_append_right_inj _).2 ?_
        exact ih ws hl (fun i j r' w' hji hr' hw' hne => hyp (i + 1) (j + 1) r' w' (by omega) hr' hw' hne) tail

theorem sumZip_done (fin : EndState) (rest : Bytes) : ∀ (rs : List PReq) (ws : List Seq.W),
    rs.length = ws.length → (∀ r ∈ rs, r.stage = .gone ∨ r.stage = .stuck) →
    sumZip (fOut fin rest) rs ws = (ws.map (·.submitted)).flatten ∧
    sumZip (fDel fin rest) rs ws =
      (rs.filter (fun r => r.owner == .app && (r.stage == .readDone || r.stage == .answering
        || r.stage == .gone || r.stage == .stuck))).map deliveredOf := by
  intro rs
  induction rs with
  | nil =>
    intro ws hl _
    cases ws with
    | nil => simp [sumZip]
    | cons _ _ => simp at hl
  | cons r rs ih =>
    intro ws hl hd
    cases ws with
    | nil => simp at hl
    | cons w ws =>
      simp only [List.length_cons, Nat.add_right_cancel_iff] at hl
      obtain ⟨i1, i2⟩ := ih ws hl (fun q hq => hd q (List.mem_cons_of_mem _ hq))
      have hr := hd r (List.mem_cons_self ..)
      constructor
      · simp only [sumZip, fOut, futEmit_done hr, List.append_nil, i1, List.map_cons, List.flatten_cons]
      · simp only [sumZip, i2, fDel, futDel]
        cases ho : r.owner with
        | conn => simp [ho]
        | app => rcases hr with h | h <;> simp [ho, h]

/-! ### terminal states -/

theorem step_some_of_write {s : State} {i : Nat} {r : PReq} (hr : s.reqs[i]? = some r)
    (hst : r.stage = .cont ∨ r.stage = .answering) (hne : r.toEmit ≠ []) (ht : Seq.hasTurn s.seq i = true) :
    step s (.write i 1) ≠ none := by
  have hl : 1 ≤ r.toEmit.length := by
    cases hte : r.toEmit with
    | nil => exact absurd hte hne
    | cons _ _ => simp
  have hc : ((r.stage == Stage.cont || r.stage == Stage.answering) && decide (0 < 1) &&
      decide (1 ≤ r.toEmit.length)) = true := by
    rcases hst with h | h <;> simp [h, hl]
  simp only [step, hr, hc, if_true, seqStep, Seq.step, ht]
  simp

theorem terminal_all_done {T : Bytes} {D : List Delivered} {s : State} (hinv : Inv T D s)
    (ht : Terminal s) : ∀ (i : Nat) r, s.reqs[i]? = some r → r.stage = .gone ∨ r.stage = .stuck := by
  intro i
  induction i using Nat.strongRecOn with
  | _ i ih =>
    intro r hr
    have hi : i < s.reqs.length := by
      rcases Nat.lt_or_ge i s.reqs.length with h | h
      · exact h
      · rw [List.getElem?_eq_none h] at hr; cases hr
    obtain ⟨w, hw⟩ := writer_exists hinv hr
    -- every earlier request is gone, so every earlier writer is dropped
    have hbefore : ∀ j, j < i → Seq.isDropped s.seq j = true := by
      intro j hj
      have hjl : j < s.reqs.length := by omega
      have hq : s.reqs[j]? = some s.reqs[j] := List.getElem?_eq_getElem hjl
      obtain ⟨v, hv⟩ := writer_exists hinv hq
      have hgone : s.reqs[j].stage = .gone := by
        rcases ih j hj _ hq with h | h
        · exact h
        · have h1 := (hinv.ok j _ hq).2.1 h
          rw [hinv.hold j _ hq (by omega)] at h1; cases h1
      unfold Seq.isDropped
      rw [getD_of_getElem? hv]
      exact (hinv.dropG j _ v hq hv).2 hgone
    have hturn : r.stage ≠ .gone → Seq.hasTurn s.seq i = true := by
      intro hng
      have hnd := not_dropped hinv hr hw hng
      unfold Seq.hasTurn
      have hiw : i < s.seq.writers.length := by rw [← hinv.len]; exact hi
      have hdi : Seq.isDropped s.seq i = false := by
        unfold Seq.isDropped; rw [getD_of_getElem? hw]; exact hnd
      simp only [hiw, decide_true, hdi, Bool.not_false, Bool.and_self, Bool.true_and, Bool.or_eq_true,
        beq_iff_eq]
      by_cases h0 : i = 0
      · exact Or.inl h0
      · exact Or.inr (hbefore (i - 1) (by omega))
    cases hst : r.stage with
    | gone => exact Or.inl rfl
    | stuck => exact Or.inr rfl
    | fresh =>
      exfalso
      have hown := (hinv.ok i r hr).1 (Or.inl hst)
      have := ht (.begin i) (fun n h => by cases h)
      simp [step, hr, hst, hown] at this
    | cont =>
      exfalso
      by_cases hte : r.toEmit = []
      · have := ht (.reads i) (fun n h => by cases h)
        simp [step, hr, hst, hte] at this
      · exact step_some_of_write hr (Or.inl hst) hte (hturn (by rw [hst]; decide))
          (ht (.write i 1) (fun n h => by cases h))
    | readDone =>
      exfalso
      have := ht (.finish i) (fun n h => by cases h)
      simp only [step, hr, hst, beq_self_eq_true, if_true] at this
      split at this
      · split at this <;> cases this
      · cases this
    | answering =>
      exfalso
      by_cases hte : r.toEmit = []
      · have := ht (.drop i) (fun n h => by cases h)
        have htn := hturn (by rw [hst]; decide)
        simp only [step, hr, hst, hte, beq_self_eq_true, List.isEmpty_nil, Bool.and_self, if_true] at this
        split at this
        · simp [seqStep, Seq.step, htn] at this
        · cases this
      · exact step_some_of_write hr (Or.inr hst) hte (hturn (by rw [hst]; decide))
          (ht (.write i 1) (fun n h => by cases h))

theorem terminal_parser {T : Bytes} {D : List Delivered} {s : State} (hinv : Inv T D s)
    (ht : Terminal s) : s.parserEnd.isSome ∨ ∃ r ∈ s.reqs, r.stage = .stuck := by
  have hall := terminal_all_done hinv ht
  cases hpe : s.parserEnd with
  | some e => exact Or.inl rfl
  | none =>
    right
    apply Classical.byContradiction
    intro hne
    have hgone : ∀ r ∈ s.reqs, r.stage = .gone := by
      intro r hm
      obtain ⟨i, hi⟩ := List.getElem?_of_mem hm
      rcases hall i r hi with h | h
      · exact h
      · exact absurd ⟨r, hm, h⟩ hne
    have h1 : streamHeld s = false := by
      simp only [streamHeld, List.any_eq_false, Bool.and_eq_true, bne_iff_ne, ne_eq, not_and, Decidable.not_not]
      intro r hm _; exact hgone r hm
    have h2 : connBusy s = false := by
      simp only [connBusy, List.any_eq_false, Bool.and_eq_true, bne_iff_ne, ne_eq, not_and, Decidable.not_not,
        beq_iff_eq]
      intro r hm hc; exact absurd (hgone r hm) hc.2
    have := ht .parse (fun n h => by cases h)
    simp [step, hpe, h1, h2] at this

/-- in a terminal state nothing is left of the sequential run -/
theorem terminal_tail {T : Bytes} {D : List Delivered} {s : State} (hinv : Inv T D s) (ht : Terminal s) (fuel : Nat) :
    tailOut s.fin s.script s.parserEnd s.nextIdx (lastAfter s) fuel = [] ∧
    tailDel s.fin s.script s.parserEnd s.nextIdx (lastAfter s) fuel = [] := by
  rcases terminal_parser hinv ht with h | ⟨r, hm, hst⟩
  · simp [tailOut, tailDel, h]
  · obtain ⟨i, hi⟩ := List.getElem?_of_mem hm
    have hh := (hinv.ok i r hi).2.1 hst
    have hil := last_of_holds hinv hi hh
    have hla : lastAfter s = none := by
      unfold lastAfter
      rw [← hil, hi]
      simp [futAfter, hst]
    rw [hla]
    unfold tailOut tailDel
    constructor <;> split <;> rfl

/-! ### the statements of Props/C01 -/

theorem submitted_eq_flatten {bs : Bytes} {fin : EndState} {script : Script} {s : State}
    (h : Reachable bs fin script s) : submitted s = (s.seq.writers.map (·.submitted)).flatten := by
  have sinv := Seq.inv_reachable (seq_reachable h)
  unfold submitted
  rw [sinv.order]; rfl

theorem reachable_prefix {bs : Bytes} {fin : EndState} {script : Script} {s : State}
    (h : Reachable bs fin script s) : submitted s <+: (Conn.run bs fin script).out := by
  have hinv := inv_reachable h
  have sinv := Seq.inv_reachable (seq_reachable h)
  obtain ⟨fuel, _, ho, _⟩ := hinv.sim
  rw [← ho, submitted_eq_flatten h]
  refine flatten_prefix_sumZip _ _ _ _ hinv.len ?_ _
  intro i j r w hji hr hw hne
  have hiw : i < s.seq.writers.length := by
    rcases Nat.lt_or_ge i s.seq.writers.length with h | h
    · exact h
    · rw [List.getElem?_eq_none h] at hw; cases hw
  have hd := sinv.noOver i hiw (by rw [getD_of_getElem? hw]; exact hne) j hji
  obtain ⟨v, hv⟩ := writer_exists hinv hr
  unfold Seq.isDropped at hd
  rw [getD_of_getElem? hv] at hd
  exact futEmit_done (Or.inl ((hinv.dropG j r v hr hv).1 hd))

theorem reachable_terminal_finished {bs : Bytes} {fin : EndState} {script : Script} {s : State}
    (h : Reachable bs fin script s) (ht : Terminal s) :
    (∀ r ∈ s.reqs, r.stage = .gone ∨ r.stage = .stuck) ∧
    (s.parserEnd.isSome ∨ ∃ r ∈ s.reqs, r.stage = .stuck) := by
  have hinv := inv_reachable h
  refine ⟨?_, terminal_parser hinv ht⟩
  intro r hm
  obtain ⟨i, hi⟩ := List.getElem?_of_mem hm
  exact terminal_all_done hinv ht i r hi

theorem reachable_terminal_same {bs : Bytes} {fin : EndState} {script : Script} {s : State}
    (h : Reachable bs fin script s) (ht : Terminal s) :
    submitted s = (Conn.run bs fin script).out ∧ delivered s = (Conn.run bs fin script).delivered := by
  have hinv := inv_reachable h
  obtain ⟨fuel, _, ho, hd⟩ := hinv.sim
  obtain ⟨t1, t2⟩ := terminal_tail hinv ht fuel
  obtain ⟨z1, z2⟩ := sumZip_done s.fin s.rest s.reqs s.seq.writers hinv.len (reachable_terminal_finished h ht).1
  rw [t1, List.append_nil, z1] at ho
  rw [t2, List.append_nil, z2] at hd
  exact ⟨by rw [submitted_eq_flatten h]; exact ho, hd⟩

end Lts.Par
end TH
