/- helper lemmas (OracleDrain): the discard loops over the oracle socket -/
import TinyHttpModel.Lemmas.OracleBody
namespace TH

/-! ### unfolding -/

theorem drainO_simple (fuel : Nat) (b : Body) (s : OSrc) (h : b = .done ∨ (∃ d, b = .cursor d) ∨ b = .raw ∨ b = .failed) :
    Body.drainO fuel b s = some s := by
  cases fuel with
  | zero => rfl
  | succ fuel =>
    rcases h with h | ⟨d, h⟩ | h | h <;> subst h <;> rfl

theorem drain_simple (fuel : Nat) (b : Body) (bs : Bytes) (fin : EndState)
    (h : b = .done ∨ (∃ d, b = .cursor d) ∨ b = .raw ∨ b = .failed) :
    Body.drain fuel b bs fin = some bs := by
  cases fuel with
  | zero => rfl
  | succ fuel =>
    rcases h with h | ⟨d, h⟩ | h | h <;> subst h <;> rfl

theorem drainO_chunked_step (fuel : Nat) (ic : Option Nat) (s : OSrc) :
    Body.drainO (fuel + 1) (.chunked ic) s =
      match Body.readO (.chunked ic) 4096 s with
      | (.data _, b', s') => Body.drainO fuel b' s'
      | (.pending, _, _) => none
      | (_, _, s') => some s' := rfl

theorem drain_chunked_step (fuel : Nat) (ic : Option Nat) (bs : Bytes) (fin : EndState) :
    Body.drain (fuel + 1) (.chunked ic) bs fin =
      match Body.read (.chunked ic) 4096 bs fin with
      | (.data _, b', bs') => Body.drain fuel b' bs' fin
      | (.pending, _, _) => none
      | (_, _, bs') => some bs' := rfl

theorem drainO_chunked_data (fuel : Nat) (ic : Option Nat) (s : OSrc) (d : Bytes) (b' : Body) (s' : OSrc)
    (h : Body.readO (.chunked ic) 4096 s = (.data d, b', s')) :
    Body.drainO (fuel + 1) (.chunked ic) s = Body.drainO fuel b' s' := by
  rw [drainO_chunked_step, h]

theorem drainO_chunked_pending (fuel : Nat) (ic : Option Nat) (s : OSrc) (b' : Body) (s' : OSrc)
    (h : Body.readO (.chunked ic) 4096 s = (.pending, b', s')) :
    Body.drainO (fuel + 1) (.chunked ic) s = none := by
  rw [drainO_chunked_step, h]

theorem drainO_chunked_eof (fuel : Nat) (ic : Option Nat) (s : OSrc) (b' : Body) (s' : OSrc)
    (h : Body.readO (.chunked ic) 4096 s = (.eof, b', s')) :
    Body.drainO (fuel + 1) (.chunked ic) s = some s' := by
  rw [drainO_chunked_step, h]

theorem drainO_chunked_err (fuel : Nat) (ic : Option Nat) (s : OSrc) (b' : Body) (s' : OSrc)
    (h : Body.readO (.chunked ic) 4096 s = (.err, b', s')) :
    Body.drainO (fuel + 1) (.chunked ic) s = some s' := by
  rw [drainO_chunked_step, h]

theorem drainO_chunked_congr (fuel : Nat) (ic ic2 : Option Nat) (s s2 : OSrc)
    (h : Body.readO (.chunked ic) 4096 s = Body.readO (.chunked ic2) 4096 s2) :
    Body.drainO (fuel + 1) (.chunked ic) s = Body.drainO (fuel + 1) (.chunked ic2) s2 := by
  rw [drainO_chunked_step, drainO_chunked_step, h]

/-! ### limited bodies -/

theorem drain_limited_eq (fuel rem : Nat) (bs : Bytes) (fin : EndState) :
    Body.drain (fuel + 1) (.limited rem) bs fin =
      if rem ≤ bs.length then some (bs.drop rem) else if fin == .open then none else some [] := rfl

theorem drainO_limited_spec : ∀ (fuel rem : Nat) (bs : Bytes) (fin : EndState) (orc : List Nat),
    bs.length + 1 ≤ fuel →
    (rem ≤ bs.length → ∃ orc', Body.drainO fuel (.limited rem) ⟨bs, fin, orc⟩ = some ⟨bs.drop rem, fin, orc'⟩) ∧
    (bs.length < rem → fin = .open → Body.drainO fuel (.limited rem) ⟨bs, fin, orc⟩ = none) ∧
    (bs.length < rem → fin ≠ .open → ∃ orc', Body.drainO fuel (.limited rem) ⟨bs, fin, orc⟩ = some ⟨[], fin, orc'⟩) := by
  intro fuel
  induction fuel with
  | zero => intro rem bs fin orc h; omega
  | succ fuel ih =>
    intro rem bs fin orc hf
    rw [Body.drainO]
    by_cases hrem : rem = 0
    · subst hrem
      simp only [if_true, List.drop_zero]
      exact ⟨fun _ => ⟨_, rfl⟩, fun h => by omega, fun h => by omega⟩
    · simp only [hrem, if_false]
      cases bs with
      | nil =>
        rw [OSrc.read_nil]
        refine ⟨fun h => by simp at h; omega, ?_, ?_⟩
        · intro _ h; subst h; rfl
        · intro _ h; cases fin with
          | «open» => exact absurd rfl h
          | eof => exact ⟨_, rfl⟩
          | reset => exact ⟨_, rfl⟩
      | cons x xs =>
        obtain ⟨k, k1, k2, k3, _, hk⟩ := OSrc.read_cons x xs fin orc (min rem 4096) (by omega)
        rw [hk]
        simp only
        rw [length_take_le' _ _ k3]
        have hdl : ((x :: xs).drop k).length = (x :: xs).length - k := by simp
        have := ih (rem - k) ((x :: xs).drop k) fin orc.tail (by rw [hdl]; omega)
        rw [hdl] at this
        refine ⟨?_, ?_, ?_⟩
        · intro h
          obtain ⟨orc', h'⟩ := this.1 (by omega)
          exact ⟨orc', by rw [h', drop_drop_sub _ k rem (by omega)]⟩
        · intro h hfin
          exact this.2.1 (by omega) hfin
        · intro h hfin
          exact this.2.2 (by omega) hfin

/-! ### inside a chunk -/

theorem drainO_chunk_spec : ∀ (fuel c : Nat) (bs : Bytes) (fin : EndState) (orc : List Nat),
    1 ≤ c → bs.length + 1 ≤ fuel →
    (bs.length < c → fin = .open → Body.drainO fuel (.chunked (some c)) ⟨bs, fin, orc⟩ = none) ∧
    (bs.length < c → fin ≠ .open →
      ∃ orc', Body.drainO fuel (.chunked (some c)) ⟨bs, fin, orc⟩ = some ⟨[], fin, orc'⟩) ∧
    (c ≤ bs.length →
      (∀ r'', expectCRLF (bs.drop c) fin = some (.ok r'') →
        ∃ fuel' orc', r''.length + 1 ≤ fuel' ∧ r''.length < bs.length ∧
          Body.drainO fuel (.chunked (some c)) ⟨bs, fin, orc⟩ = Body.drainO fuel' (.chunked none) ⟨r'', fin, orc'⟩) ∧
      (∀ e, expectCRLF (bs.drop c) fin = some (.error e) →
        Body.drainO fuel (.chunked (some c)) ⟨bs, fin, orc⟩ = none) ∧
      (expectCRLF (bs.drop c) fin = none →
        ∃ orc', Body.drainO fuel (.chunked (some c)) ⟨bs, fin, orc⟩ = some ⟨bs.drop c, fin, orc'⟩)) := by
  intro fuel
  induction fuel with
  | zero => intro c bs fin orc _ h; omega
  | succ fuel ih =>
    intro c bs fin orc hc hf
    by_cases hbs : bs = []
    · subst hbs
      have hr := readO_chunk_nil 4096 c fin orc
      refine ⟨?_, ?_, fun h => by simp at h; omega⟩
      · intro _ h; subst h
        exact drainO_chunked_pending _ _ _ _ _ hr
      · intro _ h
        cases fin with
        | «open» => exact absurd rfl h
        | eof => exact ⟨_, drainO_chunked_eof _ _ _ _ _ hr⟩
        | reset => exact ⟨_, drainO_chunked_err _ _ _ _ _ hr⟩
    · obtain ⟨k, k1, k2, k3, k4, _, hlt, heq⟩ := readO_chunk_data 4096 c (by omega) hc bs hbs fin orc
      by_cases hkc : k < c
      · rw [drainO_chunked_data _ _ _ _ _ _ (hlt hkc)]
        have hdl : (bs.drop k).length = bs.length - k := by simp
        have := ih (c - k) (bs.drop k) fin orc.tail (by omega) (by rw [hdl]; omega)
        rw [hdl] at this
        refine ⟨fun h hfin => this.1 (by omega) hfin, fun h hfin => this.2.1 (by omega) hfin, ?_⟩
        intro h
        have hC := this.2.2 (by omega)
        rw [drop_drop_sub bs k c (by omega)] at hC
        refine ⟨?_, hC.2.1, hC.2.2⟩
        intro r'' hx
        obtain ⟨fuel', orc', h1, h2, h3⟩ := hC.1 r'' hx
        exact ⟨fuel', orc', h1, by omega, h3⟩
      · have hkc' : k = c := by omega
        have hr := heq hkc'
        refine ⟨fun h => by omega, fun h => by omega, fun h => ⟨?_, ?_, ?_⟩⟩
        · intro r'' hx
          have hsuf := expectCRLF_suffix _ _ _ hx
          obtain ⟨orc', _, ha⟩ := advance_spec (bs.drop c) fin orc.tail r'' hsuf
          have hr' : Body.readO (.chunked (some c)) 4096 ⟨bs, fin, orc⟩ =
              (.data (bs.take c), .chunked none, ⟨r'', fin, orc'⟩) := by
            rw [hr, crlfO]; simp only [hx, ha]
          have hl := hsuf.length_le
          have hdl : (bs.drop c).length = bs.length - c := by simp
          rw [hdl] at hl
          exact ⟨fuel, orc', by omega, by omega, drainO_chunked_data _ _ _ _ _ _ hr'⟩
        · intro e' hx
          have hr' : Body.readO (.chunked (some c)) 4096 ⟨bs, fin, orc⟩ =
              (.pending, .chunked (some 0), ⟨bs.drop c, fin, orc.tail⟩) := by
            rw [hr, crlfO]; simp only [hx]
          exact drainO_chunked_pending _ _ _ _ _ hr'
        · intro hx
          have hr' : Body.readO (.chunked (some c)) 4096 ⟨bs, fin, orc⟩ =
              (.err, .failed, ⟨bs.drop c, fin, orc.tail⟩) := by
            rw [hr, crlfO]; simp only [hx]
          exact ⟨_, drainO_chunked_err _ _ _ _ _ hr'⟩

/-! ### independence of the oracle -/

/-- two runs of the discard loop agree. -/
def DGood (fin : EndState) (x y : Option OSrc) : Prop :=
  (x = none ∧ y = none) ∨ (∃ r o1 o2, x = some ⟨r, fin, o1⟩ ∧ y = some ⟨r, fin, o2⟩)

theorem drainO_chunk_indep (bs : Bytes) (fin : EndState)
    (ih : ∀ (bs' : Bytes), bs'.length < bs.length → ∀ (f1 f2 : Nat) (o1 o2 : List Nat),
      bs'.length + 1 ≤ f1 → bs'.length + 1 ≤ f2 →
      DGood fin (Body.drainO f1 (.chunked none) ⟨bs', fin, o1⟩) (Body.drainO f2 (.chunked none) ⟨bs', fin, o2⟩))
    (c : Nat) (hc : 1 ≤ c) (f1 f2 : Nat) (o1 o2 : List Nat) (h1 : bs.length + 1 ≤ f1) (h2 : bs.length + 1 ≤ f2) :
    DGood fin (Body.drainO f1 (.chunked (some c)) ⟨bs, fin, o1⟩) (Body.drainO f2 (.chunked (some c)) ⟨bs, fin, o2⟩) := by
  obtain ⟨a1, b1, c1⟩ := drainO_chunk_spec f1 c bs fin o1 hc h1
  obtain ⟨a2, b2, c2⟩ := drainO_chunk_spec f2 c bs fin o2 hc h2
  by_cases hA : bs.length < c
  · by_cases hfin : fin = .open
    · exact Or.inl ⟨a1 hA hfin, a2 hA hfin⟩
    · obtain ⟨_, e1⟩ := b1 hA hfin
      obtain ⟨_, e2⟩ := b2 hA hfin
      exact Or.inr ⟨_, _, _, e1, e2⟩
  · obtain ⟨ok1, pe1, er1⟩ := c1 (by omega)
    obtain ⟨ok2, pe2, er2⟩ := c2 (by omega)
    cases hx : expectCRLF (bs.drop c) fin with
    | none =>
      obtain ⟨_, e1⟩ := er1 hx
      obtain ⟨_, e2⟩ := er2 hx
      exact Or.inr ⟨_, _, _, e1, e2⟩
    | some x =>
      cases x with
      | error e => exact Or.inl ⟨pe1 e hx, pe2 e hx⟩
      | ok r'' =>
        obtain ⟨f1', o1', l1, l1', e1⟩ := ok1 r'' hx
        obtain ⟨f2', o2', l2, _, e2⟩ := ok2 r'' hx
        rw [e1, e2]
        exact ih r'' l1' f1' f2' o1' o2' l1 l2

theorem drainO_step (bs : Bytes) (fin : EndState)
    (ih : ∀ (bs' : Bytes), bs'.length < bs.length → ∀ (f1 f2 : Nat) (o1 o2 : List Nat),
      bs'.length + 1 ≤ f1 → bs'.length + 1 ≤ f2 →
      DGood fin (Body.drainO f1 (.chunked none) ⟨bs', fin, o1⟩) (Body.drainO f2 (.chunked none) ⟨bs', fin, o2⟩))
    (b : Body) (f1 f2 : Nat) (o1 o2 : List Nat) (hb0 : b ≠ .chunked (some 0))
    (h1 : bs.length + 1 ≤ f1) (h2 : bs.length + 1 ≤ f2) :
    DGood fin (Body.drainO f1 b ⟨bs, fin, o1⟩) (Body.drainO f2 b ⟨bs, fin, o2⟩) := by
  have hsimple : (b = .done ∨ (∃ d, b = .cursor d) ∨ b = .raw ∨ b = .failed) →
      DGood fin (Body.drainO f1 b ⟨bs, fin, o1⟩) (Body.drainO f2 b ⟨bs, fin, o2⟩) := by
    intro h
    exact Or.inr ⟨_, _, _, drainO_simple f1 b _ h, drainO_simple f2 b _ h⟩
  cases b with
  | done => exact hsimple (Or.inl rfl)
  | failed => exact hsimple (Or.inr (Or.inr (Or.inr rfl)))
  | raw => exact hsimple (Or.inr (Or.inr (Or.inl rfl)))
  | cursor d => exact hsimple (Or.inr (Or.inl ⟨d, rfl⟩))
  | limited rem =>
    obtain ⟨a1, b1, c1⟩ := drainO_limited_spec f1 rem bs fin o1 h1
    obtain ⟨a2, b2, c2⟩ := drainO_limited_spec f2 rem bs fin o2 h2
    by_cases hA : rem ≤ bs.length
    · obtain ⟨_, e1⟩ := a1 hA
      obtain ⟨_, e2⟩ := a2 hA
      exact Or.inr ⟨_, _, _, e1, e2⟩
    · by_cases hfin : fin = .open
      · exact Or.inl ⟨b1 (by omega) hfin, b2 (by omega) hfin⟩
      · obtain ⟨_, e1⟩ := c1 (by omega) hfin
        obtain ⟨_, e2⟩ := c2 (by omega) hfin
        exact Or.inr ⟨_, _, _, e1, e2⟩
  | chunked ic =>
    cases ic with
    | some c =>
      have hc : 1 ≤ c := by
        cases c with
        | zero => exact absurd rfl hb0
        | succ c => omega
      exact drainO_chunk_indep bs fin ih c hc f1 f2 o1 o2 h1 h2
    | none =>
      cases f1 with
      | zero => omega
      | succ f1 =>
      cases f2 with
      | zero => omega
      | succ f2 =>
        have hsuf := readChunkSize_suffix bs fin
        cases hp : readChunkSize bs fin with
        | stop st =>
          exact Or.inl ⟨drainO_chunked_pending _ _ _ _ _ (readO_none_stop 4096 ⟨bs, fin, o1⟩ st hp),
            drainO_chunked_pending _ _ _ _ _ (readO_none_stop 4096 ⟨bs, fin, o2⟩ st hp)⟩
        | bad r =>
          obtain ⟨o1', _, ha1⟩ := advance_spec bs fin o1 r (hsuf.2 r hp)
          obtain ⟨o2', _, ha2⟩ := advance_spec bs fin o2 r (hsuf.2 r hp)
          have e1 := drainO_chunked_err f1 _ _ _ _ (readO_none_bad 4096 ⟨bs, fin, o1⟩ r hp)
          have e2 := drainO_chunked_err f2 _ _ _ _ (readO_none_bad 4096 ⟨bs, fin, o2⟩ r hp)
          rw [ha1] at e1; rw [ha2] at e2
          exact Or.inr ⟨_, _, _, e1, e2⟩
        | ok c r =>
          cases c with
          | zero =>
            have e1 := readO_none_zero 4096 ⟨bs, fin, o1⟩ r hp
            have e2 := readO_none_zero 4096 ⟨bs, fin, o2⟩ r hp
            simp only at e1 e2
            cases hx : expectCRLF r fin with
            | none =>
              obtain ⟨o1', _, ha1⟩ := advance_spec bs fin o1 r (hsuf.1 0 r hp)
              obtain ⟨o2', _, ha2⟩ := advance_spec bs fin o2 r (hsuf.1 0 r hp)
              rw [hx] at e1 e2
              simp only [ha1] at e1; simp only [ha2] at e2
              exact Or.inr ⟨_, _, _, drainO_chunked_err f1 _ _ _ _ e1, drainO_chunked_err f2 _ _ _ _ e2⟩
            | some x =>
              cases x with
              | error e =>
                rw [hx] at e1 e2
                exact Or.inl ⟨drainO_chunked_pending _ _ _ _ _ e1, drainO_chunked_pending _ _ _ _ _ e2⟩
              | ok r' =>
                have hs' : r' <:+ bs := (expectCRLF_suffix _ _ _ hx).trans (hsuf.1 0 r hp)
                obtain ⟨o1', _, ha1⟩ := advance_spec bs fin o1 r' hs'
                obtain ⟨o2', _, ha2⟩ := advance_spec bs fin o2 r' hs'
                rw [hx] at e1 e2
                simp only [ha1] at e1; simp only [ha2] at e2
                exact Or.inr ⟨_, _, _, drainO_chunked_eof f1 _ _ _ _ e1, drainO_chunked_eof f2 _ _ _ _ e2⟩
          | succ c =>
            have hsr := hsuf.1 _ r hp
            obtain ⟨o1', _, ha1⟩ := advance_spec bs fin o1 r hsr
            obtain ⟨o2', _, ha2⟩ := advance_spec bs fin o2 r hsr
            rw [drainO_chunked_congr f1 _ _ _ _ (readO_none_ok 4096 ⟨bs, fin, o1⟩ c r hp),
              drainO_chunked_congr f2 _ _ _ _ (readO_none_ok 4096 ⟨bs, fin, o2⟩ c r hp), ha1, ha2]
            have hl := hsr.length_le
            refine drainO_chunk_indep r fin ?_ (c + 1) (by omega) (f1 + 1) (f2 + 1) o1' o2' (by omega) (by omega)
            intro bs' hlt
            exact ih bs' (by omega)

theorem drainO_indep : ∀ (n : Nat) (bs : Bytes), bs.length ≤ n →
    ∀ (b : Body) (fin : EndState) (f1 f2 : Nat) (o1 o2 : List Nat),
    b ≠ .chunked (some 0) → bs.length + 1 ≤ f1 → bs.length + 1 ≤ f2 →
    DGood fin (Body.drainO f1 b ⟨bs, fin, o1⟩) (Body.drainO f2 b ⟨bs, fin, o2⟩) := by
  intro n
  induction n with
  | zero =>
    intro bs hn b fin f1 f2 o1 o2 hb0 h1 h2
    have hbs : bs = [] := by
      cases bs with
      | nil => rfl
      | cons _ _ => simp at hn
    subst hbs
    -- no shorter stream: the general step below with a vacuous induction hypothesis
    have ih : ∀ (bs' : Bytes), bs'.length < ([] : Bytes).length → ∀ (f1 f2 : Nat) (o1 o2 : List Nat),
        bs'.length + 1 ≤ f1 → bs'.length + 1 ≤ f2 →
        DGood fin (Body.drainO f1 (.chunked none) ⟨bs', fin, o1⟩) (Body.drainO f2 (.chunked none) ⟨bs', fin, o2⟩) := by
      intro bs' h; simp at h
    exact drainO_step [] fin ih b f1 f2 o1 o2 hb0 h1 h2
  | succ n ihn =>
    intro bs hn b fin f1 f2 o1 o2 hb0 h1 h2
    have ih : ∀ (bs' : Bytes), bs'.length < bs.length → ∀ (f1 f2 : Nat) (o1 o2 : List Nat),
        bs'.length + 1 ≤ f1 → bs'.length + 1 ≤ f2 →
        DGood fin (Body.drainO f1 (.chunked none) ⟨bs', fin, o1⟩) (Body.drainO f2 (.chunked none) ⟨bs', fin, o2⟩) := by
      intro bs' h f1 f2 o1 o2 l1 l2
      exact ihn bs' (by omega) (.chunked none) fin f1 f2 o1 o2 (by intro h; cases h) l1 l2
    exact drainO_step bs fin ih b f1 f2 o1 o2 hb0 h1 h2

/-! ### against the flat discard -/

theorem drain_eq_O_chunked : ∀ (fuel : Nat) (ic : Option Nat) (bs : Bytes) (fin : EndState), ic ≠ some 0 →
    (Body.drain fuel (.chunked ic) bs fin = none ∧ Body.drainO fuel (.chunked ic) ⟨bs, fin, []⟩ = none) ∨
    (∃ r, Body.drain fuel (.chunked ic) bs fin = some r ∧
      Body.drainO fuel (.chunked ic) ⟨bs, fin, []⟩ = some ⟨r, fin, []⟩) := by
  intro fuel
  induction fuel with
  | zero => intro ic bs fin _; exact Or.inr ⟨bs, rfl, rfl⟩
  | succ fuel ih =>
    intro ic bs fin hic
    obtain ⟨o, b', r, hO, hF, hne⟩ := read_eq_O_chunked ic hic 4096 (by omega) bs fin
    rw [drain_chunked_step, drainO_chunked_step, hO, hF]
    cases o with
    | data d =>
      obtain ⟨ic', e, hic'⟩ := hne d rfl
      subst e
      exact ih ic' r fin hic'
    | eof => exact Or.inr ⟨r, rfl, rfl⟩
    | err => exact Or.inr ⟨r, rfl, rfl⟩
    | pending => exact Or.inl ⟨rfl, rfl⟩

/-- the discard loop over any oracle against the flat discard. -/
theorem drainO_vs_flat (fuel : Nat) (b : Body) (bs : Bytes) (fin : EndState) (orc : List Nat)
    (hb0 : b ≠ .chunked (some 0)) (hf : bs.length + 1 ≤ fuel) :
    (Body.drain fuel b bs fin = none ∧ Body.drainO fuel b ⟨bs, fin, orc⟩ = none) ∨
    (∃ r orc', Body.drain fuel b bs fin = some r ∧ Body.drainO fuel b ⟨bs, fin, orc⟩ = some ⟨r, fin, orc'⟩) := by
  have hsimple : (b = .done ∨ (∃ d, b = .cursor d) ∨ b = .raw ∨ b = .failed) →
      (∃ r orc', Body.drain fuel b bs fin = some r ∧ Body.drainO fuel b ⟨bs, fin, orc⟩ = some ⟨r, fin, orc'⟩) := by
    intro h
    exact ⟨_, _, drain_simple fuel b bs fin h, drainO_simple fuel b _ h⟩
  cases b with
  | done => exact Or.inr (hsimple (Or.inl rfl))
  | failed => exact Or.inr (hsimple (Or.inr (Or.inr (Or.inr rfl))))
  | raw => exact Or.inr (hsimple (Or.inr (Or.inr (Or.inl rfl))))
  | cursor d => exact Or.inr (hsimple (Or.inr (Or.inl ⟨d, rfl⟩)))
  | limited rem =>
    obtain ⟨a1, b1, c1⟩ := drainO_limited_spec fuel rem bs fin orc hf
    cases fuel with
    | zero => omega
    | succ fuel =>
      rw [drain_limited_eq]
      by_cases hA : rem ≤ bs.length
      · obtain ⟨o', e1⟩ := a1 hA
        exact Or.inr ⟨_, o', by simp only [hA, if_true], e1⟩
      · by_cases hfin : fin = .open
        · subst hfin
          exact Or.inl ⟨by simp only [hA, if_false]; rfl, b1 (by omega) rfl⟩
        · obtain ⟨o', e1⟩ := c1 (by omega) hfin
          refine Or.inr ⟨[], o', ?_, e1⟩
          simp only [hA, if_false]
          cases fin with
          | «open» => exact absurd rfl hfin
          | eof => rfl
          | reset => rfl
  | chunked ic =>
    have hic : ic ≠ some 0 := by intro h; exact hb0 (by rw [h])
    have hG := drainO_indep bs.length bs (Nat.le_refl _) (.chunked ic) fin fuel fuel orc [] hb0 hf hf
    rcases drain_eq_O_chunked fuel ic bs fin hic with ⟨f1, f2⟩ | ⟨r, f1, f2⟩
    · rcases hG with ⟨g1, _⟩ | ⟨r', o1, o2, _, g2⟩
      · exact Or.inl ⟨f1, g1⟩
      · rw [f2] at g2; cases g2
    · rcases hG with ⟨_, g2⟩ | ⟨r', o1, o2, g1, g2⟩
      · rw [f2] at g2; cases g2
      · rw [f2] at g2
        injection g2 with g2; injection g2 with g2
        subst g2
        exact Or.inr ⟨r, o1, f1, g1⟩

end TH
