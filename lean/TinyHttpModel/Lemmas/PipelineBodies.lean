/- helper lemmas for Props/C09 pipeline_with_bodies -/
import TinyHttpModel.WireSpec
import TinyHttpModel.Lemmas.Pipeline

namespace TH

/-! ### the record `handle` delivers -/

theorem handleS1_delivered (s : St) (h : Head) (fr : Framing) (a : Action) :
    (handleS1 s h fr a).delivered = s.delivered := by
  unfold handleS1; split <;> rfl

theorem handleS3_delivered (s2 : St) (h : Head) (f : Finish) :
    (handleS3 s2 h f).delivered = s2.delivered := by
  cases f with
  | respond r => rfl
  | drop => rfl
  | writer ops => rfl
  | upgrade proto r ops => rfl
  | respondFail r n =>
    simp only [handleS3]
    split <;> rfl

/-- `handle` appends exactly one record: the parsed head, the framing's body length, and as
    `bodyRead` the bytes the read phase (`handleRead`) obtained. -/
theorem handle_delivered (s : St) (h : Head) (fr : Framing) (last : Bool) (a : Action) (body : Body)
    (bs : Bytes) (fin : EndState) :
    (handle s h fr last a body bs fin).1.delivered =
      s.delivered ++ [⟨h.method, h.url, h.version, h.headers, fr.bodyLength, (handleRead a body bs fin).1,
        readEndOf (handleRead a body bs fin).2.1, last⟩] := by
  rw [handle_eq]
  simp only
  split
  · simp only [handleS1_delivered]
  · split <;> simp only [handleS3_delivered, handleS1_delivered]

/-! ### what the read phase obtains is a prefix of the body -/

theorem done_readUpTo_fst (fuel : Nat) (bs : Bytes) (buf total : Nat) (fin : EndState) :
    (Body.readUpTo fuel .done buf total bs fin).1 = [] := by
  cases fuel with
  | zero => rfl
  | succ f =>
    rw [Body.readUpTo]
    split
    · rfl
    · simp [Body.read]

theorem readPhase_done_fst (a : Action) (bs : Bytes) (fin : EndState) :
    (readPhase a .done bs fin).1 = [] := by
  rcases readPhase_cases a .done bs fin with e | e
  · rw [e]
  · rw [e]; exact done_readUpTo_fst ..

theorem readPhase_cursor_prefix (a : Action) (B bs : Bytes) (fin : EndState) :
    (readPhase a (.cursor B) bs fin).1 <+: B := by
  rcases readPhase_cases a (.cursor B) bs fin with e | e
  · rw [e]; exact List.nil_prefix
  · rw [e, cursor_readUpTo _ B bs _ _ fin (by omega) (by omega)]
    split
    · exact List.take_prefix _ _
    · exact List.prefix_refl _

theorem readPhase_limited_prefix (a : Action) (B after : Bytes) (fin : EndState) :
    (readPhase a (.limited B.length) (B ++ after) fin).1 <+: B := by
  rcases readPhase_cases a (.limited B.length) (B ++ after) fin with e | e
  · rw [e]; exact List.nil_prefix
  · rw [e, limited_readUpTo _ B after _ _ fin (by omega) (by omega)]
    split
    · exact List.take_prefix _ _
    · exact List.prefix_refl _

/-- buffered body: the handler obtains a prefix of it (the empty-buffer read changes nothing). -/
theorem handleRead_cursor_prefix (a : Action) (B bs : Bytes) (fin : EndState) :
    (handleRead a (.cursor B) bs fin).1 <+: B := by
  unfold handleRead
  rw [handleZR_id a (.cursor B) bs fin rfl]
  exact readPhase_cursor_prefix a B bs fin

/-- streamed Content-Length body: the handler obtains a prefix of it — the empty prefix if it
    first reads with an empty buffer (the body is discarded on the spot). -/
theorem handleRead_limited_prefix (a : Action) (B after : Bytes) (fin : EndState) :
    (handleRead a (.limited B.length) (B ++ after) fin).1 <+: B := by
  unfold handleRead
  rcases handleZR_cases a (.limited B.length) (B ++ after) fin with e | e
  · rw [e]
    exact readPhase_limited_prefix a B after fin
  · rw [e, zeroReadEffect_limited]
    show (readPhase a .done after fin).1 <+: B
    rw [readPhase_done_fst]
    exact List.nil_prefix

/-! ### one iteration on a request with a Content-Length body -/

/-- one iteration of the loop on a well-formed request of a supported version on a connection that
    stays open, whose body `B` is delimited by `Content-Length: B.length` (buffered or streamed) and
    is entirely on the wire: the request is delivered with the head as sent and the declared
    length, the handler obtains a prefix of `B`, and the loop continues at the first byte after the
    body with the next script entry. -/
theorem runLoop_bodied_step (fuel idx : Nat) (s : St) (h : Head) (ows : List (Bytes × Bytes)) (B rest : Bytes)
    (fin : EndState) (script : Script)
    (hwf : Spec.wfHead h = true)
    (hows : ∀ o ∈ ows, Spec.isOwsList o.1 = true ∧ Spec.isOwsList o.2 = true)
    (hfr : framingOf h.headers = .ok ⟨.buffered B.length, some B.length, false⟩ ∨
      framingOf h.headers = .ok ⟨.limited B.length, some B.length, false⟩)
    (hlast : isLastRequest h.version h.headers = false)
    (hver : (⟨Extracted.maxVersion.1, Extracted.maxVersion.2⟩ : Version).lt h.version = false) :
    ∃ (s' : St) (d : Delivered),
      runLoop (fuel + 1) idx s (Spec.renderHead h ows ++ (B ++ rest)) fin script =
        runLoop fuel (idx + 1) s' rest fin script ∧
      s'.delivered = s.delivered ++ [d] ∧
      (d.method, d.url, d.version, d.headers, d.bodyLength) =
        (h.method, h.url, h.version, h.headers, some B.length) ∧
      d.bodyRead <+: B := by
  have hh := readHead_render h ows (B ++ rest) fin hwf hows
  rcases hfr with hfr | hfr
  · have hstep := runLoop_step fuel idx s _ fin script h (B ++ rest) _ hh hfr
      (by intro n hn; cases hn; simp) hver
    have hib : initialBody (Framing.mk (.buffered B.length) (some B.length) false).kind (B ++ rest) =
        (.cursor B, rest) := by
      simp [initialBody]
    rw [hib, hlast] at hstep
    obtain ⟨hd1, hd2⟩ := handle_cursor s h ⟨.buffered B.length, some B.length, false⟩ false (script idx) B rest fin
    simp only [hd2, hd1, Bool.false_eq_true, if_false] at hstep
    exact ⟨_, _, hstep, handle_delivered .., rfl, handleRead_cursor_prefix ..⟩
  · have hstep := runLoop_step fuel idx s _ fin script h (B ++ rest) _ hh hfr
      (by intro n hn; cases hn) hver
    have hib : initialBody (Framing.mk (.limited B.length) (some B.length) false).kind (B ++ rest) =
        (.limited B.length, B ++ rest) := rfl
    rw [hib, hlast] at hstep
    obtain ⟨hd1, hd2⟩ := handle_limited s h ⟨.limited B.length, some B.length, false⟩ false (script idx) B rest fin
    simp only [hd2, hd1, Bool.false_eq_true, if_false] at hstep
    exact ⟨_, _, hstep, handle_delivered .., rfl, handleRead_limited_prefix ..⟩

/-! ### the whole pipeline -/

/-- the bytes of one request with body: head, then body. -/
def bodiedBytes (x : Head × List (Bytes × Bytes) × Bytes) : Bytes := Spec.renderHead x.1 x.2.1 ++ x.2.2

theorem bodied_pipeline_length_ge (items : List (Head × List (Bytes × Bytes) × Bytes)) :
    items.length ≤ ((items.map bodiedBytes).flatten).length := by
  induction items with
  | nil => simp
  | cons x xs ih =>
    have := renderHead_length_pos x.1 x.2.1
    simp only [List.map_cons, List.flatten_cons, List.length_append, List.length_cons, bodiedBytes]
    omega

/-- by induction on the list of requests: the loop, started in any state with any script index and
    enough fuel, arrives at the bytes after the pipeline having delivered exactly the heads of the
    pipeline with their declared lengths, in order, each handler having obtained a prefix of its
    own request's body. -/
theorem runLoop_bodied_pipeline (items : List (Head × List (Bytes × Bytes) × Bytes)) :
    ∀ (fuel idx : Nat) (s : St) (rest : Bytes) (fin : EndState) (script : Script),
    items.length ≤ fuel →
    (∀ x ∈ items, Spec.wfHead x.1 = true ∧
      (∀ o ∈ x.2.1, Spec.isOwsList o.1 = true ∧ Spec.isOwsList o.2 = true) ∧
      (framingOf x.1.headers = .ok ⟨.buffered x.2.2.length, some x.2.2.length, false⟩ ∨
       framingOf x.1.headers = .ok ⟨.limited x.2.2.length, some x.2.2.length, false⟩) ∧
      isLastRequest x.1.version x.1.headers = false ∧
      (⟨Extracted.maxVersion.1, Extracted.maxVersion.2⟩ : Version).lt x.1.version = false) →
    ∃ (s' : St) (ds : List Delivered),
      runLoop fuel idx s ((items.map bodiedBytes).flatten ++ rest) fin script =
        runLoop (fuel - items.length) (idx + items.length) s' rest fin script ∧
      s'.delivered = s.delivered ++ ds ∧
      ds.map (fun d => (d.method, d.url, d.version, d.headers, d.bodyLength)) =
        items.map (fun x => (x.1.method, x.1.url, x.1.version, x.1.headers, some x.2.2.length)) ∧
      (∀ (i : Nat) (d : Delivered) (x : Head × List (Bytes × Bytes) × Bytes),
        ds[i]? = some d → items[i]? = some x → d.bodyRead <+: x.2.2) := by
  induction items with
  | nil =>
    intro fuel idx s rest fin script _ _
    exact ⟨s, [], by simp, by simp, by simp, by simp⟩
  | cons x xs ih =>
    intro fuel idx s rest fin script hfuel hgood
    obtain ⟨hwf, hows, hfr, hlast, hver⟩ := hgood x (by simp)
    obtain ⟨f, rfl⟩ : ∃ f, fuel = f + 1 := ⟨fuel - 1, by simp at hfuel; omega⟩
    obtain ⟨s1, d, hrun1, hdel1, hd, hpre⟩ :=
      runLoop_bodied_step f idx s x.1 x.2.1 x.2.2 ((xs.map bodiedBytes).flatten ++ rest)
        fin script hwf hows hfr hlast hver
    obtain ⟨s2, ds, hrun2, hdel2, hmap, hpres⟩ :=
      ih f (idx + 1) s1 rest fin script (by simp at hfuel; omega) (fun y hy => hgood y (by simp [hy]))
    refine ⟨s2, d :: ds, ?_, ?_, ?_, ?_⟩
    · simp only [List.map_cons, List.flatten_cons, List.append_assoc, List.length_cons, bodiedBytes]
      rw [hrun1, hrun2]
      congr 1 <;> omega
    · rw [hdel2, hdel1]
      simp
    · simp only [List.map_cons, hmap, hd]
    · intro i d' x' h1 h2
      cases i with
      | zero =>
        simp only [List.getElem?_cons_zero, Option.some.injEq] at h1 h2
        subst h1 h2
        exact hpre
      | succ j =>
        simp only [List.getElem?_cons_succ] at h1 h2
        exact hpres j d' x' h1 h2

end TH
