/- invariant of the accept-loop LTS -/
import TinyHttpModel.Lts.Server
namespace TH.Lts.Server

structure SInv (s : SState) : Prop where
  a : s.flag = false → s.acceptsAfterFlag = 0
  b : s.acceptsAfterFlag = 0 ∨ (s.acceptsAfterFlag = 1 ∧ s.pc ≠ .inAccept)
  c : s.pc = .exited → s.listenerOpen = false

theorem sinv_init : SInv {} := by constructor <;> simp

theorem sinv_step {s s' : SState} {l : SLabel} (hi : SInv s) (h : sstep s l = some s') : SInv s' := by
  obtain ⟨a, b, c⟩ := hi
  cases l with
  | connect k =>
    simp only [sstep] at h
    split at h
    · simp at h; subst h; exact ⟨a, b, c⟩
    · simp at h
  | loopCheck =>
    simp only [sstep] at h
    split at h
    · next hpc =>
      split at h
      · simp at h; subst h
        constructor <;> simp_all
      · next hf =>
        simp at h; subst h
        constructor <;> simp_all
    · simp at h
  | accepted k =>
    simp only [sstep] at h
    split at h
    · next hpc hb =>
      split at h
      · simp at h; subst h
        cases hf : s.flag <;> constructor <;> simp_all
      · simp at h
    · simp at h
  | deliver r => simp [sstep] at h; subst h; exact ⟨a, b, c⟩
  | answer r =>
    simp only [sstep] at h
    split at h
    · simp at h; subst h; exact ⟨a, b, c⟩
    · simp at h
  | dropServer =>
    simp [sstep] at h; subst h
    constructor <;> simp_all

theorem srun_invariant (P : SState → Prop) (hstep : ∀ s s' l, P s → sstep s l = some s' → P s') :
    ∀ (ls : List SLabel) (s s' : SState), P s → srun s ls = some s' → P s' := by
  intro ls
  induction ls with
  | nil => intro s s' hs h; simp [srun] at h; subst h; exact hs
  | cons l ls ih =>
    intro s s' hs h
    simp only [srun] at h
    split at h
    · next s1 h1 => exact ih s1 s' (hstep s s1 l hs h1) h
    · simp at h

theorem sinv_of_srun {ls : List SLabel} {s : SState} (h : srun {} ls = some s) : SInv s :=
  srun_invariant SInv (fun _ _ _ hi h => sinv_step hi h) ls {} s sinv_init h

end TH.Lts.Server
