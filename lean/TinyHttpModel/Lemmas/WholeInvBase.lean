/- helper lemmas: the whole-server composition (Lts.Whole) — runs, `step` as a relation,
   projection onto the two component LTSs -/
import TinyHttpModel.Lts.Whole
import TinyHttpModel.Lemmas.QueueInv
import TinyHttpModel.Lemmas.PoolInvBase

namespace TH.Lts.Queue

theorem run_snoc' (ks : List Label) (a m b : State) (l : Label)
    (hk : run a ks = some m) (hl : step m l = some b) : run a (ks ++ [l]) = some b := by
  induction ks generalizing a with
  | nil =>
    simp only [run, Option.some.injEq] at hk
    subst hk
    simp only [List.nil_append, run, hl]
  | cons k ks ih =>
    simp only [run] at hk
    cases h1 : step a k with
    | none => rw [h1] at hk; cases hk
    | some a1 =>
      rw [h1] at hk
      simp only [List.cons_append, run, h1]
      exact ih a1 hk

theorem reachable_step {s s' : State} {l : Label} (h : Reachable s) (hs : step s l = some s') :
    Reachable s' := by
  obtain ⟨ks, hk⟩ := h
  exact ⟨ks ++ [l], run_snoc' ks _ s s' l hk hs⟩

end TH.Lts.Queue

namespace TH.Lts.Pool

theorem run_snoc' (ks : List Label) (a m b : State) (l : Label)
    (hk : run a ks = some m) (hl : step m l = some b) : run a (ks ++ [l]) = some b := by
  induction ks generalizing a with
  | nil =>
    simp only [run, Option.some.injEq] at hk
    subst hk
    simp only [List.nil_append, run, hl]
  | cons k ks ih =>
    simp only [run] at hk
    cases h1 : step a k with
    | none => rw [h1] at hk; cases hk
    | some a1 =>
      rw [h1] at hk
      simp only [List.cons_append, run, h1]
      exact ih a1 hk

theorem reachable_step {s s' : State} {l : Label} (h : Reachable s) (hs : step s l = some s') :
    Reachable s' := by
  obtain ⟨ks, hk⟩ := h
  exact ⟨ks ++ [l], run_snoc' ks _ s s' l hk hs⟩

end TH.Lts.Pool

namespace TH.Lts.Whole

theorem run_snoc (ks : List Label) (a m b : State) (l : Label)
    (hk : run a ks = some m) (hl : step m l = some b) : run a (ks ++ [l]) = some b := by
  induction ks generalizing a with
  | nil =>
    simp only [run, Option.some.injEq] at hk
    subst hk
    simp only [List.nil_append, run, hl]
  | cons k ks ih =>
    simp only [run] at hk
    cases h1 : step a k with
    | none => rw [h1] at hk; cases hk
    | some a1 =>
      rw [h1] at hk
      simp only [List.cons_append, run, h1]
      exact ih a1 hk

theorem run_cons {a m b : State} {l : Label} {ks : List Label}
    (hl : step a l = some m) (hk : run m ks = some b) : run a (l :: ks) = some b := by
  simp only [run, hl, hk]

theorem reachable_step {s s' : State} {l : Label} (h : Reachable s) (hs : step s l = some s') :
    Reachable s' := by
  obtain ⟨ks, hk⟩ := h
  exact ⟨ks ++ [l], run_snoc ks _ s s' l hk hs⟩

theorem run_inv {Inv : State → Prop}
    (hstep : ∀ s l s', Inv s → step s l = some s' → Inv s') :
    ∀ ls s s', Inv s → run s ls = some s' → Inv s' := by
  intro ls
  induction ls with
  | nil =>
    intro s s' hi h
    simp only [run, Option.some.injEq] at h
    subst h; exact hi
  | cons l ls ih =>
    intro s s' hi h
    simp only [run] at h
    split at h
    · next s1 h1 => exact ih _ _ (hstep _ _ _ hi h1) h
    · cases h

theorem reachable_inv {Inv : State → Prop} (h0 : Inv {})
    (hstep : ∀ s l s', Inv s → step s l = some s' → Inv s') :
    ∀ s, Reachable s → Inv s := by
  intro s ⟨ls, h⟩
  exact run_inv hstep ls _ _ h0 h

/-! ### `step` as a relation -/

inductive Step (s : State) : Label → State → Prop where
  | accept (b : Pool.Branch) (p : Pool.State)
      (hp : Pool.step s.pool (.dispatch s.conns.length b) = some p) :
      Step s (.accept b) { s with pool := p, conns := s.conns ++ [{}] }
  | arrive (k v : Nat) (c : Conn) (hc : s.conns[k]? = some c) (hcl : c.closed = false) :
      Step s (.arrive k v) { s with conns := s.conns.set k { c with sent := c.sent ++ [v] } }
  | close (k : Nat) (c : Conn) (hc : s.conns[k]? = some c) :
      Step s (.close k) { s with conns := s.conns.set k { c with closed := true } }
  | push (w : Nat) (woke : Option Nat) (k : Nat) (c : Conn) (v : Nat) (q : Queue.State)
      (hw : Pool.phaseOf s.pool w = .running k) (hc : s.conns[k]? = some c)
      (hv : c.sent[c.pushed]? = some v) (hq : Queue.step s.queue (.push v woke) = some q) :
      Step s (.push w woke)
        { s with queue := q, conns := s.conns.set k { c with pushed := c.pushed + 1 } }
  | done (w k : Nat) (c : Conn) (p : Pool.State)
      (hw : Pool.phaseOf s.pool w = .running k) (hc : s.conns[k]? = some c)
      (hcl : c.closed = true) (hpu : c.pushed = c.sent.length)
      (hp : Pool.step s.pool (.finish w) = some p) :
      Step s (.done w) { s with pool := p }
  | pool (l : Pool.Label) (p : Pool.State) (hl : poolOnly l = true)
      (hp : Pool.step s.pool l = some p) : Step s (.pool l) { s with pool := p }
  | queue (l : Queue.Label) (q : Queue.State) (hl : queueOnly l = true)
      (hq : Queue.step s.queue l = some q) : Step s (.queue l) { s with queue := q }

theorem taskOf_eq_some {s : State} {w k : Nat} (h : taskOf s w = some k) :
    Pool.phaseOf s.pool w = .running k := by
  unfold taskOf at h
  split at h
  · next k' hk' => simp only [Option.some.injEq] at h; subst h; exact hk'
  · cases h

theorem taskOf_running {s : State} {w k : Nat} (h : Pool.phaseOf s.pool w = .running k) :
    taskOf s w = some k := by
  simp [taskOf, h]

theorem step_sound {s s' : State} {l : Label} (h : step s l = some s') : Step s l s' := by
  cases l with
  | accept b =>
    simp only [step, Option.map_eq_some_iff] at h
    obtain ⟨p, hp, rfl⟩ := h
    exact .accept b p hp
  | arrive k v =>
    simp only [step] at h
    split at h
    · next c hc =>
      split at h
      · cases h
      · next hcl =>
        simp only [Option.some.injEq] at h; subst h
        exact .arrive k v c hc (by simpa using hcl)
    · cases h
  | close k =>
    simp only [step] at h
    split at h
    · next c hc => simp only [Option.some.injEq] at h; subst h; exact .close k c hc
    · cases h
  | push w woke =>
    simp only [step] at h
    split at h
    · next k hk =>
      split at h
      · next c hc =>
        split at h
        · next v hv =>
          simp only [Option.map_eq_some_iff] at h
          obtain ⟨q, hq, rfl⟩ := h
          exact .push w woke k c v q (taskOf_eq_some hk) hc hv hq
        · cases h
      · cases h
    · cases h
  | done w =>
    simp only [step] at h
    split at h
    · next k hk =>
      split at h
      · next c hc =>
        split at h
        · next hcond =>
          simp only [Option.map_eq_some_iff] at h
          obtain ⟨p, hp, rfl⟩ := h
          simp only [Bool.and_eq_true, beq_iff_eq] at hcond
          exact .done w k c p (taskOf_eq_some hk) hc hcond.1 hcond.2 hp
        · cases h
      · cases h
    · cases h
  | pool l =>
    simp only [step] at h
    split at h
    · next hl =>
      simp only [Option.map_eq_some_iff] at h
      obtain ⟨p, hp, rfl⟩ := h
      exact .pool l p hl hp
    · cases h
  | queue l =>
    simp only [step] at h
    split at h
    · next hl =>
      simp only [Option.map_eq_some_iff] at h
      obtain ⟨q, hq, rfl⟩ := h
      exact .queue l q hl hq
    · cases h

/-! ### projections: the pool and the queue of a composed run are runs of the components -/

theorem queue_reachable {s : State} (h : Reachable s) : Queue.Reachable s.queue := by
  refine reachable_inv (Inv := fun s => Queue.Reachable s.queue) ⟨[], rfl⟩ ?_ s h
  intro s l s' hi hs
  cases step_sound hs with
  | accept b p hp => exact hi
  | arrive k v c hc hcl => exact hi
  | close k c hc => exact hi
  | push w woke k c v q hw hc hv hq => exact Queue.reachable_step hi hq
  | done w k c p hw hc hcl hpu hp => exact hi
  | pool l p hl hp => exact hi
  | queue l q hl hq => exact Queue.reachable_step hi hq

theorem pool_reachable {s : State} (h : Reachable s) : Pool.Reachable s.pool := by
  refine reachable_inv (Inv := fun s => Pool.Reachable s.pool) ⟨[], rfl⟩ ?_ s h
  intro s l s' hi hs
  cases step_sound hs with
  | accept b p hp => exact Pool.reachable_step hi hp
  | arrive k v c hc hcl => exact hi
  | close k c hc => exact hi
  | push w woke k c v q hw hc hv hq => exact hi
  | done w k c p hw hc hcl hpu hp => exact Pool.reachable_step hi hp
  | pool l p hl hp => exact Pool.reachable_step hi hp
  | queue l q hl hq => exact hi

end TH.Lts.Whole
